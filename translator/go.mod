module translator

go 1.21
