// translator regenerates the Coq tables under theories/Gen from the Go sources of the repository.
//
//	translator [-q] <repo> <outdir>
//
// Files are first written to a scratch directory and then copied into <outdir>
// only when their content differs, so that an unchanged source tree leaves the
// time stamps (and make's incremental build) alone.
package main

import (
	"bytes"
	"fmt"
	"os"
	"path/filepath"
)

var quiet bool

func main() {
	args := os.Args[1:]
	if len(args) > 0 && args[0] == "-q" {
		quiet = true
		args = args[1:]
	}
	if len(args) != 2 {
		fmt.Fprintln(os.Stderr, "usage: translator [-q] <repo> <outdir>")
		os.Exit(2)
	}
	repo, err := filepath.Abs(args[0])
	must(err)
	out, err := filepath.Abs(args[1])
	must(err)
	must(os.MkdirAll(out, 0o755))
	tmp, err := os.MkdirTemp(filepath.Dir(out), ".gen-*")
	must(err)
	defer os.RemoveAll(tmp)
	if quiet {
		devnull, err := os.OpenFile(os.DevNull, os.O_WRONLY, 0)
		must(err)
		os.Stdout = devnull
	}
	genEnums(repo, filepath.Join(tmp, "Enums.v"))
	genOperands(repo, filepath.Join(tmp, "Operands.v"))
	genLocks(repo, filepath.Join(tmp, "Locks.v"))
	genMapLoops(repo, filepath.Join(tmp, "MapLoops.v"))
	genCtors(repo, filepath.Join(tmp, "Ctors.v"))
	genFieldFlow(repo, filepath.Join(tmp, "FieldFlow.v"))
	genFormats(repo, filepath.Join(tmp, "Formats.v"))
	genPrinters(repo, filepath.Join(tmp, "Printers.v"))
	genWriter(repo, filepath.Join(tmp, "WriterTable.v"))
	ents, err := os.ReadDir(tmp)
	must(err)
	for _, e := range ents {
		src := filepath.Join(tmp, e.Name())
		dst := filepath.Join(out, e.Name())
		nb, err := os.ReadFile(src)
		must(err)
		ob, err := os.ReadFile(dst)
		if err == nil && bytes.Equal(nb, ob) {
			continue
		}
		must(os.WriteFile(dst, nb, 0o644))
		fmt.Fprintln(os.Stderr, "translator: updated", e.Name())
	}
}
