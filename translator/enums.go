// Enum tables: extracts the stringer / string2enum tables from the repository and emits Coq.
package main

import (
	"fmt"
	"go/ast"
	"go/constant"
	"go/importer"
	"go/parser"
	"go/token"
	"go/types"
	"os"
	"path/filepath"
	"sort"
	"strconv"
	"strings"
)

type entry struct {
	val int64
	str string
}

// table extracted from one generated file
type table struct {
	typ     string
	entries []entry // value -> string pairs in table order
	shape   string
	empty0  bool // FromString: len(s)==0 -> 0
}

var (
	jsonTypes []string
	jsonVals  = map[string][]int64{}
)

func must(err error) {
	if err != nil {
		panic(err)
	}
}

func parseFile(fset *token.FileSet, path string) *ast.File {
	f, err := parser.ParseFile(fset, path, nil, parser.ParseComments)
	must(err)
	return f
}

func strLit(e ast.Expr) string {
	bl, ok := e.(*ast.BasicLit)
	if !ok || bl.Kind != token.STRING {
		panic(fmt.Sprintf("not a string literal: %T", e))
	}
	s, err := strconv.Unquote(bl.Value)
	must(err)
	return s
}

func intLit(e ast.Expr) int64 {
	bl, ok := e.(*ast.BasicLit)
	if !ok || bl.Kind != token.INT {
		panic(fmt.Sprintf("not an int literal: %T", e))
	}
	v, err := strconv.ParseInt(bl.Value, 0, 64)
	must(err)
	return v
}

// extract collects name constants, index arrays and the map literal of a generated file.
func extract(f *ast.File, typ string) (names map[string]string, idx map[string][]int64, mp []entry, hasMap bool) {
	names = map[string]string{}
	idx = map[string][]int64{}
	for _, d := range f.Decls {
		gd, ok := d.(*ast.GenDecl)
		if !ok {
			continue
		}
		for _, sp := range gd.Specs {
			vs, ok := sp.(*ast.ValueSpec)
			if !ok {
				continue
			}
			for i, n := range vs.Names {
				if i >= len(vs.Values) {
					continue
				}
				switch {
				case strings.HasPrefix(n.Name, "_"+typ+"_name"):
					names[n.Name] = strLit(vs.Values[i])
				case strings.HasPrefix(n.Name, "_"+typ+"_index"):
					cl := vs.Values[i].(*ast.CompositeLit)
					var xs []int64
					for _, e := range cl.Elts {
						xs = append(xs, intLit(e))
					}
					idx[n.Name] = xs
				case n.Name == "_"+typ+"_map":
					hasMap = true
					cl := vs.Values[i].(*ast.CompositeLit)
					for _, e := range cl.Elts {
						kv := e.(*ast.KeyValueExpr)
						se := kv.Value.(*ast.SliceExpr)
						base := se.X.(*ast.Ident).Name
						lo, hi := intLit(se.Low), intLit(se.High)
						mp = append(mp, entry{val: intLit(kv.Key), str: names[base][lo:hi]})
					}
				}
			}
		}
	}
	return
}

// offsets extracts, for the multi-run shapes, the value offset of each run.
// String():   `case lo <= i && i <= hi: i -= lo` / `case i <= hi:` / `case i == v:`
// FromString: `return enum.T(i + off)`
func runOffsetsString(f *ast.File, typ string) map[string]int64 {
	offs := map[string]int64{}
	ast.Inspect(f, func(n ast.Node) bool {
		fd, ok := n.(*ast.FuncDecl)
		if !ok || fd.Name.Name != "String" {
			return true
		}
		for _, st := range fd.Body.List { // single run with offset: `i -= k` at top level
			if as, ok := st.(*ast.AssignStmt); ok && as.Tok == token.SUB_ASSIGN {
				offs["_"+typ+"_name"] = intLit(as.Rhs[0])
			}
		}
		ast.Inspect(fd.Body, func(n ast.Node) bool {
			cc, ok := n.(*ast.CaseClause)
			if !ok {
				return true
			}
			var off int64
			var run string
			single := false
			for _, st := range cc.Body {
				switch st := st.(type) {
				case *ast.AssignStmt: // i -= lo
					if st.Tok == token.SUB_ASSIGN {
						off = intLit(st.Rhs[0])
					}
				case *ast.ReturnStmt:
					ast.Inspect(st, func(n ast.Node) bool {
						if id, ok := n.(*ast.Ident); ok && strings.HasPrefix(id.Name, "_"+typ+"_name") {
							run = id.Name
						}
						if id, ok := n.(*ast.Ident); ok && strings.HasPrefix(id.Name, "_"+typ+"_index") {
							single = false
						}
						return true
					})
					if _, isIdent := st.Results[0].(*ast.Ident); isIdent {
						single = true // `return _T_name_3` : one-value run; value from the case condition
					}
				}
			}
			if run != "" {
				if single {
					// case i == v:
					be := cc.List[0].(*ast.BinaryExpr)
					off = intLit(be.Y)
				}
				offs[run] = off
			}
			return true
		})
		return false
	})
	return offs
}

func runOffsetsFromString(f *ast.File, typ string) (map[string]int64, bool) {
	offs := map[string]int64{}
	empty0 := false
	ast.Inspect(f, func(n ast.Node) bool {
		fd, ok := n.(*ast.FuncDecl)
		if !ok || fd.Name.Name != typ+"FromString" {
			return true
		}
		for _, st := range fd.Body.List {
			switch st := st.(type) {
			case *ast.IfStmt: // if len(s) == 0 { return 0 }  |  if s == _T_name_k { return enum.T(v) }
				src := fmt.Sprint(st.Cond)
				_ = src
				if be, ok := st.Cond.(*ast.BinaryExpr); ok {
					if ce, ok := be.X.(*ast.CallExpr); ok {
						if id, ok := ce.Fun.(*ast.Ident); ok && id.Name == "len" {
							empty0 = true
							continue
						}
					}
					if id, ok := be.Y.(*ast.Ident); ok && strings.HasPrefix(id.Name, "_"+typ+"_name") {
						ret := st.Body.List[0].(*ast.ReturnStmt).Results[0].(*ast.CallExpr)
						offs[id.Name] = intLit(ret.Args[0])
					}
				}
			case *ast.RangeStmt: // for i := range _T_index_k[:len-1] { if s == _T_name_k[...] { return enum.T(i + off) } }
				var run string
				var off int64
				ast.Inspect(st, func(n ast.Node) bool {
					if id, ok := n.(*ast.Ident); ok && strings.HasPrefix(id.Name, "_"+typ+"_name") {
						run = id.Name
					}
					if rs, ok := n.(*ast.ReturnStmt); ok {
						call, isCall := rs.Results[0].(*ast.CallExpr)
						if !isCall {
							return true // map shape: `return key`
						}
						switch a := call.Args[0].(type) {
						case *ast.BinaryExpr: // i + off
							off = intLit(a.Y)
						case *ast.Ident: // i
							off = 0
						}
					}
					return true
				})
				offs[run] = off
			}
		}
		return false
	})
	return offs, empty0
}

func build(names map[string]string, idx map[string][]int64, offs map[string]int64, mp []entry, hasMap bool, typ string) ([]entry, string) {
	if hasMap {
		return mp, "map"
	}
	var out []entry
	var runs []string
	for n := range names {
		runs = append(runs, n)
	}
	sort.Strings(runs)
	shape := "single"
	if len(runs) > 1 {
		shape = "multi"
	}
	for _, rn := range runs {
		in := strings.Replace(rn, "_name", "_index", 1)
		ix, ok := idx[in]
		off := offs[rn]
		if !ok { // single-value run without index array
			out = append(out, entry{val: off, str: names[rn]})
			continue
		}
		for i := 0; i+1 < len(ix); i++ {
			out = append(out, entry{val: off + int64(i), str: names[rn][ix[i]:ix[i+1]]})
		}
	}
	return out, shape
}

func coqBytes(s string) string {
	var b strings.Builder
	b.WriteString("[")
	for i := 0; i < len(s); i++ {
		if i > 0 {
			b.WriteString(";")
		}
		fmt.Fprintf(&b, "x%02x", s[i])
	}
	b.WriteString("]")
	return b.String()
}

func genEnums(repo, out string) {
	fset := token.NewFileSet()
	// constants by type, via go/types
	consts := map[string][]entry{} // type -> (value, const name)
	for _, dir := range []string{"ir/enum", "ir/types"} {
		pkgs, err := parser.ParseDir(fset, filepath.Join(repo, dir), func(fi os.FileInfo) bool { return !strings.HasSuffix(fi.Name(), "_test.go") }, parser.ParseComments)
		must(err)
		for _, p := range pkgs {
			var files []*ast.File
			for _, f := range p.Files {
				files = append(files, f)
			}
			conf := types.Config{Importer: importer.ForCompiler(fset, "source", nil), Error: func(error) {}}
			pkg, _ := conf.Check(p.Name, fset, files, nil)
			sc := pkg.Scope()
			for _, n := range sc.Names() {
				c, ok := sc.Lookup(n).(*types.Const)
				if !ok {
					continue
				}
				nt, ok := c.Type().(*types.Named)
				if !ok {
					continue
				}
				if v, ok := constant.Int64Val(c.Val()); ok {
					consts[nt.Obj().Name()] = append(consts[nt.Obj().Name()], entry{val: v, str: n})
				}
			}
		}
	}
	files, _ := filepath.Glob(filepath.Join(repo, "asm/enum/*_string2enum.go"))
	sort.Strings(files)
	var b strings.Builder
	b.WriteString("(* GENERATED by translator from /repo -- do not edit *)\nFrom Coq Require Import List ZArith.\nFrom Coq Require Import Strings.Byte.\nImport ListNotations.\nLocal Open Scope Z_scope.\n\n")
	b.WriteString("Record enum_tables := { e_name : list byte; e_values : list Z; e_string : list (Z * list byte); e_from : list (list byte * Z); e_empty0 : bool }.\n\n")
	var all []string
	for _, f2 := range files {
		a2 := parseFile(fset, f2)
		// type name from the FromString function
		typ := ""
		for _, d := range a2.Decls {
			if fd, ok := d.(*ast.FuncDecl); ok && strings.HasSuffix(fd.Name.Name, "FromString") {
				typ = strings.TrimSuffix(fd.Name.Name, "FromString")
			}
		}
		base := strings.TrimSuffix(filepath.Base(f2), "_string2enum.go")
		f1 := filepath.Join(repo, "ir/enum", base+"_string.go")
		if _, err := os.Stat(f1); err != nil {
			f1 = filepath.Join(repo, "ir/types", base+"_string.go")
		}
		a1 := parseFile(fset, f1)
		n1, i1, m1, h1 := extract(a1, typ)
		n2, i2, m2, h2 := extract(a2, typ)
		o1 := runOffsetsString(a1, typ)
		o2, empty0 := runOffsetsFromString(a2, typ)
		e1, s1 := build(n1, i1, o1, m1, h1, typ)
		e2, s2 := build(n2, i2, o2, m2, h2, typ)
		// declared constant values (deduplicated, sorted)
		seen := map[int64]bool{}
		var vals []int64
		for _, c := range consts[typ] {
			if !seen[c.val] {
				seen[c.val] = true
				vals = append(vals, c.val)
			}
		}
		sort.Slice(vals, func(i, j int) bool { return vals[i] < vals[j] })
		jsonTypes = append(jsonTypes, typ)
		jsonVals[typ] = vals
		fmt.Fprintf(os.Stderr, "%-18s string:%-6s %3d  from:%-6s %3d  consts:%3d empty0=%v\n", typ, s1, len(e1), s2, len(e2), len(vals), empty0)
		fmt.Fprintf(&b, "Definition %s_tables : enum_tables := {|\n  e_name := %s;\n  e_values := [", typ, coqBytes(typ))
		for i, v := range vals {
			if i > 0 {
				b.WriteString("; ")
			}
			fmt.Fprintf(&b, "%d", v)
		}
		b.WriteString("];\n  e_string := [")
		for i, e := range e1 {
			if i > 0 {
				b.WriteString(";\n    ")
			}
			fmt.Fprintf(&b, "(%d, %s)", e.val, coqBytes(e.str))
		}
		b.WriteString("];\n  e_from := [")
		for i, e := range e2 {
			if i > 0 {
				b.WriteString(";\n    ")
			}
			fmt.Fprintf(&b, "(%s, %d)", coqBytes(e.str), e.val)
		}
		fmt.Fprintf(&b, "];\n  e_empty0 := %v |}.\n\n", empty0)
		all = append(all, typ+"_tables")
	}
	fmt.Fprintf(&b, "Definition all_enums : list enum_tables := [%s].\n", strings.Join(all, "; "))
	must(os.WriteFile(out, []byte(b.String()), 0o644))
	// side file for the harness: the declared constant values of every enum type
	var js strings.Builder
	js.WriteString("{")
	for i, t := range jsonTypes {
		if i > 0 {
			js.WriteString(",")
		}
		fmt.Fprintf(&js, "\n %q: [", t)
		for j, v := range jsonVals[t] {
			if j > 0 {
				js.WriteString(",")
			}
			fmt.Fprintf(&js, "%d", v)
		}
		js.WriteString("]")
	}
	js.WriteString("\n}\n")
	must(os.WriteFile(filepath.Join(filepath.Dir(out), "enums.json"), []byte(js.String()), 0o644))
}
