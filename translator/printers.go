package main

import (
	"fmt"
	"go/ast"
	"go/constant"
	"go/token"
	"go/types"
	"os"
	"sort"
	"strconv"
	"strings"
)

// genPrinters translates the printing methods of package ir (LLString of every struct, String of
// the helper structs LLString prints through, and the package-level helpers handed the
// receiver) into Coq terms: statements as in Gen/Formats.v, but with Go expressions as terms
// (gexpr) instead of text, constants folded by go/types.  Model/GoEval.v gives these terms
// their meaning, so the model's printer is the code's printer.
type prCtx struct {
	tp        *typedPkg
	unknown   int
	valueMode bool // the function returns a value, not text
	alias     string // body translators: the local that aliases the object being filled
	ext       bool   // the forms of internal/natsort: while loops, parallel assignment, s[a:b] (off for the reviewed tables)
	// the forms of internal/enc (off for every other table): byte arithmetic wrapped in byte(..), conversions to
	// []byte, make with its type argument, s[:hi], for init; cond; post, function literals (lifted), calls of
	// function-typed variables
	enc    bool
	fname  string                       // enc: the function being translated (names the lifted literals)
	lifted *[]liftedFunc                // enc: the function literals met so far
	// the forms of the ID-assignment passes (idpass.go): converted closures, SForPtr, maps, dropped mutex calls
	idpass     bool
	closures   map[types.Object]*convClosure // the local variables bound to converted literals
	aliases    map[types.Object]ast.Expr     // v of v, ok := x.(T): the place x
	retExtra   []string                      // a lifted literal: the variables every return hands back after the results
	retExtraOn bool
	encl       *ast.FuncDecl // the function being translated
}

// a closed function literal, lifted to a body of its own
type liftedFunc struct{ name, params, body string }

// closedLit reports whether every identifier used in the literal denotes a parameter or local of the literal
// itself, or something declared at package level or in the universe (so that lifting it is the identity).
func (c *prCtx) closedLit(fl *ast.FuncLit) bool {
	ok := true
	ast.Inspect(fl, func(n ast.Node) bool {
		id, isId := n.(*ast.Ident)
		if !isId {
			return true
		}
		obj := c.tp.info.Uses[id]
		if obj == nil {
			return true // a definition, a field name
		}
		if obj.Pos() >= fl.Pos() && obj.Pos() < fl.End() {
			return true // declared inside the literal
		}
		if obj.Parent() == types.Universe || (obj.Pkg() != nil && obj.Parent() == obj.Pkg().Scope()) {
			return true
		}
		if _, isPkg := obj.(*types.PkgName); isPkg {
			return true
		}
		if _, isFunc := obj.(*types.Func); isFunc {
			return true // a function or method of another package, reached through a selector
		}
		if v, isVar := obj.(*types.Var); isVar && v.IsField() {
			return true
		}
		ok = false
		return false
	})
	return ok
}

func isByteType(t types.Type) bool {
	b, ok := t.Underlying().(*types.Basic)
	return ok && b.Kind() == types.Uint8
}

func (c *prCtx) src(n ast.Node) string { return strings.Join(strings.Fields(exprString(c.tp.fset, n)), " ") }

func coqZ(v int64) string {
	if v < 0 {
		return fmt.Sprintf("(%d)%%Z", v)
	}
	return fmt.Sprintf("%d%%Z", v)
}

func (c *prCtx) expr(e ast.Expr) string {
	if tv, ok := c.tp.info.Types[e]; ok && tv.Value != nil {
		switch tv.Value.Kind() {
		case constant.Int:
			if v, ok := constant.Int64Val(tv.Value); ok {
				tn := ""
				if n, ok := tv.Type.(*types.Named); ok {
					tn = n.Obj().Name()
					if n.Obj().Pkg() != nil {
						tn = n.Obj().Pkg().Name() + "." + tn
					}
				}
				return fmt.Sprintf("(EConst %s %s)", coqString(tn), coqZ(v))
			}
		case constant.String:
			return fmt.Sprintf("(EStr %s)", coqString(constant.StringVal(tv.Value)))
		case constant.Bool:
			return fmt.Sprintf("(EBool %v)", constant.BoolVal(tv.Value))
		}
	}
	if c.src(e) == "fw.size" {
		return "EWritten"
	}
	switch e := e.(type) {
	case *ast.Ident:
		if e.Name == "nil" {
			return "ENil"
		}
		if c.idpass && c.closures != nil && c.closures[c.tp.info.Uses[e]] != nil {
			break // a converted literal may only be called (closureCall): as a value it would lack the captured variables
		}
		return fmt.Sprintf("(EId %s)", coqString(e.Name))
	case *ast.SelectorExpr:
		if c.idpass {
			// a variable of another package: the identifier of its qualified name
			if id, ok := e.X.(*ast.Ident); ok {
				if _, isPkg := c.tp.info.Uses[id].(*types.PkgName); isPkg {
					if _, isVar := c.tp.info.Uses[e.Sel].(*types.Var); isVar {
						return fmt.Sprintf("(EId %s)", coqString(id.Name+"."+e.Sel.Name))
					}
				}
			}
		}
		return fmt.Sprintf("(ESel %s %s)", c.expr(e.X), coqString(e.Sel.Name))
	case *ast.CallExpr:
		if c.idpass {
			// a converted literal is called in statement position only (closureCall)
			if id, ok := e.Fun.(*ast.Ident); ok && c.closures[c.tp.info.Uses[id]] != nil {
				break
			}
			// a conversion T(x) to a named integer type of this package
			if id, ok := e.Fun.(*ast.Ident); ok && len(e.Args) == 1 {
				if tn, isType := c.tp.info.Uses[id].(*types.TypeName); isType && tn.Pkg() != nil {
					if b, isBasic := tn.Type().Underlying().(*types.Basic); isBasic && b.Info()&types.IsInteger != 0 {
						return fmt.Sprintf("(ECall (EId %s) [%s])", coqString("$named:"+tn.Pkg().Name()+"."+tn.Name()), c.expr(e.Args[0]))
					}
				}
			}
		}
		var args []string
		for i, a := range e.Args {
			if id, ok := e.Fun.(*ast.Ident); ok && id.Name == "make" && i == 0 {
				if c.enc {
					args = append(args, fmt.Sprintf("(EStr %s)", coqString(c.src(a)))) // the type argument, as written
				}
				continue // the type argument
			}
			args = append(args, c.expr(a))
		}
		if c.enc {
			// a conversion to a slice type, []byte(s): the type as written names the conversion
			if at, ok := e.Fun.(*ast.ArrayType); ok && at.Len == nil {
				return fmt.Sprintf("(ECall (EId %s) [%s])", coqString(c.src(at)), strings.Join(args, "; "))
			}
			// a call of a function-typed variable (a parameter or a local bound to a function literal)
			if id, ok := e.Fun.(*ast.Ident); ok {
				if v, isVar := c.tp.info.Uses[id].(*types.Var); isVar {
					if _, isSig := v.Type().Underlying().(*types.Signature); isSig {
						return fmt.Sprintf("(ECallVal (EId %s) [%s])", coqString(id.Name), strings.Join(args, "; "))
					}
				}
			}
		}
		return fmt.Sprintf("(ECall %s [%s])", c.expr(e.Fun), strings.Join(args, "; "))
	case *ast.FuncLit:
		if c.enc && c.lifted != nil && c.closedLit(e) {
			sub := &prCtx{tp: c.tp, valueMode: true, ext: true, enc: true, fname: c.fname, lifted: c.lifted}
			var ps []string
			for _, p := range e.Type.Params.List {
				for _, nm := range p.Names {
					ps = append(ps, nm.Name)
				}
			}
			body := sub.block(e.Body.List)
			c.unknown += sub.unknown
			name := fmt.Sprintf("%s$%d", c.fname, len(*c.lifted)+1)
			*c.lifted = append(*c.lifted, liftedFunc{name, strings.Join(ps, ","), body})
			return fmt.Sprintf("(EFunc %s)", coqString(name))
		}
	case *ast.BinaryExpr:
		if c.enc {
			// arithmetic at type byte wraps around: the operation is followed by the (identity) conversion byte(..),
			// which the evaluator reads as reduction modulo 256
			if tv, ok := c.tp.info.Types[e]; ok && isByteType(tv.Type) {
				switch e.Op {
				case token.ADD, token.SUB, token.MUL, token.SHL:
					return fmt.Sprintf("(ECall (EId \"byte\") [(EBin %s %s %s)])", coqString(e.Op.String()), c.expr(e.X), c.expr(e.Y))
				}
			}
		}
		return fmt.Sprintf("(EBin %s %s %s)", coqString(e.Op.String()), c.expr(e.X), c.expr(e.Y))
	case *ast.UnaryExpr:
		if e.Op == token.NOT {
			return fmt.Sprintf("(ENot %s)", c.expr(e.X))
		}
		if e.Op == token.AND {
			return c.expr(e.X) // &T{...}: objects are values in the model
		}
	case *ast.ParenExpr:
		return c.expr(e.X)
	case *ast.TypeAssertExpr:
		tn := c.src(e.Type)
		if tv, has := c.tp.info.Types[e.Type]; has {
			t := tv.Type
			star := ""
			if p, isP := t.(*types.Pointer); isP {
				t = p.Elem()
				star = "*"
			}
			if n, isN := t.(*types.Named); isN && n.Obj().Pkg() != nil {
				tn = star + n.Obj().Pkg().Name() + "." + n.Obj().Name()
			}
		}
		return fmt.Sprintf("(EAssert %s %s)", c.expr(e.X), coqString(tn))
	case *ast.IndexExpr:
		if c.idpass {
			if ix, ok := c.mapIndex(e); ok {
				return fmt.Sprintf("(ECall (EId \"$mapget\") [%s; %s])", c.expr(ix.X), c.expr(ix.Index))
			}
		}
		return fmt.Sprintf("(EIndex %s %s)", c.expr(e.X), c.expr(e.Index))
	case *ast.StarExpr:
		return c.expr(e.X)
	case *ast.CompositeLit:
		var fs []string
		ok := true
		for _, el := range e.Elts {
			kv, isKV := el.(*ast.KeyValueExpr)
			if !isKV {
				ok = false
				break
			}
			fs = append(fs, fmt.Sprintf("(%s, %s)", coqString(c.src(kv.Key)), c.expr(kv.Value)))
		}
		if ok {
			tn := c.src(e.Type)
			if tv, has := c.tp.info.Types[e]; has {
				t := tv.Type
				if p, isP := t.(*types.Pointer); isP {
					t = p.Elem()
				}
				if n, isN := t.(*types.Named); isN && n.Obj().Pkg() != nil {
					tn = n.Obj().Pkg().Name() + "." + n.Obj().Name()
				}
			}
			// Go's zero values for the fields the literal does not mention (embedded structs flattened)
			if tv, has := c.tp.info.Types[e]; has {
				t := tv.Type
				if p, isP := t.(*types.Pointer); isP {
					t = p.Elem()
				}
				if st, isS := t.Underlying().(*types.Struct); isS {
					given := map[string]bool{}
					for _, el := range e.Elts {
						given[c.src(el.(*ast.KeyValueExpr).Key)] = true
					}
					var zero func(ft types.Type) string
					zero = func(ft types.Type) string {
						switch u := ft.Underlying().(type) {
						case *types.Pointer, *types.Interface, *types.Slice, *types.Map, *types.Signature, *types.Chan:
							return "ENil"
						case *types.Basic:
							switch {
							case u.Info()&types.IsBoolean != 0:
								return "(EBool false)"
							case u.Info()&types.IsString != 0:
								return "(EStr \"\")"
							case u.Info()&types.IsNumeric != 0:
								tn := ""
								if n, ok := ft.(*types.Named); ok && n.Obj().Pkg() != nil {
									tn = n.Obj().Pkg().Name() + "." + n.Obj().Name()
								}
								return fmt.Sprintf("(EConst %s 0%%Z)", coqString(tn))
							}
						}
						return "ENil"
					}
					var addFields func(st *types.Struct)
					addFields = func(st *types.Struct) {
						for i := 0; i < st.NumFields(); i++ {
							f := st.Field(i)
							if given[f.Name()] || !f.Exported() {
								continue
							}
							if f.Embedded() {
								if es, ok := f.Type().Underlying().(*types.Struct); ok {
									addFields(es)
									continue
								}
							}
							fs = append(fs, fmt.Sprintf("(%s, %s)", coqString(f.Name()), zero(f.Type())))
						}
					}
					addFields(st)
				}
			}
			return fmt.Sprintf("(EComposite %s [%s])", coqString(tn), strings.Join(fs, "; "))
		}
	case *ast.SliceExpr:
		if e.Low != nil && e.High == nil && !e.Slice3 {
			return fmt.Sprintf("(ESliceFrom %s %s)", c.expr(e.X), c.expr(e.Low))
		}
		if c.ext && e.Low != nil && e.High != nil && !e.Slice3 {
			return fmt.Sprintf("(ESlice %s %s %s)", c.expr(e.X), c.expr(e.Low), c.expr(e.High))
		}
		if c.enc && e.Low == nil && e.High != nil && !e.Slice3 {
			return fmt.Sprintf("(ESlice %s (EConst \"\" 0%%Z) %s)", c.expr(e.X), c.expr(e.High)) // e[:hi] is e[0:hi]
		}
	}
	return fmt.Sprintf("(EOther %s)", coqString(c.src(e)))
}

func (c *prCtx) splitFormat(format string, args []ast.Expr) []string {
	var parts []string
	lit := ""
	ai := 0
	flush := func() {
		if lit != "" {
			parts = append(parts, "SLit "+coqString(lit))
			lit = ""
		}
	}
	for i := 0; i < len(format); i++ {
		if format[i] == '%' && i+1 < len(format) {
			if format[i+1] == '%' {
				lit += "%"
				i++
				continue
			}
			j := i + 1
			for j < len(format) && !(format[j] >= 'a' && format[j] <= 'z' || format[j] >= 'A' && format[j] <= 'Z') {
				j++
			}
			flush()
			arg := "(EOther \"?\")"
			if ai < len(args) {
				arg = c.expr(args[ai])
				ai++
			}
			parts = append(parts, fmt.Sprintf("SArg %s %s", coqString(format[i:j+1]), arg))
			i = j
			continue
		}
		lit += string(format[i])
	}
	flush()
	return parts
}

func zeroExpr(ft types.Type) string {
	switch u := ft.Underlying().(type) {
	case *types.Pointer, *types.Interface, *types.Slice, *types.Map, *types.Signature, *types.Chan:
		return "ENil"
	case *types.Basic:
		switch {
		case u.Info()&types.IsBoolean != 0:
			return "(EBool false)"
		case u.Info()&types.IsString != 0:
			return "(EStr \"\")"
		case u.Info()&types.IsNumeric != 0:
			tn := ""
			if n, ok := ft.(*types.Named); ok && n.Obj().Pkg() != nil {
				tn = n.Obj().Pkg().Name() + "." + n.Obj().Name()
			}
			return fmt.Sprintf("(EConst %s 0%%Z)", coqString(tn))
		}
	case *types.Struct:
		if n, ok := ft.(*types.Named); ok && n.Obj().Pkg() != nil {
			var fs []string
			for i := 0; i < u.NumFields(); i++ {
				fs = append(fs, fmt.Sprintf("(%s, %s)", coqString(u.Field(i).Name()), zeroExpr(u.Field(i).Type())))
			}
			return fmt.Sprintf("(EComposite %s [%s])", coqString(n.Obj().Pkg().Name()+"."+n.Obj().Name()), strings.Join(fs, "; "))
		}
	}
	return "ENil"
}

func (c *prCtx) block(list []ast.Stmt) string {
	var out []string
	for i, st := range list {
		c.noteAlias(list, i)
		out = append(out, c.stmt(st)...)
	}
	return "[" + strings.Join(out, "; ") + "]"
}

func (c *prCtx) names(es []ast.Expr) string {
	var ns []string
	for _, e := range es {
		ns = append(ns, c.src(e))
	}
	return coqStrings(ns)
}

// parallel translates a, b := x, y (or =): Go evaluates every operand on the right before it assigns,
// which is the binding of a tuple.
func (c *prCtx) parallel(st *ast.AssignStmt) (names, rhs string, ok bool) {
	if !c.ext || len(st.Rhs) < 2 || len(st.Rhs) != len(st.Lhs) || (st.Tok != token.DEFINE && st.Tok != token.ASSIGN) {
		return "", "", false
	}
	var rs []string
	for i, l := range st.Lhs {
		if _, isId := l.(*ast.Ident); !isId {
			return "", "", false
		}
		rs = append(rs, c.expr(st.Rhs[i]))
	}
	return c.names(st.Lhs), "(ETuple [" + strings.Join(rs, "; ") + "])", true
}

func (c *prCtx) assign(st *ast.AssignStmt) (string, bool) {
	if names, rhs, ok := c.parallel(st); ok {
		return fmt.Sprintf("SLet %v %s %s", st.Tok == token.DEFINE, names, rhs), true
	}
	if len(st.Rhs) != 1 {
		return "", false
	}
	if c.idpass && st.Tok == token.ASSIGN && len(st.Lhs) == 1 {
		// *p = e for a pointer variable p
		if star, ok := st.Lhs[0].(*ast.StarExpr); ok {
			if id, isId := star.X.(*ast.Ident); isId {
				return fmt.Sprintf("SLet false [%s] %s", coqString(id.Name), c.expr(st.Rhs[0])), true
			}
		}
		// m[k] = v for a map held in a variable
		if ix, ok := c.mapIndex(st.Lhs[0]); ok {
			if m, isId := ix.X.(*ast.Ident); isId {
				return fmt.Sprintf("SLet false [%s] (ECall (EId \"$mapset\") [(EId %s); %s; %s])", coqString(m.Name), coqString(m.Name), c.expr(ix.Index), c.expr(st.Rhs[0])), true
			}
			return "", false
		}
	}
	// a, x.f = e   or   x.f[i] = e : through temporaries
	if st.Tok == token.ASSIGN {
		needTmp := false
		for _, l := range st.Lhs {
			switch l.(type) {
			case *ast.Ident:
			default:
				needTmp = true
			}
		}
		if needTmp && (len(st.Lhs) > 1 || func() bool { _, ok := st.Lhs[0].(*ast.IndexExpr); return ok }()) {
			var tmps []string
			var sets []string
			for i, l := range st.Lhs {
				t := fmt.Sprintf("$%d", i)
				tmps = append(tmps, t)
				switch l := l.(type) {
				case *ast.Ident:
					if l.Name != "_" {
						sets = append(sets, fmt.Sprintf("SLet false [%s] (EId %s)", coqString(l.Name), coqString(t)))
					}
				case *ast.SelectorExpr:
					if id, ok := l.X.(*ast.Ident); ok {
						sets = append(sets, fmt.Sprintf("SSet %s [%s] (EId %s)", coqString(id.Name), coqString(l.Sel.Name), coqString(t)))
					} else {
						return "", false
					}
				case *ast.IndexExpr:
					// x.f[i] = e : element i of the slice in field f
					if sel, ok := l.X.(*ast.SelectorExpr); ok {
						if id, ok := sel.X.(*ast.Ident); ok {
							sets = append(sets, fmt.Sprintf("SSetIndex %s %s %s (EId %s)", coqString(id.Name), coqString(sel.Sel.Name), c.expr(l.Index), coqString(t)))
							continue
						}
					}
					if id, ok := l.X.(*ast.Ident); ok { // a local slice
						sets = append(sets, fmt.Sprintf("SSetIndex %s %s %s (EId %s)", coqString(id.Name), coqString(""), c.expr(l.Index), coqString(t)))
						continue
					}
					// x.f.g[i] = e : an entry of the map (or slice) two or more fields down; the path is written f.g
					{
						var path []string
						e := l.X
						for {
							sel, ok := e.(*ast.SelectorExpr)
							if !ok {
								break
							}
							path = append([]string{sel.Sel.Name}, path...)
							e = sel.X
						}
						if id, ok := e.(*ast.Ident); ok && len(path) > 1 {
							sets = append(sets, fmt.Sprintf("SSetIndex %s %s %s (EId %s)", coqString(id.Name), coqString(strings.Join(path, ".")), c.expr(l.Index), coqString(t)))
							continue
						}
					}
					return "", false
				default:
					return "", false
				}
			}
			return fmt.Sprintf("SLet true %s %s; %s", coqStrings(tmps), c.expr(st.Rhs[0]), strings.Join(sets, "; ")), true
		}
	}
	if st.Tok == token.ASSIGN && len(st.Lhs) == 1 {
		// x.f.g = e
		var path []string
		e := st.Lhs[0]
		for {
			sel, ok := e.(*ast.SelectorExpr)
			if !ok {
				break
			}
			path = append([]string{sel.Sel.Name}, path...)
			e = sel.X
		}
		if id, ok := e.(*ast.Ident); ok && len(path) > 0 {
			return fmt.Sprintf("SSet %s %s %s", coqString(id.Name), coqStrings(path), c.expr(st.Rhs[0])), true
		}
	}
	if st.Tok != token.DEFINE && st.Tok != token.ASSIGN {
		// x op= e
		if len(st.Lhs) != 1 {
			return "", false
		}
		op := strings.TrimSuffix(st.Tok.String(), "=")
		return fmt.Sprintf("SLet false %s (EBin %s %s %s)", c.names(st.Lhs), coqString(op), c.expr(st.Lhs[0]), c.expr(st.Rhs[0])), true
	}
	return fmt.Sprintf("SLet %v %s %s", st.Tok == token.DEFINE, c.names(st.Lhs), c.rhsExpr(st)), true
}

func (c *prCtx) stmt(st ast.Stmt) []string {
	switch st := st.(type) {
	case *ast.AssignStmt:
		if strings.HasPrefix(c.src(st), "buf := &strings.Builder{}") || strings.HasPrefix(c.src(st), "fw := &fmtWriter{") {
			return nil
		}
		if c.idpass {
			if len(st.Lhs) == 1 && len(st.Rhs) == 1 && st.Tok == token.DEFINE {
				if fl, isLit := st.Rhs[0].(*ast.FuncLit); isLit {
					if x, isId := st.Lhs[0].(*ast.Ident); isId && !c.closedLit(fl) {
						if s, ok := c.convert(x, fl); ok {
							return []string{s}
						}
						break
					}
				}
			}
			if out, ok := c.closureCall(st); ok {
				return out
			}
		}
		if s, ok := c.assign(st); ok {
			return []string{s}
		}
	case *ast.DeferStmt:
		if c.idpass && c.isMutexCall(st.Call) {
			return nil // the lock is held from here to the return: Model/Concurrency.v
		}
	case *ast.DeclStmt:
		// var x T: the zero value
		if gd, ok := st.Decl.(*ast.GenDecl); ok && gd.Tok == token.VAR {
			var out []string
			good := true
			for _, sp := range gd.Specs {
				vs, ok := sp.(*ast.ValueSpec)
				if !ok || len(vs.Values) != 0 {
					good = false
					break
				}
				for _, nm := range vs.Names {
					z := "ENil"
					if obj := c.tp.info.Defs[nm]; obj != nil {
						z = zeroExpr(obj.Type())
					}
					if z == "ENil" {
						out = append(out, "SVar "+coqString(nm.Name))
					} else {
						out = append(out, fmt.Sprintf("SLet true [%s] %s", coqString(nm.Name), z))
					}
				}
			}
			if good && len(out) > 0 {
				return out
			}
		}
		// const x = e: a binding like any other (go/types folds the uses; the binding is kept for the record)
		if gd, ok := st.Decl.(*ast.GenDecl); ok && gd.Tok == token.CONST && c.valueMode {
			var out []string
			good := true
			for _, sp := range gd.Specs {
				vs, ok := sp.(*ast.ValueSpec)
				if !ok || len(vs.Values) != len(vs.Names) {
					good = false
					break
				}
				for i, nm := range vs.Names {
					out = append(out, fmt.Sprintf("SLet true [%s] %s", coqString(nm.Name), c.expr(vs.Values[i])))
				}
			}
			if good && len(out) > 0 {
				return out
			}
		}
	case *ast.IncDecStmt:
		if id, ok := st.X.(*ast.Ident); ok && c.valueMode {
			op := "+"
			if st.Tok == token.DEC {
				op = "-"
			}
			return []string{fmt.Sprintf("SLet false [%s] (EBin %s (EId %s) (EConst \"\" 1%%Z))", coqString(id.Name), coqString(op), coqString(id.Name))}
		}
	case *ast.ExprStmt:
		call, ok := st.X.(*ast.CallExpr)
		if !ok {
			break
		}
		if c.idpass && c.isMutexCall(call) {
			return nil
		}
		if sel, isSel := call.Fun.(*ast.SelectorExpr); isSel && c.valueMode {
			// a method called for its effect (inst.Type() fills the cache, x.SetName(n))
			if _, isId := sel.X.(*ast.Ident); isId && c.src(sel.X) != "fmt" && c.src(sel.X) != "log" {
				return []string{"SExpr " + c.expr(call)}
			}
		}
		if c.src(call.Fun) == "log.Printf" {
			return nil // diagnostics on stderr are not part of the result
		}
		switch c.src(call.Fun) {
		case "fw.Fprintf":
			if bl, ok := call.Args[0].(*ast.BasicLit); ok {
				f, _ := strconv.Unquote(bl.Value)
				return []string{"SChunk [" + strings.Join(c.splitFormat(f, call.Args[1:]), "; ") + "]"}
			}
		case "fw.Fprint", "fw.Fprintln":
			if len(call.Args) == 1 {
				var items []string
				if bl, ok := call.Args[0].(*ast.BasicLit); ok && bl.Kind == token.STRING {
					s, _ := strconv.Unquote(bl.Value)
					items = append(items, "SLit "+coqString(s))
				} else {
					items = append(items, "SArg \"%v\" "+c.expr(call.Args[0]))
				}
				if c.src(call.Fun) == "fw.Fprintln" {
					items = append(items, "SLit "+coqString("\n"))
				}
				return []string{"SChunk [" + strings.Join(items, "; ") + "]"}
			}
		case "natsort.Strings":
			// sorts in place: an assignment of the sorted slice
			if len(call.Args) == 1 {
				return []string{fmt.Sprintf("SLet false %s %s", c.names(call.Args), c.expr(call))}
			}
		case "panic":
			return []string{"SPanic"}
		case "buf.WriteString":
			if bl, ok := call.Args[0].(*ast.BasicLit); ok {
				s, _ := strconv.Unquote(bl.Value)
				return []string{"SLit " + coqString(s)}
			}
			return []string{"SArg \"%s\" " + c.expr(call.Args[0])}
		case "fmt.Fprintf":
			if bl, ok := call.Args[1].(*ast.BasicLit); ok && c.src(call.Args[0]) == "buf" {
				f, _ := strconv.Unquote(bl.Value)
				return c.splitFormat(f, call.Args[2:])
			}
		}
	case *ast.IfStmt:
		init := "None"
		if c.idpass && st.Init != nil {
			// if r := g(..); cond for a converted literal g: the call and its stores, then the if, in a scope of their own
			if as, ok := st.Init.(*ast.AssignStmt); ok && as.Tok == token.DEFINE {
				if pre, ok := c.closureCall(as); ok {
					el := "[]"
					if st.Else != nil {
						if eb, ok := st.Else.(*ast.BlockStmt); ok {
							el = c.block(eb.List)
						} else {
							el = "[" + strings.Join(c.stmt(st.Else), "; ") + "]"
						}
					}
					return []string{fmt.Sprintf("SBlock [%s; SIf None %s %s %s]", strings.Join(pre, "; "), c.expr(st.Cond), c.block(st.Body.List), el)}
				}
			}
		}
		if st.Init != nil {
			as, ok := st.Init.(*ast.AssignStmt)
			if names, rhs, par := func() (string, string, bool) {
				if !ok || as.Tok != token.DEFINE {
					return "", "", false
				}
				return c.parallel(as)
			}(); par {
				init = fmt.Sprintf("(Some (%s, %s))", names, rhs)
			} else {
				if !ok || len(as.Rhs) != 1 {
					break
				}
				init = fmt.Sprintf("(Some (%s, %s))", c.names(as.Lhs), c.rhsExpr(as))
			}
		}
		el := "[]"
		if st.Else != nil {
			if eb, ok := st.Else.(*ast.BlockStmt); ok {
				el = c.block(eb.List)
			} else {
				el = "[" + strings.Join(c.stmt(st.Else), "; ") + "]"
			}
		}
		return []string{fmt.Sprintf("SIf %s %s %s %s", init, c.expr(st.Cond), c.block(st.Body.List), el)}
	case *ast.ForStmt:
		if c.idpass && st.Init == nil && st.Cond == nil && st.Post == nil {
			// for { body }: left by a return
			return []string{fmt.Sprintf("SWhile (EBool true) [] %s", c.block(st.Body.List))}
		}
		if c.ext && st.Init == nil && st.Cond != nil {
			// for cond { body }  and  for ; cond; post { body }
			post := "[]"
			if st.Post != nil {
				post = "[" + strings.Join(c.stmt(st.Post), "; ") + "]"
			}
			return []string{fmt.Sprintf("SWhile %s %s %s", c.expr(st.Cond), post, c.block(st.Body.List))}
		}
		if c.enc && st.Init != nil && st.Cond != nil {
			// for init; cond; post { body }: the init statement and the loop in a block of their own (the scope of i)
			post := "[]"
			if st.Post != nil {
				post = "[" + strings.Join(c.stmt(st.Post), "; ") + "]"
			}
			return []string{fmt.Sprintf("SBlock [%s; SWhile %s %s %s]", strings.Join(c.stmt(st.Init), "; "), c.expr(st.Cond), post, c.block(st.Body.List))}
		}
		if st.Init != nil && st.Cond != nil && st.Post != nil {
			ini, ok1 := st.Init.(*ast.AssignStmt)
			post, ok2 := st.Post.(*ast.AssignStmt)
			if ok1 && ok2 {
				a, okA := c.assign(ini)
				b, okB := c.assign(post)
				if okA && okB {
					return []string{fmt.Sprintf("SFor3 (%s) %s (%s) %s", a, c.expr(st.Cond), b, c.block(st.Body.List))}
				}
			}
		}
	case *ast.BranchStmt:
		if st.Tok == token.CONTINUE && st.Label == nil {
			return []string{"SContinue"}
		}
	case *ast.SwitchStmt:
		if st.Init == nil {
			tag := "None"
			if st.Tag != nil {
				tag = "(Some " + c.expr(st.Tag) + ")"
			}
			var cases []string
			def := "[]"
			for _, cl := range st.Body.List {
				cc := cl.(*ast.CaseClause)
				if cc.List == nil {
					def = c.block(cc.Body)
					continue
				}
				var es []string
				for _, e := range cc.List {
					es = append(es, c.expr(e))
				}
				cases = append(cases, fmt.Sprintf("([%s], %s)", strings.Join(es, "; "), c.block(cc.Body)))
			}
			return []string{fmt.Sprintf("SSwitch %s [%s] %s", tag, strings.Join(cases, "; "), def)}
		}
	case *ast.TypeSwitchStmt:
		if as, ok := st.Assign.(*ast.AssignStmt); ok && len(as.Lhs) == 1 && len(as.Rhs) == 1 {
			if ta, ok := as.Rhs[0].(*ast.TypeAssertExpr); ok && ta.Type == nil {
				var cases []string
				def := "[]"
				for _, cl := range st.Body.List {
					cc := cl.(*ast.CaseClause)
					if cc.List == nil {
						def = c.block(cc.Body)
						continue
					}
					var tys []string
					for _, te := range cc.List {
						tn := c.src(te)
						if tv, ok := c.tp.info.Types[te]; ok {
							t := tv.Type
							if p, ok := t.(*types.Pointer); ok {
								t = p.Elem()
							}
							if n, ok := t.(*types.Named); ok && n.Obj().Pkg() != nil {
								tn = n.Obj().Pkg().Name() + "." + n.Obj().Name()
							}
						}
						tys = append(tys, tn)
					}
					cases = append(cases, fmt.Sprintf("(%s, %s)", coqStrings(tys), c.block(cc.Body)))
				}
				return []string{fmt.Sprintf("STypeSwitch %s %s [%s] %s", coqString(c.src(as.Lhs[0])), c.expr(ta.X), strings.Join(cases, "; "), def)}
			}
		}
	case *ast.RangeStmt:
		k, v := "_", "_"
		if st.Key != nil {
			k = c.src(st.Key)
		}
		if st.Value != nil {
			v = c.src(st.Value)
		}
		form := "SFor"
		if tv, ok := c.tp.info.Types[st.X]; ok {
			if _, isMap := tv.Type.Underlying().(*types.Map); isMap {
				form = "SForMap"
			}
			if sl, isSlice := tv.Type.Underlying().(*types.Slice); isSlice && c.idpass && st.Value != nil && isPtrLike(sl.Elem()) {
				// a slice of pointers held in a variable or a field path: the element is stored back after the body
				if root, _ := placePath(st.X); root != "" {
					form = "SForPtr"
				}
			}
		}
		return []string{fmt.Sprintf("%s %s %s %s %s", form, coqString(k), coqString(v), c.expr(st.X), c.block(st.Body.List))}
	case *ast.ReturnStmt:
		if c.retExtraOn {
			return []string{c.retStmt(st.Results)}
		}
		if len(st.Results) == 2 && c.src(st.Results[0]) == "fw.size" && c.src(st.Results[1]) == "fw.err" {
			return []string{"SStop"}
		}
		if len(st.Results) == 1 && c.valueMode && c.alias != "" {
			return []string{fmt.Sprintf("SRet (ETuple [(EId %s); %s])", coqString(c.alias), c.expr(st.Results[0]))}
		}
		if len(st.Results) == 1 && c.valueMode {
			return []string{"SRet " + c.expr(st.Results[0])}
		}
		if len(st.Results) > 1 && c.valueMode {
			var rs []string
			for _, r := range st.Results {
				rs = append(rs, c.expr(r))
			}
			return []string{"SRet (ETuple [" + strings.Join(rs, "; ") + "])"}
		}
		if len(st.Results) == 1 {
			if c.src(st.Results[0]) == "buf.String()" {
				return []string{"SStop"}
			}
			if call, ok := st.Results[0].(*ast.CallExpr); ok && c.src(call.Fun) == "fmt.Sprintf" {
				if bl, ok := call.Args[0].(*ast.BasicLit); ok {
					f, _ := strconv.Unquote(bl.Value)
					return append(c.splitFormat(f, call.Args[1:]), "SStop")
				}
			}
			return []string{"SArg \"%s\" " + c.expr(st.Results[0]), "SStop"}
		}
	}
	c.unknown++
	return []string{"SUnknown " + coqString(c.src(st))}
}

func genPrinters(repo, out string) {
	f, err := os.Create(out)
	must(err)
	defer f.Close()
	fmt.Fprintln(f, "(* Generated by translator from the printing methods of ir, ir/types, ir/constant, ir/metadata. Do not edit. *)")
	fmt.Fprintln(f, "From Coq Require Import List String ZArith.\nImport ListNotations.\nOpen Scope string_scope.")
	fmt.Fprintln(f, `Inductive gexpr :=
| EId (x : string)
| ESel (e : gexpr) (f : string)
| ECall (f : gexpr) (args : list gexpr)
| EConst (ty : string) (v : Z)                 (* a Go constant, folded by go/types; ty is its named type or empty *)
| EStr (s : string)
| EBool (b : bool)
| ENil
| EBin (op : string) (a b : gexpr)
| ENot (e : gexpr)
| EAssert (e : gexpr) (ty : string)
| EIndex (e i : gexpr)
| EWritten                                      (* fw.size: the number of bytes written so far *)
| ESliceFrom (e lo : gexpr)                     (* e[lo:] *)
| EComposite (ty : string) (fields : list (string * gexpr))   (* T{f: e, ...} and &T{...} *)
| ETuple (es : list gexpr)                      (* the results of a return with several values *)
| EOther (src : string)
| ESlice (e lo hi : gexpr)                      (* e[lo:hi] *)
| EFunc (name : string)                         (* a closed function literal, lifted to the body of that name *)
| ECallVal (f : gexpr) (args : list gexpr).     (* a call of a function value (a variable of function type) *)
Inductive gstmt :=
| SLit (s : string)
| SArg (verb : string) (e : gexpr)
| SIf (init : option (list string * gexpr)) (cond : gexpr) (th el : list gstmt)
| SFor (key val : string) (coll : gexpr) (body : list gstmt)
| SLet (define : bool) (lhs : list string) (rhs : gexpr)   (* := when define, = otherwise *)
| SVar (x : string)                                        (* var x T, the zero value *)
| SForMap (key val : string) (coll : gexpr) (body : list gstmt)   (* range over a Go map *)
| SChunk (items : list gstmt)                               (* one fw.Fprint*: one Write call *)
| SSet (x : string) (path : list string) (rhs : gexpr)     (* x.f.g = rhs *)
| SRet (e : gexpr)                                          (* return of a value *)
| SExpr (e : gexpr)                                         (* an expression evaluated for its effect *)
| SSetIndex (x f : string) (i rhs : gexpr)                  (* x.f[i] = rhs *)
| SContinue
| SSwitch (tag : option gexpr) (cases : list (list gexpr * list gstmt)) (default : list gstmt)
| SFor3 (init : gstmt) (cond : gexpr) (post : gstmt) (body : list gstmt)
| STypeSwitch (x : string) (e : gexpr) (cases : list (list string * list gstmt)) (default : list gstmt)
| SStop
| SPanic
| SUnknown (s : string)
| SWhile (cond : gexpr) (post : list gstmt) (body : list gstmt)    (* for cond { body } and for ; cond; post { body } *)
| SBlock (body : list gstmt)                                       (* { body }: a scope of its own (for init; cond; post) *)
| SForPtr (key val : string) (coll : gexpr) (body : list gstmt).   (* range over a slice of pointers held in a variable or a field path: the element, as the body leaves it, is stored back into its slot *)
(* p_type is package.Type for a method, empty for a package-level helper *)
Record printer := { p_pkg : string; p_type : string; p_method : string; p_recv : string; p_body : list gstmt }.`)
	type item struct{ pkg, typ, method, recv, body string }
	var items, restItems []item
	helperSeen := map[string]string{}
	for _, d := range []struct{ dir, path, short string }{
		{"ir", "github.com/llir/llvm/ir", "ir"},
		{"ir/types", "github.com/llir/llvm/ir/types", "types"},
		{"ir/constant", "github.com/llir/llvm/ir/constant", "constant"},
		{"ir/metadata", "github.com/llir/llvm/ir/metadata", "metadata"},
		{"internal/gep", "github.com/llir/llvm/internal/gep", "gep"},
	} {
		tp := loadTyped(repo, d.dir, d.path)
		unknown, n := 0, 0
		for _, file := range tp.files {
			// stringer output is covered by Gen/Enums.v
			if strings.HasSuffix(tp.fset.Position(file.Pos()).Filename, "_string.go") {
				continue
			}
			for _, decl := range file.Decls {
				fd, ok := decl.(*ast.FuncDecl)
				if !ok || fd.Body == nil {
					continue
				}
				c := &prCtx{tp: tp}
				if fd.Recv != nil && fd.Name.Name == "Equal" && len(fd.Recv.List[0].Names) == 1 && d.short == "types" && fd.Type.Params.NumFields() == 1 {
					c.valueMode = true
					typ := strings.TrimPrefix(c.src(fd.Recv.List[0].Type), "*")
					items = append(items, item{d.short, d.short + "." + typ, "Equal", fd.Recv.List[0].Names[0].Name + "," + fd.Type.Params.List[0].Names[0].Name, c.block(fd.Body.List)})
					n++
					unknown += c.unknown
					continue
				}
				if fd.Recv != nil && (fd.Name.Name == "Type" || fd.Name.Name == "Sig") && len(fd.Recv.List[0].Names) == 1 && (d.short == "ir" || d.short == "constant") {
					c.valueMode = true
					typ := strings.TrimPrefix(c.src(fd.Recv.List[0].Type), "*")
					items = append(items, item{d.short, d.short + "." + typ, fd.Name.Name, fd.Recv.List[0].Names[0].Name, c.block(fd.Body.List)})
					n++
					unknown += c.unknown
					continue
				}
				if fd.Recv == nil && (d.short == "ir" || d.short == "constant" || d.short == "types" || d.short == "gep") && (strings.HasPrefix(fd.Name.Name, "New") || d.short == "gep" || fd.Name.Name == "getIndex") && fd.Type.Results != nil && len(fd.Type.Results.List) >= 1 {
					c.valueMode = true
					var ps []string
					for _, p := range fd.Type.Params.List {
						for _, nm := range p.Names {
							ps = append(ps, nm.Name)
						}
					}
					items = append(items, item{d.short, "", d.short + "." + fd.Name.Name, strings.Join(ps, ","), c.block(fd.Body.List)})
					n++
					unknown += c.unknown
					continue
				}
				if fd.Recv == nil && (d.short == "ir" || d.short == "constant") && fd.Type.Results != nil && len(fd.Type.Results.List) == 1 && c.src(fd.Type.Results.List[0].Type) == "types.Type" && !ast.IsExported(fd.Name.Name) {
					c.valueMode = true
					var ps []string
					for _, p := range fd.Type.Params.List {
						for _, nm := range p.Names {
							ps = append(ps, nm.Name)
						}
					}
					body := c.block(fd.Body.List)
					if prev, dup := helperSeen[fd.Name.Name]; dup && prev != body {
						// same name in two packages (gep helpers): qualify the second
						items = append(items, item{d.short, "", d.short + "." + fd.Name.Name, strings.Join(ps, ","), body})
					} else {
						helperSeen[fd.Name.Name] = body
						items = append(items, item{d.short, "", fd.Name.Name, strings.Join(ps, ","), body})
					}
					n++
					unknown += c.unknown
					continue
				}
				switch {
				case fd.Recv != nil && (fd.Name.Name == "LLString" || fd.Name.Name == "String" || fd.Name.Name == "Ident" || fd.Name.Name == "WriteTo") && len(fd.Recv.List[0].Names) == 1:
					typ := strings.TrimPrefix(c.src(fd.Recv.List[0].Type), "*")
					items = append(items, item{d.short, d.short + "." + typ, fd.Name.Name, fd.Recv.List[0].Names[0].Name, c.block(fd.Body.List)})
				case fd.Recv == nil && strings.HasSuffix(fd.Name.Name, "String") && fd.Type.Params.NumFields() == 1 && len(fd.Type.Params.List[0].Names) == 1:
					body := c.block(fd.Body.List)
					if prev, dup := helperSeen[fd.Name.Name]; dup {
						if prev != body {
							fmt.Fprintln(os.Stderr, "translator: helper", fd.Name.Name, "defined differently in two packages")
							os.Exit(3)
						}
						continue
					}
					helperSeen[fd.Name.Name] = body
					items = append(items, item{d.short, "", fd.Name.Name, fd.Type.Params.List[0].Names[0].Name, body})
				default:
					continue
				}
				n++
				unknown += c.unknown
			}
		}
		fmt.Printf("printers %s: %d bodies, %d unknown statements\n", d.dir, n, unknown)
	}
	{
		// package asm: the constructors that compute an instruction's type from the AST before its body is translated
		tp := loadTyped(repo, "asm", "github.com/llir/llvm/asm")
		unknown, n := 0, 0
		for _, file := range tp.files {
			for _, decl := range file.Decls {
				fd, ok := decl.(*ast.FuncDecl)
				if !ok || fd.Body == nil || fd.Recv == nil || !strings.HasPrefix(fd.Name.Name, "new") {
					continue
				}
				if !(strings.HasSuffix(fd.Name.Name, "Inst") || strings.HasSuffix(fd.Name.Name, "Term")) || fd.Type.Params.NumFields() != 2 {
					continue
				}
				c := &prCtx{tp: tp, valueMode: true}
				var ps []string
				for _, p := range fd.Type.Params.List {
					for _, nm := range p.Names {
						ps = append(ps, nm.Name)
					}
				}
				items = append(items, item{"asm", "", "asm." + fd.Name.Name, strings.Join(ps, ","), c.block(fd.Body.List)})
				n++
				unknown += c.unknown
			}
		}
		fmt.Printf("printers asm: %d bodies, %d unknown statements\n", n, unknown)
		// the body translators irXxxInst(new, old) / irXxxTerm(new, old): they fill the scaffold object through the
		// local alias obtained by the type assertion on new; the translated body returns that alias with the error
		unknown, n = 0, 0
		for _, file := range tp.files {
			for _, decl := range file.Decls {
				fd, ok := decl.(*ast.FuncDecl)
				if !ok || fd.Body == nil || fd.Recv == nil || !strings.HasPrefix(fd.Name.Name, "ir") {
					continue
				}
				if !(strings.HasSuffix(fd.Name.Name, "Inst") || strings.HasSuffix(fd.Name.Name, "Term")) || fd.Type.Params.NumFields() != 2 {
					continue
				}
				if fd.Type.Results == nil || len(fd.Type.Results.List) != 1 || exprString(tp.fset, fd.Type.Results.List[0].Type) != "error" {
					continue
				}
				// the alias: first statement  v, ok := new.(*ir.T)
				alias := ""
				if as, ok := fd.Body.List[0].(*ast.AssignStmt); ok && len(as.Lhs) == 2 {
					if _, isTA := as.Rhs[0].(*ast.TypeAssertExpr); isTA {
						alias = exprString(tp.fset, as.Lhs[0])
					}
				}
				if alias == "" {
					continue
				}
				c := &prCtx{tp: tp, valueMode: true, alias: alias}
				var ps []string
				for _, p := range fd.Type.Params.List {
					for _, nm := range p.Names {
						ps = append(ps, nm.Name)
					}
				}
				items = append(items, item{"asm", "", "asm." + fd.Name.Name, strings.Join(ps, ","), c.block(fd.Body.List)})
				n++
				unknown += c.unknown
			}
		}
		fmt.Printf("printers asm (body translators): %d bodies, %d unknown statements\n", n, unknown)
		unknown, n = 0, 0
		for _, file := range tp.files {
			for _, decl := range file.Decls {
				fd, ok := decl.(*ast.FuncDecl)
				if !ok || fd.Body == nil || fd.Recv != nil || !strings.HasPrefix(fd.Name.Name, "ir") || fd.Type.Params.NumFields() != 1 {
					continue
				}
				if fd.Type.Results == nil || len(fd.Type.Results.List) != 1 || !strings.Contains(exprString(tp.fset, fd.Type.Results.List[0].Type), "enum.") {
					continue
				}
				c := &prCtx{tp: tp, valueMode: true}
				items = append(items, item{"asm", "", "asm." + fd.Name.Name, fd.Type.Params.List[0].Names[0].Name, c.block(fd.Body.List)})
				n++
				unknown += c.unknown
			}
		}
		fmt.Printf("printers asm (enum converters): %d bodies, %d unknown statements\n", n, unknown)
		unknown, n = 0, 0
		for _, file := range tp.files {
			for _, decl := range file.Decls {
				fd, ok := decl.(*ast.FuncDecl)
				if !ok || fd.Body == nil || fd.Recv == nil || !strings.HasPrefix(fd.Name.Name, "ir") || !strings.HasSuffix(fd.Name.Name, "Expr") || fd.Type.Params.NumFields() != 2 {
					continue
				}
				c := &prCtx{tp: tp, valueMode: true}
				var ps []string
				for _, p := range fd.Type.Params.List {
					for _, nm := range p.Names {
						ps = append(ps, nm.Name)
					}
				}
				items = append(items, item{"asm", "", "asm." + fd.Name.Name, strings.Join(ps, ","), c.block(fd.Body.List)})
				n++
				unknown += c.unknown
			}
		}
		fmt.Printf("printers asm (constant expression translators): %d bodies, %d unknown statements\n", n, unknown)
		unknown, n = 0, 0
		for _, file := range tp.files {
			for _, decl := range file.Decls {
				fd, ok := decl.(*ast.FuncDecl)
				if !ok || fd.Body == nil || fd.Recv == nil || !(strings.HasPrefix(fd.Name.Name, "irDI") || fd.Name.Name == "irGenericDINode") || fd.Type.Params.NumFields() != 2 {
					continue
				}
				if fd.Type.Params.List[0].Names[0].Name != "new" {
					continue
				}
				c := &prCtx{tp: tp, valueMode: true}
				var ps []string
				for _, p := range fd.Type.Params.List {
					for _, nm := range p.Names {
						ps = append(ps, nm.Name)
					}
				}
				items = append(items, item{"asm", "", "asm." + fd.Name.Name, strings.Join(ps, ","), c.block(fd.Body.List)})
				n++
				unknown += c.unknown
			}
		}
		fmt.Printf("printers asm (debug-info node translators): %d bodies, %d unknown statements\n", n, unknown)
		// every other function and method of package asm (module, type, global, constant, metadata and value
		// translation, helpers): the error-flow, crash-site and cache statements range over the whole package
		have := map[string]bool{}
		for _, it := range items {
			if it.pkg == "asm" {
				have[it.method] = true
			}
		}
		count := map[string]int{}
		for _, file := range tp.files {
			for _, decl := range file.Decls {
				if fd, ok := decl.(*ast.FuncDecl); ok && fd.Body != nil {
					count[fd.Name.Name]++
				}
			}
		}
		unknown, n = 0, 0
		for _, file := range tp.files {
			if strings.HasSuffix(tp.fset.Position(file.Pos()).Filename, "_test.go") {
				continue
			}
			for _, decl := range file.Decls {
				fd, ok := decl.(*ast.FuncDecl)
				if !ok || fd.Body == nil || have["asm."+fd.Name.Name] {
					continue
				}
				name := "asm." + fd.Name.Name
				if count[fd.Name.Name] > 1 && fd.Recv != nil && len(fd.Recv.List) == 1 {
					name = "asm." + strings.TrimPrefix(exprString(tp.fset, fd.Recv.List[0].Type), "*") + "." + fd.Name.Name
				}
				c := &prCtx{tp: tp, valueMode: true}
				var ps []string
				for _, p := range fd.Type.Params.List {
					for _, nm := range p.Names {
						ps = append(ps, nm.Name)
					}
				}
				restItems = append(restItems, item{"asm", "", name, strings.Join(ps, ","), c.block(fd.Body.List)})
				n++
				unknown += c.unknown
			}
		}
		fmt.Printf("printers asm (the rest of the package): %d bodies, %d unknown statements\n", n, unknown)
	}
	sort.Slice(items, func(i, j int) bool {
		if items[i].typ != items[j].typ {
			return items[i].typ < items[j].typ
		}
		return items[i].method < items[j].method
	})
	fmt.Fprintln(f, "Definition printers : list printer := [")
	for i, it := range items {
		sep := ";"
		if i == len(items)-1 {
			sep = ""
		}
		fmt.Fprintf(f, "  {| p_pkg := %s; p_type := %s; p_method := %s; p_recv := %s; p_body := %s |}%s\n", coqString(it.pkg), coqString(it.typ), coqString(it.method), coqString(it.recv), it.body, sep)
	}
	fmt.Fprintln(f, "].")
	// the rest of package asm, in a table of its own: no statement depends on the exact text of these bodies
	// (Reviewed/Printers.v does not list them), the statements over all of package asm range over both tables
	sort.Slice(restItems, func(i, j int) bool { return restItems[i].method < restItems[j].method })
	fmt.Fprintln(f, "Definition asm_rest : list printer := [")
	for i, it := range restItems {
		sep := ";"
		if i == len(restItems)-1 {
			sep = ""
		}
		fmt.Fprintf(f, "  {| p_pkg := %s; p_type := %s; p_method := %s; p_recv := %s; p_body := %s |}%s\n", coqString(it.pkg), coqString(it.typ), coqString(it.method), coqString(it.recv), it.body, sep)
	}
	fmt.Fprintln(f, "].")
	// internal/natsort: the package-level functions that return a value (Less, isdigit), in a table of their own
	// (Proofs/NatsortRefinement.v runs them against Model/Natsort.v).  An exported function is entered under its
	// qualified name, as a call from another package reaches it; an unexported one under its bare name.
	{
		tp := loadTyped(repo, "internal/natsort", "github.com/llir/llvm/internal/natsort")
		var nat []item
		unknown := 0
		for _, file := range tp.files {
			for _, decl := range file.Decls {
				fd, ok := decl.(*ast.FuncDecl)
				if !ok || fd.Body == nil || fd.Recv != nil || fd.Type.Results == nil || len(fd.Type.Results.List) != 1 {
					continue
				}
				c := &prCtx{tp: tp, valueMode: true, ext: true}
				var ps []string
				for _, p := range fd.Type.Params.List {
					for _, nm := range p.Names {
						ps = append(ps, nm.Name)
					}
				}
				name := fd.Name.Name
				if ast.IsExported(name) {
					name = "natsort." + name
				}
				nat = append(nat, item{"natsort", "", name, strings.Join(ps, ","), c.block(fd.Body.List)})
				unknown += c.unknown
			}
		}
		fmt.Printf("printers internal/natsort: %d bodies, %d unknown statements\n", len(nat), unknown)
		sort.Slice(nat, func(i, j int) bool { return nat[i].method < nat[j].method })
		fmt.Fprintln(f, "Definition natsort_bodies : list printer := [")
		for i, it := range nat {
			sep := ";"
			if i == len(nat)-1 {
				sep = ""
			}
			fmt.Fprintf(f, "  {| p_pkg := %s; p_type := %s; p_method := %s; p_recv := %s; p_body := %s |}%s\n", coqString(it.pkg), coqString(it.typ), coqString(it.method), coqString(it.recv), it.body, sep)
		}
		fmt.Fprintln(f, "].")
	}
	// internal/enc: every function of the package, in a table of its own (Proofs/EncRefinement.v runs them against
	// Model/Enc.v).  The functions of the package call each other by their bare names, so that is how they are
	// entered.  A function literal (the valid predicates handed to Escape) refers to nothing but its parameter and
	// package-level constants: it is lifted to an entry F$n of its own and the literal becomes EFunc F$n.
	{
		tp := loadTyped(repo, "internal/enc", "github.com/llir/llvm/internal/enc")
		var encs []item
		unknown := 0
		for _, file := range tp.files {
			for _, decl := range file.Decls {
				fd, ok := decl.(*ast.FuncDecl)
				if !ok || fd.Body == nil || fd.Recv != nil {
					continue
				}
				var lifted []liftedFunc
				c := &prCtx{tp: tp, valueMode: true, ext: true, enc: true, fname: fd.Name.Name, lifted: &lifted}
				var ps []string
				for _, p := range fd.Type.Params.List {
					for _, nm := range p.Names {
						ps = append(ps, nm.Name)
					}
				}
				encs = append(encs, item{"enc", "", fd.Name.Name, strings.Join(ps, ","), c.block(fd.Body.List)})
				for _, l := range lifted {
					encs = append(encs, item{"enc", "", l.name, l.params, l.body})
				}
				unknown += c.unknown
			}
		}
		fmt.Printf("printers internal/enc: %d bodies, %d unknown statements\n", len(encs), unknown)
		sort.Slice(encs, func(i, j int) bool { return encs[i].method < encs[j].method })
		fmt.Fprintln(f, "Definition enc_bodies : list printer := [")
		for i, it := range encs {
			sep := ";"
			if i == len(encs)-1 {
				sep = ""
			}
			fmt.Fprintf(f, "  {| p_pkg := %s; p_type := %s; p_method := %s; p_recv := %s; p_body := %s |}%s\n", coqString(it.pkg), coqString(it.typ), coqString(it.method), coqString(it.recv), it.body, sep)
		}
		fmt.Fprintln(f, "].")
	}
	// the ID-assignment passes of package ir (idpass.go)
	genIdPass(f, repo)
}
