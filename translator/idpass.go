package main

import (
	"fmt"
	"go/ast"
	"go/token"
	"go/types"
	"sort"
	"strings"
)

// The ID-assignment passes (ir.Module.AssignMetadataIDs, ir.Module.AssignGlobalIDs, ir.Func.AssignIDs), in a
// table of their own (idpass_bodies; Proofs/IdPassRefinement.v runs them against Model/MetadataIDs.v and
// Model/Numbering.v).  On top of the forms of internal/enc the mode idpass translates:
//
//   - a function literal that captures locals of the enclosing function (closure conversion): the literal is
//     lifted to an entry F$n whose parameters are its own followed by the captured variables; every return of
//     the lifted body returns, after the results, the parameters of pointer or interface type (the callee may
//     have changed the object they point to) and the captured variables the literal assigns; a call site binds
//     the results and stores the rest back into the argument variables and the captured variables;
//   - range over a slice of pointers (or interfaces) held in a variable or a field path: SForPtr, which stores
//     the element back into its slot after the body (objects are values in GoEval; the store makes what the
//     body did to the object visible through the slice, as it is in Go through the pointer);
//   - v, ok := x.(T) followed by if !ok { continue }: v holds the same pointer as x; after a call that may
//     change the object v points to, the translation adds x = v (in Go the identity);
//   - maps: make(map[K]V), m[k], _, ok := m[k] and m[k] = v become calls of $mapget, $maphas, $mapset;
//   - for { ... } is a while loop on true;
//   - mu.Lock() and defer mu.Unlock() of a sync.Mutex or sync.RWMutex are dropped (the locking discipline is
//     Model/Concurrency.v's subject; a single run holds the lock from the first statement to the return);
//   - a variable of another package (types.Void) is the identifier of that qualified name;
//   - *p = e for a pointer variable p (the receiver of SetID) assigns the variable (objects are values), and the
//     conversion T(e) to a named integer type T is the call of $named:pkg.T.

// a converted function literal bound to a local variable
type convClosure struct {
	name      string   // the lifted body
	nres      int      // results of the literal
	ptrParams []int    // indices of the parameters of pointer or interface type (returned after the results)
	captured  []string // captured locals, passed after the arguments
	mutated   []string // the captured locals the literal assigns (returned after the pointer parameters)
}

func isPtrLike(t types.Type) bool {
	switch t.Underlying().(type) {
	case *types.Pointer, *types.Interface:
		return true
	}
	return false
}

func isMapType(t types.Type) bool {
	_, ok := t.Underlying().(*types.Map)
	return ok
}

// localOutside reports whether the object is a variable of the enclosing function declared outside [lo, hi).
func (c *prCtx) localOutside(obj types.Object, lo, hi token.Pos) bool {
	v, ok := obj.(*types.Var)
	if !ok || v.IsField() {
		return false
	}
	if obj.Pos() >= lo && obj.Pos() < hi {
		return false
	}
	if obj.Parent() == types.Universe || (obj.Pkg() != nil && obj.Parent() == obj.Pkg().Scope()) {
		return false
	}
	return true
}

// convert lifts the literal bound to the variable x; it returns the statement that binds x.
func (c *prCtx) convert(x *ast.Ident, fl *ast.FuncLit) (string, bool) {
	if c.lifted == nil || c.closures == nil {
		return "", false
	}
	var captured, mutated []string
	seenC, seenM := map[string]bool{}, map[string]bool{}
	objOf := map[string]types.Object{}
	good := true
	mark := func(e ast.Expr) {
		// the variable at the root of an assigned place
		for {
			switch t := e.(type) {
			case *ast.SelectorExpr:
				e = t.X
				continue
			case *ast.IndexExpr:
				e = t.X
				continue
			case *ast.StarExpr:
				e = t.X
				continue
			case *ast.ParenExpr:
				e = t.X
				continue
			}
			break
		}
		if id, ok := e.(*ast.Ident); ok {
			if obj := c.tp.info.Uses[id]; obj != nil && c.localOutside(obj, fl.Pos(), fl.End()) && !seenM[id.Name] {
				seenM[id.Name] = true
				mutated = append(mutated, id.Name)
			}
		}
	}
	ast.Inspect(fl.Body, func(n ast.Node) bool {
		switch n := n.(type) {
		case *ast.FuncLit:
			good = false // a literal inside a literal
			return false
		case *ast.Ident:
			if obj := c.tp.info.Uses[n]; obj != nil && c.localOutside(obj, fl.Pos(), fl.End()) {
				if prev, dup := objOf[n.Name]; dup && prev != obj {
					good = false // two captured variables of one name
				}
				objOf[n.Name] = obj
				if !seenC[n.Name] {
					seenC[n.Name] = true
					captured = append(captured, n.Name)
				}
			}
		case *ast.AssignStmt:
			for _, l := range n.Lhs {
				mark(l)
			}
		case *ast.IncDecStmt:
			mark(n.X)
		case *ast.ExprStmt:
			// a method called for its effect on a captured variable
			if call, ok := n.X.(*ast.CallExpr); ok {
				if sel, ok := call.Fun.(*ast.SelectorExpr); ok {
					if _, isPkg := c.tp.info.Uses[rootIdent(sel.X)].(*types.PkgName); !isPkg {
						mark(sel.X)
					}
				}
			}
		case *ast.UnaryExpr:
			if n.Op == token.AND {
				good = false // the address of something escapes
			}
		}
		return true
	})
	// a captured variable must be the only variable of its name in the enclosing function: the call sites pass it by
	// name, and the lifted body returns it by name
	if c.encl != nil {
		ast.Inspect(c.encl, func(n ast.Node) bool {
			if id, ok := n.(*ast.Ident); ok {
				if def := c.tp.info.Defs[id]; def != nil {
					if cap, isCap := objOf[id.Name]; isCap && cap != def {
						good = false
					}
				}
			}
			return true
		})
	}
	if !good {
		return "", false
	}
	cc := &convClosure{captured: captured, mutated: mutated}
	if fl.Type.Results != nil {
		for _, r := range fl.Type.Results.List {
			k := len(r.Names)
			if k == 0 {
				k = 1
			}
			cc.nres += k
		}
	}
	var ps, extra []string
	i := 0
	for _, p := range fl.Type.Params.List {
		for _, nm := range p.Names {
			ps = append(ps, nm.Name)
			if obj := c.tp.info.Defs[nm]; obj != nil && isPtrLike(obj.Type()) {
				cc.ptrParams = append(cc.ptrParams, i)
				extra = append(extra, nm.Name)
			}
			// a parameter may not hide a captured variable (it would be passed twice under one name)
			if seenC[nm.Name] {
				return "", false
			}
			i++
		}
	}
	extra = append(extra, mutated...)
	cc.name = fmt.Sprintf("%s$%d", c.fname, len(*c.lifted)+1)
	sub := &prCtx{tp: c.tp, valueMode: true, ext: true, enc: true, idpass: true, fname: c.fname, lifted: c.lifted,
		closures: c.closures, aliases: c.aliases, retExtra: extra, retExtraOn: true, encl: c.encl}
	body := sub.block(fl.Body.List)
	if cc.nres == 0 {
		// falling off the end of the literal returns the extra values too
		body = strings.TrimSuffix(body, "]")
		if body != "[" {
			body += "; "
		}
		body += sub.retStmt(nil) + "]"
	}
	c.unknown += sub.unknown
	*c.lifted = append(*c.lifted, liftedFunc{cc.name, strings.Join(append(ps, captured...), ","), body})
	c.closures[c.tp.info.Defs[x]] = cc
	return fmt.Sprintf("SLet true [%s] (EFunc %s)", coqString(x.Name), coqString(cc.name)), true
}

func rootIdent(e ast.Expr) *ast.Ident {
	for {
		switch t := e.(type) {
		case *ast.SelectorExpr:
			e = t.X
			continue
		case *ast.ParenExpr:
			e = t.X
			continue
		}
		break
	}
	id, _ := e.(*ast.Ident)
	return id
}

// retStmt is the return statement of a lifted literal: the results followed by the extra values.
func (c *prCtx) retStmt(results []ast.Expr) string {
	var rs []string
	for _, r := range results {
		rs = append(rs, c.expr(r))
	}
	for _, x := range c.retExtra {
		rs = append(rs, fmt.Sprintf("(EId %s)", coqString(x)))
	}
	if len(rs) == 1 {
		return "SRet " + rs[0]
	}
	return "SRet (ETuple [" + strings.Join(rs, "; ") + "])"
}

// closureCall translates lhs := g(args) (or =) for a converted literal g: the call with the captured variables
// added, then the stores of the values that come back.  ok is false when the statement is not of that form.
func (c *prCtx) closureCall(st *ast.AssignStmt) ([]string, bool) {
	if len(st.Rhs) != 1 || (st.Tok != token.DEFINE && st.Tok != token.ASSIGN) {
		return nil, false
	}
	call, isCall := st.Rhs[0].(*ast.CallExpr)
	if !isCall {
		return nil, false
	}
	g, isId := call.Fun.(*ast.Ident)
	if !isId {
		return nil, false
	}
	cc := c.closures[c.tp.info.Uses[g]]
	if cc == nil {
		return nil, false
	}
	if len(st.Lhs) != cc.nres {
		return nil, false
	}
	var names, args, after []string
	for _, l := range st.Lhs {
		id, ok := l.(*ast.Ident)
		if !ok {
			return nil, false
		}
		names = append(names, id.Name)
	}
	for _, a := range call.Args {
		args = append(args, c.expr(a))
	}
	for _, i := range cc.ptrParams {
		a, ok := call.Args[i].(*ast.Ident)
		if !ok {
			return nil, false // the object that comes back needs a variable to go to
		}
		tmp := "$" + a.Name
		names = append(names, tmp)
		after = append(after, fmt.Sprintf("SLet false [%s] (EId %s)", coqString(a.Name), coqString(tmp)))
		// a.Name holds the same pointer as the place it was asserted from
		if place, has := c.aliases[c.tp.info.Uses[a]]; has {
			if id, ok := place.(*ast.Ident); ok {
				after = append(after, fmt.Sprintf("SLet false [%s] (EId %s)", coqString(id.Name), coqString(a.Name)))
			} else if root, path := placePath(place); root != "" {
				after = append(after, fmt.Sprintf("SSet %s %s (EId %s)", coqString(root), coqStrings(path), coqString(a.Name)))
			} else {
				return nil, false
			}
		}
	}
	for _, x := range cc.captured {
		args = append(args, fmt.Sprintf("(EId %s)", coqString(x)))
	}
	for _, x := range cc.mutated {
		tmp := "$" + x
		names = append(names, tmp)
		after = append(after, fmt.Sprintf("SLet false [%s] (EId %s)", coqString(x), coqString(tmp)))
	}
	callExpr := fmt.Sprintf("(ECallVal (EId %s) [%s])", coqString(g.Name), strings.Join(args, "; "))
	define := st.Tok == token.DEFINE
	if len(names) > cc.nres && !define {
		// the temporaries are new names: bind all of them, then assign the results
		var tmps, sets []string
		for i, n := range names {
			if i < cc.nres {
				tmps = append(tmps, "$res"+fmt.Sprint(i))
				sets = append(sets, fmt.Sprintf("SLet false [%s] (EId %s)", coqString(n), coqString("$res"+fmt.Sprint(i))))
			} else {
				tmps = append(tmps, n)
			}
		}
		out := []string{fmt.Sprintf("SLet true %s %s", coqStrings(tmps), callExpr)}
		out = append(out, sets...)
		return append(out, after...), true
	}
	out := []string{fmt.Sprintf("SLet %v %s %s", define, coqStrings(names), callExpr)}
	return append(out, after...), true
}

// placePath splits x.f.g into x and [f; g].
func placePath(e ast.Expr) (string, []string) {
	var path []string
	for {
		sel, ok := e.(*ast.SelectorExpr)
		if !ok {
			break
		}
		path = append([]string{sel.Sel.Name}, path...)
		e = sel.X
	}
	if id, ok := e.(*ast.Ident); ok {
		return id.Name, path
	}
	return "", nil
}

// noteAlias records v, ok := x.(T) when the next statement leaves on !ok.
func (c *prCtx) noteAlias(list []ast.Stmt, i int) {
	if !c.idpass || c.aliases == nil || i+1 >= len(list) {
		return
	}
	as, ok := list[i].(*ast.AssignStmt)
	if !ok || as.Tok != token.DEFINE || len(as.Lhs) != 2 || len(as.Rhs) != 1 {
		return
	}
	ta, ok := as.Rhs[0].(*ast.TypeAssertExpr)
	if !ok || ta.Type == nil {
		return
	}
	if root, _ := placePath(ta.X); root == "" {
		return
	}
	v, ok1 := as.Lhs[0].(*ast.Ident)
	okv, ok2 := as.Lhs[1].(*ast.Ident)
	if !ok1 || !ok2 {
		return
	}
	guard, ok := list[i+1].(*ast.IfStmt)
	if !ok || guard.Init != nil || guard.Else != nil || len(guard.Body.List) == 0 {
		return
	}
	not, ok := guard.Cond.(*ast.UnaryExpr)
	if !ok || not.Op != token.NOT {
		return
	}
	if id, ok := not.X.(*ast.Ident); !ok || c.tp.info.Uses[id] != c.tp.info.Defs[okv] {
		return
	}
	switch last := guard.Body.List[len(guard.Body.List)-1].(type) {
	case *ast.BranchStmt:
		if last.Tok != token.CONTINUE && last.Tok != token.BREAK {
			return
		}
	case *ast.ReturnStmt:
	default:
		return
	}
	c.aliases[c.tp.info.Defs[v]] = ta.X
}

// isMutexCall recognises x.mu.Lock(), x.mu.Unlock() (and the RLock forms) of package sync.
func (c *prCtx) isMutexCall(call *ast.CallExpr) bool {
	sel, ok := call.Fun.(*ast.SelectorExpr)
	if !ok {
		return false
	}
	s := c.tp.info.Selections[sel]
	if s == nil {
		return false
	}
	f, ok := s.Obj().(*types.Func)
	if !ok || f.Pkg() == nil || f.Pkg().Path() != "sync" {
		return false
	}
	switch f.Name() {
	case "Lock", "Unlock", "RLock", "RUnlock":
		return true
	}
	return false
}

func (c *prCtx) mapIndex(e ast.Expr) (*ast.IndexExpr, bool) {
	ix, ok := e.(*ast.IndexExpr)
	if !ok {
		return nil, false
	}
	tv, has := c.tp.info.Types[ix.X]
	return ix, has && isMapType(tv.Type)
}

// rhs of an assignment or of the init statement of an if: the two-valued read of a map is $maphas
func (c *prCtx) rhsExpr(as *ast.AssignStmt) string {
	if c.idpass && len(as.Lhs) == 2 && len(as.Rhs) == 1 {
		if ix, ok := c.mapIndex(as.Rhs[0]); ok {
			return fmt.Sprintf("(ECall (EId \"$maphas\") [%s; %s])", c.expr(ix.X), c.expr(ix.Index))
		}
	}
	return c.expr(as.Rhs[0])
}

func genIdPass(f interface{ Write([]byte) (int, error) }, repo string) {
	type item struct{ pkg, typ, method, recv, body string }
	want := map[string]bool{"Module.AssignMetadataIDs": true, "Module.AssignGlobalIDs": true, "Func.AssignIDs": true}
	tp := loadTyped(repo, "ir", "github.com/llir/llvm/ir")
	var its []item
	unknown := 0
	for _, file := range tp.files {
		for _, decl := range file.Decls {
			fd, ok := decl.(*ast.FuncDecl)
			if !ok || fd.Body == nil || fd.Recv == nil || len(fd.Recv.List) != 1 || len(fd.Recv.List[0].Names) != 1 {
				continue
			}
			typ := strings.TrimPrefix(exprString(tp.fset, fd.Recv.List[0].Type), "*")
			if !want[typ+"."+fd.Name.Name] {
				continue
			}
			var lifted []liftedFunc
			c := &prCtx{tp: tp, valueMode: true, ext: true, enc: true, idpass: true, fname: fd.Name.Name, lifted: &lifted,
				closures: map[types.Object]*convClosure{}, aliases: map[types.Object]ast.Expr{}, encl: fd}
			ps := []string{fd.Recv.List[0].Names[0].Name}
			for _, p := range fd.Type.Params.List {
				for _, nm := range p.Names {
					ps = append(ps, nm.Name)
				}
			}
			its = append(its, item{"ir", "ir." + typ, fd.Name.Name, strings.Join(ps, ","), c.block(fd.Body.List)})
			for _, l := range lifted {
				its = append(its, item{"ir", "", l.name, l.params, l.body})
			}
			unknown += c.unknown
		}
	}
	fmt.Printf("printers ir (ID-assignment passes): %d bodies, %d unknown statements\n", len(its), unknown)
	sort.Slice(its, func(i, j int) bool {
		if its[i].method != its[j].method {
			return its[i].method < its[j].method
		}
		return its[i].typ < its[j].typ
	})
	fmt.Fprintln(f, "Definition idpass_bodies : list printer := [")
	for i, it := range its {
		sep := ";"
		if i == len(its)-1 {
			sep = ""
		}
		fmt.Fprintf(f, "  {| p_pkg := %s; p_type := %s; p_method := %s; p_recv := %s; p_body := %s |}%s\n", coqString(it.pkg), coqString(it.typ), coqString(it.method), coqString(it.recv), it.body, sep)
	}
	fmt.Fprintln(f, "].")
	genIdentMethods(f, repo, tp)
}

// The methods of the embedded identifiers the passes call through the interfaces (ID, SetID, IsUnnamed of
// ir.LocalIdent and ir.GlobalIdent, ID and SetID of metadata.MetadataID), in a table of their own (ident_bodies):
// Proofs/IdPassRefinement.v shows that GoEval.obj_method, which answers these calls on objects whose embedded
// structs are flattened, computes what these bodies compute.
func genIdentMethods(f interface{ Write([]byte) (int, error) }, repo string, irPkg *typedPkg) {
	type item struct{ pkg, typ, method, recv, body string }
	var its []item
	unknown := 0
	for _, src := range []struct {
		tp    *typedPkg
		short string
		types map[string]bool
	}{
		{irPkg, "ir", map[string]bool{"LocalIdent": true, "GlobalIdent": true}},
		{loadTyped(repo, "ir/metadata", "github.com/llir/llvm/ir/metadata"), "metadata", map[string]bool{"MetadataID": true}},
	} {
		for _, file := range src.tp.files {
			for _, decl := range file.Decls {
				fd, ok := decl.(*ast.FuncDecl)
				if !ok || fd.Body == nil || fd.Recv == nil || len(fd.Recv.List) != 1 || len(fd.Recv.List[0].Names) != 1 {
					continue
				}
				typ := strings.TrimPrefix(exprString(src.tp.fset, fd.Recv.List[0].Type), "*")
				if !src.types[typ] || !(fd.Name.Name == "ID" || fd.Name.Name == "SetID" || fd.Name.Name == "IsUnnamed") {
					continue
				}
				c := &prCtx{tp: src.tp, valueMode: true, ext: true, enc: true, idpass: true, fname: fd.Name.Name}
				ps := []string{fd.Recv.List[0].Names[0].Name}
				for _, p := range fd.Type.Params.List {
					for _, nm := range p.Names {
						ps = append(ps, nm.Name)
					}
				}
				its = append(its, item{src.short, src.short + "." + typ, fd.Name.Name, strings.Join(ps, ","), c.block(fd.Body.List)})
				unknown += c.unknown
			}
		}
	}
	fmt.Printf("printers ir, ir/metadata (identifier methods): %d bodies, %d unknown statements\n", len(its), unknown)
	sort.Slice(its, func(i, j int) bool {
		if its[i].typ != its[j].typ {
			return its[i].typ < its[j].typ
		}
		return its[i].method < its[j].method
	})
	fmt.Fprintln(f, "Definition ident_bodies : list printer := [")
	for i, it := range its {
		sep := ";"
		if i == len(its)-1 {
			sep = ""
		}
		fmt.Fprintf(f, "  {| p_pkg := %s; p_type := %s; p_method := %s; p_recv := %s; p_body := %s |}%s\n", coqString(it.pkg), coqString(it.typ), coqString(it.method), coqString(it.recv), it.body, sep)
	}
	fmt.Fprintln(f, "].")
}
