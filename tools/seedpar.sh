#!/bin/sh
# tools/seedpar.sh <patch> <property>...  -- like seedtest.sh, but in a private copy of /repo and /verif mounted over
# the real paths in a mount namespace of its own (needs root), so that several seeded changes can be tested at the
# same time and /repo itself is never touched.  Prints the check's summary lines.
patch="$1"; shift
vsrc="${VSRC:-/verif}"   # the copy of /verif to test (an engineering copy while a check is being strengthened)
tag=$(basename "$patch" .patch)-$$
root=/tmp/par/$tag
mkdir -p $root/repo $root/verif
rsync -a --exclude .git /repo/ $root/repo/
rsync -a --exclude .git --exclude replays $vsrc/ $root/verif/
mkdir -p $root/verif/replays
( cd $root/repo && git init -q . >/dev/null 2>&1 && git add -A >/dev/null 2>&1 && git -c user.email=x -c user.name=x commit -q -m base >/dev/null 2>&1 )
unshare -m sh -c "
  mount --bind $root/repo /repo && mount --bind $root/verif /verif || exit 9
  cd /repo && { [ '$patch' = none ] || git apply '$patch' || { echo 'PATCH DOES NOT APPLY'; exit 8; }; }
  cd /verif
  for p in $*; do
    ./check \$p > /tmp/par/$tag.\$p.log 2>&1
    echo \"== \$p rc=\$? \$(grep -c '^VIOLATION' /tmp/par/$tag.\$p.log) violation line(s)\"
    grep '^BROKEN\|^VIOLATION' /tmp/par/$tag.\$p.log | cut -c1-170 | sort | uniq -c | head -5
    for r in /verif/replays/\$p-*.json; do [ -f \$r ] && python3 -c \"import json,sys; d=json.load(open(sys.argv[1])); print('   replay', d.get('kind'), 'oracle='+str(d.get('oracle')), 'class='+str(d.get('class')), str(d.get('failkind'))[:120], '|', str(d.get('detail'))[:200])\" \$r; done
  done
"
rm -rf $root
