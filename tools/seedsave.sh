#!/bin/sh
# tools/seedsave.sh <agent-id> <name> <properties> "<what it needs to manifest>" "<detected by>"
id="$1"; name="$2"; props="$3"; needs="$4"; det="$5"
d=/verif/seeded/$name; mkdir -p $d
cp /tmp/wt/$id.patch $d/patch.diff
cp /tmp/wt/out-$id/demo_test.go $d/demo_test.go 2>/dev/null
cp /tmp/wt/out-$id/notes.md $d/notes.md 2>/dev/null
python3 - "$name" "$props" "$needs" "$det" <<'PY'
import json,sys
name,props,needs,det=sys.argv[1:5]
json.dump({"name":name,"breaks":props.split(","),"needs_to_manifest":needs,
 "confirmed":"library builds, `go test -vet=off -count=1 ./...` passes with the patch; demo_test.go (placed in a package directory demo_verif/ of the patched tree, `go test ./demo_verif/`) fails with the patch and passes without it (tools/seedverify.sh)",
 "checks_run":"tools/seedtest.sh seeded/%s/patch.diff %s" % (name, " ".join(props.split(","))),
 "detected":det}, open("/verif/seeded/%s/meta.json"%name,"w"), indent=1)
PY
echo saved $d
