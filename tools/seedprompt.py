#!/usr/bin/env python3
"""tools/seedprompt.py <suffix>  -- writes /tmp/wt/prompt-C<id><suffix>.txt for the twenty properties: the brief a fresh
sub-agent gets for one seeded change.  It contains the text of the property, the rules of the exercise and one line per
change already kept under seeded/ (name and what it needs to manifest), and nothing else from /verif."""
import json, glob, sys, os
suffix = sys.argv[1]
props = [json.loads(l) for l in open('/verif/properties.jsonl')]
seeds = {}
for f in sorted(glob.glob('/verif/seeded/*/meta.json')):
    m = json.load(open(f))
    for b in m['breaks']:
        seeds.setdefault(b, []).append((m['name'], m['needs_to_manifest']))
os.makedirs('/tmp/wt', exist_ok=True)
for p in props:
    pid = p['id'] + suffix
    prop = "%s -- %s\n\nStatement: %s\n\nQuantified over: %s\n\nWhy the existing tests cannot settle it: %s\n\nAnchored in: %s" % (
        p['id'], p['title'], p['statement'], p['quantifier']['text'], p.get('why_tests_cant', ''), ", ".join(p['anchors']['files']))
    lst = "\n".join("  - %s: %s" % (n, d) for n, d in seeds.get(p['id'], []))
    text = f'''You are helping to test a verification harness by producing a realistic *breaking change* (a seeded bug) for the Go library llir/llvm (a pure-Go library that models LLVM IR: parses LLVM assembly, builds IR programmatically, prints it back).

You have your own scratch git worktree of the library at /tmp/wt/{pid} (module github.com/llir/llvm). Work ONLY inside /tmp/wt/{pid} and write your deliverables to /tmp/wt/out-{pid}/. Do not read or touch /verif or /repo.

Every shell call needs:  export GOFLAGS=-mod=mod GOPROXY=off GOSUMDB=off GOTOOLCHAIN=local   (there is no network; all dependencies are in the module cache; `cd /tmp/wt/{pid} && go build ./... && go test -vet=off -count=1 ./...` works).

The property that must be broken:

{prop}

Other engineers have already produced the following changes for this property; yours must be of a DIFFERENT kind: in a file or function none of them touches if possible, and about a clause of the statement or a kind of input none of them exercises (read the statement and the quantifier again, clause by clause, and pick the least obvious one):
{lst}

Task: make a small, realistic change to the library source (the kind of slip a maintainer could make in a refactoring or a "simplification": an off-by-one, a wrong constant, a condition inverted for one case, a field forgotten in one of several similar places, a cache not invalidated, two sites that each look fine alone ...) such that
  1. the library still compiles, and the existing test suite (`go test -vet=off -count=1 ./...` in the worktree) still passes unchanged;
  2. the property above is violated;
  3. the violation needs something *specific* to manifest -- a particular unusual input, a multi-step sequence of operations, a particular size/boundary, a particular interleaving or failure point -- NOT something ordinary use would expose at once (do not break the common path; a change that makes every module print wrongly is useless).
Do NOT touch test files or testdata. Prefer a change of 1-6 lines. The change must be in the non-test Go sources of the library.

Deliverables in /tmp/wt/out-{pid}/:
  - patch.diff : output of `git -C /tmp/wt/{pid} diff` (the change only);
  - demo_test.go : a demonstration that FAILS with your change and PASSES without it: a Go test in an external package `demo_verif`, to be placed in /tmp/wt/{pid}/demo_verif/ and run with `go test -vet=off -count=1 ./demo_verif/`; it may import github.com/llir/llvm/... packages. Actually run it both ways (use `git diff > /tmp/wt/out-{pid}/p; git apply -R /tmp/wt/out-{pid}/p; ...; git apply /tmp/wt/out-{pid}/p` -- NEVER `git stash`: the stash is shared with other worktrees) and paste the two outputs into notes.md; remove the demo_verif directory from the worktree afterwards (keep the copy in the out directory);
  - notes.md : which file/lines you changed and why it breaks the property, what specific input/sequence is needed for it to manifest, the exact commands you ran (build, test suite, demo with and without the change) and their results; if you notice anything on the UNCHANGED tree that already violates the property, say so in a separate section.
Leave the worktree WITH your change applied at the end. Keep your final answer short: the path of the deliverables and a two-line description of the change.'''
    open('/tmp/wt/prompt-%s.txt' % pid, 'w').write(text)
print("wrote 20 prompts for suffix", suffix)
