#!/bin/sh
# tools/seedverify.sh <id>  -- confirms a sub-agent's seeded change in its scratch worktree /tmp/wt/<id>:
# the library builds, the existing suite passes, the demonstration fails with the change and passes without it.
id="$1"; wt=/tmp/wt/$id; out=/tmp/wt/out-$id
export GOFLAGS=-mod=mod GOPROXY=off GOSUMDB=off GOTOOLCHAIN=local
cd $wt || exit 2
rm -rf demo_verif
git diff > /tmp/wt/$id.patch
echo "--- patch: $(git diff --stat | tail -1)"
go build ./... && go test -vet=off -count=1 ./... 2>&1 | grep -v "no test files" | grep -v "^ok" | head -5; echo "suite rc=$?"
mkdir -p demo_verif && cp $out/demo_test.go demo_verif/ 2>/dev/null || cp $out/*_test.go demo_verif/
echo "--- demo WITH the change:"; go test -vet=off -count=1 ./demo_verif/ 2>&1 | tail -4 | cut -c1-200
# (no git stash: the stash is shared by all worktrees of /repo)
git apply -R /tmp/wt/$id.patch
echo "--- demo WITHOUT the change:"; go test -vet=off -count=1 ./demo_verif/ 2>&1 | tail -2 | cut -c1-200
git apply /tmp/wt/$id.patch
rm -rf demo_verif
