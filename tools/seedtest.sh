#!/bin/sh
# tools/seedtest.sh <patch.diff> <id> [<id>...]  -- applies a seeded change to /repo, runs the given checks, undoes it.
# Never leaves /repo modified; the evidence files are restored afterwards (they must come from clean-tree runs).
set -u
patch="$1"; shift
cd /verif
if ! git -C /repo diff --quiet; then echo "/repo has uncommitted changes"; exit 2; fi
git -C /repo apply "$patch" || { echo "patch does not apply"; exit 2; }
mkdir -p .work/seed-evidence && cp evidence/*.json .work/seed-evidence/ 2>/dev/null
for id in "$@"; do
  ./check "$id" > ".work/seed_$id.txt" 2>&1
  echo "== $id rc=$? $(grep -c '^VIOLATION' .work/seed_$id.txt) violation line(s)"
  grep '^BROKEN\|^VIOLATION' ".work/seed_$id.txt" | cut -c1-220 | head -6
done
git -C /repo checkout -- .
git -C /repo status --short | grep -v '^??' | head -3
cp .work/seed-evidence/*.json evidence/ 2>/dev/null
echo "restored /repo and evidence"
