#!/usr/bin/env python3
"""Re-creates coq/theories/Reviewed/Printers.v from the current Gen/Printers.v.
Run by hand only, after reviewing why the regenerated table changed (a fix: commit in /repo, a
translator extension); the reason goes into the commit message and DESIGN.md."""
import os, re
V = os.path.dirname(os.path.dirname(os.path.abspath(__file__)))
import subprocess
subprocess.run([os.path.join(V, "bin/translator"), "/repo", os.path.join(V, "coq/theories/Gen")], check=True, stdout=subprocess.DEVNULL, stderr=subprocess.DEVNULL,
               env=dict(os.environ, GOFLAGS="-mod=mod", GOPROXY="off", GOSUMDB="off", GOTOOLCHAIN="local"))
if os.path.exists(os.path.join(V, "coq/theories/Gen/.stamp")):
    os.remove(os.path.join(V, "coq/theories/Gen/.stamp"))
gen = open(os.path.join(V, "coq/theories/Gen/Printers.v")).read()
i = gen.index("Definition printers : list printer := [")
body = gen[i + len("Definition printers : list printer := ["):]
if "].\nDefinition asm_rest" in body:
    body = body[:body.index("].\nDefinition asm_rest")]   # the rest of package asm is a table of its own, not reviewed
else:
    body = body[:body.rindex("].")]
head = '''(* Reviewed copy of the regenerated table Gen/Printers.v (data only; the term types are those of
   Gen/Printers.v).  Produced from the translator's output by tools/mkreviewed.py; changed only by hand, with the
   reason, when the code legitimately changes.  printers_match is the proof obligation that the code
   still is what was reviewed. *)
From Coq Require Import List String ZArith.
From LLIR Require Import Gen.Printers.
Import ListNotations.
Open Scope string_scope.
Definition reviewed_printers : list printer := ['''
tail = '''].

Theorem printers_match : printers = reviewed_printers.
Proof. reflexivity. Qed.
'''
open(os.path.join(V, "coq/theories/Reviewed/Printers.v"), "w").write(head + body + tail)
print("Reviewed/Printers.v rewritten")
