#!/usr/bin/env python3
"""./check <id> [--tier quick|thorough] [--replay file]

Legs (DESIGN.md section 2.2):
  G  regenerate coq/theories/Gen/*.v from /repo's working tree (translator)
  T  make the property's theorem file (full .vo build), audit forbidden vernacular, Print Assumptions
  C  correspondence: harness (implementation, -tags verif) vs extracted model (OCaml driver)
  S  property oracle on the implementation (always run; enlarged when G, T or C failed)
Exit 0 when everything held (KNOWN-FINDING lines for listed findings), exit 1 with a VIOLATION line otherwise.
"""
import fcntl
import hashlib
import json
import os
import re
import subprocess
import sys
import time

VERIF = os.path.dirname(os.path.dirname(os.path.abspath(__file__)))
REPO = os.environ.get("VERIF_REPO", "/repo")
COQ = os.path.join(VERIF, "coq")
BIN = os.path.join(VERIF, "bin")
GOENV = dict(os.environ, GOFLAGS="-mod=mod", GOPROXY="off", GOSUMDB="off", GOTOOLCHAIN="local",
             CGO_ENABLED=os.environ.get("CGO_ENABLED", "0"))

sys.path.insert(0, os.path.dirname(os.path.abspath(__file__)))
from props import PROPS, COMMON_TRUST  # noqa: E402

FORBIDDEN = re.compile(
    r"^\s*(Axiom|Axioms|Parameter|Parameters|Conjecture|Conjectures|Admitted|Admit Obligations|Hypothesis|Hypotheses|Variable|Variables)\b"
    r"|\badmit\b|Unset\s+Guard|Unset\s+Positivity|Unset\s+Universe|bypass_check|type-in-type|impredicative-set|native_compute")


def run(cmd, cwd=None, env=None, timeout=None, stdout=None):
    t0 = time.time()
    try:
        p = subprocess.run(cmd, cwd=cwd, env=env, timeout=timeout, stdout=stdout or subprocess.PIPE,
                           stderr=subprocess.STDOUT, text=True, errors="replace")
        return p.returncode, p.stdout or "", time.time() - t0
    except subprocess.TimeoutExpired as e:
        out = e.stdout if isinstance(e.stdout, str) else (e.stdout or b"").decode("utf-8", "replace")
        return 124, out + "\n[timeout]", time.time() - t0


class Lock:
    def __init__(self, name):
        os.makedirs(os.path.join(VERIF, ".work"), exist_ok=True)
        self.path = os.path.join(VERIF, ".work", name)

    def __enter__(self):
        self.f = open(self.path, "w")
        fcntl.flock(self.f, fcntl.LOCK_EX)
        return self

    def __exit__(self, *a):
        fcntl.flock(self.f, fcntl.LOCK_UN)
        self.f.close()


def repo_digest():
    h = hashlib.sha256()
    # the translator's own sources: a changed translator regenerates too
    trdir = os.path.join(VERIF, "translator")
    for f in sorted(os.listdir(trdir)):
        if f.endswith(".go"):
            with open(os.path.join(trdir, f), "rb") as fh:
                h.update(fh.read())
    for root, dirs, files in os.walk(REPO):
        dirs[:] = sorted(d for d in dirs if d not in (".git", "testdata", "node_modules"))
        for f in sorted(files):
            if f.endswith(".go") or f in ("go.mod", "go.sum"):
                p = os.path.join(root, f)
                h.update(p.encode())
                with open(p, "rb") as fh:
                    h.update(fh.read())
    return h.hexdigest()


# ---------------------------------------------------------------- leg G
def leg_generate(log):
    gen = os.path.join(COQ, "theories", "Gen")
    stamp = os.path.join(gen, ".stamp")
    digest = repo_digest()
    names = ["Enums", "Operands", "Locks", "MapLoops", "Ctors", "FieldFlow", "Formats", "Printers", "WriterTable"]
    if os.path.exists(stamp) and open(stamp).read().strip() == digest and all(
            os.path.exists(os.path.join(gen, n + ".v")) for n in names):
        return True, "unchanged sources (digest %s)" % digest[:12], 0.0
    tr = os.path.join(BIN, "translator")
    rc, out, dt = run(["go", "build", "-o", tr, "."], cwd=os.path.join(VERIF, "translator"), env=GOENV, timeout=600)
    if rc != 0:
        log.write(out)
        return False, "translator does not build: " + out[-400:], dt
    rc, out, dt2 = run([tr, REPO, gen], env=GOENV, timeout=600)
    log.write(out)
    if rc != 0:
        return False, "translator failed on the current sources: " + out[-600:], dt + dt2
    with open(stamp, "w") as f:
        f.write(digest)
    return True, "regenerated", dt + dt2


# ---------------------------------------------------------------- leg T
def ensure_makefile():
    mk = os.path.join(COQ, "Makefile")
    cp = os.path.join(COQ, "_CoqProject")
    if not os.path.exists(mk) or os.path.getmtime(mk) < os.path.getmtime(cp):
        run(["coq_makefile", "-f", "_CoqProject", "-o", "Makefile"], cwd=COQ)


def enclosing_statement(vfile, line):
    try:
        lines = open(os.path.join(COQ, vfile)).read().split("\n")
    except OSError:
        return None
    for i in range(min(line, len(lines)) - 1, -1, -1):
        m = re.match(r"\s*(Theorem|Lemma|Corollary|Example|Definition|Fact|Remark|Proposition)\s+([A-Za-z0-9_']+)", lines[i])
        if m:
            return m.group(2)
    return None


def leg_theorems(pid, log, tier):
    ensure_makefile()
    targets = PROPS[pid]["targets"]
    res = {"ok": True, "failed": [], "make_cmd": "", "wall_s": 0}
    cmd = ["make", "-j16"] + ["theories/" + t for t in targets]
    res["make_cmd"] = "cd coq && timeout 3000 " + " ".join(cmd)
    rc, out, dt = run(["timeout", "3000"] + cmd, cwd=COQ, timeout=3100)
    log.write(out)
    res["wall_s"] = dt
    if rc != 0:
        res["ok"] = False
        for m in re.finditer(r'File "\./(theories/[^"]+)", line (\d+), characters [^\n]*\n(Error:?[^\n]*(?:\n(?!make|File|COQC)[^\n]*){0,12})', out):
            vfile, line, msg = m.group(1), int(m.group(2)), m.group(3)
            res["failed"].append({"file": vfile, "line": line, "statement": enclosing_statement(vfile, line),
                                  "error": msg.strip()[:1500]})
        if not res["failed"]:
            res["failed"].append({"file": "?", "line": 0, "statement": None, "error": out[-1500:]})
    return res


def property_statements(pid):
    """names of the Theorem/Example statements in Properties/<pid>.v (+ any extra property files)"""
    names = []
    for f in PROPS[pid].get("property_files", ["Properties/%s.v" % pid]):
        src = open(os.path.join(COQ, "theories", f)).read()
        src = re.sub(r"\(\*.*?\*\)", "", src, flags=re.S)
        for m in re.finditer(r"^\s*(Theorem|Example|Corollary)\s+([A-Za-z0-9_']+)", src, flags=re.M):
            names.append((m.group(1), m.group(2)))
    return names


def audit_sources(pid, log):
    """forbidden vernacular anywhere in the hand-written development (generated data excluded from
    the word check only for string literals)"""
    bad = []
    for root, _, files in os.walk(os.path.join(COQ, "theories")):
        for f in files:
            if not f.endswith(".v"):
                continue
            p = os.path.join(root, f)
            src = open(p, errors="replace").read()
            src_nc = re.sub(r"\(\*.*?\*\)", lambda m: "\n" * m.group(0).count("\n"), src, flags=re.S)
            src_nc = re.sub(r'"[^"]*"', '""', src_nc)
            insec = 0
            for ln, line in enumerate(src_nc.split("\n"), 1):
                if re.match(r"\s*Section\b", line):
                    insec += 1
                if re.match(r"\s*End\b", line) and insec:
                    pass
                m = FORBIDDEN.search(line)
                if m:
                    word = m.group(0).strip()
                    if re.match(r"(Variable|Variables|Hypothesis|Hypotheses)$", word) and in_section(src_nc, ln):
                        continue
                    bad.append("%s:%d: %s" % (os.path.relpath(p, COQ), ln, line.strip()[:120]))
    for p in [os.path.join(COQ, "_CoqProject")]:
        s = open(p).read()
        if re.search(r"type-in-type|impredicative-set|-vos|-vok|bypass", s):
            bad.append("_CoqProject: forbidden flag")
    return bad


def in_section(src, ln):
    depth = 0
    names = []
    for i, line in enumerate(src.split("\n"), 1):
        if i >= ln:
            break
        m = re.match(r"\s*Section\s+(\w+)", line)
        if m:
            names.append(m.group(1))
            continue
        m = re.match(r"\s*End\s+(\w+)\s*\.", line)
        if m and names and names[-1] == m.group(1):
            names.pop()
    return len(names) > 0


ALLOWED_AXIOMS = set()  # none needed so far; any axiom printed is reported in the evidence and fails the leg unless listed here


def leg_assumptions(pid, work, log):
    stmts = property_statements(pid)
    mods = [f[:-2].replace("/", ".") for f in PROPS[pid].get("property_files", ["Properties/%s.v" % pid])]
    audit = os.path.join(work, "Audit_%s.v" % pid)
    with open(audit, "w") as f:
        for m in mods:
            f.write("From LLIR Require Import %s.\n" % m)
        for _, n in stmts:
            f.write('Print Assumptions %s.\n' % n)
    rc, out, dt = run(["timeout", "900", "coqc", "-Q", os.path.join(COQ, "theories"), "LLIR", audit], cwd=work, timeout=1000)
    log.write(out)
    results = []
    chunks = re.split(r"(?m)^(?=Closed under the global context|Axioms:)", out)
    chunks = [c for c in chunks if c.startswith("Closed under") or c.startswith("Axioms:")]
    ok = rc == 0 and len(chunks) == len(stmts)
    axioms_seen = []
    for (kind, n), c in zip(stmts, chunks):
        if c.startswith("Closed under"):
            results.append({"statement": n, "kind": kind, "assumptions": "Closed under the global context"})
        else:
            ax = [l.split(":")[0].strip() for l in c.split("\n")[1:] if re.match(r"^\S+\s*:", l)]
            axioms_seen += ax
            results.append({"statement": n, "kind": kind, "assumptions": ax})
            if not set(ax) <= ALLOWED_AXIOMS:
                ok = False
    return ok, results, sorted(set(axioms_seen)), dt, (out[-800:] if rc != 0 else "")


def leg_coqchk(pid, log):
    mods = ["LLIR." + f[:-2].replace("/", ".") for f in PROPS[pid].get("property_files", ["Properties/%s.v" % pid])]
    cmd = ["timeout", "3000", "coqchk", "-silent", "-o", "-Q", "theories", "LLIR"] + mods
    rc, out, dt = run(cmd, cwd=COQ, timeout=3100)
    log.write(out)
    return rc == 0, " ".join(cmd), out[-1200:], dt


# ---------------------------------------------------------------- leg C / S
def build_harness(log):
    rc, out, dt = run(["go", "build", "-tags", "verif", "-o", os.path.join(BIN, "harness"), "."],
                      cwd=os.path.join(VERIF, "harness"), env=GOENV, timeout=900)
    log.write(out)
    if rc == 0 and pid_needs_race[0]:
        env = dict(GOENV, CGO_ENABLED="1")
        rc, out2, dt2 = run(["go", "build", "-race", "-tags", "verif", "-o", os.path.join(BIN, "harness-race"), "."],
                            cwd=os.path.join(VERIF, "harness"), env=env, timeout=1800)
        log.write(out2)
        out, dt = out + out2, dt + dt2
    return rc == 0, out[-1500:], dt


pid_needs_race = [False]


def build_driver(log):
    """the OCaml driver only depends on hand-written models; rebuild when they are newer"""
    drv = os.path.join(BIN, "driver")
    srcs = [os.path.join(VERIF, "driver", f) for f in ("Extract.v", "main.ml")]
    newest = max(os.path.getmtime(s) for s in srcs)
    for root, _, files in os.walk(os.path.join(COQ, "theories")):
        if os.path.basename(root) in ("Gen", "Reviewed", "Properties"):
            continue
        for f in files:
            if f.endswith(".vo"):
                newest = max(newest, os.path.getmtime(os.path.join(root, f)))
    if os.path.exists(drv) and os.path.getmtime(drv) >= newest:
        return True, "", 0.0
    rc, out, dt = run(["sh", os.path.join(VERIF, "driver", "build.sh")], timeout=1200)
    log.write(out)
    return rc == 0, out[-1500:], dt


def parse_cases(path):
    cases, fails, passes, stats, samples, nontriv = [], [], {}, {}, [], 0
    with open(path, errors="replace") as f:
        for ln, line in enumerate(f, 1):
            line = line.rstrip("\n")
            t = line.split("\t")
            if t[0] == "C":
                bar = t.index("|")
                cases.append((ln, t[1], t[2:bar], t[bar + 1:]))
            elif t[0] == "O":
                try:
                    det = json.loads(t[4])
                except Exception:
                    det = {"raw": t[4]}
                fails.append({"oracle": t[1], "class": t[2], "failkind": t[3], "detail": det})
            elif t[0] == "P":
                passes[t[1]] = int(t[2])
            elif t[0] == "S":
                stats[t[1]] = int(t[2])
            elif t[0] == "X":
                try:
                    samples.append(json.loads(t[1]))
                except Exception:
                    samples.append(t[1])
            elif t[0] == "N":
                nontriv = int(t[1])
    return cases, fails, passes, stats, samples, nontriv


def leg_correspondence(pid, work, tier, seed, log, search=False, replay=None):
    cases_path = os.path.join(work, "cases.tsv")
    cmd = [os.path.join(BIN, "harness"), pid, "-seed", str(seed), "-tier", tier, "-out", cases_path,
           "-corpus", os.path.join(VERIF, "corpus", pid)]
    if search:
        cmd.append("-search")
    if replay:
        cmd += ["-replay", replay]
    limit = PROPS[pid].get("harness_timeout", 600) * (6 if tier == "thorough" else 1)
    rc, out, dt = run(cmd, cwd=work, env=GOENV, timeout=limit)
    log.write(out)
    res = {"harness_cmd": " ".join(cmd), "harness_s": dt, "ok": True, "mismatches": [], "harness_rc": rc,
           "harness_out": out[-3000:]}
    if rc != 0:
        res["ok"] = False
        res["error"] = "harness exited with %d: %s" % (rc, out[-1200:])
        return res, [], [], {}, {}, [], 0
    cases, fails, passes, stats, samples, nontriv = parse_cases(cases_path)
    model_path = os.path.join(work, "model.tsv")
    if cases:
        with open(model_path, "w") as mf:
            rc, out2, dt2 = run([os.path.join(BIN, "driver"), cases_path], cwd=work, stdout=mf, timeout=limit)
        res["driver_s"] = dt2
        if rc != 0:
            res["ok"] = False
            res["error"] = "model driver exited with %d" % rc
            return res, cases, fails, passes, stats, samples, nontriv
        model = {}
        with open(model_path, errors="replace") as f:
            for line in f:
                t = line.rstrip("\n").split("\t")
                model[int(t[0])] = t[1:]
        for ln, kind, ins, outs in cases:
            mo = model.get(ln)
            if mo != outs:
                res["mismatches"].append({"line": ln, "kind": kind, "in": ins, "impl": outs, "model": mo})
        if res["mismatches"]:
            res["ok"] = False
    res["agreed"] = len(cases) - len(res["mismatches"])
    return res, cases, fails, passes, stats, samples, nontriv


# ---------------------------------------------------------------- leg "dump"
def file_hash(p):
    try:
        return hashlib.sha256(open(p, "rb").read()).hexdigest()
    except OSError:
        return "-"


def leg_dump(pid, work, tier, seed, log):
    """object-dump correspondence: Go IR objects of the corpus are written as GoEval values together with
    what the implementation's LLString / Ident / String / Type return; the regenerated bodies of
    Gen/Printers.v are run on them inside Coq (vm_compute).  The result is cached per state of /repo,
    Gen/Printers.v, GoEval.v and the harness."""
    key = hashlib.sha256((repo_digest() + file_hash(os.path.join(COQ, "theories/Gen/Printers.v")) +
                          file_hash(os.path.join(COQ, "theories/Model/GoEval.v")) +
                          file_hash(os.path.join(VERIF, "harness/dump.go"))).encode()).hexdigest()[:24]
    d = os.path.join(VERIF, ".work", "dump")
    os.makedirs(d, exist_ok=True)
    cache = os.path.join(d, key + ".json")
    if os.path.exists(cache):
        r = json.load(open(cache))
        r["cached"] = True
        return r
    t0 = time.time()
    # GoEval and the printers must be compiled and consistent
    rc, out, _ = run(["timeout", "3000", "make", "-j16", "theories/Model/GoEval.vo"], cwd=COQ, timeout=3100)
    log.write(out)
    cases = os.path.join(d, "cases_%s.v" % key)
    rc1, out1, _ = run([os.path.join(BIN, "harness"), "DUMP", "/verif/corpus/modules,/repo/asm/testdata", cases], env=GOENV, timeout=600)
    log.write(out1)
    res = {"name": "dump", "leg": "C", "ok": False, "what": "object-dump correspondence", "obligations": 1, "discharged": 0}
    if rc != 0 or rc1 != 0:
        res["what"] = "object dump could not be produced: " + (out + out1)[-400:]
        return res
    rc2, out2, dt = run(["timeout", "1500", "coqc", "-Q", os.path.join(COQ, "theories"), "LLIR", cases], cwd=d, timeout=1600)
    log.write(out2)
    m = re.search(r"summary\s*=\s*\((\d+),\s*(\d+),\s*(\d+)\)", out2)
    for ext in (".vo", ".vok", ".vos", ".glob"):
        try:
            os.remove(cases[:-2] + ext)
        except OSError:
            pass
    try:
        os.remove(os.path.join(d, ".cases_%s.aux" % key))
    except OSError:
        pass
    if rc2 != 0 or not m:
        res["what"] = "the regenerated bodies could not be run on the dumped objects: " + out2[-600:]
        return res
    n, nbad, ndiff = int(m.group(1)), int(m.group(2)), int(m.group(3))
    dm = re.search(r"diffs\s*=\s*(.*?)\n\s*:\s*list", out2, re.S)
    res.update({"objects": n, "evaluator_gaps": nbad - ndiff, "differences": ndiff, "wall_s": round(time.time() - t0, 1),
                "ok": ndiff == 0, "discharged": 1 if ndiff == 0 else 0,
                "what": "regenerated printers / Type() methods run in Coq differ from the implementation on %d of %d dumped objects" % (ndiff, n),
                "detail": (dm.group(1)[:1500] if dm and ndiff else "")})
    os.remove(cases)
    json.dump(res, open(cache, "w"))
    return res


EXTRA_LEGS = {"dump": leg_dump}


# ---------------------------------------------------------------- known findings
def known_findings(pid):
    known, fixed = {}, []
    p = os.path.join(VERIF, "known_findings.txt")
    if not os.path.exists(p):
        return known, fixed
    for line in open(p):
        line = line.strip()
        if not line or line.startswith("#"):
            continue
        m = re.match(r"known:\s+property=(\S+)\s+id=(\S+)\s+class=(\S+)\s+(.*)", line)
        if m and pid in m.group(1).split(","):
            known[m.group(3)] = {"id": m.group(2), "what": m.group(4)}
        m = re.match(r"fixed:\s+property=(\S+)\s+(.*)", line)
        if m and pid in m.group(1).split(","):
            fixed.append(m.group(2))
    return known, fixed


# ---------------------------------------------------------------- main
def write_replay(pid, n, obj):
    d = os.path.join(VERIF, "replays")
    os.makedirs(d, exist_ok=True)
    p = os.path.join(d, "%s-%d.json" % (pid, n))
    with open(p, "w") as f:
        json.dump(obj, f, indent=1, sort_keys=True)
    return p


def main():
    args = sys.argv[1:]
    if not args or args[0] not in PROPS:
        print("usage: check <id> [--tier quick|thorough] [--replay file]; ids: " + " ".join(sorted(PROPS)))
        sys.exit(2)
    pid = args[0]
    tier = os.environ.get("VERIF_TIER", "quick")
    replay = None
    i = 1
    while i < len(args):
        if args[i] == "--tier":
            tier = args[i + 1]
            i += 2
        elif args[i] == "--replay":
            replay = os.path.abspath(args[i + 1])
            i += 2
        else:
            i += 1
    if tier not in ("quick", "thorough"):
        tier = "quick"
    try:
        seed = int(os.environ.get("VERIF_SEED", "1"))
    except ValueError:
        seed = 1
    t0 = time.time()
    work = os.path.join(VERIF, ".work", pid)
    os.makedirs(work, exist_ok=True)
    os.makedirs(BIN, exist_ok=True)
    log = open(os.path.join(work, "check.log"), "w")
    prop = PROPS[pid]
    pid_needs_race[0] = bool(prop.get("race_binary"))
    broken = []  # (leg, description, detail)
    legs = {}

    with Lock("build.lock"):
        okG, msgG, dtG = leg_generate(log)
        legs["G"] = {"ok": okG, "note": msgG, "wall_s": round(dtG, 2)}
        if not okG:
            broken.append(("G", "translator could not regenerate the model from the current sources", msgG))
        T = leg_theorems(pid, log, tier)
        legs["T"] = {"ok": T["ok"], "wall_s": round(T["wall_s"], 2), "cmd": T["make_cmd"]}
        for fl in T["failed"]:
            broken.append(("T", "proof obligation no longer checks: %s (%s:%d)" % (fl["statement"], fl["file"], fl["line"]), fl))
        bad = audit_sources(pid, log)
        legs["audit"] = {"ok": not bad, "hits": bad}
        for b in bad:
            broken.append(("T", "forbidden vernacular: " + b, b))
        stmts = property_statements(pid)
        assum, axioms = [], []
        if T["ok"]:
            okA, assum, axioms, dtA, errA = leg_assumptions(pid, work, log)
            legs["assumptions"] = {"ok": okA, "wall_s": round(dtA, 2), "axioms": axioms}
            if not okA:
                broken.append(("T", "Print Assumptions failed or reported an axiom outside the allow-list", errA or axioms))
        chk = None
        if tier == "thorough" and T["ok"] and not os.environ.get("VERIF_NO_COQCHK"):
            okK, cmdK, outK, dtK = leg_coqchk(pid, log)
            chk = {"ok": okK, "cmd": cmdK, "tail": outK, "wall_s": round(dtK, 1)}
            legs["coqchk"] = chk
            if not okK:
                broken.append(("T", "coqchk rejected the compiled property files", outK))
        okH, errH, dtH = build_harness(log)
        legs["build_harness"] = {"ok": okH, "wall_s": round(dtH, 2)}
        if not okH:
            broken.append(("C", "the harness does not build against the current sources", errH))
        okD, errD, dtD = build_driver(log) if T["ok"] else (os.path.exists(os.path.join(BIN, "driver")), "", 0)
        if not okD:
            broken.append(("C", "the model driver does not build", errD))
        extra = prop.get("extra_legs")
        extra_res = []
        if extra and T["ok"] and okH:
            for name in extra:
                fn = EXTRA_LEGS[name]
                r = fn(pid, work, tier, seed, log)
                extra_res.append(r)
                legs[r["name"]] = r
                if not r["ok"]:
                    broken.append((r.get("leg", "T"), r["what"], r.get("detail")))

    C, cases, fails, passes, stats, samples, nontriv = ({"ok": False}, [], [], {}, {}, [], 0)
    if okH and okD:
        C, cases, fails, passes, stats, samples, nontriv = leg_correspondence(pid, work, tier, seed, log, replay=replay)
        legs["C"] = {k: v for k, v in C.items() if k not in ("mismatches", "harness_out")}
        legs["C"]["mismatches"] = len(C.get("mismatches", []))
        if not C["ok"]:
            if C.get("error"):
                broken.append(("C", C["error"], C.get("harness_out", "")))
            for mm in C.get("mismatches", [])[:5]:
                broken.append(("C", "model and implementation disagree on %s" % mm["kind"], mm))
        if broken and not replay:
            # search leg: a larger oracle stream on the implementation
            os.makedirs(work + "-search", exist_ok=True)
            C2, _, fails2, passes2, _, _, _ = leg_correspondence(pid, work + "-search", tier, seed + 1, log, search=True)
            legs["S"] = {"ran": True, "oracle_failures": len(fails2 or [])}
            fails = fails + (fails2 or [])
            for k, v in (passes2 or {}).items():
                passes[k] = passes.get(k, 0) + v

    # ---- verdict
    known, fixed = known_findings(pid)
    by_class = {}
    unattributed = []
    for fl in fails:
        if fl["class"] != "-" and fl["class"] in known:
            by_class.setdefault(fl["class"], []).append(fl)
        else:
            unattributed.append(fl)
    violations = []
    nrep = 0
    unattributed.sort(key=lambda f: len(json.dumps(f["detail"])))
    for fl in unattributed[:3]:
        nrep += 1
        path = write_replay(pid, nrep, dict(fl, property=pid, kind="failing-input",
                                            broken_legs=[b[1] for b in broken],
                                            replay_cmd="./check %s --replay <this file>" % pid))
        violations.append("VIOLATION property=%s replay=%s" % (pid, path))
    if not unattributed and broken:
        nrep += 1
        path = write_replay(pid, nrep, {"property": pid, "kind": "no-failing-input-found",
                                        "no_longer_checks": [{"leg": b[0], "what": b[1], "detail": b[2]} for b in broken],
                                        "searched": {"oracle_passes": passes, "cases": len(cases)}})
        violations.append("VIOLATION property=%s replay=%s no-failing-input-found" % (pid, path))

    kf_lines = []
    for cls, fl in sorted(by_class.items()):
        k = known[cls]
        kf_lines.append("KNOWN-FINDING: property=%s %s class=%s %s [%d failing input(s) this run, e.g. %s]" % (
            pid, k["id"], cls, k["what"], len(fl), json.dumps(fl[0]["detail"])[:200]))

    # ---- evidence
    n_stmt = len(stmts)
    discharged = 0
    if T["ok"]:
        discharged = sum(1 for a in assum if a["assumptions"] == "Closed under the global context" or
                         set(a["assumptions"]) <= ALLOWED_AXIOMS)
    extra_obl = sum(r.get("obligations", 0) for r in extra_res)
    extra_dis = sum(r.get("discharged", 0) for r in extra_res)
    audit_obl = 1
    audit_dis = 1 if not bad else 0
    ev = {
        "property_id": pid, "tier": tier, "seed": seed, "level": "proof",
        "coverage": {
            "obligations": n_stmt + audit_obl + extra_obl,
            "discharged": discharged + audit_dis + extra_dis,
            "checker_cmd": T["make_cmd"] + " ; coqc Audit_%s.v (Print Assumptions of every statement)" % pid +
                           ((" ; " + chk["cmd"]) if chk else ""),
            "trusted_base": COMMON_TRUST + prop.get("trusted", []) + ["axioms reported by Print Assumptions in this run: " + (", ".join(axioms) if axioms else "none")],
            "theorems": assum,
            "open_statements": prop.get("open_statements", []),
            "legs": legs,
            "traces_validated_against_impl": (C.get("agreed", 0) if isinstance(C, dict) else 0) +
                                             sum(max(0, r.get("objects", 0) - r.get("differences", 0)) for r in extra_res),
            "evaluations": len(cases) + sum(passes.values()) + len(fails),
            "distinct_nontrivial": nontriv,
            "rule": prop.get("rule", ""),
            "distribution": stats,
            "oracle_passes": passes,
            "oracle_failures": len(fails),
            "samples": samples[:12] or [{"note": "no generated cases in this run"}],
            "known_findings_replayed": [l for l in kf_lines],
            "fixed_findings": fixed,
            "explanation": prop.get("explanation", ""),
        },
        "assumptions": prop.get("assumptions", []),
        "wall_s": round(time.time() - t0, 2),
        "violations": len(violations),
    }
    os.makedirs(os.path.join(VERIF, "evidence"), exist_ok=True)
    evp = os.path.join(VERIF, "evidence", pid + ".json")
    with open(evp + ".tmp", "w") as f:
        json.dump(ev, f, indent=1, sort_keys=True)
    os.replace(evp + ".tmp", evp)

    for l in kf_lines:
        print(l)
    print("check %s tier=%s seed=%d: statements %d/%d closed, correspondence %d/%d agreed, oracle passes %d failures %d (known %d), %.1fs" % (
        pid, tier, seed, discharged, n_stmt, C.get("agreed", 0) if isinstance(C, dict) else 0, len(cases),
        sum(passes.values()), len(fails), sum(len(v) for v in by_class.values()), time.time() - t0))
    for b in broken:
        print("BROKEN leg %s: %s" % (b[0], b[1]))
    for v in violations:
        print(v)
    log.close()
    sys.exit(1 if violations else 0)


if __name__ == "__main__":
    main()
