#!/usr/bin/env python3
"""writes /verif/MANIFEST.json from tools/props.py (claimed checks) and properties.jsonl (the rest -> not_applicable)"""
import json, os, sys
sys.path.insert(0, os.path.dirname(os.path.abspath(__file__)))
from props import PROPS, COMMON_TRUST
V = os.path.dirname(os.path.dirname(os.path.abspath(__file__)))
ids = [json.loads(l)["id"] for l in open(os.path.join(V, "properties.jsonl"))]
checks, na = [], []
for i in ids:
    if i in PROPS and PROPS[i].get("claimed", True):
        p = PROPS[i]
        checks.append({
            "property_id": i,
            "quick_cmd": "./check %s --tier quick" % i,
            "thorough_cmd": "./check %s --tier thorough" % i,
            "evidence_file": "/verif/evidence/%s.json" % i,
            "replay_cmd_template": "./check %s --replay {path}" % i,
            "engine": "coq-proof+correspondence",
            "level_claimed": {"category": "proof", "text": p["level_text"], "design_ref": p.get("design_ref", "DESIGN.md section 4 (%s)" % i)},
            "level_note": p["level_note"],
            "technique": p.get("technique", "machine-checked proof in Coq 8.16 over an executable model; model tied to the code by regeneration and differential correspondence"),
        })
    else:
        na.append({"property_id": i, "reason": PROPS.get(i, {}).get("na_reason", "check not built yet in this development (model and theorems are staged, see DESIGN.md); not claimed until ./check runs it end to end")})
m = {
    "version": 1,
    "setup_cmd": "sh ./setup.sh",
    "hooks": {
        "guard": "verif",
        "enable": "go build -tags verif (package github.com/llir/llvm/verifhook: wrappers around internal/enc, internal/natsort, internal/gep)",
        "baseline_off_cmd": "cd /repo && GOFLAGS=-mod=mod GOPROXY=off go test -vet=off -count=1 ./...",
        "source_commits": json.load(open(os.path.join(V, "tools", "hook_commits.json"))),
        "add_only": True,
    },
    "engines": [{"name": "coq-proof+correspondence", "path": "/verif/check",
                 "serves_properties": [c["property_id"] for c in checks],
                 "kind_free_text": "Coq 8.16.1 theorems over executable models; Gen/*.v regenerated from /repo by translator/ on every run; extracted OCaml model vs Go harness (-tags verif) differential correspondence; property oracles on the implementation for the failing-input search"}],
    "checks": checks,
    "not_applicable": na,
    "notes": "Every check: leg G regenerate, leg T make + audit + Print Assumptions, leg C correspondence, leg S oracle search. See DESIGN.md.",
}
json.dump(m, open(os.path.join(V, "MANIFEST.json"), "w"), indent=1)
print("claimed:", [c["property_id"] for c in checks])
