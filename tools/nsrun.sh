#!/bin/sh
# tools/nsrun.sh <tag> <command...>  -- runs a command with private copies of /repo and /verif mounted over the real
# paths (mount namespace, needs root); the copies are removed afterwards.  Output goes to stdout.
tag="$1"; shift
root=/tmp/nsrun/$tag-$$
mkdir -p $root/repo $root/verif
rsync -a /repo/ $root/repo/
rsync -a --exclude .git --exclude replays /verif/ $root/verif/
mkdir -p $root/verif/replays
unshare -m sh -c "mount --bind $root/repo /repo && mount --bind $root/verif /verif && cd /verif && $*"
rc=$?
rm -rf $root
exit $rc
