#!/usr/bin/env python3
# tools/mkseedtable.py -- rewrites the table of DESIGN.md 11.5 (between the SEEDTABLE markers) from seeded/*/meta.json
import json, glob, os, re
root = os.path.dirname(os.path.dirname(os.path.abspath(__file__)))
rows = []
for f in sorted(glob.glob(os.path.join(root, "seeded", "*", "meta.json"))):
    m = json.load(open(f))
    rows.append("| `seeded/%s` | %s | %s | %s |" % (m["name"], ", ".join(m["breaks"]),
        m["needs_to_manifest"].replace("|", "\\|"), m["detected"].replace("|", "\\|")))
table = "| change | breaks | needs | detected by |\n|---|---|---|---|\n" + "\n".join(rows) + "\n"
p = os.path.join(root, "DESIGN.md")
s = open(p).read()
b, e = "<!-- SEEDTABLE-BEGIN -->\n", "<!-- SEEDTABLE-END -->\n"
i, j = s.index(b), s.index(e)
s = s[:i + len(b)] + table + s[j:]
open(p, "w").write(s)
print("%d seeded changes" % len(rows))
