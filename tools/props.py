"""Per-property configuration of ./check: which theorem files are built, what the harness stream is,
what is trusted.  DESIGN.md section 4 describes each property's model and theorems."""

COMMON_TRUST = [
    "Coq 8.16.1 kernel and coqc; vm_compute for finite-table theorems; native_compute not used",
    "no Axiom/Parameter/Admitted in the development (source audit on every run); Print Assumptions of every property statement parsed on every run",
    "translator/ (Go, stdlib go/ast+go/types): trusted to report what the sources say; fails on unknown shapes",
    "Model/GoEval.v: meaning of the regenerated Go fragment (validated by the object-dump correspondence)",
    "extraction: ExtrOcamlBasic only (bool, option, unit, list, prod, sumbool, sumor); N, Z, positive, nat, byte stay inductive; OCaml 4.13.1 and driver/main.ml",
    "harness/ (Go): generators, oracles, reflective dumper; hooks: /repo/verifhook (build tag verif)",
]

PROPS = {
    "C20": {
        "targets": ["Properties/C20.vo"],
        "level_text": "proof: natsort.Less (model of the Go loop) is a strict total order on all byte strings comparing digit runs by value; the assembled/printed order of every sorted category is independent of input order and of the sort used (theorems, unbounded). Tie to the code: differential runs of Less/Strings through the verif hook, printed order of parsed modules under permutation, regenerated printer table (the one map range).",
        "level_note": "trusted: Coq kernel, the hand model of natsort.Less and of step 8 of the translator (tied by correspondence, not proved from the Go source), sort.Sort's contract as a hypothesis, harness generators",
        "rule": "a case is one (a,b) pair for Less, one slice for Strings, or one module with three permutations of its top-level definitions; "
                "non-trivial = distinct pair/module drawn from the digit-heavy generators (pairs of the exhaustive small universe and random pairs counted once each)",
        "trusted": [
            "sort.Sort is a section hypothesis: returns a sorted permutation of its input (sort_ok), satisfiable by isort_ok",
            "a Go map is modelled as a duplicate-free association list in its iteration order",
        ],
        "assumptions": ["module generator uses names that need no quoting (escaping is C11)"],
        "open_statements": ["string-level corollary less_numeric (p++a++r vs p++b++r') is checked by the numeric oracle; the theorem is stated on tokens (C20_digit_runs_by_value + C20_tokens_well_formed)"],
        "explanation": "order theorems for all byte strings over the model of natsort.Less; the model is tied to the code by differential runs through the verif hook and by the printed order of parsed modules",
    },
}
