"""Per-property configuration of ./check: which theorem files are built, what the harness stream is,
what is trusted.  DESIGN.md section 4 describes each property's model and theorems."""

COMMON_TRUST = [
    "Coq 8.16.1 kernel and coqc; vm_compute for finite-table theorems; native_compute not used",
    "no Axiom/Parameter/Admitted in the development (source audit on every run); Print Assumptions of every property statement parsed on every run",
    "translator/ (Go, stdlib go/ast+go/types): trusted to report what the sources say; fails on unknown shapes",
    "Model/GoEval.v: meaning of the regenerated Go fragment (validated by the object-dump correspondence)",
    "extraction: ExtrOcamlBasic only (bool, option, unit, list, prod, sumbool, sumor); N, Z, positive, nat, byte stay inductive; OCaml 4.13.1 and driver/main.ml",
    "harness/ (Go): generators, oracles, reflective dumper; hooks: /repo/verifhook (build tag verif)",
]

PROPS = {
    "C20": {
        "targets": ["Properties/C20.vo"],
        "level_text": "proof: natsort.Less (model of the Go loop) is a strict total order on all byte strings comparing digit runs by value; the assembled/printed order of every sorted category is independent of input order and of the sort used (theorems, unbounded). Tie to the code: differential runs of Less/Strings through the verif hook, printed order of parsed modules under permutation, regenerated printer table (the one map range).",
        "level_note": "trusted: Coq kernel, the hand model of natsort.Less and of step 8 of the translator (tied by correspondence, not proved from the Go source), sort.Sort's contract as a hypothesis, harness generators",
        "rule": "a case is one (a,b) pair for Less, one slice for Strings, or one module with three permutations of its top-level definitions; "
                "non-trivial = distinct pair/module drawn from the digit-heavy generators (pairs of the exhaustive small universe and random pairs counted once each)",
        "trusted": [
            "sort.Sort is a section hypothesis: returns a sorted permutation of its input (sort_ok), satisfiable by isort_ok",
            "a Go map is modelled as a duplicate-free association list in its iteration order",
        ],
        "assumptions": ["module generator uses names that need no quoting (escaping is C11)"],
        "open_statements": ["string-level corollary less_numeric (p++a++r vs p++b++r') is checked by the numeric oracle; the theorem is stated on tokens (C20_digit_runs_by_value + C20_tokens_well_formed)"],
        "explanation": "order theorems for all byte strings over the model of natsort.Less; the model is tied to the code by differential runs through the verif hook and by the printed order of parsed modules",
    },
    "C19": {
        "targets": ["Properties/C19.vo"],
        "level_text": "proof: for every chunk sequence (also one that depends on the bytes accepted so far, as WriteTo's separators do) and every writer obeying io.Writer, the reported count is the number of bytes delivered, the delivered bytes are the first count bytes of String(), the first error latches and nothing is written after it (unbounded theorems). Tie: the regenerated body of Module.WriteTo writes only through fw chunks (theorem over Gen/Printers.v); differential runs of WriteTo under writers failing at byte offset k against the extracted model; property oracle on the implementation at every chunk boundary +-1 and random offsets (every offset in the thorough tier).",
        "level_note": "trusted: Coq kernel; fmtWriter/WriteTo chunk discipline is a hand model tied by correspondence; package fmt issues one Write per Fprint* call (hypothesis, observed by the chunk recorder); io.Writer contract is the theorem's hypothesis",
        "rule": "a case is one (module, failure offset k); non-trivial = distinct (module digest, k); modules: repository testdata, generated modules with random subsets of the header/definition sections, empty and header-only constructed modules",
        "trusted": ["package fmt performs one Write per Fprint*/Fprintf/Fprintln call", "io.Writer contract: n <= len(p), n < len(p) implies err != nil"],
        "assumptions": ["writers obey the io.Writer contract; a short write without error loses bytes (boundary of the claim)"],
        "open_statements": [],
        "explanation": "unbounded theorem over chunk sequences and writers; chunk sequences of real modules are observed and replayed through the extracted model",
    },
    "C18": {
        "targets": ["Properties/C18.vo"],
        "level_text": "proof (finite, over the tables regenerated on every run from the 35 stringer / string2enum pairs and the declared constants): every declared value prints to a keyword that the parser-side converter maps back to the same value, and no two values of a type share a keyword; numeric calling conventions on the regenerated asm.irCallingConv body. Tie: regeneration + differential runs of every String()/FromString against the extracted tables, keywords through parse/print of minimal modules, flag sets (DIFlag, DISPFlag, AllocKind) on random subsets and all pairs through parse/print.",
        "level_note": "trusted: Coq kernel; the translator's reading of the four stringer layouts (cross-checked by the differential run of all 653 keywords); the unbounded flag-subset statement is checked by the oracle on subsets, not yet a theorem",
        "rule": "a case is one (type, value) keyword, one keyword through a minimal module, or one flag set; non-trivial = distinct (type, value) or distinct (family, flag value)",
        "trusted": ["go/types constant evaluation of the declared enum constants"],
        "assumptions": [],
        "open_statements": ["for every subset S of the flag members: irDIFlags(split(diFlagsString(OR S))) = OR S (induction over the bit list) -- currently sampled by the flag_set oracle (random subsets, all singletons and pairs)"],
        "explanation": "finite theorem over regenerated tables; the bound is the table",
    },
    "C09": {
        "targets": ["Properties/C09.vo"],
        "level_text": "proof: for every width other than 1, every integer and every decimal-versus-hex choice function, the literal Ident produces parses back to exactly the value (so retuning the entropy heuristic cannot break it); i1 on {0,1}; u0x denotes the hexadecimal value, s0x the two's complement by the type width, decimal the signed value (unbounded theorems over the model of NewIntFromString/Ident). The model refutes totality on i1 (value -1, KF-05). Tie: differential runs of NewIntFromString and Ident on exhaustive small widths, boundary values of many widths up to i4099, random and entropy-straddling values; the implementation's own hex/decimal choice is fed to the model as the choice function.",
        "level_note": "trusted: Coq kernel; hand model of const_int.go tied by correspondence; math/big text conversion behaves as decimal/hexadecimal positional notation (validated by the same runs); the entropy heuristic itself is not modelled -- the theorem holds for every choice",
        "rule": "a case is one (width, value) pushed through Ident and back and through every notation; non-trivial = distinct (width, value)",
        "trusted": ["math/big SetString/Text are positional notation in base 10 and 16"],
        "assumptions": [],
        "open_statements": [],
        "explanation": "",
    },
    "C11": {
        "targets": ["Properties/C11.vo"],
        "level_text": "proof: Unescape after EscapeString, Unquote after Quote and after EscapeIdent are the identity on every byte string; for each identifier position the library decodes what it prints to Name n (global, local, label, comdat, metadata; type names unless they look like an integer), IDs decode as IDs, a printed name is never read as an ID nor an ID as a name, distinct names print differently, and LLVM's lexer (a Coq specification of LexVar/LexUIntID) reads the same bytes -- all for names outside the stated, decidable defect classes, each of which has a _refuted theorem and is a listed known finding. Tie: in the regenerated printer bodies no name field is printed raw (theorem over Gen/Printers.v); every encoder runs through the verif hook against the extracted model on all 1-byte names, a lattice of 2-byte names and random names; names are pushed through construct/print/parse in nine identifier and nine string positions.",
        "level_note": "trusted: Coq kernel; hand model of internal/enc and of the decoders in asm/helper.go (tied by correspondence); the llir/ll lexer is external: its acceptance of the printed token is observed by the round-trip oracle, not modelled; Model/Lexical.v is a hand-written specification of LLVM's lexer",
        "rule": "a case is one (position, name) round trip or one encoder call; non-trivial = distinct (position, name); names are drawn from eight generators (identifier-like, digits, quotes/backslashes/escape-like, high bytes, control bytes, signed digits, arbitrary bytes) plus a fixed corpus of boundary names",
        "trusted": ["strconv.ParseInt/ParseUint accept [+-]?[0-9]+ in range (modelled exactly, incl. the range limit)"],
        "assumptions": ["names are non-empty and NUL-free in identifier positions (NUL only in character arrays)"],
        "open_statements": [],
        "explanation": "",
    },
    "C16": {
        "targets": ["Properties/C16.vo"],
        "level_text": "proof: types.Equal as implemented (pointer case by printed strings, identified structs by name) holds exactly of structurally identical type trees, hence is reflexive, symmetric, transitive and distinguishes any single-attribute difference; String is injective and a printed type parses back to itself (unbounded, structural induction; termination on recursive types is the guard condition because recursion goes through names). Tie by proof to the source: the regenerated String/LLString methods compute ty_string for every type, the regenerated Equal methods compute equal_go for every loop-free type against every type. Tie by correspondence: Equal and String on generated universes of types (all kinds, address spaces, scalable vectors, packed/literal/identified/recursive structs, variadic functions) against the extracted model; oracles for reflexivity, symmetry, transitivity, mutants and print/parse on the implementation.",
        "level_note": "trusted: Coq kernel; translator + GoEval for the regenerated methods; universe assumption of the property (names unique, only structs named); literal structs and function types of the regenerated Equal are covered by correspondence and a 961-pair computation, not yet by the unbounded refinement",
        "rule": "a case is one type (String) or one ordered pair (Equal); non-trivial = distinct type encodings in the generated universe; mutants differ in exactly one attribute",
        "trusted": [],
        "assumptions": ["type names are unique and only struct types are named (LLVM's data model, stated in the property)"],
        "open_statements": ["generated_equal_is_equal_go for literal structs and function types (index loop with early return)"],
        "explanation": "",
    },
}
