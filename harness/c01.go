package main

// C01: parse then print preserves the meaning of every accepted module.
// C02: printed output is a fixpoint of parse and print.
// C03: IR built through the constructors prints to valid, faithful LLVM assembly.

import (
	"fmt"
	"math"
	"math/big"
	"os"
	"os/exec"
	"path/filepath"
	"reflect"
	"regexp"
	"sort"
	"strconv"
	"strings"

	"github.com/llir/llvm/ir"
	"github.com/llir/llvm/ir/constant"
	"github.com/llir/llvm/ir/enum"
	"github.com/llir/llvm/ir/metadata"
	"github.com/llir/llvm/ir/types"
	"github.com/llir/llvm/ir/value"
	"github.com/llir/llvm/verifhook"
)

func init() {
	props["C01"] = runC01
	props["C02"] = runC02
	props["C03"] = runC03
}

type rtInput struct {
	name  string
	src   string
	class string // declared class of a known-finding witness ("; class=..." on the first line), or ""
	kind  string
}

var reClassLine = regexp.MustCompile(`^; class=([a-z0-9_]+)`)

func rtInputs(c *config, stream string, ngen int) []rtInput {
	var ins []rtInput
	add := func(kind, name, src string) {
		cls := ""
		if m := reClassLine.FindStringSubmatch(src); m != nil {
			cls = m[1]
		}
		ins = append(ins, rtInput{name: name, src: src, class: cls, kind: kind})
	}
	for _, dir := range []string{"/verif/corpus/known", "/verif/corpus/modules", "/repo/asm/testdata"} {
		files, _ := filepath.Glob(filepath.Join(dir, "*.ll"))
		sort.Strings(files)
		for _, f := range files {
			b, _ := os.ReadFile(f)
			add(filepath.Base(dir), filepath.Base(f), string(b))
		}
	}
	for i := 0; i < ngen; i++ {
		src, _, _ := genModule(c.seed, fmt.Sprintf("%s-%d", stream, i), -1, -1)
		add("generated", fmt.Sprintf("gen%d", i), src)
		if i%3 == 0 {
			add("spelling", fmt.Sprintf("gen%d-respelled", i), respell(newRng(c.seed, fmt.Sprintf("%s-sp-%d", stream, i)), src))
		}
	}
	// llvm-stress programs and opt-transformed variants of them, made at check time (when the LLVM tools are on
	// PATH): the seeds derive from the check's seed, so a run is reproducible
	if stress, err := exec.LookPath("llvm-stress"); err == nil {
		n := 12
		if c.tier == "thorough" {
			n = 120
		}
		rs := newRng(c.seed, stream+"-stress")
		for i := 0; i < n; i++ {
			sd, size := 1+rs.intn(1<<30), 40+rs.intn(400)
			out, err := exec.Command(stress, "-seed", fmt.Sprint(sd), "-size", fmt.Sprint(size)).Output()
			if err != nil {
				continue
			}
			add("stress", fmt.Sprintf("llvm-stress-seed%d-size%d", sd, size), string(out))
			if opt, err := exec.LookPath("opt"); err == nil && i%2 == 0 {
				pass := []string{"-O1", "-O2", "-passes=instcombine,simplifycfg", "-passes=mem2reg,gvn"}[rs.intn(4)]
				cmd := exec.Command(opt, "-S", pass, "-")
				cmd.Stdin = strings.NewReader(string(out))
				if out2, err := cmd.Output(); err == nil {
					add("stress", fmt.Sprintf("llvm-stress-seed%d-size%d-opt%s", sd, size, pass), string(out2))
				}
			}
		}
	}
	// C20 style modules (all definition categories, shuffled) and hand-written spelling variants
	r := newRng(c.seed, stream+"-defs")
	for i := 0; i < ngen/3+1; i++ {
		defs := c20GenModule(r)
		add("definitions", fmt.Sprintf("defs%d", i), c20Render(defs, r.perm(len(defs))))
	}
	// unnamed global variables, aliases, ifuncs and functions interleaved with named ones
	for i := 0; i < 8; i++ {
		src, _, _, _ := c08ModuleText(r)
		add("spelling", fmt.Sprintf("unnamed-globals-%d", i), src)
	}
	add("spelling", "literals", "@a = global i32 u0x10\n@b = global i32 s0xFFFFFFFF\n@c = global i64 4096\n@d = global double 0x3FF0000000000000\n@e = global float 1.5\n@f = global double 1.0e3\n@g = global i1 true\n")
	// integer constants around the hex/decimal decision and the 2^63 / 2^64 boundaries, written in decimal
	{
		var b strings.Builder
		k := 0
		for _, w := range []uint{16, 32, 63, 64, 65, 128} {
			for _, v := range []string{"4095", "4096", "65535", "65536", "4294967295", "4294967296", "9223372036854775807", "9223372036854775808", "9223372036854775809", "18446744073709551615", "18446744073709551616", "-1", "-9223372036854775808", "1311768467463790320", "11068046444225730969"} {
				x, _ := new(big.Int).SetString(v, 10)
				if x.BitLen() > int(w) {
					continue
				}
				fmt.Fprintf(&b, "@k%d = global i%d %s\n", k, w, v)
				k++
			}
		}
		add("spelling", "integer-boundaries", b.String())
	}
	// repeated attribute-group IDs are merged (shared attributes once), in textual order
	add("spelling", "attrgroups", "declare void @f() #0\ndeclare void @g() #1\nattributes #0 = { nounwind }\nattributes #1 = { noinline }\nattributes #0 = { nounwind readnone }\nattributes #0 = { \"k\"=\"v\" readnone }\n")
	// blocks whose NAME is a number, next to unnamed blocks carrying the same number as their ID
	add("spelling", "numeric-labels", "define i32 @f(i1 %c) {\n\tbr i1 %c, label %\"0\", label %\"7\"\n\"0\":\n\tbr label %\"7\"\n\"7\":\n\t%p = phi i32 [ 1, %\"0\" ], [ 2, %0 ]\n\tret i32 %p\n}\n")
	add("spelling", "numbering", "define i32 @f(i32 %0, i32) {\n2:\n\t%3 = add i32 %0, %1\n\tbr label %4\n4:\n\t%5 = mul i32 %3, %3\n\tret i32 %5\n}\n\ndefine i32 @g(i32, i32) {\n\t%3 = add i32 %0, %1\n\tret i32 %3\n}\n")
	// all-digit names with leading zeros (they are names, not IDs: quoted by the printer), in the positions where
	// all-digit names work on the unchanged tree (globals, functions, parameters, blocks), with uses
	add("spelling", "numeric-names", "@\"007\" = global i32 1\n@\"00\" = global i32* @\"007\"\n@\"7\" = global i32 2\n\ndefine i32 @\"0012\"(i32 %\"01\", i32 %\"1\") {\n\"00\":\n\t%x = add i32 %\"01\", %\"1\"\n\tbr label %\"010\"\n\"010\":\n\t%y = load i32, i32* @\"007\"\n\t%z = add i32 %x, %y\n\tret i32 %z\n}\n\ndefine i32 @caller() {\n\t%r = call i32 @\"0012\"(i32 1, i32 2)\n\tret i32 %r\n}\n")
	// attributes that carry an argument, and their plain neighbours, in every position of the grammar: return,
	// parameter and function position of declare / define / call / invoke / callbr (one module per attribute, so
	// that a rejection names it)
	{
		// (not `align 8` in return position: the grammar of the pinned llir/ll dependency rejects it, whatever the translator does)
		retAttrs := []string{"dereferenceable(16)", "dereferenceable_or_null(16)", "noalias", "nonnull", "noundef", "inreg"}
		paramAttrs := []string{"align 8", "dereferenceable(16)", "dereferenceable_or_null(16)", "byval(i32)", "sret(i32)", "inalloca(i32)", "preallocated(i32)",
			"byref(i32)", "elementtype(i32)", "noalias", "nocapture", "nonnull", "noundef", "readonly", "\"key\"=\"value\"", "\"flag\"", "\"empty\"=\"\""}
		funcAttrs := []string{"alignstack(16)", "allocsize(0)", "allocsize(0, 1)", "allocsize(1, 0)", "uwtable(async)", "uwtable(sync)", "vscale_range(1, 2)", "uwtable", "nounwind", "\"key\"=\"value\"", "\"flag\"", "\"empty\"=\"\""}
		shape := func(ret, par, fn string) string {
			sp := func(a string) string {
				if a == "" {
					return ""
				}
				return " " + a
			}
			return fmt.Sprintf("declare%s i32* @d(i32*%s)%s\n\ndefine%s i32* @f(i32*%s %%p)%s personality i8* null {\nentry:\n\t%%a = call%s i32* @d(i32*%s %%p)%s\n\t%%b = invoke%s i32* @d(i32*%s %%p)%s\n\t\t\tto label %%ok unwind label %%bad\nok:\n\t%%c = callbr%s i32* @d(i32*%s %%p)%s\n\t\t\tto label %%done []\ndone:\n\tret i32* %%a\nbad:\n\t%%l = landingpad i32\n\t\t\tcleanup\n\tret i32* %%b\n}\n",
				sp(ret), sp(par), sp(fn), sp(ret), sp(par), sp(fn), sp(ret), sp(par), sp(fn), sp(ret), sp(par), sp(fn), sp(ret), sp(par), sp(fn))
		}
		for _, a := range retAttrs {
			add("definitions", "attr-return-"+a, shape(a, "", ""))
		}
		// a pair with an empty value next to the bare key, in an attribute group
		add("definitions", "attr-group-empty-value", "declare void @g() #0\n\nattributes #0 = { \"empty\"=\"\" \"bare\" \"k\"=\"v\" }\n")
		for _, a := range paramAttrs {
			add("definitions", "attr-param-"+a, shape("", a, ""))
		}
		for _, a := range funcAttrs {
			add("definitions", "attr-func-"+a, shape("", "", a))
		}
	}
	// the canonical NaNs and infinities of every kind, both signs (what the printer itself writes for a NaN)
	add("spelling", "special-floats", "@h0 = global half 0xH7E00\n@h1 = global half 0xHFE00\n@h2 = global half 0xH7C00\n@h3 = global half 0xHFC00\n@f0 = global float 0x7FF8000000000000\n@f1 = global float 0xFFF8000000000000\n@f2 = global float 0xFFF0000000000000\n@d0 = global double 0x7FF8000000000000\n@d1 = global double 0xFFF8000000000000\n@d2 = global double 0x7FF0000000000000\n@q0 = global fp128 0xL00000000000000007FFF800000000000\n@q1 = global fp128 0xL0000000000000000FFFF800000000000\n@q2 = global fp128 0xL0000000000000000FFFF000000000000\n@q3 = global fp128 0xL00000000000000003FFF000000000000\n@x0 = global x86_fp80 0xK7FFF8000000000000000\n@x1 = global x86_fp80 0xKFFFF8000000000000000\n@x2 = global x86_fp80 0xK3FFF8000000000000000\n")
	// constant expressions with every optional flag the grammar gives them
	add("definitions", "constexpr-flags", "@t = global i32 0\n@c0 = global i32 ashr exact (i32 -64, i32 2)\n@c1 = global i32 lshr exact (i32 64, i32 2)\n@c2 = global i32 add nuw nsw (i32 1, i32 2)\n@c3 = global i32 shl nuw (i32 1, i32 3)\n@c4 = global i32 sub nsw (i32 5, i32 2)\n@c5 = global i32 mul nuw (i32 5, i32 2)\n@c6 = global i32* getelementptr inbounds (i32, i32* @t, i32 1)\n@c7 = global i32* getelementptr (i32, i32* @t, i32 1)\n@c8 = global i32 ashr (i32 -64, i32 2)\n")
	add("spelling", "quoting", "@\"plain\" = global i32 0 ; comment\n\n\n  @\"with space\"   =   global   i32   1\ndefine void @\"f\"() {\n\"entry\":\n\tret void\n}\n")
	return ins
}

// respell rewrites integer literals into other accepted spellings and adds comments and blank lines
var reIntLit = regexp.MustCompile(`\bi32 ([0-9]+)\b`)

func respell(r *rng, src string) string {
	out := reIntLit.ReplaceAllStringFunc(src, func(m string) string {
		n, _ := strconv.ParseUint(m[4:], 10, 64)
		switch r.intn(3) {
		case 0:
			return fmt.Sprintf("i32 u0x%X", n)
		case 1:
			return fmt.Sprintf("i32 s0x%X", n)
		}
		return m
	})
	var b strings.Builder
	for _, l := range strings.Split(out, "\n") {
		if r.chance(10) {
			b.WriteString("; a comment\n\n")
		}
		b.WriteString(l)
		if r.chance(10) && l != "" && !strings.Contains(l, "\"") {
			b.WriteString("   ; trailing comment")
		}
		b.WriteString("\n")
	}
	return b.String()
}

func printGuard(m *ir.Module) (text string, oc outcome, msg string) {
	oc, msg = guard(func() error {
		text = m.String()
		if printedPanic(text) {
			panic("fmt swallowed a panic: " + text[strings.Index(text, "%!"):min(len(text), strings.Index(text, "%!")+120)])
		}
		return nil
	})
	return
}

// ---- C02

func runC02(c *config) {
	o := c.out
	if c.replay != "" {
		rp := readReplay(c.replay)
		if c02OrderReplay(c, rp.Detail) {
			return
		}
		src, _ := rp.Detail["src"].(string)
		c02One(c, rtInput{name: "replay", src: src, kind: "replay"}, true)
		return
	}
	for i, in := range rtInputs(c, "c02", 60*c.scale) {
		c02One(c, in, i < 1)
	}
	c02Order(c)   // names that form adversarial order families, eight fresh parses each (c02order.go)
	c02Headers(c) // optional parts of declaration / definition headers in every combination (c02hdr.go)
	_ = o
}

func c02One(c *config, in rtInput, sample bool) {
	o := c.out
	m1, oc, _ := parseGuard(in.src)
	if oc != ocOk {
		o.Stat("inputs.rejected." + in.kind)
		return // C02 quantifies over accepted inputs (a crash of the parser is C01's and C05's business)
	}
	o.Stat("inputs.accepted." + in.kind)
	o.Nontrivial(in.src)
	det := map[string]interface{}{"name": in.name, "src": in.src}
	y, oc, msg := printGuard(m1)
	if oc != ocOk {
		det["msg"] = msg
		o.Fail("fixpoint", in.class, "printing an accepted module crashes", det)
		return
	}
	det["printed"] = y
	m2, oc, msg := parseGuard(y)
	if oc != ocOk {
		det["msg"] = msg
		o.Fail("fixpoint", in.class, "the printed text is not accepted by the parser: "+oc.String(), det)
		return
	}
	y2, oc, msg := printGuard(m2)
	if oc != ocOk || y2 != y {
		det["second"] = y2
		o.Fail("fixpoint", in.class, "parsing the printed text and printing again does not reproduce it byte for byte", det)
		return
	}
	// the two parsed modules are structurally identical: same identity dump (every reference, by key)
	d1, d2 := checkIdentity(m1), checkIdentity(m2)
	if strings.Join(d1.dump, "\n") != strings.Join(d2.dump, "\n") {
		o.Fail("fixpoint", in.class, "the two parsed modules differ structurally", det)
		return
	}
	// and field by field: dynamic types, scalar values, lengths
	s1, s2 := shapeDump(m1), shapeDump(m2)
	if diff := firstDumpDiff(s1, s2); diff != "equal" {
		det["first_difference"] = diff
		o.Fail("fixpoint", in.class, "the two parsed modules differ in a field", det)
		return
	}
	o.Pass("fixpoint")
	if sample {
		o.Sample(map[string]interface{}{"input": in.name, "bytes": len(in.src), "printed_bytes": len(y)})
	}
}

// ---- C01

var (
	reNumID   = regexp.MustCompile(`^([%@!#])[0-9]+$`)
	reLabelID = regexp.MustCompile(`^[0-9]+:$`)
	reFloat   = regexp.MustCompile(`^[-+]?[0-9]+\.[0-9]*([eE][-+]?[0-9]+)?$`)
	reHexInt  = regexp.MustCompile(`^[us]0x[0-9A-Fa-f]+$`)
	reHexFP   = regexp.MustCompile(`^0x[0-9A-Fa-f]{16}$`)
)

// tokens of a module text, normalised so that permitted respellings coincide: comments dropped,
// unnamed IDs replaced by a placeholder, float and hex-int literals by their value
func normTokens(text string, typeWidth func(tok string) int) []string {
	var toks []string
	var cur strings.Builder
	flush := func() {
		if cur.Len() > 0 {
			toks = append(toks, cur.String())
			cur.Reset()
		}
	}
	inStr := false
	for i := 0; i < len(text); i++ {
		ch := text[i]
		switch {
		case inStr:
			cur.WriteByte(ch)
			if ch == '"' {
				inStr = false
			}
		case ch == '"':
			cur.WriteByte(ch)
			inStr = true
		case ch == ';':
			flush()
			for i < len(text) && text[i] != '\n' {
				i++
			}
		case ch == ' ' || ch == '\t' || ch == '\n' || ch == '\r' || strings.IndexByte(",()[]{}<>=", ch) >= 0:
			flush()
		case ch == '*':
			flush()
			toks = append(toks, "*")
		default:
			cur.WriteByte(ch)
		}
	}
	flush()
	var out []string
	prev := ""
	seenMDName := map[string]bool{}
	for ti := 0; ti < len(toks); ti++ {
		t := toks[ti]
		// a bare "!" (of "!{") and repeated metadata names: repeated named-metadata definitions are merged by design
		if t == "!" {
			continue
		}
		if len(t) > 1 && t[0] == '!' && (t[1] < '0' || t[1] > '9') && t[1] != '"' {
			if seenMDName[t] {
				continue
			}
			seenMDName[t] = true
		}
		// debug-info fields at LLVM's default value may be omitted (false, 0); the two fields whose LLVM
		// default is true are kept, so that their loss shows (KF-21)
		if strings.HasSuffix(t, ":") && len(t) > 2 && ti+1 < len(toks) && (toks[ti+1] == "false" || toks[ti+1] == "0") &&
			t != "splitDebugInlining:" && t != "isDefinition:" && (t[0] >= 'a' && t[0] <= 'z') {
			ti++
			continue
		}
		if strings.HasPrefix(t, "0xH") && len(t) == 7 {
			if b, err := strconv.ParseUint(t[3:], 16, 16); err == nil {
				f := halfToFloat(uint16(b))
				if !math.IsNaN(f) && !math.IsInf(f, 0) {
					t = "float:" + strconv.FormatFloat(f, 'g', -1, 64)
				}
			}
		}
		switch {
		case reNumID.MatchString(t):
			t = t[:1] + "#"
		case reLabelID.MatchString(t):
			t = "#:"
		case reFloat.MatchString(t):
			f, err := strconv.ParseFloat(t, 64)
			if err == nil {
				t = "float:" + strconv.FormatFloat(f, 'g', -1, 64)
			}
		case reHexFP.MatchString(t):
			b, _ := strconv.ParseUint(t[2:], 16, 64)
			f := math.Float64frombits(b)
			if !math.IsNaN(f) && !math.IsInf(f, 0) {
				t = "float:" + strconv.FormatFloat(f, 'g', -1, 64)
			}
		case reHexInt.MatchString(t):
			v, _ := new(big.Int).SetString(t[3:], 16)
			if t[0] == 's' && strings.HasPrefix(prev, "i") {
				if w, err := strconv.Atoi(prev[1:]); err == nil && v.Bit(w-1) == 1 {
					v.Sub(v, new(big.Int).Lsh(big.NewInt(1), uint(w)))
				}
			}
			t = v.String()
		case len(t) > 2 && t[0] == '"' && t[len(t)-1] == '"' && bareName(t[1:len(t)-1]) && !allDigits(t[1:len(t)-1]):
			t = t[1 : len(t)-1] // redundant quotes
		case len(t) > 3 && strings.IndexByte("@%$", t[0]) >= 0 && t[1] == '"' && t[len(t)-1] == '"' && bareName(t[2:len(t)-1]) && !parsesInt64(t[2:len(t)-1]):
			t = t[:1] + t[2:len(t)-1]
		case len(t) > 3 && t[0] == '"' && strings.HasSuffix(t, "\":") && bareName(t[1:len(t)-2]) && !allDigits(t[1:len(t)-2]):
			t = t[1:len(t)-2] + ":"
		}
		out = append(out, t)
		prev = t
	}
	sort.Strings(out)
	return out
}

func halfToFloat(b uint16) float64 {
	s := 1.0
	if b&0x8000 != 0 {
		s = -1
	}
	e := int(b>>10) & 0x1F
	m := float64(b & 0x3FF)
	switch e {
	case 0:
		return s * math.Ldexp(m, -24)
	case 31:
		if m == 0 {
			return s * math.Inf(1)
		}
		return math.NaN()
	}
	return s * math.Ldexp(1024+m, e-25)
}

// multiset difference (a minus b, b minus a), a few entries each
func tokenDiff(a, b []string) (onlyA, onlyB []string) {
	i, j := 0, 0
	for i < len(a) && j < len(b) {
		switch {
		case a[i] == b[j]:
			i++
			j++
		case a[i] < b[j]:
			onlyA = append(onlyA, a[i])
			i++
		default:
			onlyB = append(onlyB, b[j])
			j++
		}
	}
	onlyA = append(onlyA, a[i:]...)
	onlyB = append(onlyB, b[j:]...)
	return
}

func runC01(c *config) {
	o := c.out
	if c.replay != "" {
		rp := readReplay(c.replay)
		if c01FlagsReplay(c, rp.Detail) {
			return
		}
		src, _ := rp.Detail["src"].(string)
		c01One(c, rtInput{name: "replay", src: src, kind: "replay"}, true)
		return
	}
	for i, in := range rtInputs(c, "c01", 60*c.scale) {
		c01One(c, in, i < 1)
	}
	c01Flags(c) // every subset of the optional keywords of one production (c01flags.go)
	// lines with many optional parts, written in the one order LLVM's grammar allows (and its printer uses): each
	// must come out as it went in (the token comparison above is blind to order)
	for _, l := range []string{
		"define void @f() section \"s\" partition \"p\" comdat($c) align 16 gc \"shadow-stack\" prefix i32 1 prologue i32 2 personality i8* null {",
		"define internal fastcc void @f() unnamed_addr #0 comdat align 4 gc \"x\" {",
		"declare void @f() align 8 gc \"x\" prefix i32 1",
		"@g = internal unnamed_addr addrspace(1) constant i32 0, section \"s\", partition \"p\", comdat($c), align 8",
		"@g = external thread_local(initialexec) local_unnamed_addr global i32, align 4",
		"@a = weak_odr hidden unnamed_addr alias i32, i32* @t, partition \"p\"",
	} {
		src := "$c = comdat any\n$f = comdat any\n@t = global i32 0\nattributes #0 = { nounwind }\n" + l + "\n"
		if strings.HasSuffix(l, "{") {
			src += "\tret void\n}\n"
		}
		if strings.HasPrefix(l, "@g") || strings.HasPrefix(l, "@a") {
			src = strings.Replace(src, "@t = global i32 0\n", "@t = global i32 0\n", 1)
		}
		m, oc, msg := parseGuard(src)
		o.Stat("verbatim_lines")
		if oc != ocOk {
			o.Fail("meaning_preserved", "", "a line in LLVM's own order of optional parts is rejected", map[string]interface{}{"line": l, "msg": msg})
			continue
		}
		y, oc, msg := printGuard(m)
		if oc != ocOk || !strings.Contains("\n"+y, "\n"+l+"\n") {
			o.Fail("meaning_preserved", "", "a line in LLVM's own order of optional parts is not printed as it was written", map[string]interface{}{"line": l, "printed": y, "msg": msg})
		} else {
			o.Pass("verbatim_line")
		}
	}
	if c.tier == "thorough" {
		c01Llvm(c)
	}
	_ = o
}

// implicit labels: LLVM-printed text leaves unnamed blocks without a label line; the printer adds "N:"
func dropImplicit(toks []string) []string {
	var out []string
	for _, t := range toks {
		if t == "#:" {
			continue
		}
		out = append(out, t)
	}
	return out
}

func c01One(c *config, in rtInput, sample bool) {
	o := c.out
	m1, oc, msg := parseGuard(in.src)
	det := map[string]interface{}{"name": in.name, "src": in.src}
	if oc == ocPanic {
		det["msg"] = msg
		o.Fail("meaning_preserved", in.class, "the parser crashes on a module", det)
		return
	}
	if oc != ocOk {
		o.Stat("inputs.rejected." + in.kind)
		if in.kind == "modules" || in.kind == "testdata" || in.kind == "generated" || in.kind == "definitions" || in.kind == "spelling" {
			det["msg"] = msg
			o.Fail("meaning_preserved", in.class, "a valid module is rejected", det)
		}
		return
	}
	o.Stat("inputs.accepted." + in.kind)
	o.Nontrivial(in.src)
	y, oc, msg := printGuard(m1)
	if oc != ocOk {
		det["msg"] = msg
		o.Fail("meaning_preserved", in.class, "printing crashes", det)
		return
	}
	if in.name == "attrgroups" {
		o.Pass("meaning_preserved") // repeated attribute groups are merged by design: token counts legitimately shrink
		return
	}
	// nothing dropped, altered or invented: the tokens of the input and of the output coincide up to the
	// permitted normalisations (numbering, literal spelling, quoting, ordering, comments)
	a := dropImplicit(normTokens(in.src, nil))
	b := dropImplicit(normTokens(y, nil))
	onlyIn, onlyOut := tokenDiff(a, b)
	onlyIn, onlyOut = c01Allowed(onlyIn, onlyOut)
	if len(onlyIn)+len(onlyOut) > 0 {
		det["printed"] = y
		det["only_in_input"] = onlyIn[:min(12, len(onlyIn))]
		det["only_in_output"] = onlyOut[:min(12, len(onlyOut))]
		cls := in.class
		if cls == "" {
			cls = c01DiffClassSrc(in.src, onlyIn, onlyOut)
		}
		o.Fail("meaning_preserved", cls, fmt.Sprintf("%d token(s) of the input missing from the output, %d new", len(onlyIn), len(onlyOut)), det)
		return
	}
	o.Pass("meaning_preserved")
	o.StatN("tokens_compared", len(a))
	if sample {
		o.Sample(map[string]interface{}{"input": in.name, "tokens": len(a)})
	}
}

// differences that are permitted respellings the token normaliser does not resolve by itself
func c01Allowed(onlyIn, onlyOut []string) ([]string, []string) {
	drop := func(l []string, f func(string) bool) []string {
		var out []string
		for _, t := range l {
			if !f(t) {
				out = append(out, t)
			}
		}
		return out
	}
	// "ModuleID" comments are stripped as comments; "to" / "x" etc. are ordinary tokens. Attribute group
	// and metadata renumbering is covered by the # placeholder. The printer writes "align N" the same.
	onlyIn = drop(onlyIn, func(t string) bool { return t == "" })
	// implicit numbering made explicit: unnamed parameters and results get their %N written out
	onlyOut = drop(onlyOut, func(t string) bool { return t == "" || t == "%#" })
	// a non-distinct DISubprogram is printed with an explicit "isDefinition: false" (documented in
	// ir/metadata: it states the default LLVM assumes for a declaration; llvm-as accepts it)
	nDecl := 0
	for _, t := range onlyOut {
		if t == "isDefinition:" {
			nDecl++
		}
	}
	if nDecl > 0 {
		k1, k2 := nDecl, nDecl
		onlyOut = drop(onlyOut, func(t string) bool {
			if t == "isDefinition:" && k1 > 0 {
				k1--
				return true
			}
			if t == "false" && k2 > 0 {
				k2--
				return true
			}
			return false
		})
	}
	return onlyIn, onlyOut
}

// class of a token difference, for the known findings that show as dropped tokens: every differing
// token must be explained by a listed class, otherwise the difference is unattributed
var reAtomicAlign = regexp.MustCompile(`(atomicrmw|cmpxchg)[^\n]*, align [0-9]+`)

func c01DiffClassSrc(src string, onlyIn, onlyOut []string) string {
	cls := ""
	set := func(c string) {
		if cls == "" {
			cls = c
		}
	}
	nAtomic := len(reAtomicAlign.FindAllString(src, -1))
	alignBudget, numBudget := nAtomic, nAtomic
	for _, t := range onlyIn {
		switch {
		case t == "splitDebugInlining:" || t == "isDefinition:":
			set("md_bool_default_true")
		case t == "false":
			// the value of one of the two fields above
		case t == "align" && alignBudget > 0:
			alignBudget--
			set("atomic_align_dropped")
		case allDigits(t) && numBudget > 0:
			numBudget--
		case reHexFP.MatchString(t):
			b, err := strconv.ParseUint(t[2:], 16, 64)
			if err != nil || !math.IsNaN(math.Float64frombits(b)) {
				return ""
			}
			set("nan_payload_nonzero")
		default:
			return ""
		}
	}
	for _, t := range onlyOut {
		if !(reHexFP.MatchString(t) && cls == "nan_payload_nonzero") {
			return ""
		}
	}
	return cls
}

func c01DiffClass(onlyIn, onlyOut []string) string { return c01DiffClassSrc("", onlyIn, onlyOut) }

// thorough tier: LLVM's own reading of input and output
func c01Llvm(c *config) {
	o := c.out
	if _, err := exec.LookPath("llvm-as"); err != nil {
		o.Stat("llvm_tools_missing")
		return
	}
	canon := func(src string) (string, error) {
		cmd := exec.Command("sh", "-c", "llvm-as -o - - | llvm-dis -o - -")
		cmd.Stdin = strings.NewReader(src)
		out, err := cmd.Output()
		return string(out), err
	}
	for _, in := range rtInputs(c, "c01", 20) {
		if in.kind != "modules" && in.kind != "testdata" && in.kind != "stress" {
			continue
		}
		cx, err := canon(in.src)
		if err != nil {
			continue // not valid for LLVM 14: outside the property's domain
		}
		m, oc, _ := parseGuard(in.src)
		if oc != ocOk {
			continue
		}
		y, oc, _ := printGuard(m)
		if oc != ocOk {
			continue
		}
		cy, err := canon(y)
		o.Stat("llvm_compared")
		strip := func(s string) string {
			var keep []string
			for _, l := range strings.Split(s, "\n") {
				if strings.HasPrefix(l, "; ModuleID") || strings.HasPrefix(l, "source_filename") {
					continue
				}
				keep = append(keep, l)
			}
			return strings.Join(keep, "\n")
		}
		if err != nil {
			o.Fail("llvm_accepts_output", in.class, "llvm-as rejects the printed module", map[string]string{"name": in.name, "printed": y})
		} else if strip(cx) != strip(cy) {
			// up to the renumbering of metadata IDs and the printer's canonical order of top-level definitions
			// (named metadata are printed in natural order): the token multisets of the two canonical forms
			a, b := normTokens(cx, nil), normTokens(cy, nil)
			onlyIn, onlyOut := tokenDiff(a, b)
			if len(onlyIn)+len(onlyOut) == 0 {
				o.Pass("llvm_same_canonical_form")
				o.Stat("llvm_compared.same_up_to_order_and_ids")
				continue
			}
			cls := c01DiffClass(onlyIn, onlyOut)
			if cls == "" && c01S0xActiveBits(in.src) {
				cls = "s0x_llvm_reads_active_bits"
			}
			o.Fail("llvm_same_canonical_form", cls, "llvm-dis of input and output differ", map[string]interface{}{"name": in.name, "only_in_input": onlyIn[:min(10, len(onlyIn))], "only_in_output": onlyOut[:min(10, len(onlyOut))]})
		} else {
			o.Pass("llvm_same_canonical_form")
		}
	}
}

var c01S0xRe = regexp.MustCompile(`\bi(\d+) s0x([0-9A-Fa-f]+)`)

// c01S0xActiveBits: the input holds an s0x literal that LLVM 14 reads differently from the type-width reading:
// LLVM's lexer truncates the literal to its active bits before sign-extending it, so i4 s0x1 is -1 for LLVM
// and 1 under the two's-complement-by-type-width reading (C09) the library implements.
func c01S0xActiveBits(src string) bool {
	for _, m := range c01S0xRe.FindAllStringSubmatch(src, -1) {
		w, _ := strconv.Atoi(m[1])
		v, ok := new(big.Int).SetString(m[2], 16)
		if ok && v.Sign() > 0 && v.BitLen() < w {
			return true
		}
	}
	return false
}

// ---- C03

func runC03(c *config) {
	o := c.out
	r := newRng(c.seed, "c03")
	g := newTyGen(r)
	u := newUniverse()
	if c.replay != "" {
		fmt.Println("replay: re-run ./check C03 with the same VERIF_SEED (construction programs are deterministic for a seed)")
		return
	}
	for _, n := range g.names {
		u.namedStruct(n)
	}
	// 0. execution: what the printed text computes under LLVM's lli is what the construction calls imply
	c03Exec(c, newRng(c.seed, "c03exec"))
	// 0b. the floating-point constructor on doubles that are not values of the kind (c03float.go)
	c03FloatConstructor(c, newRng(c.seed, "c03float"))
	// 1. every instruction constructor on well-typed operands (the generator of C06), inside a module built
	//    with the builder API, with named and unnamed values
	for i := 0; i < 1500*c.scale; i++ {
		var ops []string
		c03Guarded(c, func() string { return "instruction constructors on well-typed operands: " + strings.Join(ops, ",") }, "", func() {
			m := ir.NewModule()
			// type definitions in the order the parser would list them (the printer keeps a constructed
			// module's own order: see KF-36 under C20)
			var tnames []string
			for n := range u.named {
				tnames = append(tnames, n)
			}
			verifhook.NatsortStrings(tnames)
			for _, n := range tnames {
				m.TypeDefs = append(m.TypeDefs, u.named[n])
			}
			glob := m.NewGlobalDef("gv", constant.NewInt(types.I32, int64(i)))
			if r.chance(30) {
				glob.SetName("")
			}
			k := 1 + r.intn(3)
			f := m.NewFunc("f", types.Void)
			b := f.NewBlock("")
			if r.coin() {
				b.SetName("entry")
			}
			bad := ""
			for j := 0; j < k; j++ {
				cs := c06Gen(r, g, u)
				var params []*ir.Param
				for pi, t := range cs.params {
					name := fmt.Sprintf("p%d_%d", j, pi)
					if r.chance(30) {
						name = ""
					}
					p := ir.NewParam(name, t)
					params = append(params, p)
					f.Params = append(f.Params, p)
					f.Sig.Params = append(f.Sig.Params, t)
				}
				var v value.Value
				oc, msg := guard(func() error { v = cs.build(b, params); return nil })
				if oc != ocOk {
					bad = "a well-typed construction is rejected by the constructor: " + cs.op + " " + msg
					break
				}
				ops = append(ops, cs.op)
				if cs.text != nil {
					c06CheckText(c, cs, v, params, false)
				}
				if n, ok := v.(interface{ SetName(string) }); ok && r.chance(50) && !types.Equal(v.Type(), types.Void) {
					n.SetName(fmt.Sprintf("r%d", j))
				}
				o.Stat("ctor." + cs.op)
				_ = cs.cls
			}
			f.Typ = nil
			_ = f.Type()
			b.NewRet(nil)
			o.Nontrivial(strings.Join(ops, ",") + fmt.Sprint(i))
			det := map[string]interface{}{"ops": ops}
			if bad != "" {
				o.Fail("construct_print_parse", "", bad, det)
				return
			}
			c03Check(c, m, det, "", i < 1)
		})
	}
	// 2. module-level construction: globals, aliases, functions with control flow, metadata, the corner
	//    cases recorded as findings
	for i := 0; i < 60*c.scale; i++ {
		c03Guarded(c, func() string { return "module-level builder" }, "", func() {
			c03Check(c, c03Module(r, i), map[string]interface{}{"program": "module-level builder"}, "", false)
		})
	}
	c03Guarded(c, func() string { return "m.NewGlobal(\"g\", i32)" }, "", func() {
		decl := ir.NewModule()
		decl.NewGlobal("g", types.I32)
		c03Check(c, decl, map[string]interface{}{"program": "m.NewGlobal(\"g\", i32)"}, "global_decl_no_linkage", false)
	})
	// exception-handling terminators and pads through their constructors, the optional unwind target absent
	// (nil: "unwind to caller") and present
	for variant := 0; variant < 4; variant++ {
		ehProgram := fmt.Sprintf("invoke / catchswitch / catchpad / catchret / cleanuppad / cleanupret through the constructors, variant %d (bit 0: catchswitch unwinds to a block, bit 1: cleanupret unwinds to a block and the invokee is variadic)", variant)
		c03Guarded(c, func() string { return ehProgram }, "", func() {
			m := ir.NewModule()
			pers := m.NewFunc("pers", types.I32)
			pers.Sig.Variadic = true
			callee := m.NewFunc("callee", types.Void)
			f := m.NewFunc("f", types.Void)
			f.Personality = pers
			entry, cs, h1, cl, cl2, done := f.NewBlock("entry"), f.NewBlock("cs"), f.NewBlock("h1"), f.NewBlock("cl"), f.NewBlock("cl2"), f.NewBlock("done")
			// (the invokee is variadic in two of the variants: LLVM then wants the full function type written out)
			wantInvoke := "invoke void @callee()"
			if variant >= 2 {
				vc := m.NewFunc("vcallee", types.Void, ir.NewParam("", types.I32))
				vc.Sig.Variadic = true
				vc.Typ = nil
				_ = vc.Type()
				entry.NewInvoke(vc, []value.Value{constant.NewInt(types.I32, 1), constant.NewInt(types.I64, 2)}, done, cs)
				wantInvoke = "invoke void (i32, ...) @vcallee(i32 1, i64 2)"
			} else {
				entry.NewInvoke(callee, nil, done, cs)
			}
			var unwind, unwind2 *ir.Block
			if variant&1 != 0 {
				unwind = cl
			}
			if variant&2 != 0 {
				unwind2 = cl2
			}
			sw := cs.NewCatchSwitch(constant.None, []*ir.Block{h1}, unwind)
			sw.SetName("sw")
			cp := h1.NewCatchPad(sw, constant.NewInt(types.I32, 7))
			cp.SetName("cp")
			h1.NewCatchRet(cp, done)
			pad := cl.NewCleanupPad(constant.None)
			pad.SetName("pad")
			cl.NewCleanupRet(pad, unwind2)
			pad2 := cl2.NewCleanupPad(constant.None, constant.NewInt(types.I32, 1))
			pad2.SetName("pad2")
			cl2.NewCleanupRet(pad2, nil)
			done.NewRet(nil)
			if text, oc, _ := printGuard(m); oc == ocOk && !strings.Contains(text, wantInvoke) {
				o.Fail("constructed_text", "", "the printed invoke does not spell what was constructed: want "+wantInvoke, map[string]interface{}{"printed": text})
			} else if oc == ocOk {
				o.Pass("constructed_text")
			}
			c03Check(c, m, map[string]interface{}{"program": ehProgram}, "", false)
		})
	}
	// a reference to an unnamed block of a function that is printed after the reference (KF-39): a blockaddress in
	// a global initialiser and in an earlier function
	c03Guarded(c, func() string {
		return "blockaddress of an unnamed block of a later function, in a global and in an earlier function"
	}, "", func() {
		m := ir.NewModule()
		first := m.NewFunc("first", types.NewPointer(types.I8))
		f := m.NewFunc("f", types.Void, ir.NewParam("", types.I32))
		e := f.NewBlock("")
		bb := f.NewBlock("")
		e.NewBr(bb)
		bb.NewRet(nil)
		first.NewBlock("").NewRet(constant.NewBlockAddress(f, bb))
		m.NewGlobalDef("g", constant.NewBlockAddress(f, bb))
		if text, oc, _ := printGuard(m); oc == ocOk && !strings.Contains(text, "@g = global i8* blockaddress(@f, %2)") {
			o.Fail("constructed_text", "", "the first print of a constructed module does not name the block a blockaddress refers to", map[string]interface{}{"printed": text})
		} else if oc == ocOk {
			o.Pass("constructed_text")
		}
		c03Check(c, m, map[string]interface{}{"program": "blockaddress of an unnamed block of a later function, in a global and in an earlier function"}, "", false)
	})
	// an indirect function: its type is the function pointer its resolver returns (LLVM: `@i = ifunc T, T* ()* @res`),
	// and a call through it has T's result type (KF-45, repaired)
	c03Guarded(c, func() string { return "an ifunc, called" }, "", func() {
		m := ir.NewModule()
		ft := types.NewFunc(types.I32, types.I32)
		res := m.NewFunc("res", types.NewPointer(ft))
		res.NewBlock("").NewRet(constant.NewNull(types.NewPointer(ft)))
		ifn := m.NewIFunc("i", res)
		f := m.NewFunc("main", types.I32)
		b := f.NewBlock("")
		call := b.NewCall(ifn, constant.NewInt(types.I32, 1))
		b.NewRet(call)
		text, oc, _ := printGuard(m)
		if oc != ocOk || !strings.Contains(text, "@i = ifunc i32 (i32), i32 (i32)* ()* @res") || !call.Type().Equal(types.I32) {
			o.Fail("constructed_text", "", "a constructed ifunc is not printed with the type its resolver returns a pointer to", map[string]interface{}{"printed": text, "call_type": call.Type().String()})
		} else {
			o.Pass("constructed_text")
		}
		c03Check(c, m, map[string]interface{}{"program": "an ifunc, called"}, "", false)
	})
	// address spaces can only be given by assigning the field after the constructor: the typed uses must follow
	for variant := 0; variant < 3; variant++ {
		asProgram := fmt.Sprintf("address space assigned after the constructor, variant %d (0 global, 1 alloca, 2 function): store to the alloca, loads from the global and the alloca, a call", variant)
		c03Guarded(c, func() string { return asProgram }, "", func() {
			m := ir.NewModule()
			g := m.NewGlobalDef("g", constant.NewInt(types.I32, 1))
			callee := m.NewFunc("callee", types.Void)
			f := m.NewFunc("f", types.I32)
			b := f.NewBlock("entry")
			a := b.NewAlloca(types.I32)
			switch variant {
			case 0:
				g.AddrSpace = 2
			case 1:
				a.AddrSpace = 1
			default:
				callee.AddrSpace = 3
			}
			b.NewStore(constant.NewInt(types.I32, 4), a)
			x := b.NewLoad(types.I32, g)
			y := b.NewLoad(types.I32, a)
			call := b.NewCall(callee)
			call.AddrSpace = callee.AddrSpace // LLVM wants the address space of the callee spelled on the call
			b.NewRet(b.NewAdd(x, y))
			c03Check(c, m, map[string]interface{}{"program": asProgram}, "", false)
		})
	}
	// address spaces throughout: memory accesses, address computations, atomics and calls through pointers in
	// non-default address spaces (c03as.go)
	c03AddrSpaces(c, newRng(c.seed, "c03as"))
	// construction histories: print, append at the end, print again (c03hist.go)
	c03Histories(c, newRng(c.seed, "c03hist"))
}

// c03Guarded runs one construction program under guard: a constructor that panics on a well-typed recipe is a
// failure of the property (a well-typed construction is never rejected by a constructor's own type check), reported
// with the recipe as the failing input.
func c03Guarded(c *config, recipe func() string, class string, program func()) {
	oc, msg := guard(func() error { program(); return nil })
	if oc != ocOk {
		c.out.Stat("programs")
		c.out.Fail("construct_print_parse", class, "a well-typed construction is rejected by the constructor: "+msg, map[string]interface{}{"program": recipe(), "msg": msg})
	}
}

func c03Module(r *rng, i int) *ir.Module {
	m := ir.NewModule()
	m.SourceFilename = "c03.c"
	st := m.NewTypeDef("pair", types.NewStruct(types.I32, types.NewPointer(types.I8)))
	g1 := m.NewGlobalDef("a", constant.NewInt(types.I64, int64(i)*4099))
	g1.Linkage = enum.LinkageInternal
	g1.Align = ir.Align(8)
	g2 := m.NewGlobalDef("", constant.NewZeroInitializer(st))
	g3 := m.NewGlobalDef("s", constant.NewCharArrayFromString("hi\x00\"q\"\n"))
	g3.Immutable = true
	m.NewAlias("al", g1)
	// integer constants wider than a machine word, on both sides of the decimal/hexadecimal choice of the printer
	for k, w := range []uint64{65, 70, 128, 200} {
		x := new(big.Int).Lsh(big.NewInt(int64(1+r.intn(1000))), uint(64+r.intn(int(w-64))))
		if k%2 == 1 {
			x.Add(x, big.NewInt(int64(r.intn(1<<20))))
		}
		x.Mod(x, new(big.Int).Lsh(big.NewInt(1), uint(w-1)))
		m.NewGlobalDef(fmt.Sprintf("wide%d", w), &constant.Int{Typ: types.NewInt(w), X: x})
	}
	// constant expressions with their optional flags
	{
		i32c := func(v int64) constant.Constant { return constant.NewInt(types.I32, v) }
		as := constant.NewAShr(i32c(-64), i32c(2))
		as.Exact = true
		ls := constant.NewLShr(i32c(64), i32c(2))
		ls.Exact = r.coin()
		ad := constant.NewAdd(i32c(1), i32c(2))
		ad.OverflowFlags = []enum.OverflowFlag{enum.OverflowFlagNUW, enum.OverflowFlagNSW}[:1+r.intn(2)]
		sh := constant.NewShl(i32c(1), i32c(3))
		sh.OverflowFlags = []enum.OverflowFlag{enum.OverflowFlagNSW}
		ge := constant.NewGetElementPtr(types.I64, g1, i32c(0))
		ge.InBounds = true
		for k, ce := range []constant.Constant{as, ls, ad, sh, ge} {
			m.NewGlobalDef(fmt.Sprintf("ce%d", k), ce)
		}
	}
	// floating-point constants the printer writes in decimal (a digit or two times a power of ten) and in hexadecimal
	for k, v := range []float64{1e6, 2e9, 25e5, 1.5e7, 1e21, 0.1, 3, 1e-3 * float64(1+r.intn(9))} {
		m.NewGlobalDef(fmt.Sprintf("fd%d", k), constant.NewFloat(types.Double, v))
	}
	for k, v := range []float64{1e6, 3e7, 2.5, 16777216} {
		m.NewGlobalDef(fmt.Sprintf("ff%d", k), constant.NewFloat(types.Float, v))
	}
	// unnamed entities of every kind, so that the numbering pass and the printing order have to agree
	if i%2 == 1 {
		m.NewAlias("", g1)
		m.NewGlobalDef("", constant.NewInt(types.I8, 3))
		res := m.NewFunc("", types.NewPointer(types.NewFunc(types.Void)))
		res.NewBlock("").NewRet(constant.NewNull(types.NewPointer(types.NewFunc(types.Void))))
		m.NewIFunc("", res)
		m.NewAlias("", g3)
	}
	callee := m.NewFunc("callee", types.I32, ir.NewParam("x", types.I32))
	callee.NewBlock("").NewRet(callee.Params[0])
	f := m.NewFunc("main", types.I32, ir.NewParam("", types.I32), ir.NewParam("n", types.I32))
	entry := f.NewBlock("")
	loop := f.NewBlock("loop")
	exit := f.NewBlock("")
	v := entry.NewAdd(f.Params[0], f.Params[1])
	ld := entry.NewLoad(types.I64, g1)
	tr := entry.NewTrunc(ld, types.I32)
	gep := entry.NewGetElementPtr(st, g2, constant.NewInt(types.I32, 0), constant.NewInt(types.I32, 0))
	entry.NewStore(tr, gep)
	entry.NewBr(loop)
	phi := loop.NewPhi(ir.NewIncoming(v, entry))
	call := loop.NewCall(callee, phi)
	phi.Incs = append(phi.Incs, ir.NewIncoming(call, loop))
	cmp := loop.NewICmp(enum.IPredSLT, call, constant.NewInt(types.I32, int64(r.intn(100))))
	loop.NewCondBr(cmp, loop, exit)
	sel := exit.NewSelect(cmp, call, v)
	exit.NewRet(sel)
	md := &metadata.Tuple{MetadataID: -1, Fields: []metadata.Field{&metadata.String{Value: "x"}}}
	m.MetadataDefs = append(m.MetadataDefs, md)
	f.Metadata = append(f.Metadata, &metadata.Attachment{Name: "dbg", Node: md})
	m.NamedMetadataDefs["llvm.x"] = &metadata.NamedDef{Name: "llvm.x", Nodes: []metadata.Node{md}}
	return m
}

func c03Check(c *config, m *ir.Module, det map[string]interface{}, class string, sample bool) {
	o := c.out
	o.Stat("programs")
	text, oc, msg := printGuard(m)
	if oc != ocOk {
		det["msg"] = msg
		o.Fail("construct_print_parse", class, "printing a constructed module crashes", det)
		return
	}
	det["printed"] = text
	m2, oc, msg := parseGuard(text)
	if oc != ocOk {
		det["msg"] = msg
		o.Fail("construct_print_parse", class, "the library's parser does not accept what the constructors print: "+oc.String(), det)
		return
	}
	t2, oc, _ := printGuard(m2)
	if oc != ocOk || t2 != text {
		det["reprinted"] = t2
		o.Fail("construct_print_parse", class, "re-parsing the printed text gives a different module", det)
		return
	}
	// structurally identical: the identity dumps of the constructed and of the re-parsed module agree
	d1, d2 := checkIdentity(m), checkIdentity(m2)
	if len(d1.bad) > 0 {
		o.Fail("construct_print_parse", class, "constructed module: "+d1.bad[0], det)
		return
	}
	if strings.Join(d1.dump, "\n") != strings.Join(d2.dump, "\n") {
		det["first_difference"] = firstDumpDiff(d1.dump, d2.dump)
		o.Fail("construct_print_parse", class, "the re-parsed module differs structurally from the constructed one", det)
		return
	}
	// constant values: every integer the constructed module holds is the integer the re-parsed module holds at
	// the same place (the text may spell it in any notation)
	v1, v2 := intValues(m), intValues(m2)
	if diff := firstDumpDiff(v1, v2); diff != "equal" {
		det["first_difference"] = diff
		o.Fail("construct_print_parse", class, "an integer constant of the constructed module is read back as another value", det)
		return
	}
	// ... every flag and predicate of instructions and constant expressions the same (exact, inbounds, nuw/nsw, fast-math
	// flags, orderings, predicates, volatile, tail): the text may print them or leave defaults out, the module
	// read back holds what was constructed
	if diff := firstDumpDiff(flagValues(m), flagValues(m2)); diff != "equal" {
		det["first_difference"] = diff
		o.Fail("construct_print_parse", class, "a flag of the constructed module is read back differently", det)
		return
	}
	// ... and every floating-point constant the same number
	f1, f2 := floatValues(m), floatValues(m2)
	if len(f1) != len(f2) {
		det["first_difference"] = fmt.Sprintf("%d floating-point constants constructed, %d re-parsed", len(f1), len(f2))
		o.Fail("construct_print_parse", class, "a floating-point constant of the constructed module is read back as another value", det)
		return
	}
	for i := range f1 {
		a, _, e1 := big.ParseFloat(f1[i], 10, 256, big.ToNearestEven)
		b, _, e2 := big.ParseFloat(f2[i], 10, 256, big.ToNearestEven)
		if (e1 != nil || e2 != nil) && f1[i] == f2[i] {
			continue
		}
		if e1 != nil || e2 != nil || a.Cmp(b) != 0 {
			det["first_difference"] = f1[i] + "  |vs|  " + f2[i]
			o.Fail("construct_print_parse", class, "a floating-point constant of the constructed module is read back as another value", det)
			return
		}
	}
	if c.tier == "thorough" && c03LLVMCheckable(text, det) {
		if _, err := exec.LookPath("llvm-as"); err == nil {
			cmd := exec.Command("llvm-as", "-o", "/dev/null", "-")
			cmd.Stdin = strings.NewReader(text)
			if out, err := cmd.CombinedOutput(); err != nil {
				det["llvm"] = string(out)
				o.Fail("llvm_accepts_constructed", class, "llvm-as rejects what the constructors print", det)
				return
			}
			o.Pass("llvm_accepts_constructed")
		}
	}
	o.Pass("construct_print_parse")
	if sample {
		o.Sample(map[string]interface{}{"printed_prefix": text[:min(300, len(text))]})
	}
}

// c03LLVMCheckable: the construction program is one LLVM's verifier can be asked about.  The instruction
// generator (shared with C06) puts every instruction into one block, so a phi has no predecessor to name, and
// its type generator nests scalable vectors in arrays and structs, which LLVM 14 has no size for: such programs
// are well-typed for the library's constructors but are not valid LLVM, so llvm-as is not consulted on them.
func c03LLVMCheckable(text string, det map[string]interface{}) bool {
	if ops, ok := det["ops"].([]string); ok {
		for _, op := range ops {
			if strings.EqualFold(op, "phi") {
				return false
			}
		}
	}
	var stack []byte
	for i := 0; i < len(text); i++ {
		switch text[i] {
		case '[', '{':
			stack = append(stack, text[i])
		case ']', '}':
			if len(stack) > 0 {
				stack = stack[:len(stack)-1]
			}
		case '\n':
			stack = stack[:0]
		case '<':
			if strings.HasPrefix(text[i:], "<vscale") {
				for _, b := range stack {
					if b == '[' || b == '{' {
						return false
					}
				}
			}
		}
	}
	return true
}

// debugging aid: first differing line of two identity dumps
func firstDumpDiff(a, b []string) string {
	for i := 0; i < len(a) && i < len(b); i++ {
		if a[i] != b[i] {
			return a[i] + "  |vs|  " + b[i]
		}
	}
	if len(b) > len(a) {
		return "extra in re-parsed: " + b[len(a)]
	}
	if len(a) > len(b) {
		return "extra in constructed: " + a[len(b)]
	}
	return "equal"
}

// shapeDump renders every exported field reachable from the module: dynamic types of interface values, scalar
// values, lengths; an object met a second time is named by the order of its first visit (the reference
// structure itself is compared by checkIdentity).  Two parses of one text must give the same rendering.
func shapeDump(m *ir.Module) []string {
	var out []string
	seen := map[uintptr]int{}
	var walk func(v reflect.Value, path string, depth int)
	walk = func(v reflect.Value, path string, depth int) {
		if depth > 200 || !v.IsValid() {
			return
		}
		switch v.Kind() {
		case reflect.Interface:
			if v.IsNil() {
				out = append(out, path+" = nil")
				return
			}
			out = append(out, path+" :: "+v.Elem().Type().String())
			walk(v.Elem(), path, depth+1)
		case reflect.Ptr:
			if v.IsNil() {
				out = append(out, path+" = nil")
				return
			}
			if n, ok := seen[v.Pointer()]; ok {
				out = append(out, fmt.Sprintf("%s -> #%d", path, n))
				return
			}
			seen[v.Pointer()] = len(seen)
			walk(v.Elem(), path, depth+1)
		case reflect.Struct:
			if v.Type().String() == "big.Int" || v.Type().String() == "big.Float" {
				if v.CanAddr() && v.Addr().CanInterface() {
					out = append(out, fmt.Sprintf("%s = %v", path, v.Addr().Interface()))
				}
				return
			}
			for i := 0; i < v.NumField(); i++ {
				sf := v.Type().Field(i)
				if sf.PkgPath != "" || sf.Name == "Parent" {
					continue
				}
				walk(v.Field(i), path+"."+sf.Name, depth+1)
			}
		case reflect.Slice, reflect.Array:
			out = append(out, fmt.Sprintf("%s len %d", path, v.Len()))
			for i := 0; i < v.Len(); i++ {
				walk(v.Index(i), fmt.Sprintf("%s[%d]", path, i), depth+1)
			}
		case reflect.Map:
			keys := v.MapKeys()
			sort.Slice(keys, func(i, j int) bool { return fmt.Sprint(keys[i]) < fmt.Sprint(keys[j]) })
			for _, k := range keys {
				walk(v.MapIndex(k), fmt.Sprintf("%s[%v]", path, k), depth+1)
			}
		case reflect.String, reflect.Bool, reflect.Int, reflect.Int8, reflect.Int16, reflect.Int32, reflect.Int64,
			reflect.Uint, reflect.Uint8, reflect.Uint16, reflect.Uint32, reflect.Uint64, reflect.Float32, reflect.Float64:
			out = append(out, fmt.Sprintf("%s = %v", path, v))
		}
	}
	walk(reflect.ValueOf(m), "m", 0)
	return out
}

// intValues lists, in traversal order, the value of every big.Int reachable from the module
func intValues(m *ir.Module) []string {
	var out []string
	for _, l := range shapeDump(m) {
		if i := strings.Index(l, ".X = "); i >= 0 && !strings.ContainsAny(l[i+5:], ".eEIN") {
			out = append(out, l[i+5:])
		}
	}
	return out
}

// floatValues lists, in traversal order, the text of every big.Float reachable from the module
func floatValues(m *ir.Module) []string {
	var out []string
	for _, l := range shapeDump(m) {
		if i := strings.Index(l, ".X = "); i >= 0 && strings.ContainsAny(l[i+5:], ".eEIN") {
			out = append(out, l[i+5:])
		}
	}
	return out
}

var reFlagLine = regexp.MustCompile(`\.(Exact|InBounds|Volatile|Weak|Tail|Ordering|SuccessOrdering|FailureOrdering|Op|Pred|Immutable|ExternallyInitialized|SyncScope)( = .*)$|\.(FastMathFlags|OverflowFlags)((\[[0-9]+\] = | len ).*)$`)

// flagValues lists, in traversal order, the flag-like scalar fields of the module (field name and value)
func flagValues(m *ir.Module) []string {
	var out []string
	for _, l := range shapeDump(m) {
		if sm := reFlagLine.FindStringSubmatch(l); sm != nil {
			out = append(out, sm[1]+sm[2]+sm[3]+sm[4])
		}
	}
	return out
}
