package main

// C11: names and strings are escaped losslessly and unambiguously.

import (
	"fmt"
	"math/big"
	"reflect"
	"strings"

	"github.com/llir/llvm/asm"
	"github.com/llir/llvm/ir"
	"github.com/llir/llvm/ir/constant"
	"github.com/llir/llvm/ir/enum"
	"github.com/llir/llvm/ir/metadata"
	"github.com/llir/llvm/ir/types"
	"github.com/llir/llvm/verifhook"
)

func init() { props["C11"] = runC11 }

// ---- class predicates of the known findings (the same predicates guard the _partial theorems)

func allDigits(s string) bool {
	if s == "" {
		return false
	}
	for i := 0; i < len(s); i++ {
		if s[i] < '0' || s[i] > '9' {
			return false
		}
	}
	return true
}
func inTail(b byte) bool {
	return b >= 'a' && b <= 'z' || b >= 'A' && b <= 'Z' || b >= '0' && b <= '9' || strings.IndexByte("$-._", b) >= 0
}
func parsesUint64(s string) bool {
	if !allDigits(s) {
		return false
	}
	v, _ := new(big.Int).SetString(s, 10)
	return v.BitLen() <= 64
}
func parsesInt64(s string) bool {
	t := s
	if len(t) > 0 && (t[0] == '+' || t[0] == '-') {
		t = t[1:]
	}
	if !allDigits(t) {
		return false
	}
	v, _ := new(big.Int).SetString(s, 10)
	return v.IsInt64()
}

// lead_digit_name: printed bare although it starts with a digit and is no number (KF-01)
func leadDigitName(s string) bool {
	if s == "" || s[0] < '0' || s[0] > '9' || parsesUint64(s) {
		return false
	}
	for i := 0; i < len(s); i++ {
		if !inTail(s[i]) {
			return false
		}
	}
	return true
}

// huge_numeric_name: all digits, value >= 2^64: printed bare (KF-02)
func hugeNumericName(s string) bool { return allDigits(s) && !parsesUint64(s) }

// minus_zero_name: -0, -00, ... printed bare, read back as the ID 0 (KF-26)
func minusZeroName(s string) bool {
	return len(s) >= 2 && s[0] == '-' && strings.Trim(s[1:], "0") == ""
}

// numeric_name: anything strconv.ParseInt accepts (KF-03, KF-04)
func numericName(s string) bool { return parsesInt64(s) }

// bare: EscapeIdent prints the name without quotes
func bareName(s string) bool {
	for i := 0; i < len(s); i++ {
		if !inTail(s[i]) {
			return false
		}
	}
	return s != ""
}

// canonical non-negative decimal in the int64 range: what FormatInt(ParseInt(s)) gives back
func canonicalID(s string) bool {
	return parsesInt64(s) && allDigits(s) && (s == "0" || s[0] != '0')
}

// c11Class names the known-finding class a failing (position, name) belongs to, or "".
func c11Class(pos, name string) string {
	sigil := pos == "global" || pos == "func" || pos == "param" || pos == "result" || pos == "block" ||
		pos == "alias" || pos == "ifunc" || pos == "callee" || pos == "blockaddress"
	switch {
	case name == "" && pos == "metadata":
		return "empty_metadata_name"
	case pos == "result" && parsesInt64(name):
		return "numeric_name" // KF-03: indexed under the quoted Name()
	case pos == "type" && parsesInt64(name) && !canonicalID(name):
		return "numeric_name" // KF-04: comes back as the decimal value or with quote characters
	case pos == "comdat" && allDigits(name):
		return "numeric_name" // KF-03: $42 does not re-parse
	case sigil && minusZeroName(name):
		return "minus_zero_name" // KF-26
	case sigil && hugeNumericName(name):
		return "huge_numeric_name" // KF-02
	case (sigil || pos == "type" || pos == "comdat") && bareName(name) && name[0] >= '0' && name[0] <= '9' && !allDigits(name):
		return "lead_digit_name" // KF-01
	}
	return ""
}

// ---- generators

func c11Name(r *rng) string {
	n := 1 + r.intn(10)
	if r.chance(5) {
		n = 20 + r.intn(20)
	}
	b := make([]byte, 0, n)
	mode := r.intn(8)
	for len(b) < n {
		switch mode {
		case 0: // identifier-like
			b = append(b, r.pick("abcXYZ019$-._"))
		case 1: // digits
			b = append(b, r.pick("0123456789"))
		case 2: // quotes, backslashes, escape-like sequences
			switch r.intn(5) {
			case 0:
				b = append(b, '"')
			case 1:
				b = append(b, '\\')
			case 2:
				b = append(b, []byte("\\5C")...)
			case 3:
				b = append(b, []byte("\\\\")...)
			default:
				b = append(b, r.pick("ab0 "))
			}
		case 3: // high bytes
			b = append(b, byte(0x80+r.intn(0x80)))
		case 4: // control characters
			b = append(b, byte(1+r.intn(31)))
		case 5: // sign + digits
			if len(b) == 0 {
				b = append(b, r.pick("+-"))
			} else {
				b = append(b, r.pick("0123456789"))
			}
		default: // any byte except NUL
			b = append(b, byte(1+r.intn(255)))
		}
	}
	return string(b)
}

var c11Corpus = []string{
	"a", "2abc", "2", "42", "-5", "+5", "-0", "-00", "007", "18446744073709551615", "18446744073709551616",
	"9223372036854775807", "9223372036854775808", "-9223372036854775808", "a b", "a\"b", "a\\b", "\\5C", "\\\\", "\\",
	"\"", "\"\"", "\x01", "\xff", "\xe4\xb8\x96", "a:", ":", "%a", "@a", "$a", "!a", "a\n", " ", "1e5", "0x10", "-", "+", ".", "-a", "9a", "a9",
}

// ---- encoders through the hook: correspondence with Model/Enc.v

func c11Encoders(c *config, name string) {
	o := c.out
	enc1 := func(kind string, f func(string) string) {
		var s string
		oc, _ := guard(func() error { s = f(name); return nil })
		res := "Panic"
		if oc == ocOk {
			res = "Ok " + hx(s)
		}
		o.Case(kind, []string{hx(name)}, []string{res})
	}
	enc1("global_name", verifhook.GlobalName)
	enc1("local_name", verifhook.LocalName)
	enc1("label_name", verifhook.LabelName)
	enc1("type_name", verifhook.TypeName)
	enc1("comdat_name", verifhook.ComdatName)
	enc1("metadata_name", verifhook.MetadataName)
	enc1("escape_ident", verifhook.EscapeIdent)
	enc1("escape_string", func(s string) string { return verifhook.EscapeString([]byte(s)) })
	enc1("quote", func(s string) string { return verifhook.Quote([]byte(s)) })
	enc1("unescape", func(s string) string { return string(verifhook.Unescape(s)) })
	// oracle on the implementation alone: string escaping is lossless
	if got := string(verifhook.Unescape(verifhook.EscapeString([]byte(name)))); got != name {
		o.Fail("string_escape_lossless", "", "Unescape(EscapeString(s)) != s", map[string]string{"s": hx(name), "got": hx(got)})
	} else {
		o.Pass("string_escape_lossless")
	}
	if got := string(verifhook.Unquote(verifhook.Quote([]byte(name)))); got != name {
		o.Fail("string_escape_lossless", "", "Unquote(Quote(s)) != s", map[string]string{"s": hx(name), "got": hx(got)})
	} else {
		o.Pass("string_escape_lossless")
	}
}

// ---- positions: build a module holding the name, print, parse, read the name back

type c11Pos struct {
	name  string
	build func(name string) *ir.Module
	read  func(m *ir.Module) string
}

var i32 = types.I32

func typeNameOf(t types.Type) string {
	switch t := t.(type) {
	case *types.StructType:
		return t.TypeName
	case *types.IntType:
		return t.TypeName
	}
	return t.Name()
}

// aux returns the auxiliary name base, or a variant when the name under test is base itself
func aux(n, base string) string {
	if n == base {
		return base + "_"
	}
	return base
}

func c11Positions() []c11Pos {
	return []c11Pos{
		{"global", func(n string) *ir.Module {
			m := ir.NewModule()
			m.NewGlobalDef(n, constant.NewInt(i32, 1))
			return m
		}, func(m *ir.Module) string { return m.Globals[0].GlobalName }},
		{"func", func(n string) *ir.Module {
			m := ir.NewModule()
			m.NewFunc(n, types.Void)
			return m
		}, func(m *ir.Module) string { return m.Funcs[0].GlobalName }},
		{"param", func(n string) *ir.Module {
			m := ir.NewModule()
			f := m.NewFunc("f", i32, ir.NewParam(n, i32))
			b := f.NewBlock(aux(n, "entry"))
			b.NewRet(f.Params[0])
			return m
		}, func(m *ir.Module) string {
			f := m.Funcs[0]
			if f.Blocks[0].Term.(*ir.TermRet).X != f.Params[0] {
				return "\x00use not bound to the parameter"
			}
			return f.Params[0].LocalName
		}},
		{"block", func(n string) *ir.Module {
			m := ir.NewModule()
			f := m.NewFunc("f", types.Void)
			e := f.NewBlock(aux(n, "entry"))
			t := f.NewBlock(n)
			e.NewBr(t)
			t.NewRet(nil)
			return m
		}, func(m *ir.Module) string {
			f := m.Funcs[0]
			if f.Blocks[0].Term.(*ir.TermBr).Target != f.Blocks[1] {
				return "\x00branch not bound to the block"
			}
			return f.Blocks[1].LocalName
		}},
		{"result", func(n string) *ir.Module {
			m := ir.NewModule()
			f := m.NewFunc("f", i32, ir.NewParam(aux(n, "x"), i32))
			b := f.NewBlock(aux(n, "entry"))
			v := b.NewAdd(f.Params[0], f.Params[0])
			v.SetName(n)
			b.NewRet(v)
			return m
		}, func(m *ir.Module) string {
			b := m.Funcs[0].Blocks[0]
			v := b.Insts[0].(*ir.InstAdd)
			if b.Term.(*ir.TermRet).X != v {
				return "\x00use not bound to the result"
			}
			return v.LocalName
		}},
		{"type", func(n string) *ir.Module {
			m := ir.NewModule()
			// the definition is of one of the kinds a name can be given to (each kind has a String method of its own)
			var body types.Type
			switch len(n) % 6 {
			case 0:
				body = types.NewStruct(i32)
			case 1:
				body = types.NewArray(2, i32)
			case 2:
				body = types.NewInt(24)
			case 3:
				body = types.NewPointer(i32)
			case 4:
				body = types.NewVector(4, i32)
			default:
				body = &types.FloatType{Kind: types.FloatKindDouble}
			}
			t := m.NewTypeDef(n, body)
			m.NewGlobal("g", t)
			m.Globals[0].Linkage = enum.LinkageExternal
			return m
		}, func(m *ir.Module) string {
			if len(m.TypeDefs) != 1 {
				return fmt.Sprintf("\x00%d type definitions", len(m.TypeDefs))
			}
			if m.Globals[0].ContentType != m.TypeDefs[0] {
				return "\x00type use not bound to the definition"
			}
			return typeNameOf(m.TypeDefs[0])
		}},
		{"comdat", func(n string) *ir.Module {
			m := ir.NewModule()
			cd := &ir.ComdatDef{Name: n, Kind: enum.SelectionKindAny}
			m.ComdatDefs = append(m.ComdatDefs, cd)
			g := m.NewGlobalDef("g", constant.NewInt(i32, 1))
			g.Comdat = cd
			return m
		}, func(m *ir.Module) string {
			if m.Globals[0].Comdat != m.ComdatDefs[0] {
				return "\x00comdat use not bound to the definition"
			}
			return m.ComdatDefs[0].Name
		}},
		{"metadata", func(n string) *ir.Module {
			m := ir.NewModule()
			m.NamedMetadataDefs[n] = &metadata.NamedDef{Name: n}
			return m
		}, func(m *ir.Module) string {
			for k, d := range m.NamedMetadataDefs {
				if k != d.Name {
					return "\x00key and name differ"
				}
				return k
			}
			return "\x00no named metadata"
		}},
		{"attachment", func(n string) *ir.Module {
			m := ir.NewModule()
			md := &metadata.Tuple{MetadataID: -1}
			m.MetadataDefs = append(m.MetadataDefs, md)
			g := m.NewGlobalDef("g", constant.NewInt(i32, 1))
			g.Metadata = append(g.Metadata, &metadata.Attachment{Name: n, Node: md})
			return m
		}, func(m *ir.Module) string { return m.Globals[0].Metadata[0].Name }},
	}
}

func c11StringPositions() []c11Pos {
	return []c11Pos{
		{"section", func(s string) *ir.Module {
			m := ir.NewModule()
			m.NewGlobalDef("g", constant.NewInt(i32, 1)).Section = s
			return m
		}, func(m *ir.Module) string { return m.Globals[0].Section }},
		{"partition", func(s string) *ir.Module {
			m := ir.NewModule()
			m.NewGlobalDef("g", constant.NewInt(i32, 1)).Partition = s
			return m
		}, func(m *ir.Module) string { return m.Globals[0].Partition }},
		{"gc", func(s string) *ir.Module {
			m := ir.NewModule()
			m.NewFunc("f", types.Void).GC = s
			return m
		}, func(m *ir.Module) string { return m.Funcs[0].GC }},
		{"source_filename", func(s string) *ir.Module {
			m := ir.NewModule()
			m.SourceFilename = s
			return m
		}, func(m *ir.Module) string { return m.SourceFilename }},
		{"module_asm", func(s string) *ir.Module {
			m := ir.NewModule()
			m.ModuleAsms = []string{s}
			return m
		}, func(m *ir.Module) string { return strings.Join(m.ModuleAsms, "\x00") }},
		{"metadata_string", func(s string) *ir.Module {
			m := ir.NewModule()
			m.MetadataDefs = append(m.MetadataDefs, &metadata.Tuple{MetadataID: -1, Fields: []metadata.Field{&metadata.String{Value: s}}})
			return m
		}, func(m *ir.Module) string {
			return m.MetadataDefs[0].(*metadata.Tuple).Fields[0].(*metadata.String).Value
		}},
		{"char_array", func(s string) *ir.Module {
			m := ir.NewModule()
			m.NewGlobalDef("g", constant.NewCharArray([]byte(s)))
			return m
		}, func(m *ir.Module) string { return string(m.Globals[0].Init.(*constant.CharArray).X) }},
		{"attr_string", func(s string) *ir.Module {
			m := ir.NewModule()
			f := m.NewFunc("f", types.Void)
			f.FuncAttrs = append(f.FuncAttrs, ir.AttrPair{Key: "k", Value: s})
			return m
		}, func(m *ir.Module) string { return m.Funcs[0].FuncAttrs[0].(ir.AttrPair).Value }},
		{"inline_asm", func(s string) *ir.Module {
			m := ir.NewModule()
			f := m.NewFunc("f", types.Void)
			b := f.NewBlock("entry")
			b.NewCall(ir.NewInlineAsm(types.NewPointer(types.NewFunc(types.Void)), s, "~{memory}"))
			b.NewRet(nil)
			return m
		}, func(m *ir.Module) string {
			return m.Funcs[0].Blocks[0].Insts[0].(*ir.InstCall).Callee.(*ir.InlineAsm).Asm
		}},
	}
}

func c11RoundTrip(c *config, p c11Pos, name string, isName bool) {
	o := c.out
	var text, back, text2 string
	stage := "build"
	oc, msg := guard(func() error {
		m := p.build(name)
		stage = "print"
		text = m.String()
		if printedPanic(text) {
			panic("panic swallowed by fmt: " + text)
		}
		stage = "parse"
		m2, err := asm.ParseString("c11.ll", text)
		if err != nil {
			return err
		}
		stage = "read"
		back = p.read(m2)
		stage = "reprint"
		text2 = m2.String()
		return nil
	})
	cls := ""
	if isName {
		cls = c11Class(p.name, name)
	}
	o.Stat("position." + p.name)
	o.Nontrivial(p.name + ":" + name)
	det := map[string]interface{}{"position": p.name, "name": hx(name), "printed": text, "stage": stage, "msg": msg, "read_back": hx(back)}
	switch {
	case oc != ocOk:
		o.Fail("name_round_trip", cls, stage+" "+oc.String(), det)
	case back != name:
		o.Fail("name_round_trip", cls, "decoded bytes differ", det)
	case text2 != text && !strings.HasPrefix(p.name, "di."):
		// (for the reflective debug-info positions the companions set to null are dropped by the parser, which
		// is not about the string; only the decoded bytes are compared there)
		o.Fail("name_round_trip", cls, "second print differs", det)
	default:
		o.Pass("name_round_trip")
		if isName {
			// correspondence for the decoders: the token the printer wrote, what the parser made of it
			kind := p.name
			switch kind {
			case "alias", "ifunc", "callee":
				kind = "global"
			case "blockaddress":
				kind = "block"
			}
			o.Case("decode_"+kind, []string{hx(name)}, []string{"Name " + hx(back)})
		}
	}
}

func runC11(c *config) {
	o := c.out
	r := newRng(c.seed, "c11")
	poss, sposs := c11Positions(), c11StringPositions()
	poss = append(poss, c11MorePositions()...)
	sposs = append(sposs, c11MoreStringPositions()...)
	// reflective debug-info string fields: keep those on which a benign probe survives print and parse
	var dposs []c11Pos
	for _, p := range c11DIStringPositions() {
		ok := false
		guard(func() error {
			m2, err := asm.ParseString("probe.ll", p.build("probe value").String())
			ok = err == nil && p.read(m2) == "probe value"
			return nil
		})
		if ok {
			dposs = append(dposs, p)
			o.Stat("di_string_fields.covered")
		} else {
			o.Stat("di_string_fields.skipped:" + p.name)
		}
	}
	if c.replay != "" {
		rp := readReplay(c.replay)
		if c11TypeHistReplay(c, rp.Detail) {
			return
		}
		name := unhx(rp.Detail["name"].(string))
		pos, _ := rp.Detail["position"].(string)
		for _, p := range append(append(append(poss, sposs...), dposs...), c11CharPositions()...) {
			if p.name == pos {
				c11RoundTrip(c, p, name, !strings.HasPrefix(pos, "char_array."))
			}
		}
		return
	}
	var names []string
	names = append(names, c11Corpus...)
	for i := 0; i < 600*c.scale; i++ {
		names = append(names, c11Name(r))
	}
	// all 1-byte names and a slice of the 2-byte names (all of them in the thorough tier) for the encoders
	for a := 1; a < 256; a++ {
		c11Encoders(c, string([]byte{byte(a)}))
		step := 7
		if c.tier == "thorough" {
			step = 1
		}
		for b := 1 + (a % step); b < 256; b += step {
			c11Encoders(c, string([]byte{byte(a), byte(b)}))
		}
	}
	o.StatN("encoders.exhaustive_1_2_bytes", 1)
	c11Encoders(c, "")
	for _, n := range names {
		c11Encoders(c, n)
		o.Stat("encoders.names")
	}
	// IDs
	for _, id := range []int64{0, 1, 7, 42, 1 << 31, 1<<63 - 1} {
		o.Case("global_id", []string{fmt.Sprint(id)}, []string{hx(verifhook.GlobalID(id))})
		o.Case("local_id", []string{fmt.Sprint(id)}, []string{hx(verifhook.LocalID(id))})
		o.Case("label_id", []string{fmt.Sprint(id)}, []string{hx(verifhook.LabelID(id))})
	}
	// round trips through print and parse, every identifier position
	for i, n := range names {
		for _, p := range poss {
			if strings.IndexByte(n, 0) >= 0 {
				continue
			}
			c11RoundTrip(c, p, n, true)
		}
		if i < 3 {
			o.Sample(map[string]interface{}{"name": fmt.Sprintf("%q", n), "global_token": verifhook.GlobalName(n), "type_token": verifhook.TypeName(n)})
		}
	}
	// strings: any bytes (NUL only in character arrays)
	for _, n := range names {
		for _, p := range sposs {
			s := n
			if p.name == "char_array" && r.chance(30) {
				s = s + "\x00" + s
			}
			c11RoundTrip(c, p, s, false)
		}
	}
	for i, n := range names {
		if strings.IndexByte(n, 0) >= 0 {
			continue
		}
		for j, p := range dposs {
			if (i+j)%4 == 0 || c.tier == "thorough" {
				c11RoundTrip(c, p, n, false)
			}
		}
	}
	// character arrays through every constructor, over UTF-8 and non-UTF-8 byte strings (c11chars.go)
	c11Chars(c, newRng(c.seed, "c11chars"), names)
	// blocks referred to from outside their function, by name and by ID, among named and unnamed neighbours (c11blockref.go)
	c11BlockRefs(c, names)
	c11TypeHistories(c, names) // a type named, then renamed by a field write / on a copy (c11typehist.go)
	// a name is never mistaken for an ID: unnamed and "numerically named" globals side by side
	for _, n := range []string{"0", "1", "42"} {
		m := ir.NewModule()
		m.NewGlobalDef("", constant.NewInt(i32, 1))
		m.NewGlobalDef(n, constant.NewInt(i32, 2))
		text := m.String()
		m2, err := asm.ParseString("ids.ll", text)
		if err != nil || len(m2.Globals) != 2 || m2.Globals[0].Name() != "" && false || m2.Globals[1].GlobalName != n || m2.Globals[0].GlobalName != "" {
			o.Fail("name_vs_id", "", "numeric name and unnamed ID confused", map[string]interface{}{"name": n, "printed": text, "err": fmt.Sprint(err)})
		} else {
			o.Pass("name_vs_id")
		}
	}
}

// ---- further string positions: every place where the printers call quote()

func c11FuncWith(set func(f *ir.Func)) func(string) *ir.Module {
	return func(s string) *ir.Module {
		m := ir.NewModule()
		f := m.NewFunc("f", types.Void)
		b := f.NewBlock("entry")
		b.NewRet(nil)
		set(f)
		return m
	}
}

func c11MoreStringPositions() []c11Pos {
	aliasMod := func(set func(m *ir.Module, g *ir.Global)) *ir.Module {
		m := ir.NewModule()
		g := m.NewGlobalDef("g", constant.NewInt(i32, 1))
		set(m, g)
		return m
	}
	resolverMod := func() (*ir.Module, *ir.Func) {
		m := ir.NewModule()
		res := m.NewFunc("res", types.NewPointer(types.NewFunc(types.Void)))
		b := res.NewBlock("entry")
		b.NewRet(constant.NewNull(types.NewPointer(types.NewFunc(types.Void))))
		return m, res
	}
	memMod := func(build func(b *ir.Block, p *ir.Param)) *ir.Module {
		m := ir.NewModule()
		f := m.NewFunc("f", types.Void, ir.NewParam("p", types.NewPointer(i32)))
		b := f.NewBlock("entry")
		build(b, f.Params[0])
		b.NewRet(nil)
		return m
	}
	inst0 := func(m *ir.Module) ir.Instruction { return m.Funcs[0].Blocks[0].Insts[0] }
	return []c11Pos{
		{"func_section", func(s string) *ir.Module {
			m := ir.NewModule()
			m.NewFunc("f", types.Void).Section = s
			return m
		}, func(m *ir.Module) string { return m.Funcs[0].Section }},
		{"func_partition", func(s string) *ir.Module {
			m := ir.NewModule()
			m.NewFunc("f", types.Void).Partition = s
			return m
		}, func(m *ir.Module) string { return m.Funcs[0].Partition }},
		{"alias_partition", func(s string) *ir.Module {
			return aliasMod(func(m *ir.Module, g *ir.Global) { m.NewAlias("a", g).Partition = s })
		}, func(m *ir.Module) string { return m.Aliases[0].Partition }},
		{"ifunc_partition", func(s string) *ir.Module {
			m, res := resolverMod()
			m.NewIFunc("i", res).Partition = s
			return m
		}, func(m *ir.Module) string { return m.IFuncs[0].Partition }},
		{"datalayout", func(s string) *ir.Module {
			m := ir.NewModule()
			m.DataLayout = s
			return m
		}, func(m *ir.Module) string { return m.DataLayout }},
		{"target_triple", func(s string) *ir.Module {
			m := ir.NewModule()
			m.TargetTriple = s
			return m
		}, func(m *ir.Module) string { return m.TargetTriple }},
		{"syncscope_fence", func(s string) *ir.Module {
			return memMod(func(b *ir.Block, p *ir.Param) {
				b.NewFence(enum.AtomicOrderingSequentiallyConsistent).SyncScope = s
			})
		}, func(m *ir.Module) string { return inst0(m).(*ir.InstFence).SyncScope }},
		{"syncscope_load", func(s string) *ir.Module {
			return memMod(func(b *ir.Block, p *ir.Param) {
				l := b.NewLoad(i32, p)
				l.Atomic, l.Ordering, l.Align, l.SyncScope = true, enum.AtomicOrderingAcquire, ir.Align(4), s
			})
		}, func(m *ir.Module) string { return inst0(m).(*ir.InstLoad).SyncScope }},
		{"syncscope_store", func(s string) *ir.Module {
			return memMod(func(b *ir.Block, p *ir.Param) {
				l := b.NewStore(constant.NewInt(i32, 1), p)
				l.Atomic, l.Ordering, l.Align, l.SyncScope = true, enum.AtomicOrderingRelease, ir.Align(4), s
			})
		}, func(m *ir.Module) string { return inst0(m).(*ir.InstStore).SyncScope }},
		{"syncscope_cmpxchg", func(s string) *ir.Module {
			return memMod(func(b *ir.Block, p *ir.Param) {
				b.NewCmpXchg(p, constant.NewInt(i32, 1), constant.NewInt(i32, 2), enum.AtomicOrderingSequentiallyConsistent, enum.AtomicOrderingSequentiallyConsistent).SyncScope = s
			})
		}, func(m *ir.Module) string { return inst0(m).(*ir.InstCmpXchg).SyncScope }},
		{"syncscope_atomicrmw", func(s string) *ir.Module {
			return memMod(func(b *ir.Block, p *ir.Param) {
				b.NewAtomicRMW(enum.AtomicOpAdd, p, constant.NewInt(i32, 1), enum.AtomicOrderingSequentiallyConsistent).SyncScope = s
			})
		}, func(m *ir.Module) string { return inst0(m).(*ir.InstAtomicRMW).SyncScope }},
		{"inline_asm_constraint", func(s string) *ir.Module {
			return memMod(func(b *ir.Block, p *ir.Param) {
				b.NewCall(ir.NewInlineAsm(types.NewPointer(types.NewFunc(types.Void)), "nop", s))
			})
		}, func(m *ir.Module) string { return inst0(m).(*ir.InstCall).Callee.(*ir.InlineAsm).Constraint }},
		{"bundle_tag_call", func(s string) *ir.Module {
			m := ir.NewModule()
			g := m.NewFunc("g", types.Void)
			f := m.NewFunc("f", types.Void)
			b := f.NewBlock("entry")
			b.NewCall(g).OperandBundles = []*ir.OperandBundle{ir.NewOperandBundle(s, constant.NewInt(i32, 1))}
			b.NewRet(nil)
			return m
		}, func(m *ir.Module) string {
			return m.Funcs[1].Blocks[0].Insts[0].(*ir.InstCall).OperandBundles[0].Tag
		}},
		{"bundle_tag_invoke", func(s string) *ir.Module {
			m := ir.NewModule()
			g := m.NewFunc("g", types.Void)
			f := m.NewFunc("f", types.Void)
			b := f.NewBlock("entry")
			n := f.NewBlock("n")
			e := f.NewBlock("e")
			b.NewInvoke(g, nil, n, e).OperandBundles = []*ir.OperandBundle{ir.NewOperandBundle(s)}
			n.NewRet(nil)
			e.NewUnreachable()
			return m
		}, func(m *ir.Module) string {
			return m.Funcs[1].Blocks[0].Term.(*ir.TermInvoke).OperandBundles[0].Tag
		}},
		{"attr_key", func(s string) *ir.Module {
			return c11FuncWith(func(f *ir.Func) { f.FuncAttrs = append(f.FuncAttrs, ir.AttrPair{Key: s, Value: "v"}) })("")
		}, func(m *ir.Module) string { return m.Funcs[0].FuncAttrs[0].(ir.AttrPair).Key }},
		{"attr_string", func(s string) *ir.Module {
			return c11FuncWith(func(f *ir.Func) { f.FuncAttrs = append(f.FuncAttrs, ir.AttrString(s)) })("")
		}, func(m *ir.Module) string { return string(m.Funcs[0].FuncAttrs[0].(ir.AttrString)) }},
		{"param_attr_string", func(s string) *ir.Module {
			m := ir.NewModule()
			p := ir.NewParam("x", i32)
			p.Attrs = append(p.Attrs, ir.AttrPair{Key: "k", Value: s})
			m.NewFunc("f", types.Void, p)
			return m
		}, func(m *ir.Module) string { return m.Funcs[0].Params[0].Attrs[0].(ir.AttrPair).Value }},
		{"attrgroup_string", func(s string) *ir.Module {
			m := ir.NewModule()
			ag := &ir.AttrGroupDef{ID: 0, FuncAttrs: []ir.FuncAttribute{ir.AttrPair{Key: "k", Value: s}}}
			m.AttrGroupDefs = append(m.AttrGroupDefs, ag)
			f := m.NewFunc("f", types.Void)
			f.FuncAttrs = append(f.FuncAttrs, ag)
			return m
		}, func(m *ir.Module) string { return m.AttrGroupDefs[0].FuncAttrs[0].(ir.AttrPair).Value }},
		{"global_attr_string", func(s string) *ir.Module {
			m := ir.NewModule()
			g := m.NewGlobalDef("g", constant.NewInt(i32, 1))
			g.FuncAttrs = append(g.FuncAttrs, ir.AttrPair{Key: "k", Value: s})
			return m
		}, func(m *ir.Module) string {
			if len(m.Globals[0].FuncAttrs) == 0 {
				return "\x00no attribute"
			}
			switch a := m.Globals[0].FuncAttrs[0].(type) {
			case ir.AttrPair:
				return a.Value
			case *ir.AttrGroupDef:
				return a.FuncAttrs[0].(ir.AttrPair).Value
			}
			return "\x00unexpected attribute kind"
		}},
	}
}

// identifier positions beyond the nine of c11Positions: alias and ifunc names, a callee, a blockaddress label
func c11MorePositions() []c11Pos {
	return []c11Pos{
		{"alias", func(n string) *ir.Module {
			m := ir.NewModule()
			g := m.NewGlobalDef(aux(n, "g"), constant.NewInt(i32, 1))
			m.NewAlias(n, g)
			return m
		}, func(m *ir.Module) string {
			if m.Aliases[0].Aliasee != m.Globals[0] {
				return "\x00aliasee not bound"
			}
			return m.Aliases[0].GlobalName
		}},
		{"ifunc", func(n string) *ir.Module {
			m := ir.NewModule()
			res := m.NewFunc(aux(n, "res"), types.NewPointer(types.NewFunc(types.Void)))
			b := res.NewBlock("entry")
			b.NewRet(constant.NewNull(types.NewPointer(types.NewFunc(types.Void))))
			m.NewIFunc(n, res)
			return m
		}, func(m *ir.Module) string { return m.IFuncs[0].GlobalName }},
		{"callee", func(n string) *ir.Module {
			m := ir.NewModule()
			g := m.NewFunc(n, types.Void)
			f := m.NewFunc("caller.of", types.Void)
			b := f.NewBlock("entry")
			b.NewCall(g)
			b.NewRet(nil)
			return m
		}, func(m *ir.Module) string {
			if m.Funcs[1].Blocks[0].Insts[0].(*ir.InstCall).Callee != m.Funcs[0] {
				return "\x00callee not bound to the function"
			}
			return m.Funcs[0].GlobalName
		}},
		{"blockaddress", func(n string) *ir.Module {
			m := ir.NewModule()
			f := m.NewFunc("f", types.Void)
			e := f.NewBlock(aux(n, "entry"))
			t := f.NewBlock(n)
			e.NewBr(t)
			t.NewRet(nil)
			m.NewGlobalDef("g", constant.NewBlockAddress(f, t))
			return m
		}, func(m *ir.Module) string {
			ba, ok := m.Globals[0].Init.(*constant.BlockAddress)
			if !ok || ba.Block != m.Funcs[0].Blocks[1] {
				return "\x00blockaddress not bound to the block"
			}
			return m.Funcs[0].Blocks[1].LocalName
		}},
	}
}

// c11DIStringPositions: one position per string field of every specialised metadata node (found by
// reflection, so a new field is covered without editing this file); fields whose benign probe value does
// not survive on the unchanged tree are skipped by the probe in runC11 and counted.
func c11DIStringPositions() []c11Pos {
	var out []c11Pos
	protos := []metadata.Definition{
		&metadata.DIBasicType{}, &metadata.DICommonBlock{}, &metadata.DICompileUnit{}, &metadata.DICompositeType{},
		&metadata.DIDerivedType{}, &metadata.DIEnumerator{}, &metadata.DIFile{}, &metadata.DIGlobalVariable{},
		&metadata.DIImportedEntity{}, &metadata.DILabel{}, &metadata.DILocalVariable{}, &metadata.DIMacro{},
		&metadata.DIModule{}, &metadata.DINamespace{}, &metadata.DIObjCProperty{}, &metadata.DIStringType{},
		&metadata.DISubprogram{}, &metadata.DITemplateTypeParameter{}, &metadata.DITemplateValueParameter{},
		&metadata.GenericDINode{},
	}
	for _, proto := range protos {
		rt := reflect.TypeOf(proto).Elem()
		for i := 0; i < rt.NumField(); i++ {
			if rt.Field(i).Type.Kind() != reflect.String {
				continue
			}
			rt, i := rt, i
			out = append(out, c11Pos{"di." + rt.Name() + "." + rt.Field(i).Name, func(s string) *ir.Module {
				m := ir.NewModule()
				nv := reflect.New(rt)
				nv.Elem().FieldByName("MetadataID").SetInt(-1)
				nv.Elem().Field(i).SetString(s)
				// required companions: node-valued fields are null, enums with an invalid zero value get a member
				for k := 0; k < rt.NumField(); k++ {
					fv := nv.Elem().Field(k)
					switch {
					case fv.Kind() == reflect.Interface && fv.IsNil() && reflect.TypeOf(metadata.Null).Implements(fv.Type()):
						fv.Set(reflect.ValueOf(metadata.Null))
					case fv.Type() == reflect.TypeOf(enum.DwarfLang(0)):
						fv.Set(reflect.ValueOf(enum.DwarfLangC99))
					case fv.Type() == reflect.TypeOf(enum.DwarfMacinfo(0)):
						fv.Set(reflect.ValueOf(enum.DwarfMacinfoDefine))
					}
				}
				m.MetadataDefs = append(m.MetadataDefs, nv.Interface().(metadata.Definition))
				return m
			}, func(m *ir.Module) string {
				if len(m.MetadataDefs) != 1 {
					return "\x00no metadata definition"
				}
				v := reflect.ValueOf(m.MetadataDefs[0])
				if v.Elem().Type() != rt {
					return "\x00node kind changed"
				}
				return v.Elem().Field(i).String()
			}})
		}
	}
	return out
}
