// Object dump: Go IR objects of parsed modules written as GoEval values (Model/GoEval.v), with the
// implementation's own LLString / Ident / String / Type results, for the regenerated printers and
// Type() methods to be run on inside Coq (leg "dump" of C01, C02, C03).
package main

import (
	"fmt"
	"os"
	"path/filepath"
	"reflect"
	"sort"
	"strings"

	"github.com/llir/llvm/asm"
	"github.com/llir/llvm/ir"
	"github.com/llir/llvm/ir/constant"
	"github.com/llir/llvm/ir/types"
)

func coqBytes(s string) string {
	var b strings.Builder
	b.WriteString("[")
	for i := 0; i < len(s); i++ {
		if i > 0 {
			b.WriteString(";")
		}
		fmt.Fprintf(&b, "x%02x", s[i])
	}
	b.WriteString("]")
	return b.String()
}

func pkgShort(t reflect.Type) string {
	p := t.PkgPath()
	switch {
	case strings.HasSuffix(p, "/ir"):
		return "ir"
	case strings.HasSuffix(p, "/ir/types"):
		return "types"
	case strings.HasSuffix(p, "/ir/constant"):
		return "constant"
	case strings.HasSuffix(p, "/ir/metadata"):
		return "metadata"
	case strings.HasSuffix(p, "/ir/enum"):
		return "enum"
	case strings.HasSuffix(p, "/ir/value"):
		return "value"
	}
	return ""
}

var methodWhitelist = []string{"Ident", "Type", "Name", "IsUnnamed", "Sig", "ID", "AssignIDs", "AssignGlobalIDs", "AssignMetadataIDs"}

func safeCall(m reflect.Value) (out []reflect.Value, ok bool) {
	defer func() {
		if recover() != nil {
			ok = false
		}
	}()
	return m.Call(nil), true
}

// leaf: an operand seen through an interface: only what its methods return.
func leaf(v reflect.Value, depth int) string {
	if !v.IsValid() || (v.Kind() == reflect.Interface || v.Kind() == reflect.Ptr) && v.IsNil() {
		return "VNil"
	}
	for v.Kind() == reflect.Interface {
		v = v.Elem()
	}
	if t, ok := v.Interface().(types.Type); ok && depth <= 6 {
		return structural(reflect.ValueOf(t), depth+1, false)
	}
	t := v.Type()
	for t.Kind() == reflect.Ptr {
		t = t.Elem()
	}
	name := pkgShort(t) + "." + t.Name()
	var fs []string
	for _, m := range append([]string{"String", "LLString"}, methodWhitelist...) {
		mv := v.MethodByName(m)
		if !mv.IsValid() || mv.Type().NumIn() != 0 || mv.Type().NumOut() != 1 {
			continue
		}
		out, ok := safeCall(mv)
		if !ok {
			continue
		}
		fs = append(fs, fmt.Sprintf("(%q, %s)", m+"()", simple(out[0], depth+1)))
	}
	return fmt.Sprintf("VObj %q [%s]", name, strings.Join(fs, "; "))
}

func simple(v reflect.Value, depth int) string {
	switch v.Kind() {
	case reflect.String:
		return "VStr " + coqBytes(v.String())
	case reflect.Bool:
		if v.Bool() {
			return "VBool true"
		}
		return "VBool false"
	case reflect.Int, reflect.Int8, reflect.Int16, reflect.Int32, reflect.Int64:
		if p := pkgShort(v.Type()); p != "" {
			return fmt.Sprintf("VEnum %q (%d)%%Z", p+"."+v.Type().Name(), v.Int())
		}
		return fmt.Sprintf("VInt (%d)%%Z", v.Int())
	case reflect.Uint, reflect.Uint8, reflect.Uint16, reflect.Uint32, reflect.Uint64:
		if p := pkgShort(v.Type()); p != "" {
			return fmt.Sprintf("VEnum %q %d%%Z", p+"."+v.Type().Name(), v.Uint())
		}
		return fmt.Sprintf("VInt %d%%Z", v.Uint())
	case reflect.Interface:
		return leaf(v, depth)
	case reflect.Ptr, reflect.Struct:
		return structural(v, depth, false)
	case reflect.Map:
		var es []string
		it := v.MapRange() // Go's own (randomised) iteration order
		for it.Next() {
			es = append(es, "VTuple ["+simple(it.Key(), depth)+"; "+simple(it.Value(), depth)+"]")
		}
		return "VList [" + strings.Join(es, "; ") + "]"
	case reflect.Slice:
		if v.IsNil() {
			return "VNil"
		}
		if v.Type().Elem().Kind() == reflect.Uint8 && v.Type().Elem().PkgPath() == "" {
			return "VStr " + coqBytes(string(v.Bytes()))
		}
		var es []string
		for i := 0; i < v.Len(); i++ {
			es = append(es, simple(v.Index(i), depth))
		}
		return "VList [" + strings.Join(es, "; ") + "]"
	}
	return "VNil"
}

// structural: the exported fields of a struct, plus whitelisted method results.
func structural(v reflect.Value, depth int, top bool) string {
	if v.Kind() == reflect.Ptr {
		if v.IsNil() {
			return "VNil"
		}
		if depth > 6 {
			return leafOf(v)
		}
		pv := v
		v = v.Elem()
		if v.Kind() != reflect.Struct {
			return simple(v, depth)
		}
		return structFields(pv, v, depth, top)
	}
	if v.Kind() != reflect.Struct {
		return simple(v, depth)
	}
	if depth > 6 {
		return "VNil"
	}
	// addressable copy so pointer-receiver methods are visible
	pv := reflect.New(v.Type())
	pv.Elem().Set(v)
	return structFields(pv, pv.Elem(), depth, top)
}

func leafOf(v reflect.Value) string { return leaf(v, 100) }

func structFields(pv, v reflect.Value, depth int, top bool) string {
	t := v.Type()
	if pkgShort(t) == "" {
		return "VNil"
	}
	name := pkgShort(t) + "." + t.Name()
	var fs []string
	named := false
	if f := v.FieldByName("TypeName"); f.IsValid() && f.Kind() == reflect.String && f.Len() > 0 && !top && insideType > 0 {
		named = true // a named type inside another type: only its name is ever printed
	}
	if pkgShort(t) == "types" {
		insideType++
		defer func() { insideType-- }()
	}
	for i := 0; i < t.NumField(); i++ {
		sf := t.Field(i)
		if !sf.IsExported() || sf.Name == "Parent" || sf.Name == "Successors" {
			continue
		}
		if top && hideType && sf.Name == "Typ" {
			fs = append(fs, "(\"Typ\", VNil)")
			continue
		}
		if named && sf.Name == "Fields" {
			continue
		}
		fv := v.Field(i)
		if sf.Anonymous { // embedded LocalIdent, GlobalIdent, MetadataID: flatten
			if fv.Kind() == reflect.Struct {
				for j := 0; j < fv.NumField(); j++ {
					if fv.Type().Field(j).IsExported() {
						fs = append(fs, fmt.Sprintf("(%q, %s)", fv.Type().Field(j).Name, simple(fv.Field(j), depth+1)))
					}
				}
			} else {
				fs = append(fs, fmt.Sprintf("(%q, %s)", sf.Name, simple(fv, depth+1)))
			}
			continue
		}
		fs = append(fs, fmt.Sprintf("(%q, %s)", sf.Name, simple(fv, depth+1)))
	}
	for _, m := range methodWhitelist {
		mv := pv.MethodByName(m)
		if !mv.IsValid() || mv.Type().NumIn() != 0 || mv.Type().NumOut() != 1 {
			continue
		}
		if m == "Type" && (strings.HasPrefix(name, "types.") || (top && hideType)) {
			continue
		}
		out, ok := safeCall(mv)
		if !ok {
			continue
		}
		fs = append(fs, fmt.Sprintf("(%q, %s)", m+"()", simple(out[0], depth+1)))
	}
	return fmt.Sprintf("VObj %q [%s]", name, strings.Join(fs, "; "))
}

var insideType int
var hideType bool

type llstringer interface{ LLString() string }

func runDumpMain(args []string) {
	var files []string
	for _, d := range strings.Split(args[0], ",") {
		fs, _ := filepath.Glob(filepath.Join(d, "*.ll"))
		sort.Strings(fs)
		files = append(files, fs...)
	}
	out, _ := os.Create(args[1])
	defer out.Close()
	fmt.Fprintln(out, "From Coq Require Import List String ZArith. From Coq Require Import Strings.Byte.")
	fmt.Fprintln(out, "From LLIR Require Import Lib.Bytes Model.GoEval Gen.Printers.\nImport ListNotations. Open Scope string_scope.")
	fmt.Fprintln(out, "Definition cases : list (string * string * val * bytes) := [")
	n := 0
	kinds := map[string]int{}
	first := true
	emitM := func(x interface{}, method string) {
		v := reflect.ValueOf(x)
		if v.Kind() != reflect.Ptr || v.IsNil() {
			return
		}
		t := v.Type().Elem()
		name := pkgShort(t) + "." + t.Name()
		if kinds[name+"."+method] >= 12 {
			return
		}
		mv := v.MethodByName(method)
		if !mv.IsValid() {
			return
		}
		o, ok := safeCall(mv)
		if !ok {
			return
		}
		kinds[name+"."+method]++
		want := o[0].String()
		if !first {
			fmt.Fprintln(out, ";")
		}
		first = false
		saved := methodWhitelist
		if method == "Ident" { // do not hand the answer to the printer under test
			methodWhitelist = []string{"Type", "Name", "IsUnnamed", "Sig", "ID", "AssignIDs"}
		}
		fmt.Fprintf(out, "(%q, %q, %s, %s)", name, method, structural(v, 0, true), coqBytes(want))
		methodWhitelist = saved
		n++
	}
	emitType := func(x interface{}) {
		v := reflect.ValueOf(x)
		if v.Kind() != reflect.Ptr || v.IsNil() {
			return
		}
		mv := v.MethodByName("Type")
		if !mv.IsValid() {
			return
		}
		t := v.Type().Elem()
		name := pkgShort(t) + "." + t.Name()
		if kinds[name+".Type"] >= 8 {
			return
		}
		o, ok := safeCall(mv)
		if !ok {
			return
		}
		kinds[name+".Type"]++
		want := o[0].Interface().(types.Type).String()
		if !first {
			fmt.Fprintln(out, ";")
		}
		first = false
		hideType = true
		fmt.Fprintf(out, "(%q, %q, %s, %s)", name, "Type", structural(v, 0, true), coqBytes(want))
		hideType = false
		n++
	}
	emit := func(x llstringer) { emitM(x, "LLString"); emitType(x) }
	for _, f := range files {
		m, err := asm.ParseFile(f)
		if err != nil {
			fmt.Fprintln(os.Stderr, "skip", f, err)
			continue
		}
		func() {
			defer func() {
				if r := recover(); r != nil {
					fmt.Fprintln(os.Stderr, "panic in", f, r)
				}
			}()
			whole := m.String() // assigns IDs
			if len(whole) < 6000 {
				if !first {
					fmt.Fprintln(out, ";")
				}
				first = false
				fmt.Fprintf(out, "(%q, %q, %s, %s)", "ir.Module", "WriteTo", structural(reflect.ValueOf(m), 0, true), coqBytes(whole))
				n++
				kinds["ir.Module.WriteTo"]++
			}
			for _, t := range m.TypeDefs {
				if ls, ok := t.(llstringer); ok {
					emit(ls)
				}
			}
			for _, g := range m.Globals {
				emit(g)
				if e, ok := g.Init.(constant.Expression); ok {
					emitM(e, "Ident")
				}
				switch c := g.Init.(type) {
				case *constant.Struct, *constant.Array, *constant.Vector, *constant.CharArray, *constant.ZeroInitializer, *constant.Null, *constant.Undef:
					emitM(c, "Ident")
				}
			}
			for _, md := range m.MetadataDefs {
				emitM(md, "LLString")
			}
			for _, a := range m.AttrGroupDefs {
				emitM(a, "LLString")
			}
			for _, c := range m.ComdatDefs {
				emitM(c, "LLString")
			}
			for _, fn := range m.Funcs {
				if len(fn.Blocks) <= 3 {
					emitM(fn, "LLString")
				}
				for _, b := range fn.Blocks {
					if len(b.Insts) <= 6 {
						emitM(b, "LLString")
					}
					for _, inst := range b.Insts {
						for _, op := range inst.Operands() {
							if e, ok := (*op).(constant.Expression); ok {
								emitM(e, "Ident")
								emitType(e)
							}
						}
					}
				}
			}
			for _, fn := range m.Funcs {
				for _, b := range fn.Blocks {
					for _, inst := range b.Insts {
						emit(inst.(llstringer))
					}
					emit(b.Term.(llstringer))
				}
			}
			for _, a := range m.Aliases {
				emit(a)
			}
			var _ = ir.NewModule
		}()
	}
	fmt.Fprintln(out, "].")
	fmt.Fprintln(out, `Definition impl (_ _ : string) := false.
Definition ity (n : Z) : val := VObj "types.IntType" [("TypeName", VStr []); ("BitSize", VInt n)].
Definition globals : env := [("types", VObj "pkg" [("Void", VObj "types.VoidType" [("TypeName", VStr [])]); ("I1", ity 1); ("I8", ity 8); ("I16", ity 16); ("I32", ity 32); ("I64", ity 64);
  ("Label", VObj "types.LabelType" [("TypeName", VStr [])]); ("Token", VObj "types.TokenType" [("TypeName", VStr [])]); ("Metadata", VObj "types.MetadataType" [("TypeName", VStr [])]);
  ("I8Ptr", VObj "types.PointerType" [("TypeName", VStr []); ("ElemType", ity 8); ("AddrSpace", VEnum "types.AddrSpace" 0)])])].
Definition check (c : string * string * val * bytes) : option (string * string) :=
  let '(ty, m, v, want) := c in
  match call_printer impl globals 14 ty m v with
  | Ok (VStr got) => if bytes_eqb got want then None else Some (ty, "DIFF: " ++ string_of_list_byte got ++ "  WANT: " ++ string_of_list_byte want)
  | Ok (VObj t _ as o) =>
    match call_printer impl globals 14 t "String" o with
    | Ok (VStr got) => if bytes_eqb got want then None else Some (ty, "DIFF: " ++ string_of_list_byte got ++ "  WANT: " ++ string_of_list_byte want)
    | Ok _ => Some (ty, "non-string")
    | Fail w => Some (ty, "FAIL in String: " ++ w)
    end
  | Ok _ => Some (ty, "non-string")
  | Fail w => Some (ty, "FAIL: " ++ w)
  end.
Definition bad := Eval vm_compute in (fix go (l : list (string * string * val * bytes)) := match l with [] => [] | c :: r => match check c with Some x => x :: go r | None => go r end end) cases.
Definition ndiff := Eval vm_compute in List.length (filter (fun x => String.prefix "DIFF" (snd x)) bad).
Definition summary := Eval vm_compute in (List.length cases, List.length bad, ndiff). Print summary.
Definition diffs := Eval vm_compute in firstn 5 (filter (fun x => String.prefix "DIFF" (snd x)) bad). Print diffs.
Definition gaps := Eval vm_compute in map fst (filter (fun x => negb (String.prefix "DIFF" (snd x))) bad). Print gaps.`)
	var ks []string
	for k, c := range kinds {
		ks = append(ks, fmt.Sprintf("%s:%d", k, c))
	}
	sort.Strings(ks)
	fmt.Fprintln(os.Stderr, n, "cases;", len(kinds), "kinds:", strings.Join(ks, " "))
}
