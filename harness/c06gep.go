package main

// C06, getelementptr CONSTANT EXPRESSIONS with vector operands in every spelling a vector constant has: an element
// list (splat or not), zeroinitializer, undef, poison, a constant expression of vector type; on a scalar base (a
// global, null) or a vector-of-pointers base (zeroinitializer, undef, an element list), through arrays and structs
// (a struct field selected by a scalar, a splat or a zeroinitializer vector), in any address space.
//
// The expected type is LLVM's rule restated here over the generator's own description of the expression: walk the
// element type along the indices (the first steps over the pointer), take the address space of the base, and the
// result is a vector of pointers -- with the length of the vector operands -- as soon as the base or any index
// is a vector, however that vector is spelled.  The library's answers compared with it: Type() of the constructed
// expression; the parser's type of the expression printed by the library; the parser's type of the expression in a
// text written by the generator itself, as a global initialiser and as an operand inside a function body.

import (
	"fmt"
	"strings"

	"github.com/llir/llvm/asm"
	"github.com/llir/llvm/ir"
	"github.com/llir/llvm/ir/constant"
	"github.com/llir/llvm/ir/enum"
	"github.com/llir/llvm/ir/types"
)

type c06GepOperand struct {
	text string // type and value, as LLVM writes them
	mk   func(base *ir.Global) constant.Constant
	vec  bool
	form string // spelling, for the statistics
}

type c06GepCase struct {
	elem    types.Type
	as      uint64
	base    c06GepOperand
	idx     []c06GepOperand
	n       uint64 // length of every vector operand
	want    types.Type
	inbound bool
}

// a small element type: scalars, arrays, literal structs, nested
func c06GepElem(r *rng, depth int) types.Type {
	scalars := []types.Type{types.I8, types.I16, types.I32, types.I64, types.Float, types.Double, types.NewPointer(types.I8)}
	if depth <= 0 || r.chance(25) {
		return scalars[r.intn(len(scalars))]
	}
	if r.coin() {
		return types.NewArray(uint64(1+r.intn(4)), c06GepElem(r, depth-1))
	}
	var fs []types.Type
	for k := 1 + r.intn(3); k > 0; k-- {
		fs = append(fs, c06GepElem(r, depth-1))
	}
	st := types.NewStruct(fs...)
	st.Packed = r.chance(20)
	return st
}

// c06GepVecInt: a vector of n integers of type it in one of its spellings. val >= 0 asks for a vector that
// selects the struct field val (only a splat element list, or zeroinitializer for field 0, do)
func c06GepVecInt(r *rng, it *types.IntType, n uint64, val int64) c06GepOperand {
	vt := types.NewVector(n, it)
	list := func(vals []int64, form string) c06GepOperand {
		var ts []string
		for _, v := range vals {
			ts = append(ts, fmt.Sprintf("%s %d", it, v))
		}
		return c06GepOperand{text: fmt.Sprintf("%s <%s>", vt, strings.Join(ts, ", ")), vec: true, form: form,
			mk: func(*ir.Global) constant.Constant {
				var es []constant.Constant
				for _, v := range vals {
					es = append(es, constant.NewInt(it, v))
				}
				return constant.NewVector(vt, es...)
			}}
	}
	splat := func(v int64) c06GepOperand {
		vals := make([]int64, n)
		for i := range vals {
			vals[i] = v
		}
		return list(vals, "splat_list")
	}
	zero := c06GepOperand{text: vt.String() + " zeroinitializer", vec: true, form: "zeroinitializer",
		mk: func(*ir.Global) constant.Constant { return constant.NewZeroInitializer(vt) }}
	if val >= 0 {
		if val == 0 && r.coin() {
			return zero
		}
		return splat(val)
	}
	switch r.intn(7) {
	case 0:
		return splat(int64(r.intn(4)))
	case 1:
		vals := make([]int64, n)
		for i := range vals {
			vals[i] = int64(r.intn(5)) - 1
		}
		return list(vals, "element_list")
	case 2:
		return zero
	case 3:
		return c06GepOperand{text: vt.String() + " undef", vec: true, form: "undef",
			mk: func(*ir.Global) constant.Constant { return constant.NewUndef(vt) }}
	case 4:
		return c06GepOperand{text: vt.String() + " poison", vec: true, form: "poison",
			mk: func(*ir.Global) constant.Constant { return constant.NewPoison(vt) }}
	case 5:
		// a constant expression of vector type
		a, b := splat(int64(r.intn(3))), zero
		op := []string{"add", "sub", "mul"}[r.intn(3)]
		return c06GepOperand{text: fmt.Sprintf("%s %s (%s, %s)", vt, op, a.text, b.text), vec: true, form: "constant_expression",
			mk: func(*ir.Global) constant.Constant {
				switch op {
				case "add":
					return constant.NewAdd(a.mk(nil), b.mk(nil))
				case "sub":
					return constant.NewSub(a.mk(nil), b.mk(nil))
				}
				return constant.NewMul(a.mk(nil), b.mk(nil))
			}}
	default:
		return zero
	}
}

func c06GepGen(r *rng) c06GepCase {
	cs := c06GepCase{elem: c06GepElem(r, 3), n: uint64(1 + r.intn(5)), inbound: r.chance(30)}
	if r.chance(35) {
		cs.as = uint64(1 + r.intn(6))
	}
	pt := ptrTo(cs.elem, cs.as)
	anyVec := false
	// ---- the base
	switch k := r.intn(10); {
	case k < 5:
		cs.base = c06GepOperand{text: pt.String() + " @base", form: "global", mk: func(g *ir.Global) constant.Constant { return g }}
	case k < 7:
		cs.base = c06GepOperand{text: pt.String() + " null", form: "null", mk: func(*ir.Global) constant.Constant { return constant.NewNull(pt) }}
	default:
		vt := types.NewVector(cs.n, pt)
		anyVec = true
		switch r.intn(4) {
		case 0:
			cs.base = c06GepOperand{text: vt.String() + " zeroinitializer", vec: true, form: "vector_zeroinitializer",
				mk: func(*ir.Global) constant.Constant { return constant.NewZeroInitializer(vt) }}
		case 1:
			cs.base = c06GepOperand{text: vt.String() + " undef", vec: true, form: "vector_undef",
				mk: func(*ir.Global) constant.Constant { return constant.NewUndef(vt) }}
		default:
			var ts []string
			useNull := make([]bool, cs.n)
			for i := range useNull {
				useNull[i] = r.chance(30)
				if useNull[i] {
					ts = append(ts, pt.String()+" null")
				} else {
					ts = append(ts, pt.String()+" @base")
				}
			}
			cs.base = c06GepOperand{text: fmt.Sprintf("%s <%s>", vt, strings.Join(ts, ", ")), vec: true, form: "vector_element_list",
				mk: func(g *ir.Global) constant.Constant {
					var es []constant.Constant
					for _, nl := range useNull {
						if nl {
							es = append(es, constant.NewNull(pt))
						} else {
							es = append(es, g)
						}
					}
					return constant.NewVector(vt, es...)
				}}
		}
	}
	// ---- the indices: the first one steps over the pointer, the others walk into the element type
	ints := []*types.IntType{types.I8, types.I16, types.I32, types.I64}
	scalarIdx := func(it *types.IntType, v int64) c06GepOperand {
		return c06GepOperand{text: fmt.Sprintf("%s %d", it, v), form: "scalar", mk: func(*ir.Global) constant.Constant { return constant.NewInt(it, v) }}
	}
	free := func(limit int) c06GepOperand { // an index whose value does not matter for the type
		it := ints[r.intn(len(ints))]
		if r.chance(55) {
			return c06GepVecInt(r, it, cs.n, -1)
		}
		return scalarIdx(it, int64(r.intn(limit)))
	}
	cs.idx = append(cs.idx, free(3))
	cur := cs.elem
walk:
	for len(cs.idx) < 5 {
		if r.chance(20) {
			break
		}
		switch t := cur.(type) {
		case *types.ArrayType:
			cs.idx = append(cs.idx, free(int(t.Len)))
			cur = t.ElemType
		case *types.StructType:
			k := int64(r.intn(len(t.Fields)))
			if r.chance(45) {
				cs.idx = append(cs.idx, c06GepVecInt(r, types.I32, cs.n, k))
			} else {
				cs.idx = append(cs.idx, scalarIdx(types.I32, k))
			}
			cur = t.Fields[k]
		default:
			break walk
		}
	}
	for _, ix := range cs.idx {
		anyVec = anyVec || ix.vec
	}
	cs.want = ptrTo(cur, cs.as)
	if anyVec {
		cs.want = types.NewVector(cs.n, cs.want)
	}
	return cs
}

func (cs *c06GepCase) exprText() string {
	var parts []string
	parts = append(parts, cs.elem.String(), cs.base.text)
	for _, ix := range cs.idx {
		parts = append(parts, ix.text)
	}
	kw := "getelementptr"
	if cs.inbound {
		kw += " inbounds"
	}
	return fmt.Sprintf("%s (%s)", kw, strings.Join(parts, ", "))
}

func c06ConstGEP(c *config, r *rng) {
	o := c.out
	for i := 0; i < 500*c.scale; i++ {
		cs := c06GepGen(r)
		want := "Ok " + cs.want.String()
		forms := []string{"base=" + cs.base.form}
		for _, ix := range cs.idx {
			forms = append(forms, ix.form)
			o.Stat("cexpr_gep.index." + ix.form)
		}
		o.Stat("cexpr_gep.base." + cs.base.form)
		if _, ok := cs.want.(*types.VectorType); ok && !cs.base.vec {
			o.Stat("cexpr_gep.vector_result_from_index_only")
		}
		o.Stat("cexpr.getelementptr")
		baseDecl := "@base = external global " + cs.elem.String()
		if cs.as != 0 {
			baseDecl = fmt.Sprintf("@base = external addrspace(%d) global %s", cs.as, cs.elem)
		}
		exprText := cs.exprText()
		det := map[string]interface{}{"op": "getelementptr constant expression", "expr": cs.want.String() + " " + exprText, "forms": strings.Join(forms, ","), "llvm": want}
		o.Nontrivial("cexpr_gep:" + exprText)
		// (a) the constructor
		g := ir.NewGlobal("base", cs.elem)
		g.AddrSpace = types.AddrSpace(cs.as)
		g.Linkage = enum.LinkageExternal
		var e *constant.ExprGetElementPtr
		got := tyOrPanic(func() types.Type {
			var idx []constant.Constant
			for _, ix := range cs.idx {
				idx = append(idx, ix.mk(g))
			}
			e = constant.NewGetElementPtr(cs.elem, cs.base.mk(g), idx...)
			e.InBounds = cs.inbound
			return e.Type()
		})
		det["ir"] = got
		failed := false
		if got != want {
			o.Fail("result_type", "", "the type of a getelementptr constant expression differs from LLVM's rule", det)
			failed = true
		}
		// (b) the text written here, as an initialiser and as an operand in a function body: the parser checks the
		// expression against the type written before it and attaches its own type
		src := fmt.Sprintf("%s\n@p = global %s %s\ndefine %s @f() {\n\tret %s %s\n}\n", baseDecl, cs.want, exprText, cs.want, cs.want, exprText)
		det["src"] = src
		var initT, opT string
		oc, msg := guard(func() error {
			m, err := asm.ParseString("c06gep.ll", src)
			if err != nil {
				return err
			}
			for _, gl := range m.Globals {
				if gl.Name() == "p" {
					initT = gl.Init.Type().String()
				}
			}
			opT = m.Funcs[0].Blocks[0].Term.(*ir.TermRet).X.Type().String()
			return nil
		})
		switch {
		case oc != ocOk:
			det["msg"] = msg
			o.Fail("result_type", "", "the parser rejects (or crashes on) a well-typed getelementptr constant expression: "+oc.String(), det)
			failed = true
		case initT != cs.want.String() || opT != cs.want.String():
			det["parser"] = initT + " / " + opT
			o.Fail("result_type", "", "the parser's type of a getelementptr constant expression differs from LLVM's rule", det)
			failed = true
		}
		// (c) the expression printed by the library, read back
		if !failed {
			var pt string
			var printed string
			oc, msg := guard(func() error {
				m := ir.NewModule()
				m.NewGlobalDef("p", e)
				m.Globals = append(m.Globals, g)
				printed = m.String()
				m2, err := asm.ParseString("c06gep2.ll", printed)
				if err != nil {
					return err
				}
				pt = m2.Globals[0].Init.Type().String()
				return nil
			})
			if oc != ocOk || pt != cs.want.String() {
				det["printed"], det["msg"], det["parser"] = printed, msg, pt
				o.Fail("result_type", "", "a constructed getelementptr constant expression, printed, is not read back with LLVM's type: "+oc.String(), det)
				failed = true
			}
		}
		if !failed {
			o.Pass("result_type")
		}
		if i < 2 {
			o.Sample(det)
		}
	}
}
