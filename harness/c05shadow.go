package main

// C05, undefined names that a fallback lookup would find.  The fault generator of modgen.go redirects one use site
// to a name that nothing in the module carries in ANY namespace, and the entity that carries the use shares its name
// with nothing else, so a translator that retries a failed lookup -- with the name of the entity it is translating,
// in the table of another namespace, in the scope of another function -- still fails and still reports the error.
// Here the same faults are injected into modules that also contain
//   - an entity named like the undefined name in every OTHER namespace (type, global, comdat, named or numbered
//     metadata, attribute group, a local value and a block of another function), and
//   - an entity named like the CARRIER of the use (the global, function, type or metadata definition the use is
//     written in, and the instruction that holds it) in every other namespace.
// The expected outcome is the generator's: the variant in which the name is defined (by its own definition) is
// valid and must be accepted, the variant without that definition must be rejected with an error.
//
// Part A decorates every fault of the module generator; part B is a table of use sites the module generator does not
// have (comdat of a function, implicit comdat, alias/ifunc/personality, type of a global, metadata in every
// attachment position, block operands written outside their function), instantiated with names from a pool.

import (
	"fmt"
	"regexp"
	"strings"
)

var c05FaultTok = map[string]string{
	"type": "%undefined.type", "global": "@undefined.global", "local": "%undefined.local", "label": "%undefined.label",
	"comdat": "$undefined.comdat", "attr": "#987", "metadata": "!987", "blockaddr_func": "@undefined.func",
	"blockaddr_block": "%undefined.block",
}

// namespace of a use-site kind at module level ("" for the function-local ones)
func c05NSOf(ns string) string {
	switch ns {
	case "type", "comdat", "attr", "metadata":
		return ns
	case "global", "blockaddr_func":
		return "global"
	}
	return ""
}

var c05Plain = regexp.MustCompile(`^[-a-zA-Z$._][-a-zA-Z$._0-9]*$`)
var c05Num = regexp.MustCompile(`^[0-9]+$`)

// c05Decoys returns definitions of `name` in every namespace except `except`, leaving out those the text has already
func c05Decoys(text, name, except string, locals bool, tag string) []string {
	var out []string
	add := func(ns, head, line string) {
		if ns == except || strings.Contains("\n"+text, "\n"+head) {
			return
		}
		for _, l := range out {
			if strings.HasPrefix(l, head) {
				return
			}
		}
		out = append(out, line)
	}
	switch {
	case c05Num.MatchString(name):
		add("metadata", "!"+name+" = ", "!"+name+" = !{}")
		add("attr", "attributes #"+name+" = ", "attributes #"+name+" = { nounwind }")
	case c05Plain.MatchString(name):
		add("type", "%"+name+" = type", "%"+name+" = type { i32 }")
		if !regexp.MustCompile(`(?m)^(?:define|declare)\b[^\n]*@` + regexp.QuoteMeta(name) + `\(`).MatchString(text) {
			add("global", "@"+name+" = ", "@"+name+" = global i32 0")
		}
		add("comdat", "$"+name+" = ", "$"+name+" = comdat any")
		add("named", "!"+name+" = ", "!"+name+" = !{}")
		if locals {
			out = append(out,
				fmt.Sprintf("define void @shadow.v.%s(i32 %%%s) {\n\tret void\n}", tag, name),
				fmt.Sprintf("define void @shadow.b.%s() {\n\tbr label %%%s\n%s:\n\tret void\n}", tag, name, name))
		}
	}
	return out
}

var c05TopName = regexp.MustCompile(`^(?:define|declare)\b[^@]*(@[-a-zA-Z$._0-9]+)\(`)
var c05InstName = regexp.MustCompile(`^\t%([-a-zA-Z$._][-a-zA-Z$._0-9]*) = `)

// c05Carrier finds the top-level entity (and the instruction) that holds the line in which base and faulted differ
func c05Carrier(base, faulted string) (top, inst string) {
	bl, fl := strings.Split(base, "\n"), strings.Split(faulted, "\n")
	if len(bl) != len(fl) {
		return "", ""
	}
	at := -1
	for i := range bl {
		if bl[i] != fl[i] {
			at = i
			break
		}
	}
	if at < 0 {
		return "", ""
	}
	if m := c05InstName.FindStringSubmatch(fl[at]); m != nil {
		inst = m[1]
	}
	for i := at; i >= 0; i-- {
		l := fl[i]
		if l == "" || l[0] == '\t' || l[0] == ' ' || l[0] == '}' || strings.HasSuffix(l, ":") {
			continue
		}
		if m := c05TopName.FindStringSubmatch(l); m != nil {
			return m[1], inst
		}
		f := strings.Fields(l)
		if len(f) > 1 && f[1] == "=" {
			return f[0], inst
		}
		return "", inst // uselistorder, attributes
	}
	return "", inst
}

func c05Verdict(c *config, valid, faulted, what, ns string, attr bool) {
	o := c.out
	if _, oc, msg := parseGuard(valid); oc != ocOk {
		o.Fail("undefined_or_duplicate", "", "generated valid module rejected", map[string]string{"src": valid, "msg": msg, "site": what})
		return
	}
	_, oc, msg := parseGuard(faulted)
	o.Stat("fault.shadowed." + ns)
	o.Nontrivial("shadow|" + what + "|" + fmt.Sprint(len(faulted)))
	det := map[string]interface{}{"fault": what, "ns": ns, "src": faulted, "msg": msg}
	switch {
	case attr:
		if oc != ocOk {
			o.Fail("undefined_or_duplicate", "", "undefined attribute group not materialised: "+oc.String(), det)
		} else {
			o.Pass("attr_group_materialised")
		}
	case oc == ocOk:
		o.Fail("undefined_or_duplicate", "", "undefined "+ns+" accepted when entities of other namespaces or the carrier's name are defined", det)
	case oc == ocPanic:
		o.Fail("undefined_or_duplicate", "", "undefined "+ns+" crashes the parser", det)
	default:
		o.Pass("undefined_is_error")
	}
}

func c05Shadowed(c *config) {
	// ---- part A: every fault of the module generator, in a module with the decoys
	for i := 0; i < 8*c.scale; i++ {
		stream := fmt.Sprintf("c05-%d", i)
		base, sites, _ := genModule(c.seed, stream, -1, -1)
		for k, s := range sites {
			tok, ok := c05FaultTok[s.ns]
			if !ok {
				continue
			}
			faulted, _ := genModuleG(c.seed, stream, k, -1)
			if faulted == base || !strings.Contains(faulted, tok) {
				continue
			}
			top, inst := c05Carrier(base, faulted)
			var extra []string
			extra = append(extra, c05Decoys(base, tok[1:], c05NSOf(s.ns), true, "u")...)
			if top != "" {
				exc := map[byte]string{'%': "type", '@': "global", '$': "comdat", '!': "metadata"}[top[0]]
				extra = append(extra, c05Decoys(base+strings.Join(extra, "\n")+"\n", top[1:], exc, false, "c")...)
			}
			if inst != "" {
				extra = append(extra, c05Decoys(base+strings.Join(extra, "\n")+"\n", inst, "", false, "i")...)
			}
			tail := strings.Join(extra, "\n") + "\n"
			// attribute groups and metadata definitions stay last in the generator's text; order is free in LLVM
			c05Verdict(c, base+tail, faulted+tail, "use of "+s.name+" ("+s.where+") in "+top+" redirected to "+tok, s.ns, s.ns == "attr")
		}
	}
	// ---- part B: use sites written out, names from a pool
	r := newRng(c.seed, "c05-shadow")
	// (the templates' own names are x y p c v entry next b F other m)
	uPool := []string{"nosuch", "u.1", "_ZN1AD2Ev", "undef-x", "T", "q"}
	cPool := []string{"g", "carrier", "v.2", "_ZTV1A", "a0", "k"}
	nPool := []string{"7", "42", "3"}
	type tmpl struct {
		name, ns string
		num      bool   // the undefined name is a number
		def      string // the definition of U (placed where {DEF} stands)
		text     string
	}
	// {U} undefined name, {C} carrier name; the decoys of U in the other namespaces are written out where they need a
	// particular shape, the rest is added by c05Decoys
	tmpls := []tmpl{
		{"comdat of a global variable", "comdat", false, "$U = comdat any\n",
			"$C = comdat any\n{DEF}@C = global i32 0, comdat($U)\n@other = global i32 1, comdat($C)\n"},
		{"comdat of a function", "comdat", false, "$U = comdat any\n",
			"$C = comdat any\n{DEF}define void @C() comdat($U) {\n\tret void\n}\n@other = global i32 1, comdat($C)\n"},
		{"implicit comdat of a global variable", "comdat", false, "$U = comdat any\n",
			"$C = comdat any\n{DEF}@U = global i32 0, comdat\n@C = global i32 1, comdat\n"},
		{"implicit comdat of a function", "comdat", false, "$U = comdat any\n",
			"$C = comdat any\n{DEF}define void @U() comdat {\n\tret void\n}\n@C = global i32 1, comdat\n"},
		{"content type of a global variable", "type", false, "%U = type { i32 }\n",
			"%C = type { i8 }\n{DEF}@C = external global %U\n"},
		{"type in a type body", "type", false, "%U = type { i32 }\n",
			"{DEF}%C = type { i32, %U*, %C* }\n@C = external global %C\n"},
		{"type of a parameter", "type", false, "%U = type { i32 }\n",
			"{DEF}declare void @C(%U*)\n%C = type { i8 }\n"},
		{"type in an instruction", "type", false, "%U = type { i32 }\n",
			"{DEF}define void @C() {\n\t%U = add i32 1, 2\n\t%C = alloca %U\n\tret void\n}\n"},
		{"global in an initializer", "global", false, "@U = global i32 0\n",
			"{DEF}@C = global i32* @U\n"},
		{"global in a constant expression", "global", false, "@U = global i32 0\n",
			"{DEF}@C = global i8* bitcast (i32* @U to i8*)\n"},
		{"alias target", "global", false, "@U = global i32 0\n",
			"{DEF}@C = alias i32, i32* @U\n"},
		{"ifunc resolver", "global", false, "define i32 @U(i32 %x, i32 %y) {\n\tret i32 %x\n}\n",
			"{DEF}@C = ifunc i32 (i32, i32), i32 (i32, i32)* @U\n"},
		{"callee", "global", false, "declare void @U()\n",
			"{DEF}define void @C() {\n\t%U = alloca i32\n\tcall void @U()\n\tret void\n}\n"},
		{"personality", "global", false, "declare i32 @U(...)\n",
			"{DEF}define void @C() personality i32 (...)* @U {\n\tret void\n}\n"},
		{"global operand of an instruction", "global", false, "@U = global i32 0\n",
			"{DEF}define i32 @C() {\n\t%U = alloca i32\n\t%C = load i32, i32* @U\n\tret i32 %C\n}\n"},
		{"local operand", "local", false, "\t%U = add i32 %p, 0\n",
			"define i32 @C(i32 %p) {\nentry:\n{DEF}\t%C = add i32 %U, 1\n\tret i32 %C\n}\n"},
		{"local operand of a terminator", "local", false, "\t%U = add i32 %p, 0\n",
			"define i32 @C(i32 %p) {\nC:\n{DEF}\tret i32 %U\n}\n"},
		{"parameter used as operand", "local", false, ", i32 %U",
			"define i32 @C(i32 %p{DEF}) {\n\t%C = add i32 %U, %p\n\tret i32 %C\n}\n"},
		{"branch target", "label", false, "U:\n\tret void\n",
			"define void @C() {\nC:\n\tbr label %U\n{DEF}}\n"},
		{"conditional branch target", "label", false, "U:\n\tret void\n",
			"define void @C(i1 %c) {\nentry:\n\tbr i1 %c, label %C, label %U\nC:\n\tret void\n{DEF}}\n"},
		{"phi predecessor", "label", false, "U:\n\tbr label %next\n",
			"define i32 @C(i1 %c) {\nentry:\n\tbr label %next\n{DEF}next:\n\t%C = phi i32 [ 1, %entry ], [ 2, %U ]\n\tret i32 %C\n}\n"},
		{"switch case target", "label", false, "U:\n\tret void\n",
			"define void @C(i32 %v) {\nentry:\n\tswitch i32 %v, label %C [ i32 0, label %U ]\nC:\n\tret void\n{DEF}}\n"},
		{"block of a blockaddress in a global initializer", "blockaddr_block", false, "U:\n\tret void\n",
			"@C = global i8* blockaddress(@F, %U)\ndefine void @F() {\nentry:\n\tbr label %C\nC:\n\tret void\n{DEF}}\n"},
		{"block of a blockaddress in another function that has such a block", "blockaddr_block", false, "U:\n\tret void\n",
			"define i8* @C() {\nU:\n\tret i8* blockaddress(@F, %U)\n}\ndefine void @F() {\nentry:\n\tbr label %C\nC:\n\tret void\n{DEF}}\n"},
		{"function of a blockaddress", "blockaddr_func", false, "define void @U() {\nb:\n\tret void\n}\n",
			"{DEF}define i8* @C() {\nb:\n\tret i8* blockaddress(@U, %b)\n}\n"},
		{"function of a blockaddress in a global initializer", "blockaddr_func", false, "define void @U() {\nb:\n\tret void\n}\n",
			"{DEF}@C = global i8* blockaddress(@U, %b)\ndefine void @F() {\nb:\n\tret void\n}\n"},
		{"block of uselistorder_bb", "blockaddr_block", false, "U:\n\tret void\n",
			"define void @C(i1 %c) {\nentry:\n\tbr i1 %c, label %C, label %C\nC:\n\tret void\n{DEF}}\ndefine void @F() {\nU:\n\tret void\n}\nuselistorder_bb @C, %U, { 1, 0 }\n"},
		{"function of uselistorder_bb", "blockaddr_func", false, "define void @U(i1 %c) {\nentry:\n\tbr i1 %c, label %b, label %b\nb:\n\tret void\n}\n",
			"{DEF}define void @C() {\nb:\n\tret void\n}\nuselistorder_bb @U, %b, { 1, 0 }\n"},
		{"metadata attachment of a global variable", "metadata", true, "!U = !{}\n",
			"@C = global i32 0, !dbg !U\n{DEF}"},
		{"metadata attachment of a declaration", "metadata", true, "!U = !{}\n",
			"declare !dbg !U void @C()\n{DEF}"},
		{"metadata attachment of a definition", "metadata", true, "!U = !{}\n",
			"define void @C() !dbg !U {\n\tret void\n}\n{DEF}"},
		{"metadata attachment of an instruction", "metadata", true, "!U = !{}\n",
			"define void @C() {\n\t%C = add i32 1, 2, !tag !U\n\tret void\n}\n{DEF}"},
		{"metadata attachment of a terminator", "metadata", true, "!U = !{}\n",
			"define void @C() {\n\tret void, !dbg !U\n}\n{DEF}"},
		{"metadata as a value", "metadata", true, "!U = !{}\n",
			"declare void @m(metadata)\ndefine void @C() {\n\tcall void @m(metadata !U)\n\tret void\n}\n{DEF}"},
		{"operand of named metadata", "metadata", true, "!U = !{}\n",
			"@C = global i32 0\n!C = !{!U}\n{DEF}"},
		{"operand of a metadata tuple", "metadata", true, "!U = !{}\n",
			"!0 = !{!U, i32 1}\n{DEF}"},
		{"field of a specialised metadata node", "metadata", true, "!U = !DIBasicType(name: \"int\", size: 32, encoding: DW_ATE_signed)\n",
			"!0 = !DIDerivedType(tag: DW_TAG_pointer_type, baseType: !U, size: 64)\n{DEF}"},
	}
	for _, t := range tmpls {
		for rep := 0; rep < 3; rep++ {
			u := uPool[r.intn(len(uPool))]
			cn := cPool[r.intn(len(cPool))]
			if t.num {
				u = nPool[r.intn(len(nPool))]
			}
			sub := func(s string) string {
				// {C} first: the pools are disjoint and no pool name contains a brace
				s = strings.NewReplacer("%C", "%"+cn, "@C", "@"+cn, "$C", "$"+cn, "!C", "!"+cn, "\nC:", "\n"+cn+":").Replace(s)
				return strings.NewReplacer("%U", "%"+u, "@U", "@"+u, "$U", "$"+u, "!U", "!"+u, "\nU:", "\n"+u+":").Replace(s)
			}
			def := sub("\n" + t.def)[1:]
			if strings.HasPrefix(t.def, "U:") {
				def = u + ":" + sub(t.def[2:])
			}
			body := sub("\n" + t.text)[1:]
			valid := strings.Replace(body, "{DEF}", def, 1)
			faulted := strings.Replace(body, "{DEF}", "", 1)
			// decoys: the undefined name in every namespace but its own, the carrier's name in every namespace
			exc := c05NSOf(t.ns)
			var extra []string
			extra = append(extra, c05Decoys(valid, u, exc, true, "u")...)
			extra = append(extra, c05Decoys(valid+strings.Join(extra, "\n")+"\n", cn, "", false, "c")...)
			tail := strings.Join(extra, "\n") + "\n"
			// attribute groups and metadata last (numbered metadata of the template stays after the decoys' named one)
			c05Verdict(c, tail+valid, tail+faulted, t.name+": "+u+" undefined, carrier "+cn, t.ns, false)
		}
	}
}
