package main

// C01, productions with several independent optional keywords.
//
// A production such as `asm [sideeffect] [alignstack] [inteldialect] "..."`, `load [atomic] [volatile] ...`,
// `@g = [linkage] [preemption] [visibility] [dll] [thread_local] [unnamed_addr] ... global` is translated
// by a run of look-alike lines, one per keyword; a slip between two of them (one marker read with the accessor
// of another) gives an output that is a fixed point of parse+print and differs from the input only in which
// markers it carries.  The inputs with no marker or with all markers do not show it.
//
// Every site below is a module text written by the generator in the printer's canonical form, with slots for the
// optional keywords.  For every subset of the slots (all 2^n presence patterns; the alternatives of a slot with
// several spellings rotate) the module goes through c01One (token comparison of input and output), and
//   - the parsed object's boolean / enum / list field of every slot must hold what the generator wrote
//     (oracle markers_as_written: expected values are the generator's choice and the Go constants of ir/enum);
//   - the printed text must be the input byte for byte (the generator writes canonical text, so nothing may
//     move, vanish or appear).

import (
	"fmt"
	"math/bits"
	"reflect"
	"strconv"
	"strings"

	"github.com/llir/llvm/ir"
	"github.com/llir/llvm/ir/enum"
)

type c01Opt struct {
	field  string        // dotted path from the site's object ("" = the text alone is compared)
	alts   []string      // spellings with their own spacing; alts[0] is the default (usually absent)
	want   []interface{} // expected field value per alternative
	member interface{}   // when set: the field is a list that holds this element iff alternative 1 is chosen
}

type c01Site struct {
	name  string
	tmpl  string // module text in canonical printed form; {0}, {1}, ... are the slots
	obj   string // path from the module to the object the fields belong to
	opts  []c01Opt
	valid func(ch []int) bool
	all   bool // full product of the alternatives instead of presence subsets with rotating alternatives
}

func c01Flag(field, kw string) c01Opt {
	return c01Opt{field: field, alts: []string{"", kw}, want: []interface{}{false, true}}
}
func c01Member(field, kw string, elem interface{}) c01Opt {
	return c01Opt{field: field, alts: []string{"", kw}, member: elem}
}
func c01Enum(field string, pairs ...interface{}) c01Opt {
	o := c01Opt{field: field}
	for i := 0; i+1 < len(pairs); i += 2 {
		o.alts = append(o.alts, pairs[i].(string))
		o.want = append(o.want, pairs[i+1])
	}
	return o
}

// the seven fast-math flags and `fast`, in the order LLVM's printer writes them
func c01FMF(field string) []c01Opt {
	return []c01Opt{
		c01Member(field, "fast ", enum.FastMathFlagFast),
		c01Member(field, "reassoc ", enum.FastMathFlagReassoc),
		c01Member(field, "nnan ", enum.FastMathFlagNNaN),
		c01Member(field, "ninf ", enum.FastMathFlagNInf),
		c01Member(field, "nsz ", enum.FastMathFlagNSZ),
		c01Member(field, "arcp ", enum.FastMathFlagARcp),
		c01Member(field, "contract ", enum.FastMathFlagContract),
		c01Member(field, "afn ", enum.FastMathFlagAFn),
	}
}

func c01Slots(from, n int) string {
	var b strings.Builder
	for i := 0; i < n; i++ {
		fmt.Fprintf(&b, "{%d}", from+i)
	}
	return b.String()
}

func c01Linkage(field string, local bool) c01Opt {
	if local {
		return c01Enum(field, "", enum.LinkageNone, "private ", enum.LinkagePrivate, "internal ", enum.LinkageInternal)
	}
	return c01Enum(field, "", enum.LinkageNone, "weak ", enum.LinkageWeak, "weak_odr ", enum.LinkageWeakODR, "linkonce ", enum.LinkageLinkOnce,
		"linkonce_odr ", enum.LinkageLinkOnceODR, "available_externally ", enum.LinkageAvailableExternally)
}

func c01Sites() []c01Site {
	var sites []c01Site
	add := func(s c01Site) { sites = append(sites, s) }

	// ---- inline assembler callees: sideeffect, alignstack, inteldialect, unwind (KF-50) x call, invoke, callbr x with and
	// without constraints and operands
	asmOpts := []c01Opt{c01Flag("SideEffect", "sideeffect "), c01Flag("AlignStack", "alignstack "), c01Flag("IntelDialect", "inteldialect "), c01Flag("Unwind", "unwind ")}
	add(c01Site{name: "asm-call-plain", all: true, obj: "Funcs[0].Blocks[0].Insts[0].Callee", opts: asmOpts,
		tmpl: "define void @f() {\nentry:\n\tcall void asm {0}{1}{2}{3}\"nop\", \"\"()\n\tret void\n}\n"})
	add(c01Site{name: "asm-call-operands", all: true, obj: "Funcs[0].Blocks[0].Insts[0].Callee", opts: asmOpts,
		tmpl: "define i32 @f(i32 %x) {\nentry:\n\t%r = call i32 asm {0}{1}{2}{3}\"bswap $0\", \"=r,0,~{memory}\"(i32 %x)\n\tret i32 %r\n}\n"})
	add(c01Site{name: "asm-call-second", all: true, obj: "Funcs[0].Blocks[0].Insts[1].Callee", opts: asmOpts,
		tmpl: "define i32 @f(i32 %x) {\nentry:\n\tcall void asm sideeffect \"\", \"~{memory}\"()\n\t%r = call i32 asm {0}{1}{2}{3}\"mov $0, $1\", \"=r,r\"(i32 %x)\n\tret i32 %r\n}\n"})
	add(c01Site{name: "asm-invoke-plain", all: true, obj: "Funcs[0].Blocks[0].Term.Invokee", opts: asmOpts,
		tmpl: "define void @f() personality i8* null {\nentry:\n\tinvoke void asm {0}{1}{2}{3}\"call helper\", \"\"()\n\t\tto label %ok unwind label %bad\n\nok:\n\tret void\n\nbad:\n\t%l = landingpad i32\n\t\tcleanup\n\tret void\n}\n"})
	add(c01Site{name: "asm-invoke-operands", all: true, obj: "Funcs[0].Blocks[0].Term.Invokee", opts: asmOpts,
		tmpl: "define i32 @f(i32 %x) personality i8* null {\nentry:\n\t%r = invoke i32 asm {0}{1}{2}{3}\"call helper\", \"=r,r\"(i32 %x)\n\t\tto label %ok unwind label %bad\n\nok:\n\tret i32 %r\n\nbad:\n\t%l = landingpad i32\n\t\tcleanup\n\tret i32 0\n}\n"})
	add(c01Site{name: "asm-callbr-plain", all: true, obj: "Funcs[0].Blocks[0].Term.Callee", opts: asmOpts,
		tmpl: "define void @f() {\nentry:\n\tcallbr void asm {0}{1}{2}{3}\"jmp ${0:l}\", \"X\"(i8* blockaddress(@f, %other))\n\t\tto label %ok [label %other]\n\nok:\n\tret void\n\nother:\n\tret void\n}\n"})
	add(c01Site{name: "asm-callbr-operands", all: true, obj: "Funcs[0].Blocks[0].Term.Callee", opts: asmOpts,
		tmpl: "define i32 @f(i32 %x) {\nentry:\n\t%r = callbr i32 asm {0}{1}{2}{3}\"test $1; jne ${2:l}\", \"=r,r,X\"(i32 %x, i8* blockaddress(@f, %other))\n\t\tto label %ok [label %other]\n\nok:\n\tret i32 %r\n\nother:\n\tret i32 0\n}\n"})

	// ---- calls: tail markers x fast-math flags
	tail := c01Enum("Tail", "", enum.TailNone, "tail ", enum.TailTail, "musttail ", enum.TailMustTail, "notail ", enum.TailNoTail)
	add(c01Site{name: "call-tail-fmf", obj: "Funcs[1].Blocks[0].Insts[0]", opts: append([]c01Opt{tail}, c01FMF("FastMathFlags")...),
		tmpl: "declare float @g()\n\ndefine float @f() {\nentry:\n\t%r = {0}call " + c01Slots(1, 8) + "float @g()\n\tret float %r\n}\n"})
	add(c01Site{name: "call-tail-cc", all: true, obj: "Funcs[1].Blocks[0].Insts[0]",
		opts:  []c01Opt{tail, c01Enum("CallingConv", "", enum.CallingConvNone, "fastcc ", enum.CallingConvFast, "coldcc ", enum.CallingConvCold)},
		valid: func(ch []int) bool { return ch[1] == 0 || ch[0] != 2 },
		tmpl:  "declare void @g()\n\ndefine void @f() {\nentry:\n\t{0}call {1}void @g()\n\tret void\n}\n"})

	// ---- calling convention, return attributes and function attributes on call and invoke
	csOpts := []c01Opt{c01Enum("CallingConv", "", enum.CallingConvNone, "fastcc ", enum.CallingConvFast, "coldcc ", enum.CallingConvCold),
		c01Member("ReturnAttrs", "inreg ", enum.ReturnAttrInReg), c01Member("ReturnAttrs", "noalias ", enum.ReturnAttrNoAlias),
		c01Member("FuncAttrs", " nounwind", enum.FuncAttrNoUnwind), c01Member("FuncAttrs", " readnone", enum.FuncAttrReadNone)}
	add(c01Site{name: "call-cc-attrs", all: true, obj: "Funcs[1].Blocks[0].Insts[0]", opts: csOpts,
		tmpl: "declare i8* @g()\n\ndefine i8* @f() {\nentry:\n\t%r = call {0}{1}{2}i8* @g(){3}{4}\n\tret i8* %r\n}\n"})
	add(c01Site{name: "invoke-cc-attrs", all: true, obj: "Funcs[1].Blocks[0].Term", opts: csOpts,
		tmpl: "declare i8* @g()\n\ndefine i8* @f() personality i8* null {\nentry:\n\t%r = invoke {0}{1}{2}i8* @g(){3}{4}\n\t\tto label %ok unwind label %bad\n\nok:\n\tret i8* %r\n\nbad:\n\t%l = landingpad i32\n\t\tcleanup\n\tret i8* null\n}\n"})

	// ---- fast-math flags on every carrier, scalar and vector
	for _, ty := range []string{"float", "<2 x double>"} {
		cty := "i1"
		if ty[0] == '<' {
			cty = "<2 x i1>"
		}
		tag := strings.Trim(strings.ReplaceAll(ty, " ", ""), "<>")
		for _, op := range []string{"fadd", "fsub", "fmul", "fdiv", "frem"} {
			add(c01Site{name: op + "-fmf-" + tag, obj: "Funcs[0].Blocks[0].Insts[0]", opts: c01FMF("FastMathFlags"),
				tmpl: "define " + ty + " @f(" + ty + " %a, " + ty + " %b) {\nentry:\n\t%r = " + op + " " + c01Slots(0, 8) + ty + " %a, %b\n\tret " + ty + " %r\n}\n"})
		}
		add(c01Site{name: "fneg-fmf-" + tag, obj: "Funcs[0].Blocks[0].Insts[0]", opts: c01FMF("FastMathFlags"),
			tmpl: "define " + ty + " @f(" + ty + " %a) {\nentry:\n\t%r = fneg " + c01Slots(0, 8) + ty + " %a\n\tret " + ty + " %r\n}\n"})
		add(c01Site{name: "fcmp-fmf-" + tag, obj: "Funcs[0].Blocks[0].Insts[0]", opts: c01FMF("FastMathFlags"),
			tmpl: "define " + cty + " @f(" + ty + " %a, " + ty + " %b) {\nentry:\n\t%r = fcmp " + c01Slots(0, 8) + "olt " + ty + " %a, %b\n\tret " + cty + " %r\n}\n"})
		add(c01Site{name: "select-fmf-" + tag, obj: "Funcs[0].Blocks[0].Insts[0]", opts: c01FMF("FastMathFlags"),
			tmpl: "define " + ty + " @f(" + cty + " %c, " + ty + " %a, " + ty + " %b) {\nentry:\n\t%r = select " + c01Slots(0, 8) + cty + " %c, " + ty + " %a, " + ty + " %b\n\tret " + ty + " %r\n}\n"})
		add(c01Site{name: "phi-fmf-" + tag, obj: "Funcs[0].Blocks[1].Insts[0]", opts: c01FMF("FastMathFlags"),
			tmpl: "define " + ty + " @f(" + ty + " %a) {\nentry:\n\tbr label %next\n\nnext:\n\t%r = phi " + c01Slots(0, 8) + ty + " [ %a, %entry ]\n\tret " + ty + " %r\n}\n"})
	}

	// ---- nuw / nsw / exact, instruction and constant expression, scalar and vector
	ovf := []c01Opt{c01Member("OverflowFlags", "nuw ", enum.OverflowFlagNUW), c01Member("OverflowFlags", "nsw ", enum.OverflowFlagNSW)}
	exact := []c01Opt{c01Flag("Exact", "exact ")}
	for _, ty := range []string{"i32", "<2 x i64>"} {
		tag := strings.Trim(strings.ReplaceAll(ty, " ", ""), "<>")
		for _, op := range []string{"add", "sub", "mul", "shl", "udiv", "sdiv", "lshr", "ashr"} {
			opts, slots := ovf, "{0}{1}"
			if op == "udiv" || op == "sdiv" || op == "lshr" || op == "ashr" {
				opts, slots = exact, "{0}"
			}
			add(c01Site{name: op + "-inst-" + tag, all: true, obj: "Funcs[0].Blocks[0].Insts[0]", opts: opts,
				tmpl: "define " + ty + " @f(" + ty + " %a, " + ty + " %b) {\nentry:\n\t%r = " + op + " " + slots + ty + " %a, %b\n\tret " + ty + " %r\n}\n"})
		}
	}
	for _, op := range []string{"add", "sub", "mul", "shl", "lshr", "ashr"} {
		opts, slots := ovf, "{0}{1}"
		if op == "lshr" || op == "ashr" {
			opts, slots = exact, "{0}"
		}
		add(c01Site{name: op + "-constexpr", all: true, obj: "Globals[1].Init", opts: opts,
			tmpl: "@t = global i32 0\n@c = global i64 " + op + " " + slots + "(i64 ptrtoint (i32* @t to i64), i64 2)\n"})
	}

	// ---- getelementptr: inbounds on the instruction; inbounds and inrange on the constant expression
	add(c01Site{name: "gep-inst", all: true, obj: "Funcs[0].Blocks[0].Insts[0]", opts: []c01Opt{c01Flag("InBounds", "inbounds ")},
		tmpl: "define i32* @f(i32* %p) {\nentry:\n\t%r = getelementptr {0}i32, i32* %p, i64 1\n\tret i32* %r\n}\n"})
	add(c01Site{name: "gep-constexpr", all: true, obj: "Globals[1].Init",
		opts:  []c01Opt{c01Flag("InBounds", "inbounds "), c01Flag("Indices[1].InRange", "inrange "), c01Flag("Indices[2].InRange", "inrange ")},
		valid: func(ch []int) bool { return ch[1] == 0 || ch[2] == 0 },
		tmpl:  "@t = global { [4 x i32], [2 x i32] } zeroinitializer\n@c = global i32* getelementptr {0}({ [4 x i32], [2 x i32] }, { [4 x i32], [2 x i32] }* @t, i32 0, {1}i32 1, {2}i32 1)\n"})

	// ---- memory instructions: atomic, volatile, syncscope, ordering, align
	scope := c01Enum("SyncScope", "", "", " syncscope(\"singlethread\")", "singlethread", " syncscope(\"agent\")", "agent")
	align := c01Enum("Align", "", ir.Align(0), ", align 4", ir.Align(4), ", align 16", ir.Align(16))
	add(c01Site{name: "load", all: true, obj: "Funcs[0].Blocks[0].Insts[0]",
		opts: []c01Opt{c01Flag("Atomic", "atomic "), c01Flag("Volatile", "volatile "), scope,
			c01Enum("Ordering", "", enum.AtomicOrderingNone, " unordered", enum.AtomicOrderingUnordered, " monotonic", enum.AtomicOrderingMonotonic,
				" acquire", enum.AtomicOrderingAcquire, " seq_cst", enum.AtomicOrderingSequentiallyConsistent), align},
		valid: func(ch []int) bool {
			return (ch[0] == 1) == (ch[3] != 0) && (ch[2] == 0 || ch[0] == 1) && (ch[0] == 0 || ch[4] != 0)
		},
		tmpl: "define i32 @f(i32* %p) {\nentry:\n\t%r = load {0}{1}i32, i32* %p{2}{3}{4}\n\tret i32 %r\n}\n"})
	add(c01Site{name: "store", all: true, obj: "Funcs[0].Blocks[0].Insts[0]",
		opts: []c01Opt{c01Flag("Atomic", "atomic "), c01Flag("Volatile", "volatile "), scope,
			c01Enum("Ordering", "", enum.AtomicOrderingNone, " unordered", enum.AtomicOrderingUnordered, " monotonic", enum.AtomicOrderingMonotonic,
				" release", enum.AtomicOrderingRelease, " seq_cst", enum.AtomicOrderingSequentiallyConsistent), align},
		valid: func(ch []int) bool {
			return (ch[0] == 1) == (ch[3] != 0) && (ch[2] == 0 || ch[0] == 1) && (ch[0] == 0 || ch[4] != 0)
		},
		tmpl: "define void @f(i32* %p, i32 %v) {\nentry:\n\tstore {0}{1}i32 %v, i32* %p{2}{3}{4}\n\tret void\n}\n"})
	add(c01Site{name: "fence", all: true, obj: "Funcs[0].Blocks[0].Insts[0]",
		opts: []c01Opt{c01Enum("SyncScope", "", "", "syncscope(\"singlethread\") ", "singlethread", "syncscope(\"agent\") ", "agent"),
			c01Enum("Ordering", "acquire", enum.AtomicOrderingAcquire, "release", enum.AtomicOrderingRelease, "acq_rel", enum.AtomicOrderingAcquireRelease,
				"seq_cst", enum.AtomicOrderingSequentiallyConsistent)},
		tmpl: "define void @f() {\nentry:\n\tfence {0}{1}\n\tret void\n}\n"})
	add(c01Site{name: "cmpxchg", all: true, obj: "Funcs[0].Blocks[0].Insts[0]",
		opts: []c01Opt{c01Flag("Weak", "weak "), c01Flag("Volatile", "volatile "), scope,
			c01Enum("SuccessOrdering", " monotonic", enum.AtomicOrderingMonotonic, " acq_rel", enum.AtomicOrderingAcquireRelease, " seq_cst", enum.AtomicOrderingSequentiallyConsistent),
			c01Enum("FailureOrdering", " monotonic", enum.AtomicOrderingMonotonic, " acquire", enum.AtomicOrderingAcquire, " seq_cst", enum.AtomicOrderingSequentiallyConsistent)},
		tmpl: "define i32 @f(i32* %p, i32 %c, i32 %n) {\nentry:\n\t%r = cmpxchg {0}{1}i32* %p, i32 %c, i32 %n{2}{3}{4}\n\t%v = extractvalue { i32, i1 } %r, 0\n\tret i32 %v\n}\n"})
	add(c01Site{name: "atomicrmw", all: true, obj: "Funcs[0].Blocks[0].Insts[0]",
		opts: []c01Opt{c01Flag("Volatile", "volatile "),
			c01Enum("Op", "xchg", enum.AtomicOpXChg, "add", enum.AtomicOpAdd, "sub", enum.AtomicOpSub, "and", enum.AtomicOpAnd, "nand", enum.AtomicOpNAnd, "or", enum.AtomicOpOr,
				"xor", enum.AtomicOpXor, "max", enum.AtomicOpMax, "min", enum.AtomicOpMin, "umax", enum.AtomicOpUMax, "umin", enum.AtomicOpUMin),
			scope,
			c01Enum("Ordering", " monotonic", enum.AtomicOrderingMonotonic, " acquire", enum.AtomicOrderingAcquire, " release", enum.AtomicOrderingRelease,
				" acq_rel", enum.AtomicOrderingAcquireRelease, " seq_cst", enum.AtomicOrderingSequentiallyConsistent)},
		tmpl: "define i32 @f(i32* %p, i32 %v) {\nentry:\n\t%r = atomicrmw {0}{1} i32* %p, i32 %v{2}{3}\n\tret i32 %r\n}\n"})
	add(c01Site{name: "alloca", all: true, obj: "Funcs[0].Blocks[0].Insts[0]",
		opts: []c01Opt{c01Flag("InAlloca", "inalloca "), c01Flag("SwiftError", "swifterror "), {alts: []string{"", ", i32 2"}},
			c01Enum("Align", "", ir.Align(0), ", align 8", ir.Align(8))},
		valid: func(ch []int) bool { return ch[1] == 0 || (ch[2] == 0 && ch[0] == 0) },
		tmpl:  "define void @f() {\nentry:\n\t%r = alloca {0}{1}i8*{2}{3}\n\tret void\n}\n"})
	add(c01Site{name: "landingpad", all: true, obj: "Funcs[1].Blocks[2].Insts[0]",
		opts: []c01Opt{c01Flag("Cleanup", "\t\tcleanup\n"), {alts: []string{"", "\t\tcatch i8* null\n"}}, {alts: []string{"", "\t\tfilter [0 x i8*] zeroinitializer\n"}},
			{alts: []string{"", "\t\tcatch i8* bitcast (i8** @ti to i8*)\n"}}},
		valid: func(ch []int) bool { return ch[0]+ch[1]+ch[2]+ch[3] > 0 },
		tmpl:  "@ti = external global i8*\n\ndeclare void @g()\n\ndefine void @f() personality i8* null {\nentry:\n\tinvoke void @g()\n\t\tto label %ok unwind label %bad\n\nok:\n\tret void\n\nbad:\n\t%l = landingpad { i8*, i32 }\n{0}{1}{2}{3}\tret void\n}\n"})

	// ---- global variables: the keywords before `global` / `constant`, and the comma-separated tail
	preempt := c01Enum("Preemption", "", enum.PreemptionNone, "dso_local ", enum.PreemptionDSOLocal, "dso_preemptable ", enum.PreemptionDSOPreemptable)
	vis := c01Enum("Visibility", "", enum.VisibilityNone, "default ", enum.VisibilityDefault, "hidden ", enum.VisibilityHidden, "protected ", enum.VisibilityProtected)
	dll := c01Enum("DLLStorageClass", "", enum.DLLStorageClassNone, "dllexport ", enum.DLLStorageClassDLLExport)
	tls := c01Enum("TLSModel", "", enum.TLSModelNone, "thread_local ", enum.TLSModelGeneric, "thread_local(localdynamic) ", enum.TLSModelLocalDynamic,
		"thread_local(initialexec) ", enum.TLSModelInitialExec, "thread_local(localexec) ", enum.TLSModelLocalExec)
	unnamed := func(sp string) c01Opt {
		if sp == "after" {
			return c01Enum("UnnamedAddr", "", enum.UnnamedAddrNone, " unnamed_addr", enum.UnnamedAddrUnnamedAddr, " local_unnamed_addr", enum.UnnamedAddrLocalUnnamedAddr)
		}
		return c01Enum("UnnamedAddr", "", enum.UnnamedAddrNone, "unnamed_addr ", enum.UnnamedAddrUnnamedAddr, "local_unnamed_addr ", enum.UnnamedAddrLocalUnnamedAddr)
	}
	aspace := c01Enum("AddrSpace", "", uint64(0), "addrspace(1) ", uint64(1), "addrspace(5) ", uint64(5))
	extInit := c01Flag("ExternallyInitialized", "externally_initialized ")
	immut := c01Enum("Immutable", "global", false, "constant", true)
	section := c01Enum("Section", "", "", ", section \"s\"", "s")
	partition := c01Enum("Partition", "", "", ", partition \"p\"", "p")
	galign := c01Enum("Align", "", ir.Align(0), ", align 8", ir.Align(8), ", align 64", ir.Align(64))
	comdat := c01Opt{alts: []string{"", ", comdat($c)"}}
	// (a local linkage admits no visibility, no DLL storage class and no dso_preemptable; the other linkages take all)
	add(c01Site{name: "global-def", obj: "Globals[0]",
		opts:  []c01Opt{c01Linkage("Linkage", false), preempt, vis, dll, tls, unnamed(""), aspace, extInit, immut, section, partition, comdat, galign},
		valid: func(ch []int) bool { return ch[0] != 5 || ch[11] == 0 }, // (available_externally: no comdat)
		tmpl:  "$c = comdat any\n\n@g = {0}{1}{2}{3}{4}{5}{6}{7}{8} i32 7{9}{10}{11}{12}\n"})
	add(c01Site{name: "global-def-local", obj: "Globals[0]",
		opts:  []c01Opt{c01Linkage("Linkage", true), c01Enum("Preemption", "", enum.PreemptionNone, "dso_local ", enum.PreemptionDSOLocal), tls, unnamed(""), aspace, extInit, immut, section, galign},
		valid: func(ch []int) bool { return ch[0] != 0 },
		tmpl:  "@g = {0}{1}{2}{3}{4}{5}{6} i32 7{7}{8}\n"})
	add(c01Site{name: "global-decl", obj: "Globals[0]",
		opts: []c01Opt{c01Enum("Linkage", "external ", enum.LinkageExternal, "extern_weak ", enum.LinkageExternWeak), preempt, vis,
			c01Enum("DLLStorageClass", "", enum.DLLStorageClassNone, "dllimport ", enum.DLLStorageClassDLLImport), tls, unnamed(""), aspace, extInit, immut, section, galign},
		valid: func(ch []int) bool { return ch[3] == 0 || (ch[1] != 1 && ch[2] < 2) }, // (dllimport: not dso_local; hidden and protected imply it)
		tmpl:  "@g = {0}{1}{2}{3}{4}{5}{6}{7}{8} i32{9}{10}\n"})

	// ---- functions: the keywords before the return type, and the optional parts after the parameter list
	cc := c01Enum("CallingConv", "", enum.CallingConvNone, "fastcc ", enum.CallingConvFast, "coldcc ", enum.CallingConvCold, "ghccc ", enum.CallingConvGHC)
	add(c01Site{name: "func-def-head", obj: "Funcs[0]",
		opts: []c01Opt{c01Linkage("Linkage", false), preempt, vis, dll, cc, unnamed("after"), {alts: []string{"", " #0"}}},
		tmpl: "define {0}{1}{2}{3}{4}void @f(){5}{6} {\nentry:\n\tret void\n}\n\nattributes #0 = { nounwind }\n"})
	add(c01Site{name: "func-def-local", obj: "Funcs[0]",
		opts:  []c01Opt{c01Linkage("Linkage", true), c01Enum("Preemption", "", enum.PreemptionNone, "dso_local ", enum.PreemptionDSOLocal), cc, unnamed("after")},
		valid: func(ch []int) bool { return ch[0] != 0 },
		tmpl:  "define {0}{1}{2}void @f(){3} {\nentry:\n\tret void\n}\n"})
	add(c01Site{name: "func-def-tail", obj: "Funcs[0]",
		opts: []c01Opt{unnamed("after"), c01Enum("Section", "", "", " section \"s\"", "s"), c01Enum("Partition", "", "", " partition \"p\"", "p"), {alts: []string{"", " comdat($c)"}},
			c01Enum("Align", "", ir.Align(0), " align 16", ir.Align(16)), c01Enum("GC", "", "", " gc \"shadow-stack\"", "shadow-stack"),
			{alts: []string{"", " prefix i32 1"}}, {alts: []string{"", " prologue i32 2"}}, {alts: []string{"", " personality i8* null"}}},
		tmpl: "$c = comdat any\n\ndefine void @f(){0}{1}{2}{3}{4}{5}{6}{7}{8} {\nentry:\n\tret void\n}\n"})
	add(c01Site{name: "func-decl", obj: "Funcs[0]",
		opts: []c01Opt{c01Enum("Linkage", "", enum.LinkageNone, "extern_weak ", enum.LinkageExternWeak, "external ", enum.LinkageExternal), preempt, vis,
			c01Enum("DLLStorageClass", "", enum.DLLStorageClassNone, "dllimport ", enum.DLLStorageClassDLLImport), cc, unnamed("after"),
			c01Enum("Align", "", ir.Align(0), " align 16", ir.Align(16)), c01Enum("GC", "", "", " gc \"shadow-stack\"", "shadow-stack"), {alts: []string{"", " prefix i32 1"}}},
		valid: func(ch []int) bool { return ch[3] == 0 || (ch[1] != 1 && ch[2] < 2) },
		tmpl:  "declare {0}{1}{2}{3}{4}void @f(){5}{6}{7}{8}\n"})
	add(c01Site{name: "func-variadic", all: true, obj: "Funcs[0].Sig", opts: []c01Opt{{alts: []string{"", "i32 %x"}}, c01Flag("Variadic", "...")},
		valid: func(ch []int) bool { return ch[0] == 0 || ch[1] == 0 },
		tmpl:  "declare void @f({0}{1})\n"})
	add(c01Site{name: "func-variadic-after-param", all: true, obj: "Funcs[0].Sig", opts: []c01Opt{c01Flag("Variadic", ", ...")},
		tmpl: "declare void @f(i32 %x{0})\n"})

	// ---- aliases and indirect functions
	add(c01Site{name: "alias", obj: "Aliases[0]",
		opts:  []c01Opt{c01Linkage("Linkage", false), preempt, vis, dll, tls, unnamed(""), partition},
		valid: func(ch []int) bool { return ch[0] != 5 },
		tmpl:  "@t = global i32 0\n\n@a = {0}{1}{2}{3}{4}{5}alias i32, i32* @t{6}\n"})
	add(c01Site{name: "alias-local", obj: "Aliases[0]",
		opts:  []c01Opt{c01Linkage("Linkage", true), c01Enum("Preemption", "", enum.PreemptionNone, "dso_local ", enum.PreemptionDSOLocal), tls, unnamed("")},
		valid: func(ch []int) bool { return ch[0] != 0 },
		tmpl:  "@t = global i32 0\n\n@a = {0}{1}{2}{3}alias i32, i32* @t\n"})
	add(c01Site{name: "ifunc", obj: "IFuncs[0]",
		opts: []c01Opt{c01Enum("Linkage", "", enum.LinkageNone, "weak ", enum.LinkageWeak, "internal ", enum.LinkageInternal), c01Enum("Preemption", "", enum.PreemptionNone, "dso_local ", enum.PreemptionDSOLocal),
			c01Enum("Visibility", "", enum.VisibilityNone, "default ", enum.VisibilityDefault), partition},
		tmpl: "@i = {0}{1}{2}ifunc void (), void ()* ()* @res{3}\n\ndefine void ()* @res() {\nentry:\n\tret void ()* null\n}\n"})

	// ---- module-level entities, type definitions, metadata
	add(c01Site{name: "module-header", all: true, obj: "",
		opts: []c01Opt{c01Enum("SourceFilename", "", "", "source_filename = \"a.c\"\n", "a.c"), c01Enum("DataLayout", "", "", "target datalayout = \"e-m:e-i64:64\"\n", "e-m:e-i64:64"),
			c01Enum("TargetTriple", "", "", "target triple = \"x86_64-unknown-linux-gnu\"\n", "x86_64-unknown-linux-gnu"), {alts: []string{"", "\n"}}, {alts: []string{"", "module asm \"nop\"\n"}}, {alts: []string{"", "\n"}}},
		// (the blank lines are the printer's: one between the header lines and the module assembly, one before the globals)
		valid: func(ch []int) bool {
			return (ch[3] == 1) == (ch[0]+ch[1]+ch[2] > 0 && ch[4] == 1) && (ch[5] == 1) == (ch[0]+ch[1]+ch[2]+ch[4] > 0)
		},
		tmpl: "{0}{1}{2}{3}{4}{5}@g = global i32 0\n"})
	add(c01Site{name: "typedef-struct", all: true, obj: "TypeDefs[0]",
		opts: []c01Opt{c01Enum("Packed", "{ i32, i8 }", false, "<{ i32, i8 }>", true, "{}", false, "<{}>", true)},
		tmpl: "%t = type {0}\n\n@g = global %t zeroinitializer\n"})
	add(c01Site{name: "typedef-opaque", all: true, obj: "TypeDefs[0]",
		opts: []c01Opt{c01Enum("Opaque", "{ i32 }", false, "opaque", true)},
		tmpl: "%t = type {0}\n\n@g = external global %t\n"})
	add(c01Site{name: "metadata-distinct", all: true, obj: "",
		opts: []c01Opt{c01Flag("MetadataDefs[0].Distinct", "distinct "), c01Flag("MetadataDefs[1].Distinct", "distinct "), c01Flag("MetadataDefs[2].Distinct", "distinct ")},
		tmpl: "!named = !{!0, !1, !2}\n\n!0 = {0}!{}\n!1 = {1}!{!0, !\"s\"}\n!2 = {2}!DIFile(filename: \"a.c\", directory: \"/\")\n"})
	return sites
}

// c01Path follows a dotted path with optional [n] indices through pointers and interfaces
func c01Path(root interface{}, path string) (v reflect.Value, ok bool) {
	defer func() {
		if recover() != nil {
			ok = false
		}
	}()
	v = reflect.ValueOf(root)
	deref := func() bool {
		for v.Kind() == reflect.Ptr || v.Kind() == reflect.Interface {
			if v.IsNil() {
				return false
			}
			v = v.Elem()
		}
		return true
	}
	if path == "" {
		return v, true
	}
	for _, el := range strings.Split(path, ".") {
		name, idx := el, -1
		if i := strings.IndexByte(el, '['); i >= 0 {
			name = el[:i]
			idx, _ = strconv.Atoi(strings.TrimSuffix(el[i+1:], "]"))
		}
		if !deref() || v.Kind() != reflect.Struct {
			return v, false
		}
		v = v.FieldByName(name)
		if !v.IsValid() {
			return v, false
		}
		if idx >= 0 {
			if v.Kind() != reflect.Slice || idx >= v.Len() {
				return v, false
			}
			v = v.Index(idx)
		}
	}
	return v, true
}

func (s *c01Site) render(ch []int) string {
	src := s.tmpl
	for i := len(s.opts) - 1; i >= 0; i-- {
		src = strings.ReplaceAll(src, fmt.Sprintf("{%d}", i), s.opts[i].alts[ch[i]])
	}
	return src
}

// choices enumerates the alternatives of the slots: the full product, or every presence subset with the
// alternative of a present slot rotating over its spellings (as many rounds as the widest slot has spellings)
func (s *c01Site) choices() [][]int {
	n := len(s.opts)
	var out [][]int
	keep := func(ch []int) {
		if s.valid == nil || s.valid(ch) {
			out = append(out, append([]int(nil), ch...))
		}
	}
	if s.all {
		ch := make([]int, n)
		for {
			keep(ch)
			i := 0
			for ; i < n; i++ {
				ch[i]++
				if ch[i] < len(s.opts[i].alts) {
					break
				}
				ch[i] = 0
			}
			if i == n {
				return out
			}
		}
	}
	rounds := 1
	for _, o := range s.opts {
		if len(o.alts)-1 > rounds {
			rounds = len(o.alts) - 1
		}
	}
	if rounds > 3 {
		rounds = 3
	}
	if n > 9 && rounds > 2 { // (the volume of the widest sites: 2^n subsets each round)
		rounds = 2
	}
	if n > 11 {
		rounds = 1
	}
	seen := map[string]bool{}
	for round := 0; round < rounds; round++ {
		for mask := 0; mask < 1<<uint(n); mask++ {
			ch := make([]int, n)
			for i := range ch {
				if mask>>uint(i)&1 == 1 {
					ch[i] = 1 + (round+i+bits.OnesCount(uint(mask)))%(len(s.opts[i].alts)-1)
				}
			}
			k := fmt.Sprint(ch)
			if !seen[k] {
				seen[k] = true
				keep(ch)
			}
		}
	}
	return out
}

func c01FlagsOne(c *config, s *c01Site, ch []int) {
	o := c.out
	src := s.render(ch)
	o.Stat("optional_keyword_cases")
	// the token comparison (and the rejection / crash reports) of every other input
	c01One(c, rtInput{name: fmt.Sprintf("optional-keywords %s %v", s.name, ch), src: src, kind: "definitions"}, false)
	m, oc, _ := parseGuard(src)
	if oc != ocOk {
		return
	}
	det := map[string]interface{}{"name": s.name, "site": s.name, "choice": ch, "src": src}
	obj, ok := c01Path(m, s.obj)
	if !ok {
		det["path"] = s.obj
		o.Fail("markers_as_written", "", "the parsed module has no object where the generator wrote one", det)
		return
	}
	bad := ""
	members := map[string][]interface{}{}
	var memberFields []string
	for i, op := range s.opts {
		if op.field == "" {
			continue
		}
		if op.member != nil {
			if _, seen := members[op.field]; !seen {
				memberFields = append(memberFields, op.field)
				members[op.field] = nil
			}
			if ch[i] == 1 {
				members[op.field] = append(members[op.field], op.member)
			}
			continue
		}
		want := op.want[ch[i]]
		v, ok := c01Path(obj.Interface(), op.field)
		if s.obj == "" {
			v, ok = c01Path(m, op.field)
		}
		if !ok {
			// a field that is not there stands for its zero value (an index without inrange is a plain constant)
			if reflect.ValueOf(want).IsZero() {
				continue
			}
			bad = fmt.Sprintf("field %s: not present, the input says %v (written %q)", op.field, want, op.alts[ch[i]])
			break
		}
		got := v.Interface()
		if !(reflect.TypeOf(want).ConvertibleTo(v.Type()) && reflect.DeepEqual(reflect.ValueOf(want).Convert(v.Type()).Interface(), got)) {
			bad = fmt.Sprintf("field %s holds %v (%d), the input says %v (written %q)", op.field, got, c01Num(v), want, op.alts[ch[i]])
			break
		}
	}
	for _, f := range memberFields {
		if bad != "" {
			break
		}
		v, ok := c01Path(obj.Interface(), f)
		if !ok || v.Kind() != reflect.Slice {
			bad = "field " + f + " is not a list"
			break
		}
		want := members[f]
		if v.Len() != len(want) {
			bad = fmt.Sprintf("field %s holds %v, the input wrote %v", f, v.Interface(), want)
			break
		}
		for k := range want {
			if !reflect.DeepEqual(v.Index(k).Interface(), want[k]) {
				bad = fmt.Sprintf("field %s holds %v, the input wrote %v", f, v.Interface(), want)
			}
		}
	}
	if bad != "" {
		o.Fail("markers_as_written", "", "a parsed object does not carry the optional keywords as they were written: "+bad, det)
	} else {
		o.Pass("markers_as_written")
	}
	y, oc, msg := printGuard(m)
	if oc != ocOk {
		return // reported by c01One
	}
	if y != src {
		det["printed"] = y
		det["msg"] = msg
		o.Fail("meaning_preserved", "", "a module written in the printer's own form, with a subset of the optional keywords of one production, is not printed as it was written", det)
	} else {
		o.Pass("verbatim_module")
	}
}

func c01Num(v reflect.Value) int64 {
	switch v.Kind() {
	case reflect.Int, reflect.Int8, reflect.Int16, reflect.Int32, reflect.Int64:
		return v.Int()
	case reflect.Uint, reflect.Uint8, reflect.Uint16, reflect.Uint32, reflect.Uint64:
		return int64(v.Uint())
	case reflect.Bool:
		if v.Bool() {
			return 1
		}
	}
	return 0
}

func c01Flags(c *config) {
	sites := c01Sites()
	for i := range sites {
		for _, ch := range sites[i].choices() {
			c01FlagsOne(c, &sites[i], ch)
		}
	}
}

// replay of a failure of this file: the site and the choice are in the detail
func c01FlagsReplay(c *config, d map[string]interface{}) bool {
	name, _ := d["site"].(string)
	raw, _ := d["choice"].([]interface{})
	if name == "" || raw == nil {
		return false
	}
	sites := c01Sites()
	for i := range sites {
		if sites[i].name == name && len(raw) == len(sites[i].opts) {
			ch := make([]int, len(raw))
			for k, x := range raw {
				f, _ := x.(float64)
				ch[k] = int(f)
			}
			c01FlagsOne(c, &sites[i], ch)
			return true
		}
	}
	return false
}

var _ = ir.NewModule
