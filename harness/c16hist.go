package main

// C16, histories.  Types are plain Go values with exported fields, and the library's own API completes them after
// they exist: Module.NewTypeDef names a struct that pointers already point to, the body of a recursive struct is
// assigned after the struct (and the pointers to it) were created, AddrSpace can only be given by assigning the
// field of a pointer type.  Equality and printing must answer for the type as it IS, whatever was asked of it before.
// A history builds a type tree, observes it (String and Equal on the tree and on its sub-types, which is all it takes
// to make an implementation remember something), then changes it in place the way a caller does -- names a struct
// reachable from pointers through NewTypeDef, adds fields to a struct created empty (also fields pointing back to the
// struct itself), changes an address space, a length, scalability, variadicity, packedness, an element, return or
// parameter type -- possibly observing again in between, and finally compares the changed tree and every one of its
// sub-types with a FRESH, never observed tree that the generator builds directly in the final shape: equal both
// ways, the very same text, and that text the generator's own rendering of the final shape (c16Text); and unequal,
// with a different text, to a fresh tree of the shape it had before whenever the two shapes differ (the model's
// identity: the tree encoding, in which an identified struct is its name).

import (
	"fmt"
	"strings"

	"github.com/llir/llvm/ir"
	"github.com/llir/llvm/ir/types"
)

const c16OwnPrefix = "hist"

// c16Builder builds Go types from trees, fresh objects throughout (but for the identified structs of the shared
// universe, which no history changes), and remembers which object stands for which node.  An identified struct of a
// history (name "hist...") is built from the node's children; a node of that name met again below it is the struct
// itself (a recursive type).
type c16Builder struct {
	u   *universe
	reg map[*tyTree]types.Type
	own map[string]*types.StructType
}

func newC16Builder(u *universe) *c16Builder {
	return &c16Builder{u: u, reg: map[*tyTree]types.Type{}, own: map[string]*types.StructType{}}
}

func (b *c16Builder) build(t *tyTree) types.Type {
	var res types.Type
	switch t.kind {
	case 'p':
		p := types.NewPointer(b.build(t.children[0]))
		p.AddrSpace = types.AddrSpace(t.n)
		res = p
	case 'V':
		v := types.NewVector(t.n, b.build(t.children[0]))
		v.Scalable = t.flag
		res = v
	case 'A':
		res = types.NewArray(t.n, b.build(t.children[0]))
	case 'S':
		s := types.NewStruct()
		for _, c := range t.children {
			s.Fields = append(s.Fields, b.build(c))
		}
		s.Packed = t.flag
		res = s
	case 'F':
		f := types.NewFunc(b.build(t.children[0]))
		for _, c := range t.children[1:] {
			f.Params = append(f.Params, b.build(c))
		}
		f.Variadic = t.flag
		res = f
	case 'N':
		if !strings.HasPrefix(t.name, c16OwnPrefix) {
			res = b.u.namedStruct(t.name)
		} else if s, ok := b.own[t.name]; ok {
			res = s
		} else {
			s := types.NewStruct()
			s.SetName(t.name)
			s.Packed = t.flag
			b.own[t.name] = s
			for _, c := range t.children {
				s.Fields = append(s.Fields, b.build(c))
			}
			res = s
		}
	default:
		res = t.build(b.u)
	}
	b.reg[t] = res
	return res
}

// c16Fresh builds a never observed copy of a (sub)tree
func c16Fresh(u *universe, t *tyTree) types.Type { return newC16Builder(u).build(t.clone()) }

// the trees histories start from: what the generic generator draws, put under the containers that make a later
// change visible from outside (pointers in both kinds of address space, struct fields, parameters, elements)
func c16HistTree(r *rng, g *tyGen) *tyTree {
	base := g.sized(1 + r.intn(3))
	if r.chance(30) {
		base = tS(r.chance(20)) // a struct created empty
	}
	if r.chance(25) {
		base = tS(r.chance(20), tI(32), base)
	}
	switch r.intn(8) {
	case 0:
		return base
	case 1:
		return tP(0, base)
	case 2:
		return tP(g.pickU(g.spaces), base)
	case 3:
		return tS(false, tI(8), tP(g.pickU(g.spaces), base))
	case 4:
		return tP(0, tFn(r.chance(30), tP(0, base), tI(32)))
	case 5:
		return tA(g.pickU(g.lens), tP(0, tP(g.pickU(g.spaces), base)))
	case 6:
		return tFn(r.chance(30), &tyTree{kind: 'v'}, tP(0, base), base.clone())
	default:
		return tP(0, tS(true, tP(0, base), tVec(1+g.pickU(g.lens), tP(0, tI(8)))))
	}
}

type c16History struct {
	r     *rng
	g     *tyGen
	u     *universe
	id    int
	work  *tyTree
	b     *c16Builder
	log   []string
	names int
	mod   *ir.Module
	defs  map[*tyTree]bool
}

// change applies one in-place change to the tree and to the Go type that stands for the chosen node; false when the
// drawn node admits none
func (h *c16History) change() bool {
	r := h.r
	ns := h.work.nodes()
	n := ns[r.intn(len(ns))]
	ty := h.b.reg[n]
	ownN := h.defs[n] // the node at which a history named a struct (a node of that name below it refers back to it)
	where := fmt.Sprintf("node %d (%s)", indexOfNode(ns, n), c16Text(n))
	switch {
	case n.kind == 'S' && r.chance(50):
		// the struct gets a name through the module API; from now on it is identified by it
		h.names++
		name := fmt.Sprintf("%s%d.%d", c16OwnPrefix, h.id, h.names)
		h.mod.NewTypeDef(name, ty)
		n.kind, n.name = 'N', name
		h.b.own[name] = ty.(*types.StructType)
		h.defs[n] = true
		h.log = append(h.log, fmt.Sprintf("NewTypeDef(%q) on %s", name, where))
	case n.kind == 'S' || ownN:
		st := ty.(*types.StructType)
		if r.chance(25) {
			st.Packed = !st.Packed
			n.flag = !n.flag
			h.log = append(h.log, "Packed flipped on "+where)
			return true
		}
		// fields added to an existing struct (the way a recursive type gets its body)
		k := 1 + r.intn(2)
		var added []string
		for ; k > 0; k-- {
			var c *tyTree
			if ownN && r.coin() {
				c = tP(h.g.pickU(h.g.spaces), &tyTree{kind: 'N', name: n.name}) // a pointer back to the struct itself
			} else {
				c = h.g.sized(1)
			}
			n.children = append(n.children, c)
			st.Fields = append(st.Fields, h.b.build(c))
			added = append(added, c16Text(c))
		}
		h.log = append(h.log, "Fields appended ("+strings.Join(added, ", ")+") to "+where)
	case n.kind == 'p':
		p := ty.(*types.PointerType)
		if r.chance(60) {
			as := n.n + 1 + uint64(r.intn(3))
			if n.n != 0 && r.coin() {
				as = 0
			}
			n.n = as
			p.AddrSpace = types.AddrSpace(as)
			h.log = append(h.log, fmt.Sprintf("AddrSpace = %d on %s", as, where))
		} else {
			c := h.g.pointee(1)
			n.children[0] = c
			p.ElemType = h.b.build(c)
			h.log = append(h.log, "ElemType = "+c16Text(c)+" on "+where)
		}
	case n.kind == 'A':
		a := ty.(*types.ArrayType)
		if r.chance(70) {
			n.n = n.n + 1 + uint64(r.intn(3))
			if r.chance(20) {
				n.n = c16WideLen(r)
			}
			a.Len = n.n
			h.log = append(h.log, fmt.Sprintf("Len = %d on %s", n.n, where))
		} else {
			c := h.g.sized(1)
			n.children[0] = c
			a.ElemType = h.b.build(c)
			h.log = append(h.log, "ElemType = "+c16Text(c)+" on "+where)
		}
	case n.kind == 'V':
		v := ty.(*types.VectorType)
		if r.coin() {
			n.flag = !n.flag
			v.Scalable = n.flag
			h.log = append(h.log, fmt.Sprintf("Scalable = %v on %s", n.flag, where))
		} else {
			n.n = n.n + 1 + uint64(r.intn(3))
			v.Len = n.n
			h.log = append(h.log, fmt.Sprintf("Len = %d on %s", n.n, where))
		}
	case n.kind == 'F':
		f := ty.(*types.FuncType)
		switch r.intn(3) {
		case 0:
			n.flag = !n.flag
			f.Variadic = n.flag
			h.log = append(h.log, fmt.Sprintf("Variadic = %v on %s", n.flag, where))
		case 1:
			c := h.g.sized(1)
			n.children = append(n.children, c)
			f.Params = append(f.Params, h.b.build(c))
			h.log = append(h.log, "Params appended ("+c16Text(c)+") to "+where)
		default:
			c := h.g.sized(1)
			n.children[0] = c
			f.RetType = h.b.build(c)
			h.log = append(h.log, "RetType = "+c16Text(c)+" on "+where)
		}
	default:
		return false
	}
	return true
}

func indexOfNode(ns []*tyTree, n *tyTree) int {
	for i, m := range ns {
		if m == n {
			return i
		}
	}
	return -1
}

func c16Histories(c *config, r *rng) {
	o := c.out
	g := newTyGen(r)
	u := newUniverse()
	for _, n := range g.names {
		u.namedStruct(n)
	}
	nreported := 0
	for i := 0; i < 1500*c.scale; i++ {
		h := &c16History{r: r, g: g, u: u, id: i, mod: ir.NewModule(), defs: map[*tyTree]bool{}}
		t0 := c16HistTree(r, g)
		h.work = t0.clone()
		h.b = newC16Builder(u)
		root := h.b.build(h.work)
		oldEnc := t0.enc()
		bad := ""
		var det map[string]interface{}
		fail := func(oracle, what string, d map[string]interface{}) {
			if bad != "" {
				return
			}
			bad = what
			d["initial_type"], d["initial_encoding"] = c16Text(t0), oldEnc
			d["history"] = append([]string{}, h.log...)
			d["final_type"], d["final_encoding"] = c16Text(h.work), h.work.enc()
			det = d
			// (every failing history is counted; the first forty are written out)
			if nreported++; nreported <= 40 {
				o.Fail(oracle, "", what, d)
			} else {
				o.failures++
				o.Stat("history.failures_not_written_out")
			}
		}
		// what a type and its sub-types must answer at any moment: the generator's text of the present shape, equal
		// (both ways) to a fresh tree of the present shape
		look := func(when string, all bool) {
			ns := h.work.nodes()
			for k, n := range ns {
				if k != 0 && !all && !r.chance(60) {
					continue
				}
				ty := h.b.reg[n]
				var s, fs string
				eq1, eq2 := false, false
				oc, msg := guard(func() error {
					s = ty.String()
					fresh := c16Fresh(u, n)
					eq1, eq2 = ty.Equal(fresh), fresh.Equal(ty)
					fs = fresh.String()
					return nil
				})
				d := map[string]interface{}{"when": when, "sub_type": fmt.Sprintf("node %d", k), "string": s, "string_of_fresh_tree": fs, "generator_text": c16Text(n), "equal_to_fresh": eq1, "fresh_equal_to_it": eq2}
				switch {
				case oc != ocOk:
					d["msg"] = msg
					fail("equal_total", "String or Equal panics on a type that was completed after its creation ("+when+")", d)
				case s != c16Text(n):
					fail("string_is_llvm_text", "String() of a type completed after its creation is not the text of its present shape ("+when+")", d)
				case !eq1 || !eq2 || fs != s:
					fail("structural_identity", "a type completed after its creation is not equal to a fresh type of the same shape ("+when+")", d)
				}
			}
		}
		look("observation, before any change", false)
		nchanges := 1 + r.intn(3)
		for k, tries := 0, 0; k < nchanges && tries < 20; tries++ {
			if !h.change() {
				continue
			}
			k++
			if k < nchanges && r.chance(40) {
				h.log = append(h.log, "observed again")
				look("observation between two changes", false)
			}
		}
		if len(h.log) == 0 {
			continue
		}
		o.Stat("histories")
		for _, l := range h.log {
			o.Stat("history." + strings.FieldsFunc(l, func(c rune) bool { return c == ' ' || c == '(' })[0])
		}
		o.Nontrivial("history:" + oldEnc + "->" + h.work.enc())
		look("after the changes", true)
		// against the shape it had: a different type now, in both directions and in print
		newEnc := h.work.enc()
		if bad == "" && newEnc != oldEnc {
			var s, os string
			eq1, eq2 := true, true
			oc, _ := guard(func() error {
				old := c16Fresh(u, t0)
				eq1, eq2 = root.Equal(old), old.Equal(root)
				s, os = root.String(), old.String()
				return nil
			})
			if oc != ocOk || eq1 || eq2 || s == os {
				fail("distinguishes", "a type changed after its creation still compares equal to (or prints like) a fresh type of its former shape",
					map[string]interface{}{"equal_to_former": eq1, "former_equal_to_it": eq2, "string": s, "string_of_former": os})
			}
		}
		if bad == "" {
			o.Pass("structural_identity")
			o.Pass("string_is_llvm_text")
			o.Pass("distinguishes")
			// the same facts as correspondence cases for the model: the text of the final shape, and equality with a
			// fresh tree of the final shape
			fresh := c16Fresh(u, h.work)
			eq, _ := c16Equal(root, fresh)
			o.Case("ty_string", []string{newEnc}, []string{hx(root.String())})
			o.Case("equal", []string{newEnc, newEnc}, []string{b2s(eq)})
		}
		if i < 2 {
			o.Sample(map[string]interface{}{"history": h.log, "initial": c16Text(t0), "final": c16Text(h.work)})
		}
		_ = det
	}
}
