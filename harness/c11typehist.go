package main

// C11, type names with a HISTORY: a type is first named A (through SetName or Module.NewTypeDef, printed or not),
// and then renamed to B by a plain write to its exported TypeName field, by a second SetName, or on a copy of the
// type value.  The module built with it must print the name B (the generator knows which name was set last) in the
// definition and in every use, and the text must re-parse to one type definition named B to which the uses are bound.

import (
	"fmt"
	"strings"

	"github.com/llir/llvm/asm"
	"github.com/llir/llvm/ir"
	"github.com/llir/llvm/ir/enum"
	"github.com/llir/llvm/ir/types"
)

var c11TypeHistVariants = []string{
	"setname_then_field", "setname_print_then_field", "typedef_then_field", "typedef_print_then_field",
	"setname_copy_field", "typedef_print_copy_field", "setname_then_setname", "field_then_setname",
	"setname_then_field_then_field", "typedef_other_module_then_field",
}

var c11TypeHistBodies = []string{"struct", "opaque", "int", "array", "pointer", "vector", "double", "struct_nested"}

func c11TypeHistBody(kind string) types.Type {
	switch kind {
	case "struct":
		return types.NewStruct(i32, types.I8)
	case "opaque":
		return &types.StructType{Opaque: true}
	case "int":
		return types.NewInt(24)
	case "array":
		return types.NewArray(2, i32)
	case "pointer":
		return types.NewPointer(i32)
	case "vector":
		return types.NewVector(4, i32)
	case "double":
		return &types.FloatType{Kind: types.FloatKindDouble}
	}
	return types.NewStruct(types.NewStruct(i32), types.NewArray(3, types.I8))
}

// a plain write to the exported field
func c11SetTypeNameField(t types.Type, n string) {
	switch t := t.(type) {
	case *types.StructType:
		t.TypeName = n
	case *types.IntType:
		t.TypeName = n
	case *types.ArrayType:
		t.TypeName = n
	case *types.PointerType:
		t.TypeName = n
	case *types.VectorType:
		t.TypeName = n
	case *types.FloatType:
		t.TypeName = n
	default:
		panic(fmt.Sprintf("c11SetTypeNameField: %T", t))
	}
}

// a copy of the type value
func c11CopyType(t types.Type) types.Type {
	switch t := t.(type) {
	case *types.StructType:
		u := *t
		return &u
	case *types.IntType:
		u := *t
		return &u
	case *types.ArrayType:
		u := *t
		return &u
	case *types.PointerType:
		u := *t
		return &u
	case *types.VectorType:
		u := *t
		return &u
	case *types.FloatType:
		u := *t
		return &u
	}
	panic(fmt.Sprintf("c11CopyType: %T", t))
}

// the module whose one type definition went through the history; its last name is b
func c11TypeHistBuild(variant, kind, a, b string) *ir.Module {
	m := ir.NewModule()
	t := c11TypeHistBody(kind)
	inModule := false
	switch variant {
	case "setname_then_field":
		t.SetName(a)
		c11SetTypeNameField(t, b)
	case "setname_print_then_field":
		t.SetName(a)
		_ = t.String()
		_ = t.LLString()
		c11SetTypeNameField(t, b)
	case "typedef_then_field":
		m.NewTypeDef(a, t)
		inModule = true
		c11SetTypeNameField(t, b)
	case "typedef_print_then_field":
		m.NewTypeDef(a, t)
		inModule = true
		m.NewGlobal("early", t).Linkage = enum.LinkageExternal
		_ = m.String()
		m.Globals = nil
		c11SetTypeNameField(t, b)
	case "setname_copy_field":
		t.SetName(a)
		t = c11CopyType(t)
		c11SetTypeNameField(t, b)
	case "typedef_print_copy_field":
		m0 := ir.NewModule()
		m0.NewTypeDef(a, t)
		_ = m0.String()
		t = c11CopyType(t)
		c11SetTypeNameField(t, b)
	case "setname_then_setname":
		t.SetName(a)
		_ = t.String()
		t.SetName(b)
	case "field_then_setname":
		c11SetTypeNameField(t, a)
		_ = t.String()
		t.SetName(b)
	case "setname_then_field_then_field":
		t.SetName(a)
		c11SetTypeNameField(t, a+a)
		_ = t.String()
		c11SetTypeNameField(t, b)
	case "typedef_other_module_then_field":
		m0 := ir.NewModule()
		m0.NewTypeDef(a, t)
		m0.NewGlobal("g", t).Linkage = enum.LinkageExternal
		_ = m0.String()
		c11SetTypeNameField(t, b)
	default:
		panic("c11TypeHistBuild: " + variant)
	}
	if !inModule {
		m.TypeDefs = append(m.TypeDefs, t)
	}
	// uses: the content type of a global, the element of a pointer, a parameter and a result type
	m.NewGlobal("g", t).Linkage = enum.LinkageExternal
	m.NewGlobal("gp", types.NewPointer(t)).Linkage = enum.LinkageExternal
	if kind != "opaque" {
		m.NewFunc("f", types.NewPointer(t), ir.NewParam("p", t))
	} else {
		m.NewFunc("f", types.NewPointer(t), ir.NewParam("p", types.NewPointer(t)))
	}
	return m
}

func c11TypeHistRead(m *ir.Module) string {
	if len(m.TypeDefs) != 1 {
		return fmt.Sprintf("\x00%d type definitions", len(m.TypeDefs))
	}
	if m.Globals[0].ContentType != m.TypeDefs[0] {
		return "\x00type use not bound to the definition"
	}
	if pt, ok := m.Globals[1].ContentType.(*types.PointerType); !ok || pt.ElemType != m.TypeDefs[0] {
		return "\x00type use under a pointer not bound to the definition"
	}
	if pt, ok := m.Funcs[0].Sig.RetType.(*types.PointerType); !ok || pt.ElemType != m.TypeDefs[0] {
		return "\x00result type not bound to the definition"
	}
	return typeNameOf(m.TypeDefs[0])
}

func c11TypeHistOne(c *config, variant, kind, a, b string) {
	o := c.out
	var text, back, text2 string
	stage := "build"
	oc, msg := guard(func() error {
		m := c11TypeHistBuild(variant, kind, a, b)
		stage = "print"
		text = m.String()
		if printedPanic(text) {
			panic("panic swallowed by fmt: " + text)
		}
		stage = "parse"
		m2, err := asm.ParseString("c11th.ll", text)
		if err != nil {
			return err
		}
		stage = "read"
		back = c11TypeHistRead(m2)
		stage = "reprint"
		text2 = m2.String()
		return nil
	})
	cls := c11Class("type", b)
	o.Stat("type_history." + variant)
	det := map[string]interface{}{"position": "type_history", "variant": variant, "body": kind, "old_name": hx(a), "name": hx(b), "printed": text, "stage": stage, "msg": msg, "read_back": hx(back)}
	switch {
	case oc != ocOk:
		o.Fail("name_round_trip", cls, "type renamed after it was named: "+stage+" "+oc.String(), det)
	case back != b:
		o.Fail("name_round_trip", cls, "type renamed after it was named: the module does not come back under the name set last", det)
	case text2 != text:
		o.Fail("name_round_trip", cls, "type renamed after it was named: second print differs", det)
	default:
		o.Pass("name_round_trip")
	}
}

func c11TypeHistories(c *config, names []string) {
	k := 0
	for i, b := range names {
		if strings.IndexByte(b, 0) >= 0 || b == "" {
			continue
		}
		// the earlier name: another generated name, or a fixed one that needs no / needs quoting
		var a string
		switch i % 4 {
		case 0:
			a = "old"
		case 1:
			a = "old name\\\"x"
		default:
			a = names[(i*7+3)%len(names)]
		}
		if strings.IndexByte(a, 0) >= 0 || a == "" || a == b {
			a = "A." + fmt.Sprint(i)
		}
		n := 3
		if c.tier == "thorough" {
			n = len(c11TypeHistVariants)
		}
		for j := 0; j < n; j++ {
			variant := c11TypeHistVariants[k%len(c11TypeHistVariants)]
			kind := c11TypeHistBodies[(k/len(c11TypeHistVariants)+k)%len(c11TypeHistBodies)]
			if i%3 != 0 {
				kind = []string{"struct", "opaque", "struct_nested"}[k%3]
			}
			k++
			c11TypeHistOne(c, variant, kind, a, b)
		}
	}
}

func c11TypeHistReplay(c *config, det map[string]interface{}) bool {
	if pos, _ := det["position"].(string); pos != "type_history" {
		return false
	}
	c11TypeHistOne(c, det["variant"].(string), det["body"].(string), unhx(det["old_name"].(string)), unhx(det["name"].(string)))
	return true
}
