package main

// C18, headers: the keyword fields of a global, function, alias or ifunc header in combination.  Each family
// was covered alone (c18Modules); here every pair of values of two families is written on every entity kind,
// plus random full combinations, and the fields of the entity are read after the parse and again after
// print and parse.  What is written is what is held, whatever the neighbouring keyword is.

import (
	"fmt"
	"reflect"
	"strings"

	"github.com/llir/llvm/asm"
	"github.com/llir/llvm/ir"
)

var c18HeaderFams = []string{"Linkage", "Preemption", "Visibility", "DLLStorageClass", "TLSModel", "UnnamedAddr", "CallingConv"}

type c18Entity struct {
	name string
	fams []string // families its header carries, in grammar order
	text func(kw map[string]string) string
	get  func(m *ir.Module) interface{}
}

func c18Entities() []c18Entity {
	join := func(parts ...string) string {
		var out []string
		for _, p := range parts {
			if p != "" {
				out = append(out, p)
			}
		}
		return strings.Join(out, " ")
	}
	tls := func(kw string) string {
		switch kw {
		case "":
			return ""
		case "generic":
			return "thread_local"
		}
		return "thread_local(" + kw + ")"
	}
	return []c18Entity{
		{"global", []string{"Linkage", "Preemption", "Visibility", "DLLStorageClass", "TLSModel", "UnnamedAddr"}, func(kw map[string]string) string {
			init := " 0"
			if kw["Linkage"] == "external" || kw["Linkage"] == "extern_weak" {
				init = ""
			}
			return join("@x =", kw["Linkage"], kw["Preemption"], kw["Visibility"], kw["DLLStorageClass"], tls(kw["TLSModel"]), kw["UnnamedAddr"], "global i32") + init + "\n"
		}, func(m *ir.Module) interface{} { return m.Globals[0] }},
		{"define", []string{"Linkage", "Preemption", "Visibility", "DLLStorageClass", "CallingConv", "UnnamedAddr"}, func(kw map[string]string) string {
			if kw["Linkage"] == "external" || kw["Linkage"] == "extern_weak" {
				return join("declare", kw["Linkage"], kw["Preemption"], kw["Visibility"], kw["DLLStorageClass"], kw["CallingConv"], "void @x()", kw["UnnamedAddr"]) + "\n"
			}
			return join("define", kw["Linkage"], kw["Preemption"], kw["Visibility"], kw["DLLStorageClass"], kw["CallingConv"], "void @x()", kw["UnnamedAddr"]) + " {\n\tret void\n}\n"
		}, func(m *ir.Module) interface{} { return m.Funcs[0] }},
		{"alias", []string{"Linkage", "Preemption", "Visibility", "DLLStorageClass", "TLSModel", "UnnamedAddr"}, func(kw map[string]string) string {
			return "@t = global i32 0\n" + join("@x =", kw["Linkage"], kw["Preemption"], kw["Visibility"], kw["DLLStorageClass"], tls(kw["TLSModel"]), kw["UnnamedAddr"], "alias i32, i32* @t") + "\n"
		}, func(m *ir.Module) interface{} { return m.Aliases[0] }},
		{"ifunc", []string{"Linkage", "Preemption", "Visibility", "DLLStorageClass", "TLSModel", "UnnamedAddr"}, func(kw map[string]string) string {
			return "define void ()* @r() {\n\tret void ()* null\n}\n" + join("@x =", kw["Linkage"], kw["Preemption"], kw["Visibility"], kw["DLLStorageClass"], tls(kw["TLSModel"]), kw["UnnamedAddr"], "ifunc void (), void ()* ()* @r") + "\n"
		}, func(m *ir.Module) interface{} { return m.IFuncs[0] }},
	}
}

func c18ReadFields(x interface{}, fams []string) map[string]int64 {
	out := map[string]int64{}
	v := reflect.ValueOf(x).Elem()
	for _, f := range fams {
		fv := v.FieldByName(f)
		if !fv.IsValid() {
			continue
		}
		switch fv.Kind() {
		case reflect.Int, reflect.Int8, reflect.Int16, reflect.Int32, reflect.Int64:
			out[f] = fv.Int()
		default:
			out[f] = int64(fv.Uint())
		}
	}
	return out
}

func c18Headers(c *config, vals map[string][]int64, r *rng) {
	o := c.out
	usable := func(fam string, v int64) (string, bool) {
		kw := enumTable[fam].str(v)
		if reFallback.MatchString(kw) {
			return "", false
		}
		if kw == "none" || kw == "" {
			return "", true
		}
		if fam == "Preemption" && kw == "dso_local_equivalent" {
			return "", false
		}
		return kw, true
	}
	one := func(e c18Entity, choice map[string]int64) {
		kw := map[string]string{}
		for f, v := range choice {
			k, ok := usable(f, v)
			if !ok {
				return
			}
			kw[f] = k
		}
		src := e.text(kw)
		var text string
		var got1, got2 map[string]int64
		oc, msg := guard(func() error {
			m, err := asm.ParseString("c18h.ll", src)
			if err != nil {
				return err
			}
			got1 = c18ReadFields(e.get(m), e.fams)
			text = m.String()
			m2, err := asm.ParseString("c18h2.ll", text)
			if err != nil {
				return fmt.Errorf("printed text does not re-parse: %v", err)
			}
			got2 = c18ReadFields(e.get(m2), e.fams)
			return nil
		})
		o.Stat("header_combinations." + e.name)
		det := map[string]interface{}{"entity": e.name, "src": src, "printed": text, "written": choice, "held_after_parse": got1, "held_after_print_and_parse": got2, "msg": msg}
		if oc != ocOk {
			// a combination the grammar or the translator rejects with an error is not a matter of this property; a crash is
			if oc == ocPanic {
				o.Fail("value_through_module", "", "a header keyword combination crashes", det)
			} else {
				o.Stat("header_combinations.rejected")
			}
			return
		}
		for _, f := range e.fams {
			want := choice[f]
			if _, present := got1[f]; !present {
				continue
			}
			if got1[f] != want {
				o.Fail("value_through_module", "", "header field "+f+" is not read as written", det)
				return
			}
			if got2[f] != want {
				o.Fail("value_through_module", "", "header field "+f+" changes through print and parse", det)
				return
			}
		}
		o.Pass("value_through_module")
	}
	for _, e := range c18Entities() {
		// every pair of values of two families
		for i, fa := range e.fams {
			for _, fb := range e.fams[i+1:] {
				for _, va := range vals[fa] {
					for _, vb := range vals[fb] {
						if fa == "CallingConv" && va > 20 || fb == "CallingConv" && vb > 20 {
							continue
						}
						choice := map[string]int64{}
						for _, f := range e.fams {
							choice[f] = 0
						}
						choice[fa], choice[fb] = va, vb
						one(e, choice)
					}
				}
			}
		}
		// random full combinations
		for k := 0; k < 150*c.scale; k++ {
			choice := map[string]int64{}
			for _, f := range e.fams {
				choice[f] = vals[f][r.intn(len(vals[f]))]
			}
			one(e, choice)
		}
	}
}
