package main

// C09, literals at NAMED integer types through the parser: `%t = type iN` used as the type of a constant, in every
// spelling of the value (decimal, decimal with leading zeros, u0x, s0x, and true/false at width 1), in every
// constant position of a module (global initialiser, ret operand, instruction operand, vector / array / struct
// element).  The expected value is the generator's; the module is then printed and parsed again: same values.
// Width 1 keeps to the values 0 and 1 (KF-05: i1 -1); the type definition is always the direct `%t = type iN`
// (an alias of an alias has width 0, KF-11 family).

import (
	"fmt"
	"math/big"
	"strings"

	"github.com/llir/llvm/asm"
	"github.com/llir/llvm/ir"
	"github.com/llir/llvm/ir/constant"
	"github.com/llir/llvm/ir/value"
)

// the integer constants of a module built by c09NamedSrc, in the order the generator wrote them
func c09NamedCollect(m *ir.Module) (xs []*big.Int, err error) {
	var walk func(v value.Value) error
	walk = func(v value.Value) error {
		switch v := v.(type) {
		case *constant.Int:
			xs = append(xs, v.X)
		case *constant.Vector:
			for _, e := range v.Elems {
				if err := walk(e); err != nil {
					return err
				}
			}
		case *constant.Array:
			for _, e := range v.Elems {
				if err := walk(e); err != nil {
					return err
				}
			}
		case *constant.Struct:
			for _, e := range v.Fields {
				if err := walk(e); err != nil {
					return err
				}
			}
		default:
			return fmt.Errorf("unexpected constant %T", v)
		}
		return nil
	}
	for _, g := range m.Globals {
		if err := walk(g.Init); err != nil {
			return nil, err
		}
	}
	for _, f := range m.Funcs {
		for _, b := range f.Blocks {
			for _, in := range b.Insts {
				x, ok := in.(*ir.InstXor)
				if !ok {
					return nil, fmt.Errorf("unexpected instruction %T", in)
				}
				if err := walk(x.Y); err != nil {
					return nil, err
				}
			}
			if t, ok := b.Term.(*ir.TermRet); ok && t.X != nil {
				if _, isConst := t.X.(constant.Constant); isConst {
					if err := walk(t.X); err != nil {
						return nil, err
					}
				}
			}
		}
	}
	return xs, nil
}

// every spelling of x at width w (x in the range of the width)
func c09NamedSpellings(w uint64, x *big.Int) []string {
	ls := []string{x.String()}
	if x.Sign() >= 0 {
		h := x.Text(16)
		ls = append(ls, "0"+x.String(), "u0x"+strings.ToUpper(h), "u0x00"+h)
	} else {
		ls = append(ls, "-0"+new(big.Int).Neg(x).String())
	}
	lo := new(big.Int).Neg(pow2(w - 1))
	if x.Cmp(lo) >= 0 && x.Cmp(pow2(w-1)) < 0 {
		ls = append(ls, "s0x"+strings.ToUpper(new(big.Int).Mod(x, pow2(w)).Text(16)))
	}
	if w == 1 && x.Sign() == 0 {
		ls = append(ls, "false")
	}
	if w == 1 && x.Cmp(big.NewInt(1)) == 0 {
		ls = append(ls, "true")
	}
	return ls
}

// a module that uses the literals lits[i] (values want[i]) at the type tn = iN in each position; the result lists the
// expected values in the order c09NamedCollect meets them
func c09NamedSrc(tn string, w uint64, lits []string, want []*big.Int, k int) (string, []*big.Int) {
	var sb strings.Builder
	var exp []*big.Int
	at := func(i int) string { exp = append(exp, want[i%len(lits)]); return lits[i%len(lits)] }
	fmt.Fprintf(&sb, "%s = type i%d\n", tn, w)
	fmt.Fprintf(&sb, "@g0 = global %s %s\n", tn, at(k))
	fmt.Fprintf(&sb, "@g1 = global <2 x %s> <%s %s, %s %s>\n", tn, tn, at(k+1), tn, at(k+2))
	fmt.Fprintf(&sb, "@g2 = global [3 x %s] [%s %s, %s %s, %s %s]\n", tn, tn, at(k+3), tn, at(k), tn, at(k+4))
	exp = append(exp, big.NewInt(7)) // the i8 7 of @g3 comes first among its fields
	fmt.Fprintf(&sb, "@g3 = global { i8, %s, [1 x %s] } { i8 7, %s %s, [1 x %s] [%s %s] }\n", tn, tn, tn, at(k+5), tn, tn, at(k+6))
	fmt.Fprintf(&sb, "define %s @f(%s %%p) {\n\t%%r = xor %s %%p, %s\n\tret %s %s\n}\n", tn, tn, tn, at(k+7), tn, at(k+8))
	fmt.Fprintf(&sb, "define <2 x %s> @h(<2 x %s> %%p) {\n\t%%r = xor <2 x %s> %%p, <%s %s, %s %s>\n\tret <2 x %s> %%r\n}\n", tn, tn, tn, tn, at(k+9), tn, at(k+10), tn)
	return sb.String(), exp
}

func c09NamedOne(c *config, tn string, w uint64, lits []string, want []*big.Int, k int) {
	o := c.out
	src, exp := c09NamedSrc(tn, w, lits, want, k)
	var got, got2 []*big.Int
	var text string
	oc, msg := guard(func() error {
		m, err := asm.ParseString("c09named.ll", src)
		if err != nil {
			return err
		}
		if got, err = c09NamedCollect(m); err != nil {
			return err
		}
		text = m.String()
		m2, err := asm.ParseString("c09namedb.ll", text)
		if err != nil {
			return fmt.Errorf("printed module: %v", err)
		}
		got2, err = c09NamedCollect(m2)
		return err
	})
	o.Stat("through_parser_named_type")
	show := func(xs []*big.Int) string { return fmt.Sprint(xs) }
	det := map[string]interface{}{"width": w, "named_src": src, "want": show(exp), "msg": msg}
	same := func(a, b []*big.Int) bool {
		if len(a) != len(b) {
			return false
		}
		for i := range a {
			if a[i].Cmp(b[i]) != 0 {
				return false
			}
		}
		return true
	}
	switch {
	case oc != ocOk:
		o.Fail("through_parser", "", "a module with literals at a named integer type is not read", det)
	case !same(got, exp):
		det["got"] = show(got)
		o.Fail("through_parser", "", "a literal at a named integer type is not read as its value", det)
	case !same(got2, exp):
		det["got_after_print_parse"] = show(got2)
		det["printed"] = text
		o.Fail("through_parser", "", "a literal at a named integer type changes its value through print and parse", det)
	default:
		o.Pass("through_parser")
	}
}

func c09NamedTypes(c *config, r *rng) {
	names := []string{"%bool", "%t", "%T.1", "%\"a b\"", "%i1", "%int", "%_w"}
	widths := []uint64{1, 1, 2, 3, 7, 8, 9, 16, 31, 32, 33, 63, 64, 65, 128, 129}
	for i := 0; i < 6*c.scale; i++ {
		widths = append(widths, uint64(1+r.intn(140)))
	}
	for wi, w := range widths {
		tn := names[wi%len(names)]
		var vals []*big.Int
		if w == 1 {
			vals = []*big.Int{big.NewInt(0), big.NewInt(1)}
		} else {
			lo := new(big.Int).Neg(pow2(w - 1))
			vals = []*big.Int{big.NewInt(0), big.NewInt(1), big.NewInt(-1), lo, new(big.Int).Sub(pow2(w-1), big.NewInt(1)), new(big.Int).Sub(pow2(w), big.NewInt(1)), pow2(w - 1)}
			for k := 0; k < 3; k++ {
				x := c09RandBelow(r, pow2(w))
				if r.coin() && x.Cmp(pow2(w-1)) <= 0 {
					x = new(big.Int).Neg(x)
				}
				vals = append(vals, x)
			}
		}
		// one value in all its spellings per module, each spelling visiting each position
		for _, x := range vals {
			ls := c09NamedSpellings(w, x)
			ws := make([]*big.Int, len(ls))
			for i := range ws {
				ws[i] = x
			}
			for k := range ls {
				c09NamedOne(c, tn, w, ls, ws, k)
			}
		}
		// all values and spellings mixed in one module
		var ls []string
		var ws []*big.Int
		for _, x := range vals {
			for _, l := range c09NamedSpellings(w, x) {
				ls = append(ls, l)
				ws = append(ws, x)
			}
		}
		for k := 0; k < len(ls); k += 5 {
			c09NamedOne(c, tn, w, ls, ws, k)
		}
	}
}

func c09NamedReplay(c *config, det map[string]interface{}) bool {
	src, ok := det["named_src"].(string)
	if !ok {
		return false
	}
	var got, got2 []*big.Int
	oc, msg := guard(func() error {
		m, err := asm.ParseString("c09named.ll", src)
		if err != nil {
			return err
		}
		if got, err = c09NamedCollect(m); err != nil {
			return err
		}
		m2, err := asm.ParseString("c09namedb.ll", m.String())
		if err != nil {
			return err
		}
		got2, err = c09NamedCollect(m2)
		return err
	})
	fmt.Println("replay:", src)
	fmt.Println("want", det["want"], "read", got, "after print and parse", got2, oc, msg)
	return true
}
