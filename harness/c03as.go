package main

// C03, address spaces: construction recipes in which the pointers live in non-default address spaces.  The
// pointers come from every source the API has -- global variables, functions and allocas whose AddrSpace field is
// assigned after the constructor, parameters of pointer and function-pointer type, constant expressions, results of
// getelementptr / addrspacecast / bitcast / select -- and are used by every constructor that takes a pointer: load,
// store (plain, volatile, atomic), getelementptr, atomicrmw, cmpxchg, call, addrspacecast, bitcast, ptrtoint,
// inttoptr, icmp, select.  Every constructor call runs under guard: the recipes are well typed (the generator builds
// operand types from its own type trees, pointee and address space of the pointer operand included), so a
// constructor that gives up on one is a failure of the property, reported with the recipe.  The type of every
// constructed value and the text of every constructed instruction are compared with what the generator knows it
// built (type trees rendered by c16Text, identifiers numbered by the generator), and the module goes through the
// print / parse / compare checks of the other construction programs.

import (
	"fmt"
	"strings"

	"github.com/llir/llvm/ir"
	"github.com/llir/llvm/ir/constant"
	"github.com/llir/llvm/ir/enum"
	"github.com/llir/llvm/ir/types"
	"github.com/llir/llvm/ir/value"
)

// a local of the function, in the order the printer numbers them
type asLocal struct {
	name string // "" : unnamed, numbered
	num  int
}

type asVal struct {
	v  value.Value
	t  *tyTree
	id func() string // how the printed text refers to the value (identifier or constant), by the generator's own account
}

type asGen struct {
	r      *rng
	m      *ir.Module
	f      *ir.Func
	b      *ir.Block
	rec    *types.StructType
	recAS  uint64
	spaces []uint64
	locals []*asLocal
	ptrs   []asVal // values of pointer type (pointee anything but a function type)
	fptrs  []asVal // pointers to functions
	vals   []asVal // other first-class values
	steps  []string
	frags  []func() string // lines of the printed module, by the generator's account
	tyBad  []string
	bad    string
	n      int
	next   int // next number of an unnamed local
}

func tI(n uint64) *tyTree { return &tyTree{kind: 'i', n: n} }
func tP(as uint64, e *tyTree) *tyTree {
	return &tyTree{kind: 'p', n: as, children: []*tyTree{e}}
}
func tA(n uint64, e *tyTree) *tyTree { return &tyTree{kind: 'A', n: n, children: []*tyTree{e}} }
func tVec(n uint64, e *tyTree) *tyTree {
	return &tyTree{kind: 'V', n: n, children: []*tyTree{e}}
}
func tS(packed bool, fs ...*tyTree) *tyTree { return &tyTree{kind: 'S', flag: packed, children: fs} }
func tFn(variadic bool, ret *tyTree, ps ...*tyTree) *tyTree {
	return &tyTree{kind: 'F', flag: variadic, children: append([]*tyTree{ret}, ps...)}
}

// ty builds the Go type of a tree: fresh objects every time; the one identified struct of the module is %rec
func (g *asGen) ty(t *tyTree) types.Type {
	switch t.kind {
	case 'N':
		return g.rec
	case 'p':
		p := types.NewPointer(g.ty(t.children[0]))
		p.AddrSpace = types.AddrSpace(t.n)
		return p
	case 'A':
		return types.NewArray(t.n, g.ty(t.children[0]))
	case 'V':
		return types.NewVector(t.n, g.ty(t.children[0]))
	case 'S':
		var fs []types.Type
		for _, c := range t.children {
			fs = append(fs, g.ty(c))
		}
		s := types.NewStruct(fs...)
		s.Packed = t.flag
		return s
	case 'F':
		var ps []types.Type
		for _, c := range t.children[1:] {
			ps = append(ps, g.ty(c))
		}
		f := types.NewFunc(g.ty(t.children[0]), ps...)
		f.Variadic = t.flag
		return f
	}
	return t.build(nil)
}

func (g *asGen) space() uint64 { return g.spaces[g.r.intn(len(g.spaces))] }

// what a pointer may point to (sized)
func (g *asGen) pointee(d int) *tyTree {
	r := g.r
	switch r.intn(13) {
	case 0:
		return tI(8)
	case 1:
		return tI(16)
	case 2, 3:
		return tI(32)
	case 4:
		return tI(64)
	case 5:
		return &tyTree{kind: 'f', n: uint64(1 + r.intn(2))}
	case 6:
		return tP(g.space(), tI(8))
	case 7:
		if d > 0 {
			return tP(g.space(), g.pointee(d-1))
		}
		return tP(g.space(), tI(32))
	case 8:
		return tA(uint64(2+r.intn(3)), tI(32))
	case 9:
		if d > 0 {
			return tA(2, tS(r.chance(30), tI(16), g.pointee(d-1)))
		}
		return tA(2, tS(false, tI(16), tI(64)))
	case 10:
		return tS(r.chance(30), tI(32), tI(64), tP(g.space(), tI(8)))
	case 11:
		return tVec(uint64(2+r.intn(3)), tI(32))
	default:
		return &tyTree{kind: 'N', name: "rec"}
	}
}

// body of %rec: { i32, %rec addrspace(recAS)* }
func (g *asGen) fieldsOf(t *tyTree) []*tyTree {
	if t.kind == 'N' {
		return []*tyTree{tI(32), tP(g.recAS, &tyTree{kind: 'N', name: "rec"})}
	}
	return t.children
}

func (g *asGen) local(base string) (*asLocal, func() string) {
	g.n++
	l := &asLocal{}
	if !g.r.chance(40) {
		l.name = fmt.Sprintf("%s%d", base, g.n)
	} else {
		// unnamed: the next number of the function (parameters, blocks and results are numbered in order)
		l.num = g.next
		g.next++
	}
	g.locals = append(g.locals, l)
	return l, func() string {
		if l.name != "" {
			return "%" + l.name
		}
		return fmt.Sprintf("%%%d", l.num)
	}
}

// a constant of the type of the tree, with its text
func (g *asGen) konst(t *tyTree) asVal {
	var c constant.Constant
	var s string
	switch t.kind {
	case 'i':
		k := int64(g.r.intn(100))
		c, s = constant.NewInt(types.NewInt(t.n), k), fmt.Sprint(k)
	case 'p':
		c, s = constant.NewNull(g.ty(t).(*types.PointerType)), "null"
	default:
		if g.r.coin() {
			c, s = constant.NewZeroInitializer(g.ty(t)), "zeroinitializer"
		} else {
			c, s = constant.NewUndef(g.ty(t)), "undef"
		}
	}
	return asVal{c, t, func() string { return s }}
}

// a value of the type of the tree: one constructed earlier, or a constant
func (g *asGen) valueOf(t *tyTree) asVal {
	var cands []asVal
	e := t.enc()
	for _, l := range [][]asVal{g.vals, g.ptrs, g.fptrs} {
		for _, v := range l {
			if v.t.enc() == e {
				cands = append(cands, v)
			}
		}
	}
	if len(cands) == 0 || g.r.chance(30) {
		return g.konst(t)
	}
	return cands[g.r.intn(len(cands))]
}

func (g *asGen) keep(v asVal) {
	switch {
	case v.t.kind == 'p' && v.t.children[0].kind == 'F':
		g.fptrs = append(g.fptrs, v)
	case v.t.kind == 'p':
		g.ptrs = append(g.ptrs, v)
	case v.t.kind != 'v':
		g.vals = append(g.vals, v)
	}
}

// do runs one constructor call of the recipe under guard
func (g *asGen) do(step string, f func()) bool {
	g.steps = append(g.steps, step)
	oc, msg := guard(func() error { f(); return nil })
	if oc != ocOk {
		g.bad = "a well-typed construction is rejected by the constructor: " + step + ": " + msg
		return false
	}
	return true
}

// typed checks the type the library reports for a constructed value against the generator's tree
func (g *asGen) typed(step string, v value.Value, t *tyTree) {
	var got string
	eq1, eq2 := false, false
	oc, msg := guard(func() error {
		vt := v.Type()
		got = vt.String()
		w := g.ty(t)
		eq1, eq2 = vt.Equal(w), w.Equal(vt)
		return nil
	})
	if want := c16Text(t); oc != ocOk || got != want || !eq1 || !eq2 {
		g.tyBad = append(g.tyBad, fmt.Sprintf("%s: the library says %q (%s), constructed was a value of type %q", step, got, msg, want))
	}
}

// result registers the result of an instruction: a numbered or named local of the tree's type
func (g *asGen) result(step string, v value.Value, t *tyTree, base string) asVal {
	_, id := g.local(base)
	l := g.locals[len(g.locals)-1]
	if n, ok := v.(value.Named); ok {
		n.SetName(l.name)
	}
	g.typed(step, v, t)
	r := asVal{v, t, id}
	g.keep(r)
	return r
}

func asText(t *tyTree) string { return c16Text(t) }

// c03ASModule builds one recipe.
func c03ASModule(r *rng, idx int) *asGen {
	g := &asGen{r: r, m: ir.NewModule()}
	g.spaces = [][]uint64{{1, 2, 5}, {0, 1, 3}, {4, 4, 7, 16777215}, {1}}[r.intn(4)]
	g.recAS = g.space()
	m := g.m
	recT := &tyTree{kind: 'N', name: "rec"}
	// ---- the identified struct, recursive through a pointer in an address space (body filled after creation)
	if !g.do("%rec = type { i32, "+asText(tP(g.recAS, recT))+" } through NewTypeDef, fields assigned afterwards", func() {
		g.rec = types.NewStruct()
		m.NewTypeDef("rec", g.rec)
		g.rec.Fields = append(g.rec.Fields, types.NewInt(32), g.ty(tP(g.recAS, recT)))
	}) {
		return g
	}
	g.frags = append(g.frags, func() string {
		return "%rec = type { i32, " + asText(tP(g.recAS, recT)) + " }"
	})
	// ---- global variables in address spaces (AddrSpace is assigned after the constructor)
	type glob struct {
		name string
		as   uint64
		t    *tyTree
	}
	var globs []glob
	for k := 0; k < 2+r.intn(2); k++ {
		gl := glob{fmt.Sprintf("g%d", k), g.space(), g.pointee(1)}
		globs = append(globs, gl)
		var gv *ir.Global
		if !g.do(fmt.Sprintf("@%s = addrspace(%d) global %s zeroinitializer", gl.name, gl.as, asText(gl.t)), func() {
			gv = m.NewGlobalDef(gl.name, constant.NewZeroInitializer(g.ty(gl.t)))
			gv.AddrSpace = types.AddrSpace(gl.as)
		}) {
			return g
		}
		pt := tP(gl.as, gl.t)
		g.typed("@"+gl.name, gv, pt)
		name := gl.name
		g.keep(asVal{gv, pt, func() string { return "@" + name }})
		g.frags = append(g.frags, func() string {
			as := ""
			if gl.as != 0 {
				as = fmt.Sprintf("addrspace(%d) ", gl.as)
			}
			return fmt.Sprintf("@%s = %sglobal %s zeroinitializer", gl.name, as, asText(gl.t))
		})
	}
	// ---- globals initialised with constant expressions over those addresses: the address itself, a bitcast, an
	//      addrspacecast, a getelementptr
	for k := 0; k < 1+r.intn(3); k++ {
		src := g.ptrs[r.intn(len(g.ptrs))]
		as, el := src.t.n, src.t.children[0]
		name := fmt.Sprintf("c%d", k)
		var init constant.Constant
		var it *tyTree
		var text string
		kind := r.intn(4)
		step := ""
		switch kind {
		case 0:
			it, text = src.t, src.id()
			step = fmt.Sprintf("@%s = global %s %s", name, asText(it), text)
		case 1:
			it = tP(as, tI(8))
			text = fmt.Sprintf("bitcast (%s %s to %s)", asText(src.t), src.id(), asText(it))
			step = fmt.Sprintf("@%s = global %s %s", name, asText(it), text)
		case 2:
			to := g.space()
			if to == as {
				to = as + 1
			}
			it = tP(to, el)
			text = fmt.Sprintf("addrspacecast (%s %s to %s)", asText(src.t), src.id(), asText(it))
			step = fmt.Sprintf("@%s = global %s %s", name, asText(it), text)
		default:
			it = tP(as, el)
			text = fmt.Sprintf("getelementptr (%s, %s %s, i64 1)", asText(el), asText(src.t), src.id())
			step = fmt.Sprintf("@%s = global %s %s", name, asText(it), text)
		}
		var gv *ir.Global
		if !g.do(step, func() {
			sc := src.v.(constant.Constant)
			switch kind {
			case 0:
				init = sc
			case 1:
				init = constant.NewBitCast(sc, g.ty(it))
			case 2:
				init = constant.NewAddrSpaceCast(sc, g.ty(it))
			default:
				init = constant.NewGetElementPtr(g.ty(el), sc, constant.NewInt(types.I64, 1))
			}
			gv = m.NewGlobalDef(name, init)
		}) {
			return g
		}
		g.typed("initialiser of @"+name, init, it)
		g.typed("@"+name, gv, tP(0, it))
		g.keep(asVal{gv, tP(0, it), func() string { return "@" + name }})
		full := step
		g.frags = append(g.frags, func() string { return full })
	}
	// ---- a function declared in an address space, to be called
	calleeAS := g.space()
	calleeT := tFn(false, tI(32), tI(32), tP(g.space(), tI(8)))
	var callee *ir.Func
	if !g.do(fmt.Sprintf("declare @callee of type %s in addrspace(%d)", asText(calleeT), calleeAS), func() {
		callee = m.NewFunc("callee", g.ty(calleeT.children[0]), ir.NewParam("", g.ty(calleeT.children[1])), ir.NewParam("", g.ty(calleeT.children[2])))
		callee.AddrSpace = types.AddrSpace(calleeAS)
	}) {
		return g
	}
	g.typed("@callee", callee, tP(calleeAS, calleeT))
	g.keep(asVal{callee, tP(calleeAS, calleeT), func() string { return "@callee" }})
	// ---- the function: parameters of pointer type in address spaces, pointers to functions in address spaces
	var params []*ir.Param
	nP := 2 + r.intn(3)
	var pdecl []func() string
	for k := 0; k < nP; k++ {
		var pt *tyTree
		if k == nP-1 || r.chance(20) {
			var ps []*tyTree
			for j := r.intn(3); j > 0; j-- {
				if r.coin() {
					ps = append(ps, tI(32))
				} else {
					ps = append(ps, tP(g.space(), g.pointee(0)))
				}
			}
			var ret *tyTree = &tyTree{kind: 'v'}
			if r.chance(60) {
				ret = g.pointee(0)
			}
			pt = tP(g.space(), tFn(r.chance(25), ret, ps...))
		} else {
			pt = tP(g.space(), g.pointee(1))
		}
		l, id := g.local("p")
		var p *ir.Param
		if !g.do(fmt.Sprintf("parameter %s of type %s", id(), asText(pt)), func() { p = ir.NewParam(l.name, g.ty(pt)) }) {
			return g
		}
		g.typed("parameter", p, pt)
		params = append(params, p)
		g.keep(asVal{p, pt, id})
		ptc := pt
		pdecl = append(pdecl, func() string {
			return asText(ptc) + " " + id() // (the library writes the number of an unnamed parameter out; LLVM reads both)
		})
	}
	if !g.do("define void @f(parameters)", func() {
		g.f = m.NewFunc("f", types.Void, params...)
		g.b = g.f.NewBlock("")
	}) {
		return g
	}
	g.frags = append(g.frags, func() string {
		var ps []string
		for _, p := range pdecl {
			ps = append(ps, p())
		}
		return "define void @f(" + strings.Join(ps, ", ") + ") {"
	})
	if r.coin() {
		g.b.SetName("entry")
	} else {
		g.next++ // the unnamed entry block takes a number
	}
	b := g.b
	// ---- allocas in the module's alloca address space
	allocaAS := g.space()
	for k := 0; k < 1+r.intn(2); k++ {
		el := g.pointee(1)
		var a *ir.InstAlloca
		step := fmt.Sprintf("alloca %s, addrspace(%d)", asText(el), allocaAS)
		if !g.do(step, func() {
			a = b.NewAlloca(g.ty(el))
			a.AddrSpace = types.AddrSpace(allocaAS)
		}) {
			return g
		}
		res := g.result(step, a, tP(allocaAS, el), "a")
		g.frags = append(g.frags, func() string {
			if allocaAS == 0 {
				return fmt.Sprintf("%s = alloca %s", res.id(), asText(el))
			}
			return fmt.Sprintf("%s = alloca %s, addrspace(%d)", res.id(), asText(el), allocaAS)
		})
	}
	// ---- the uses
	for k := 0; k < 5+r.intn(6) && g.bad == ""; k++ {
		g.use()
	}
	if g.bad == "" {
		g.do("ret void", func() { b.NewRet(nil) })
	}
	return g
}

func asAlign(t *tyTree) int { return int(t.n / 8) }

// one use of a pointer in an address space
func (g *asGen) use() {
	r, b := g.r, g.b
	src := g.ptrs[r.intn(len(g.ptrs))]
	as, el := src.t.n, src.t.children[0]
	ptxt := func() string { return asText(src.t) + " " + src.id() }
	isInt := el.kind == 'i'
	kind := r.intn(16)
	switch {
	case kind <= 1: // load, plain or volatile
		vol := r.chance(25)
		step := fmt.Sprintf("load %s from %s", asText(el), ptxt())
		var ld *ir.InstLoad
		if !g.do(step, func() { ld = b.NewLoad(g.ty(el), src.v); ld.Volatile = vol }) {
			return
		}
		res := g.result(step, ld, el, "v")
		g.frags = append(g.frags, func() string {
			op := "load "
			if vol {
				op = "load volatile "
			}
			return fmt.Sprintf("%s = %s%s, %s", res.id(), op, asText(el), ptxt())
		})
	case kind <= 4: // store, plain or volatile
		val := g.valueOf(el)
		vol := r.chance(25)
		step := fmt.Sprintf("store %s %s to %s", asText(el), val.id(), ptxt())
		var st *ir.InstStore
		if !g.do(step, func() { st = b.NewStore(val.v, src.v); st.Volatile = vol }) {
			return
		}
		g.frags = append(g.frags, func() string {
			op := "store "
			if vol {
				op = "store volatile "
			}
			return fmt.Sprintf("%s%s %s, %s", op, asText(el), val.id(), ptxt())
		})
	case kind == 5 && isInt && el.n >= 8: // atomic load and store
		step := fmt.Sprintf("atomic load/store of %s through %s", asText(el), ptxt())
		var ld *ir.InstLoad
		if !g.do(step, func() {
			ld = b.NewLoad(g.ty(el), src.v)
			ld.Atomic, ld.Ordering, ld.Align = true, enum.AtomicOrderingAcquire, ir.Align(asAlign(el))
		}) {
			return
		}
		res := g.result(step, ld, el, "v")
		g.frags = append(g.frags, func() string {
			return fmt.Sprintf("%s = load atomic %s, %s acquire, align %d", res.id(), asText(el), ptxt(), asAlign(el))
		})
		if !g.do(step, func() {
			st := b.NewStore(res.v, src.v)
			st.Atomic, st.Ordering, st.Align = true, enum.AtomicOrderingRelease, ir.Align(asAlign(el))
		}) {
			return
		}
		g.frags = append(g.frags, func() string {
			return fmt.Sprintf("store atomic %s %s, %s release, align %d", asText(el), res.id(), ptxt(), asAlign(el))
		})
	case kind <= 7: // getelementptr: into the pointee, or past it
		var idxT []string
		var idx []value.Value
		cur := el
		first := int64(r.intn(2))
		idx = append(idx, constant.NewInt(types.I64, first))
		idxT = append(idxT, fmt.Sprintf("i64 %d", first))
		for depth := 0; depth < 3; depth++ {
			fs := g.fieldsOf(cur)
			if (cur.kind != 'S' && cur.kind != 'N' && cur.kind != 'A') || (cur.kind != 'A' && len(fs) == 0) || r.chance(25) {
				break
			}
			if cur.kind == 'A' {
				i := int64(r.intn(int(cur.n)))
				if r.coin() {
					idx, idxT = append(idx, constant.NewInt(types.I64, i)), append(idxT, fmt.Sprintf("i64 %d", i))
				} else {
					idx, idxT = append(idx, constant.NewInt(types.I32, i)), append(idxT, fmt.Sprintf("i32 %d", i))
				}
				cur = cur.children[0]
			} else {
				i := r.intn(len(fs))
				idx, idxT = append(idx, constant.NewInt(types.I32, int64(i))), append(idxT, fmt.Sprintf("i32 %d", i))
				cur = fs[i]
			}
		}
		inb := r.chance(30)
		step := fmt.Sprintf("getelementptr %s, %s, %s", asText(el), ptxt(), strings.Join(idxT, ", "))
		var gep *ir.InstGetElementPtr
		if !g.do(step, func() { gep = b.NewGetElementPtr(g.ty(el), src.v, idx...); gep.InBounds = inb }) {
			return
		}
		res := g.result(step, gep, tP(as, cur), "q")
		g.frags = append(g.frags, func() string {
			op := "getelementptr "
			if inb {
				op += "inbounds "
			}
			return fmt.Sprintf("%s = %s%s, %s, %s", res.id(), op, asText(el), ptxt(), strings.Join(idxT, ", "))
		})
	case kind == 8 && isInt && el.n >= 8: // atomicrmw
		ops := []enum.AtomicOp{enum.AtomicOpAdd, enum.AtomicOpXChg, enum.AtomicOpUMax, enum.AtomicOpAnd}
		names := []string{"add", "xchg", "umax", "and"}
		oi := r.intn(len(ops))
		val := g.valueOf(el)
		step := fmt.Sprintf("atomicrmw %s %s, %s %s", names[oi], ptxt(), asText(el), val.id())
		var rmw *ir.InstAtomicRMW
		if !g.do(step, func() { rmw = b.NewAtomicRMW(ops[oi], src.v, val.v, enum.AtomicOrderingSequentiallyConsistent) }) {
			return
		}
		res := g.result(step, rmw, el, "o")
		g.frags = append(g.frags, func() string {
			return fmt.Sprintf("%s = atomicrmw %s %s, %s %s seq_cst", res.id(), names[oi], ptxt(), asText(el), val.id())
		})
	case kind == 9 && (isInt && el.n >= 8 || el.kind == 'p'): // cmpxchg, on integers and on pointers
		cmp, nw := g.valueOf(el), g.valueOf(el)
		step := fmt.Sprintf("cmpxchg %s, %s %s, %s %s", ptxt(), asText(el), cmp.id(), asText(el), nw.id())
		var cx *ir.InstCmpXchg
		if !g.do(step, func() {
			cx = b.NewCmpXchg(src.v, cmp.v, nw.v, enum.AtomicOrderingAcquireRelease, enum.AtomicOrderingMonotonic)
		}) {
			return
		}
		res := g.result(step, cx, tS(false, el, tI(1)), "x")
		g.frags = append(g.frags, func() string {
			return fmt.Sprintf("%s = cmpxchg %s, %s %s, %s %s acq_rel monotonic", res.id(), ptxt(), asText(el), cmp.id(), asText(el), nw.id())
		})
	case kind == 10: // addrspacecast
		to := g.space()
		if to == as {
			to = as + 1
		}
		tt := tP(to, el)
		step := fmt.Sprintf("addrspacecast %s to %s", ptxt(), asText(tt))
		var v value.Value
		if !g.do(step, func() { v = b.NewAddrSpaceCast(src.v, g.ty(tt)) }) {
			return
		}
		res := g.result(step, v, tt, "c")
		g.frags = append(g.frags, func() string {
			return fmt.Sprintf("%s = addrspacecast %s to %s", res.id(), ptxt(), asText(tt))
		})
	case kind == 11: // bitcast within the address space
		tt := tP(as, tI(8))
		if el.kind == 'i' && el.n == 8 {
			tt = tP(as, tA(1, tI(8)))
		}
		step := fmt.Sprintf("bitcast %s to %s", ptxt(), asText(tt))
		var v value.Value
		if !g.do(step, func() { v = b.NewBitCast(src.v, g.ty(tt)) }) {
			return
		}
		res := g.result(step, v, tt, "c")
		g.frags = append(g.frags, func() string {
			return fmt.Sprintf("%s = bitcast %s to %s", res.id(), ptxt(), asText(tt))
		})
	case kind == 12: // ptrtoint and back
		step := fmt.Sprintf("ptrtoint %s to i64, inttoptr back", ptxt())
		var v, w value.Value
		if !g.do(step, func() { v = b.NewPtrToInt(src.v, types.NewInt(64)) }) {
			return
		}
		res := g.result(step, v, tI(64), "n")
		g.frags = append(g.frags, func() string { return fmt.Sprintf("%s = ptrtoint %s to i64", res.id(), ptxt()) })
		if !g.do(step, func() { w = b.NewIntToPtr(res.v, g.ty(src.t)) }) {
			return
		}
		res2 := g.result(step, w, src.t, "c")
		g.frags = append(g.frags, func() string {
			return fmt.Sprintf("%s = inttoptr i64 %s to %s", res2.id(), res.id(), asText(src.t))
		})
	case kind == 13: // icmp of two pointers of the type, select between them
		other := g.valueOf(src.t)
		step := fmt.Sprintf("icmp ne %s, %s; select", ptxt(), other.id())
		var cmp, sel value.Value
		if !g.do(step, func() { cmp = b.NewICmp(enum.IPredNE, src.v, other.v) }) {
			return
		}
		res := g.result(step, cmp, tI(1), "b")
		g.frags = append(g.frags, func() string { return fmt.Sprintf("%s = icmp ne %s, %s", res.id(), ptxt(), other.id()) })
		if !g.do(step, func() { sel = b.NewSelect(res.v, other.v, src.v) }) {
			return
		}
		res2 := g.result(step, sel, src.t, "s")
		g.frags = append(g.frags, func() string {
			return fmt.Sprintf("%s = select i1 %s, %s %s, %s", res2.id(), res.id(), asText(src.t), other.id(), ptxt())
		})
	default: // a call through a pointer to a function in an address space (a parameter, or the declared function)
		fp := g.fptrs[r.intn(len(g.fptrs))]
		ft := fp.t.children[0]
		var args []asVal
		for _, p := range ft.children[1:] {
			args = append(args, g.valueOf(p))
		}
		if ft.flag {
			args = append(args, g.valueOf(tI(32)))
		}
		argText := func() string {
			var as []string
			for _, a := range args {
				as = append(as, asText(a.t)+" "+a.id())
			}
			return strings.Join(as, ", ")
		}
		step := fmt.Sprintf("call %s %s(%s), callee in addrspace(%d)", asText(ft), fp.id(), argText(), fp.t.n)
		var call *ir.InstCall
		if !g.do(step, func() {
			var vs []value.Value
			for _, a := range args {
				vs = append(vs, a.v)
			}
			call = b.NewCall(fp.v, vs...)
			call.AddrSpace = types.AddrSpace(fp.t.n) // LLVM wants the address space of the callee spelled on the call
		}) {
			return
		}
		ret := ft.children[0]
		lhs := func() string { return "" }
		if ret.kind == 'v' {
			g.typed(step, call, ret)
		} else {
			res := g.result(step, call, ret, "r")
			lhs = func() string { return res.id() + " = " }
		}
		g.frags = append(g.frags, func() string {
			typ := asText(ret)
			if ft.flag {
				typ = asText(ft)
			}
			sp := ""
			if fp.t.n != 0 {
				sp = fmt.Sprintf("addrspace(%d) ", fp.t.n)
			}
			return fmt.Sprintf("%scall %s%s %s(%s)", lhs(), sp, typ, fp.id(), argText())
		})
	}
}

func c03AddrSpaces(c *config, r *rng) {
	o := c.out
	for i := 0; i < 250*c.scale; i++ {
		var g *asGen
		oc, msg := guard(func() error { g = c03ASModule(r, i); return nil })
		o.Stat("addrspace.programs")
		if oc != ocOk {
			o.Fail("construct_print_parse", "", "building an address-space recipe crashes outside a constructor: "+msg, map[string]interface{}{"msg": msg})
			continue
		}
		det := map[string]interface{}{"recipe": g.steps}
		if g.bad != "" {
			o.Stat("programs")
			o.Fail("construct_print_parse", "", g.bad, det)
			continue
		}
		for _, s := range g.steps {
			o.Stat("addrspace.step." + strings.Fields(s)[0])
		}
		o.Nontrivial("addrspace:" + strings.Join(g.steps, ";"))
		if len(g.tyBad) > 0 {
			det["types"] = g.tyBad
			o.Fail("constructed_text", "", "the type of a constructed value is not the type its operands imply: "+g.tyBad[0], det)
		}
		// the text: every constructed definition and instruction appears as a line of the printed module, spelled
		// as the generator spells what it built
		text, poc, pmsg := printGuard(g.m)
		if poc == ocOk {
			lines := map[string]bool{}
			for _, l := range strings.Split(text, "\n") {
				lines[strings.TrimSpace(l)] = true
			}
			missing := ""
			for _, f := range g.frags {
				if w := f(); !lines[w] {
					missing = w
					break
				}
			}
			if missing != "" {
				det["printed"], det["expected_line"] = text, missing
				o.Fail("constructed_text", "", "the printed module does not spell what was constructed: no line "+missing, det)
			} else {
				o.Pass("constructed_text")
			}
		} else {
			_ = pmsg
		}
		c03Check(c, g.m, det, "", i == 0)
	}
}
