package main

// C18, carriers among the specialized metadata nodes: every field of an enumerated type of every node kind of
// ir/metadata/specialized_metadata.go (enumerated from the struct definitions; c18DICarriers lists them, and
// c18DICarriersComplete checks by reflection that none is missing) carries every declared value of its family.
// Two routes per (carrier, value): text with the keyword -> parse -> field -> print -> parse -> field, and a
// node constructed with the value -> print -> parse -> field.  The expected value is the one put in.

import (
	"fmt"
	"reflect"
	"sort"
	"strings"

	"github.com/llir/llvm/asm"
	"github.com/llir/llvm/ir"
	"github.com/llir/llvm/ir/constant"
	"github.com/llir/llvm/ir/enum"
	"github.com/llir/llvm/ir/metadata"
	"github.com/llir/llvm/ir/types"
)

type c18DICarrier struct {
	fam   string // family (key of enumTable)
	node  string // node kind
	field string // Go field of the node (for DIExpression: the index into Fields, as Fields[i])
	// text of a module in which !9 is the carrier node, %s the keyword of the field
	tmpl string
	// a fresh minimal node of the kind (ID 9) and the definitions it refers to
	mk func() (node metadata.Definition, others []metadata.Definition)
}

func c18File() *metadata.DIFile {
	return &metadata.DIFile{MetadataID: 0, Filename: "a", Directory: "b"}
}

const c18FileText = "!0 = !DIFile(filename: \"a\", directory: \"b\")\n"

func c18DICarriers() []c18DICarrier {
	withFile := func(n func(f *metadata.DIFile) metadata.Definition) func() (metadata.Definition, []metadata.Definition) {
		return func() (metadata.Definition, []metadata.Definition) {
			f := c18File()
			return n(f), []metadata.Definition{f}
		}
	}
	alone := func(n func() metadata.Definition) func() (metadata.Definition, []metadata.Definition) {
		return func() (metadata.Definition, []metadata.Definition) { return n(), nil }
	}
	basic := alone(func() metadata.Definition { return &metadata.DIBasicType{MetadataID: 9, Name: "x", Size: 32} })
	composite := alone(func() metadata.Definition {
		return &metadata.DICompositeType{MetadataID: 9, Tag: enum.DwarfTagStructureType, Name: "x"}
	})
	derived := alone(func() metadata.Definition {
		return &metadata.DIDerivedType{MetadataID: 9, Tag: enum.DwarfTagPointerType, BaseType: metadata.Null}
	})
	strty := alone(func() metadata.Definition { return &metadata.DIStringType{MetadataID: 9, Name: "x"} })
	cu := withFile(func(f *metadata.DIFile) metadata.Definition {
		return &metadata.DICompileUnit{MetadataID: 9, Distinct: true, Language: enum.DwarfLangC99, File: f}
	})
	subprogram := alone(func() metadata.Definition { return &metadata.DISubprogram{MetadataID: 9, Distinct: true, Name: "f"} })
	subroutine := func() (metadata.Definition, []metadata.Definition) {
		t := &metadata.Tuple{MetadataID: 0, Fields: []metadata.Field{metadata.Null}}
		return &metadata.DISubroutineType{MetadataID: 9, Types: t}, []metadata.Definition{t}
	}
	expr := func(fields ...metadata.DIExpressionField) func() (metadata.Definition, []metadata.Definition) {
		return alone(func() metadata.Definition {
			return &metadata.DIExpression{MetadataID: 9, Fields: append([]metadata.DIExpressionField(nil), fields...)}
		})
	}
	return []c18DICarrier{
		// DwarfTag
		{"DwarfTag", "DIBasicType", "Tag", "!9 = !DIBasicType(tag: %s, name: \"x\", size: 32)\n", basic},
		{"DwarfTag", "DICompositeType", "Tag", "!9 = !DICompositeType(tag: %s, name: \"x\")\n", composite},
		{"DwarfTag", "DIDerivedType", "Tag", "!9 = !DIDerivedType(tag: %s, baseType: null)\n", derived},
		{"DwarfTag", "DIImportedEntity", "Tag", c18FileText + "!9 = !DIImportedEntity(tag: %s, scope: !0)\n", withFile(func(f *metadata.DIFile) metadata.Definition {
			return &metadata.DIImportedEntity{MetadataID: 9, Tag: enum.DwarfTagImportedModule, Scope: f}
		})},
		{"DwarfTag", "DIStringType", "Tag", "!9 = !DIStringType(tag: %s, name: \"x\")\n", strty},
		{"DwarfTag", "DITemplateValueParameter", "Tag", "!9 = !DITemplateValueParameter(tag: %s, name: \"x\", value: i32 7)\n", alone(func() metadata.Definition {
			return &metadata.DITemplateValueParameter{MetadataID: 9, Name: "x", Value: constant.NewInt(types.I32, 7)}
		})},
		{"DwarfTag", "GenericDINode", "Tag", "!9 = !GenericDINode(tag: %s, header: \"h\")\n", alone(func() metadata.Definition {
			return &metadata.GenericDINode{MetadataID: 9, Header: "h"}
		})},
		// DwarfAttEncoding
		{"DwarfAttEncoding", "DIBasicType", "Encoding", "!9 = !DIBasicType(name: \"x\", size: 32, encoding: %s)\n", basic},
		{"DwarfAttEncoding", "DIStringType", "Encoding", "!9 = !DIStringType(name: \"x\", encoding: %s)\n", strty},
		{"DwarfAttEncoding", "DIExpression", "Fields[2]", "!9 = !DIExpression(DW_OP_LLVM_convert, 16, %s)\n", expr(enum.DwarfOpLLVMConvert, metadata.UintLit(16), enum.DwarfAttEncoding(0))},
		// DwarfOp
		{"DwarfOp", "DIExpression", "Fields[0]", "!9 = !DIExpression(%s)\n", expr(enum.DwarfOp(0))},
		{"DwarfOp", "DIExpression", "Fields[2]", "!9 = !DIExpression(DW_OP_constu, 4, %s)\n", expr(enum.DwarfOpConstu, metadata.UintLit(4), enum.DwarfOp(0))},
		// DIFlag
		{"DIFlag", "DIBasicType", "Flags", "!9 = !DIBasicType(name: \"x\", size: 32, flags: %s)\n", basic},
		{"DIFlag", "DICompositeType", "Flags", "!9 = !DICompositeType(tag: DW_TAG_structure_type, name: \"x\", flags: %s)\n", composite},
		{"DIFlag", "DIDerivedType", "Flags", "!9 = !DIDerivedType(tag: DW_TAG_pointer_type, baseType: null, flags: %s)\n", derived},
		{"DIFlag", "DILocalVariable", "Flags", c18FileText + "!9 = !DILocalVariable(name: \"v\", scope: !0, flags: %s)\n", withFile(func(f *metadata.DIFile) metadata.Definition {
			return &metadata.DILocalVariable{MetadataID: 9, Name: "v", Scope: f}
		})},
		{"DIFlag", "DISubprogram", "Flags", "!9 = distinct !DISubprogram(name: \"f\", flags: %s)\n", subprogram},
		{"DIFlag", "DISubroutineType", "Flags", "!0 = !{null}\n!9 = !DISubroutineType(flags: %s, types: !0)\n", subroutine},
		// DISPFlag
		{"DISPFlag", "DISubprogram", "SPFlags", "!9 = distinct !DISubprogram(name: \"f\", spFlags: %s)\n", subprogram},
		// DwarfLang
		{"DwarfLang", "DICompileUnit", "Language", c18FileText + "!9 = distinct !DICompileUnit(language: %s, file: !0)\n", cu},
		{"DwarfLang", "DICompositeType", "RuntimeLang", "!9 = !DICompositeType(tag: DW_TAG_structure_type, name: \"x\", runtimeLang: %s)\n", composite},
		// EmissionKind, NameTableKind
		{"EmissionKind", "DICompileUnit", "EmissionKind", c18FileText + "!9 = distinct !DICompileUnit(language: DW_LANG_C99, file: !0, emissionKind: %s)\n", cu},
		{"NameTableKind", "DICompileUnit", "NameTableKind", c18FileText + "!9 = distinct !DICompileUnit(language: DW_LANG_C99, file: !0, nameTableKind: %s)\n", cu},
		// ChecksumKind
		{"ChecksumKind", "DIFile", "Checksumkind", "!9 = !DIFile(filename: \"a\", directory: \"b\", checksumkind: %s, checksum: \"00\")\n", alone(func() metadata.Definition {
			return &metadata.DIFile{MetadataID: 9, Filename: "a", Directory: "b", Checksum: "00"}
		})},
		// DwarfMacinfo
		{"DwarfMacinfo", "DIMacro", "Type", "!9 = !DIMacro(type: %s, name: \"x\")\n", alone(func() metadata.Definition {
			return &metadata.DIMacro{MetadataID: 9, Name: "x"}
		})},
		{"DwarfMacinfo", "DIMacroFile", "Type", c18FileText + "!9 = !DIMacroFile(type: %s, file: !0)\n", withFile(func(f *metadata.DIFile) metadata.Definition {
			return &metadata.DIMacroFile{MetadataID: 9, File: f}
		})},
		// DwarfVirtuality
		{"DwarfVirtuality", "DISubprogram", "Virtuality", "!9 = distinct !DISubprogram(name: \"f\", virtuality: %s)\n", subprogram},
		// DwarfCC
		{"DwarfCC", "DISubroutineType", "CC", "!0 = !{null}\n!9 = !DISubroutineType(cc: %s, types: !0)\n", subroutine},
	}
}

// the families whose values are fields of specialized metadata nodes
var c18DIFams = map[string]reflect.Type{
	"DwarfTag": reflect.TypeOf(enum.DwarfTag(0)), "DwarfLang": reflect.TypeOf(enum.DwarfLang(0)),
	"DwarfAttEncoding": reflect.TypeOf(enum.DwarfAttEncoding(0)), "DwarfOp": reflect.TypeOf(enum.DwarfOp(0)),
	"DwarfCC": reflect.TypeOf(enum.DwarfCC(0)), "DwarfMacinfo": reflect.TypeOf(enum.DwarfMacinfo(0)),
	"DwarfVirtuality": reflect.TypeOf(enum.DwarfVirtuality(0)), "EmissionKind": reflect.TypeOf(enum.EmissionKind(0)),
	"NameTableKind": reflect.TypeOf(enum.NameTableKind(0)), "ChecksumKind": reflect.TypeOf(enum.ChecksumKind(0)),
	"DIFlag": reflect.TypeOf(enum.DIFlag(0)), "DISPFlag": reflect.TypeOf(enum.DISPFlag(0)),
}

// c18DISlot returns the settable place of the carrier's field in the node
func c18DISlot(node interface{}, field string) (reflect.Value, error) {
	v := reflect.ValueOf(node)
	if v.Kind() != reflect.Ptr || v.IsNil() {
		return reflect.Value{}, fmt.Errorf("no node")
	}
	v = v.Elem()
	if strings.HasPrefix(field, "Fields[") {
		var i int
		fmt.Sscanf(field, "Fields[%d]", &i)
		fs := v.FieldByName("Fields")
		if !fs.IsValid() || fs.Len() <= i {
			return reflect.Value{}, fmt.Errorf("the node has no field %s", field)
		}
		return fs.Index(i), nil
	}
	f := v.FieldByName(field)
	if !f.IsValid() {
		return reflect.Value{}, fmt.Errorf("the node has no field %s", field)
	}
	return f, nil
}

func c18DIRead(node interface{}, field string, t reflect.Type) (int64, error) {
	s, err := c18DISlot(node, field)
	if err != nil {
		return 0, err
	}
	if s.Kind() == reflect.Interface {
		if s.IsNil() {
			return 0, fmt.Errorf("%s is nil", field)
		}
		s = s.Elem()
	}
	if s.Type() != t {
		return 0, fmt.Errorf("%s holds a %s, not a %s", field, s.Type(), t)
	}
	switch s.Kind() {
	case reflect.Int, reflect.Int8, reflect.Int16, reflect.Int32, reflect.Int64:
		return s.Int(), nil
	}
	return int64(s.Uint()), nil
}

func c18DIWrite(node interface{}, field string, t reflect.Type, v int64) error {
	s, err := c18DISlot(node, field)
	if err != nil {
		return err
	}
	nv := reflect.New(t).Elem()
	switch nv.Kind() {
	case reflect.Int, reflect.Int8, reflect.Int16, reflect.Int32, reflect.Int64:
		nv.SetInt(v)
	default:
		nv.SetUint(uint64(v))
	}
	s.Set(nv)
	return nil
}

func c18DINode(m *ir.Module, id int64, kind string) (interface{}, error) {
	for _, d := range m.MetadataDefs {
		if d.ID() == id {
			if got := reflect.TypeOf(d).Elem().Name(); got != kind {
				return nil, fmt.Errorf("!%d is a %s, not a %s", id, got, kind)
			}
			return d, nil
		}
	}
	return nil, fmt.Errorf("no definition !%d", id)
}

// c18DICarriersComplete: every field of an enumerated type of every specialized node kind is in the list
func c18DICarriersComplete(c *config, cs []c18DICarrier) {
	o := c.out
	listed := map[string]bool{}
	for _, k := range cs {
		listed[k.node+"."+k.field] = true
	}
	famOf := map[reflect.Type]string{}
	for f, t := range c18DIFams {
		famOf[t] = f
	}
	nodes := []interface{}{
		&metadata.DIBasicType{}, &metadata.DICommonBlock{}, &metadata.DICompileUnit{}, &metadata.DICompositeType{},
		&metadata.DIDerivedType{}, &metadata.DIEnumerator{}, &metadata.DIExpression{}, &metadata.DIFile{},
		&metadata.DIGlobalVariable{}, &metadata.DIGlobalVariableExpression{}, &metadata.DIImportedEntity{},
		&metadata.DILabel{}, &metadata.DILexicalBlock{}, &metadata.DILexicalBlockFile{}, &metadata.DILocalVariable{},
		&metadata.DILocation{}, &metadata.DIMacro{}, &metadata.DIMacroFile{}, &metadata.DIModule{},
		&metadata.DINamespace{}, &metadata.DIObjCProperty{}, &metadata.DIStringType{}, &metadata.DISubprogram{},
		&metadata.DISubrange{}, &metadata.DISubroutineType{}, &metadata.DITemplateTypeParameter{},
		&metadata.DITemplateValueParameter{}, &metadata.GenericDINode{},
	}
	for _, n := range nodes {
		t := reflect.TypeOf(n).Elem()
		for i := 0; i < t.NumField(); i++ {
			fam, ok := famOf[t.Field(i).Type]
			if !ok {
				continue
			}
			key := t.Name() + "." + t.Field(i).Name
			if !listed[key] {
				o.Fail("enum_type_known", "", "a node field of an enumerated type has no carrier in the harness", map[string]string{"field": key, "family": fam})
			} else {
				o.Pass("enum_type_known")
			}
		}
	}
}

func c18DI(c *config, vals map[string][]int64) {
	o := c.out
	cs := c18DICarriers()
	c18DICarriersComplete(c, cs)
	for _, k := range cs {
		f, ok := enumTable[k.fam]
		t := c18DIFams[k.fam]
		if !ok || t == nil {
			o.Fail("enum_type_known", "", "carrier of an unknown family", map[string]string{"family": k.fam})
			continue
		}
		vs := append([]int64(nil), vals[k.fam]...)
		sort.Slice(vs, func(i, j int) bool { return vs[i] < vs[j] })
		for _, v := range vs {
			kw := f.str(v)
			if reFallback.MatchString(kw) || kw == "" {
				continue // no keyword: reported by keyword_round_trip
			}
			o.Stat("di_carriers." + k.fam + "." + k.node)
			// route 1: text -> field -> print -> parse -> field
			src := fmt.Sprintf(k.tmpl, kw)
			var text string
			var got1, got2 int64
			oc, msg := guard(func() error {
				m, err := asm.ParseString("c18di.ll", src)
				if err != nil {
					return err
				}
				n, err := c18DINode(m, 9, k.node)
				if err != nil {
					return err
				}
				if got1, err = c18DIRead(n, k.field, t); err != nil {
					return err
				}
				text = m.String()
				m2, err := asm.ParseString("c18di2.ll", text)
				if err != nil {
					return fmt.Errorf("printed text does not re-parse: %v", err)
				}
				n2, err := c18DINode(m2, 9, k.node)
				if err != nil {
					return fmt.Errorf("after print and parse: %v", err)
				}
				if got2, err = c18DIRead(n2, k.field, t); err != nil {
					return fmt.Errorf("after print and parse: %v", err)
				}
				return nil
			})
			det := map[string]interface{}{"route": "text", "family": k.fam, "node": k.node, "field": k.field, "keyword": kw, "value": v, "src": src, "printed": text, "read": got1, "read_after_print_and_parse": got2, "msg": msg}
			switch {
			case oc != ocOk:
				o.Fail("value_through_module", "", "carrier node with the keyword: "+oc.String(), det)
			case got1 != v:
				o.Fail("value_through_module", "", "the keyword in the node field is not read as its value", det)
			case got2 != v:
				o.Fail("value_through_module", "", "the value of the node field changes through print and parse", det)
			default:
				o.Pass("value_through_module")
			}
			// route 2: constructed node -> print -> parse -> field
			text = ""
			var got3 int64
			oc, msg = guard(func() error {
				node, others := k.mk()
				if err := c18DIWrite(node, k.field, t, v); err != nil {
					return err
				}
				m := ir.NewModule()
				m.MetadataDefs = append(m.MetadataDefs, others...)
				m.MetadataDefs = append(m.MetadataDefs, node)
				text = m.String()
				m2, err := asm.ParseString("c18di3.ll", text)
				if err != nil {
					return fmt.Errorf("printed text does not parse: %v", err)
				}
				n2, err := c18DINode(m2, 9, k.node)
				if err != nil {
					return err
				}
				got3, err = c18DIRead(n2, k.field, t)
				return err
			})
			det = map[string]interface{}{"route": "constructed", "family": k.fam, "node": k.node, "field": k.field, "keyword": kw, "value": v, "printed": text, "read_after_print_and_parse": got3, "msg": msg}
			switch {
			case oc != ocOk:
				o.Fail("value_through_module", "", "constructed carrier node: "+oc.String(), det)
			case got3 != v:
				o.Fail("value_through_module", "", "the value of a constructed node field changes through print and parse", det)
			default:
				o.Pass("value_through_module")
			}
		}
	}
}
