package main

// C14, constants: the observers of a constant (Type, Ident, String) and of whatever holds it are no-ops.  A
// constant is built twice from the same recipe; one copy is observed any number of times before it is
// printed, the other is printed at once; a module is printed twice.  The recipes cover every constant kind,
// floating-point values of every kind that are and are not exactly representable in the narrower formats,
// and the constant expressions of the C06 generator.

import (
	"fmt"
	"math"
	"math/big"

	"github.com/llir/llvm/ir"
	"github.com/llir/llvm/ir/constant"
	"github.com/llir/llvm/ir/enum"
	"github.com/llir/llvm/ir/metadata"
	"github.com/llir/llvm/ir/types"
)

type c14Recipe struct {
	label string
	mk    func() constant.Constant
}

func c14FloatRecipes(r *rng, n int) []c14Recipe {
	var out []c14Recipe
	kinds := []*types.FloatType{types.Half, types.Float, types.Double, types.FP128, types.X86_FP80, types.PPC_FP128}
	vals := []float64{0, 1, -1, 0.1, 1.0 / 3, 16777217, 16777216, 65504, 65520, 1e-8, 1e39, -1e39, math.MaxFloat32, math.SmallestNonzeroFloat32,
		math.SmallestNonzeroFloat32 / 3, math.MaxFloat64, math.SmallestNonzeroFloat64, math.Inf(1), math.Inf(-1), math.NaN(), 2.5, 1e10, 123456789.125}
	for i := 0; i < n; i++ {
		vals = append(vals, math.Float64frombits(r.next()), float64(math.Float32frombits(uint32(r.next()))), float64(int64(r.next()>>uint(r.intn(60)))))
	}
	for _, k := range kinds {
		for _, v := range vals {
			k, v := k, v
			out = append(out, c14Recipe{fmt.Sprintf("%s %v", k, v), func() constant.Constant { return constant.NewFloat(k, v) }})
		}
	}
	for _, s := range []string{"0x7FF8000000000000", "0xFFF0000000000001", "0x36A0000000000000", "0x47EFFFFFF0000000", "0x41700000200000000"[:18]} {
		s := s
		for _, k := range []*types.FloatType{types.Float, types.Double} {
			k := k
			out = append(out, c14Recipe{fmt.Sprintf("%s %s", k, s), func() constant.Constant {
				c, err := constant.NewFloatFromString(k, s)
				if err != nil {
					return constant.NewFloat(k, 0)
				}
				return c
			}})
		}
	}
	return out
}

func c14OtherRecipes(r *rng, n int) []c14Recipe {
	var out []c14Recipe
	add := func(l string, f func() constant.Constant) { out = append(out, c14Recipe{l, f}) }
	for _, w := range []uint64{1, 7, 8, 32, 64, 65, 128, 300} {
		w := w
		x := new(big.Int).Lsh(big.NewInt(int64(r.intn(1000))+1), uint(r.intn(int(w))))
		x.Mod(x, new(big.Int).Lsh(big.NewInt(1), uint(w-1)))
		add(fmt.Sprintf("i%d %s", w, x), func() constant.Constant {
			return &constant.Int{Typ: types.NewInt(w), X: new(big.Int).Set(x)}
		})
		add(fmt.Sprintf("i%d -%s", w, x), func() constant.Constant {
			return &constant.Int{Typ: types.NewInt(w), X: new(big.Int).Neg(x)}
		})
	}
	add("true", func() constant.Constant { return constant.NewBool(true) })
	add("null", func() constant.Constant { return constant.NewNull(types.NewPointer(types.I8)) })
	add("none", func() constant.Constant { return constant.None })
	add("undef", func() constant.Constant { return constant.NewUndef(types.NewStruct(types.I8, types.Float)) })
	add("poison", func() constant.Constant { return constant.NewPoison(types.I32) })
	add("zeroinitializer", func() constant.Constant { return constant.NewZeroInitializer(types.NewArray(3, types.I8)) })
	add("chararray", func() constant.Constant { return constant.NewCharArrayFromString("a\x00\"\\\xff z") })
	add("struct", func() constant.Constant {
		return constant.NewStruct(types.NewStruct(types.Float, types.I8), constant.NewFloat(types.Float, 16777217), constant.NewInt(types.I8, 3))
	})
	add("array", func() constant.Constant {
		return constant.NewArray(types.NewArray(2, types.Float), constant.NewFloat(types.Float, 0.1), constant.NewFloat(types.Float, 1e39))
	})
	add("vector", func() constant.Constant {
		return constant.NewVector(types.NewVector(2, types.Half), constant.NewFloat(types.Half, 65520), constant.NewFloat(types.Half, 0.1))
	})
	add("fcmp", func() constant.Constant {
		return constant.NewFCmp(enum.FPredOLT, constant.NewFloat(types.Float, 16777217), constant.NewFloat(types.Float, 1.0/3))
	})
	add("fpext", func() constant.Constant { return constant.NewFPExt(constant.NewFloat(types.Float, 0.1), types.Double) })
	for i := 0; i < n; i++ {
		seed := r.next()
		ce := c06ConstGen(&rng{s: seed})
		add("cexpr "+ce.op, func() constant.Constant {
			// the recipe draws from its own stream, so both copies are the same expression
			return c06ConstGen(&rng{s: seed}).build()
		})
	}
	return out
}

func c14Consts(c *config, r *rng) {
	o := c.out
	recipes := append(c14FloatRecipes(r, 40*c.scale), c14OtherRecipes(r, 60*c.scale)...)
	for _, rc := range recipes {
		o.Stat("const_recipes")
		var plain, observed, id1, id2, first, second string
		oc, msg := guard(func() error {
			a, b := rc.mk(), rc.mk()
			plain = a.String()
			for k := 0; k < 1+r.intn(3); k++ {
				_ = b.Type()
				id1 = b.Ident()
				_ = b.String()
			}
			id2 = b.Ident()
			observed = b.String()
			// inside a module: operand of an instruction and initialiser of a global, printed twice
			m := ir.NewModule()
			k := rc.mk()
			if _, isTok := k.Type().(*types.TokenType); !isTok {
				m.NewGlobalDef("g", k)
				f := m.NewFunc("f", k.Type())
				f.NewBlock("entry").NewRet(k)
			}
			first = m.String()
			second = m.String()
			return nil
		})
		switch {
		case oc == ocPanic && plain == "":
			// the constant cannot be printed at all; not a matter of this property
			o.Stat("const_unprintable")
		case oc != ocOk:
			o.Fail("observers_noop", "", "observing a constant panics where printing it does not", map[string]interface{}{"constant": rc.label, "msg": msg})
		case plain != observed || id1 != id2:
			o.Fail("observers_noop", "", "a constant prints differently after it has been observed", map[string]interface{}{"constant": rc.label, "fresh": plain, "observed": observed, "ident_first": id1, "ident_later": id2})
		case first != second:
			o.Fail("print_twice", "", "the first and the second print of a module differ", map[string]interface{}{"constant": rc.label, "first": first, "second": second})
		default:
			o.Pass("observers_noop")
		}
	}
}

// C14, metadata definitions: a print between two growth steps of the definition list changes nothing about the
// final text (the IDs a print assigns are the ones the final print would have assigned)
func c14Metadata(c *config, r *rng) {
	o := c.out
	for i := 0; i < 150*c.scale; i++ {
		steps := 2 + r.intn(3)
		sizes := make([]int, steps)
		for k := range sizes {
			sizes[k] = 1 + r.intn(3)
		}
		explicit := r.intn(4) == 0
		build := func(observe bool) (string, outcome, string) {
			var text string
			oc, msg := guard(func() error {
				m := ir.NewModule()
				n := 0
				for _, sz := range sizes {
					for k := 0; k < sz; k++ {
						id := int64(-1)
						if explicit && n == 1 {
							id = 5 // one explicit ID among the unassigned ones
						}
						m.MetadataDefs = append(m.MetadataDefs, &metadata.Tuple{MetadataID: metadata.MetadataID(id), Fields: []metadata.Field{&metadata.String{Value: fmt.Sprintf("n%d", n)}}})
						n++
					}
					if observe {
						_ = m.String()
					}
				}
				text = m.String()
				if t2 := m.String(); t2 != text {
					return fmt.Errorf("two prints in a row differ")
				}
				return nil
			})
			return text, oc, msg
		}
		with, oc1, msg1 := build(true)
		without, oc2, _ := build(false)
		o.Stat("md_growth_histories")
		switch {
		case oc2 != ocOk:
			o.Stat("md_growth_unprintable")
		case oc1 != ocOk:
			o.Fail("observers_noop", "", "printing between two growth steps of the metadata definitions makes a later print fail", map[string]interface{}{"sizes": sizes, "msg": msg1})
		case with != without:
			o.Fail("observers_noop", "", "printing between two growth steps of the metadata definitions changes the final text", map[string]interface{}{"sizes": sizes, "with": with, "without": without})
		default:
			o.Pass("observers_noop")
		}
	}
}
