package main

// C15: operand and successor views are complete and live.

import (
	"fmt"
	"os"
	"path/filepath"
	"reflect"
	"regexp"
	"strings"

	"github.com/llir/llvm/ir"
	"github.com/llir/llvm/ir/constant"
	"github.com/llir/llvm/ir/enum"
	"github.com/llir/llvm/ir/types"
	"github.com/llir/llvm/ir/value"
)

func init() { props["C15"] = runC15 }

// a module in which the instruction kinds the corpus does not reach occur, with their optional
// operands present
const c15Extra = `
declare i32 @g(i32, ...)
declare void @v()
declare i32 @pers(...)
define i32 @all(i32 %a, i32* %p, <4 x i32> %vec, { i32, [2 x i8] } %agg, float %f, i8* %addr, i1 %c) personality i32 (...)* @pers {
entry:
	%fn = fneg float %f
	%ee = extractelement <4 x i32> %vec, i32 %a
	%ie = insertelement <4 x i32> %vec, i32 %a, i32 1
	%sv = shufflevector <4 x i32> %vec, <4 x i32> %ie, <4 x i32> <i32 0, i32 5, i32 2, i32 7>
	%ev = extractvalue { i32, [2 x i8] } %agg, 1, 0
	%iv = insertvalue { i32, [2 x i8] } %agg, i32 %a, 0
	%al = alloca i32, i32 %a, align 4
	%ld = load i32, i32* %p
	store i32 %a, i32* %p
	fence seq_cst
	%cx = cmpxchg i32* %p, i32 %a, i32 %ld seq_cst seq_cst
	%rmw = atomicrmw add i32* %p, i32 %a seq_cst
	%gep = getelementptr i32, i32* %p, i32 %a
	%tr = trunc i32 %a to i8
	%ic = icmp eq i32 %a, %ld
	%fc = fcmp oeq float %f, %fn
	%sel = select i1 %c, i32 %a, i32 %ld
	%fr = freeze i32 %a
	%cl = call i32 (i32, ...) @g(i32 %a, i32 %ld) [ "deopt"(i32 %a, i32* %p), "x"(float %f) ]
	%va = va_arg i8* %addr, i32
	br i1 %c, label %sw, label %ind
sw:
	%ph = phi i32 [ %a, %entry ], [ %ph, %sw ]
	switch i32 %ph, label %inv [ i32 0, label %sw
	                              i32 1, label %ind ]
ind:
	indirectbr i8* %addr, [ label %inv, label %cbr ]
inv:
	%r = invoke i32 (i32, ...) @g(i32 %a, i32 %ld, float %f, i32 %a) [ "deopt"(i32 %ld) ] to label %cbr unwind label %lp
cbr:
	%cb = callbr i32 (i32, ...) @g(i32 %a, i32 %ld, i32 %a) [ "deopt"(i32 %a) ] to label %ret [label %ind]
lp:
	%l = landingpad { i8*, i32 } cleanup catch i8* bitcast (i32 (...)* @pers to i8*)
	resume { i8*, i32 } %l
ret:
	ret i32 %sel
}
define void @eh(i8* %addr) personality i32 (...)* @pers {
entry:
	invoke void @v() to label %done unwind label %cs
cs:
	%s = catchswitch within none [label %cp] unwind to caller
cp:
	%p = catchpad within %s [i8* %addr, i32 7]
	catchret from %p to label %done
cl:
	%q = cleanuppad within none [i8* %addr]
	cleanupret from %q unwind to caller
done:
	unreachable
}
define void @eh2(i8* %addr) personality i32 (...)* @pers {
entry:
	invoke void @v() to label %done unwind label %cs
cs:
	%s = catchswitch within none [label %h1, label %h2, label %h3] unwind label %cl
h1:
	%p1 = catchpad within %s [i8* %addr]
	catchret from %p1 to label %done
h2:
	%p2 = catchpad within %s []
	catchret from %p2 to label %done
h3:
	%p3 = catchpad within %s [i32 3]
	catchret from %p3 to label %done
cl:
	%q = cleanuppad within none []
	cleanupret from %q unwind label %cl2
cl2:
	%q2 = cleanuppad within none [i8* %addr]
	cleanupret from %q2 unwind to caller
done:
	unreachable
}
`

var valueIface = reflect.TypeOf((*value.Value)(nil)).Elem()

// counts the value-typed storage cells of an instruction by reflection, independently of Operands():
// fields of type value.Value / *ir.Block / []value.Value / []*ir.Block, and those inside the
// Incoming, Case, Clause and OperandBundle records
func c15Cells(x interface{}) (n int, bundleInputs int) {
	var walk func(v reflect.Value, depth int, inBundle bool)
	walk = func(v reflect.Value, depth int, inBundle bool) {
		switch v.Kind() {
		case reflect.Ptr:
			if v.IsNil() {
				return
			}
			switch v.Interface().(type) {
			case *ir.Incoming, *ir.Case, *ir.Clause:
				walk(v.Elem(), depth+1, false)
			case *ir.OperandBundle:
				walk(v.Elem(), depth+1, true)
			}
		case reflect.Struct:
			for i := 0; i < v.NumField(); i++ {
				sf := v.Type().Field(i)
				if sf.PkgPath != "" || sf.Name == "Parent" || sf.Name == "Successors" || sf.Name == "Metadata" || sf.Name == "Typ" {
					continue
				}
				f := v.Field(i)
				isVal := sf.Type == valueIface || sf.Type == reflect.TypeOf((*ir.Block)(nil)) || sf.Type.Implements(valueIface) && sf.Type.Kind() == reflect.Interface
				switch {
				case isVal:
					if !f.IsNil() {
						n++
						if inBundle {
							bundleInputs++
						}
					}
				case sf.Type.Kind() == reflect.Slice:
					et := sf.Type.Elem()
					if et == valueIface || et == reflect.TypeOf((*ir.Block)(nil)) || (et.Kind() == reflect.Interface && et.Implements(valueIface)) {
						n += f.Len()
						if inBundle {
							bundleInputs += f.Len()
						}
					} else if et.Kind() == reflect.Ptr {
						for k := 0; k < f.Len(); k++ {
							walk(f.Index(k), depth+1, inBundle)
						}
					}
				}
			}
		}
	}
	rv := reflect.ValueOf(x)
	if rv.Kind() == reflect.Ptr {
		walk(rv.Elem(), 0, false)
	}
	return
}

type c15User interface {
	Operands() []*value.Value
	LLString() string
}

func runC15(c *config) {
	o := c.out
	if c.replay != "" {
		fmt.Println("replay: re-run ./check C15 (inputs are the fixed corpus)")
		return
	}
	var srcs []string
	files, _ := filepath.Glob("/verif/corpus/modules/*.ll")
	more, _ := filepath.Glob("/repo/asm/testdata/*.ll")
	for _, f := range append(files, more...) {
		b, _ := os.ReadFile(f)
		srcs = append(srcs, string(b))
	}
	srcs = append(srcs, c15Extra)
	for i := 0; i < 20*c.scale; i++ {
		s, _, _ := genModule(c.seed, fmt.Sprintf("c15-%d", i), -1, -1)
		srcs = append(srcs, s)
	}
	kinds := map[string]bool{}
	for _, src := range srcs {
		m, oc, _ := parseGuard(src)
		if oc != ocOk {
			continue
		}
		for _, f := range m.Funcs {
			var users []c15User
			for _, b := range f.Blocks {
				for _, in := range b.Insts {
					users = append(users, in.(c15User))
				}
				if b.Term != nil {
					users = append(users, b.Term.(c15User))
				}
			}
			for _, u := range users {
				kind := strings.TrimPrefix(fmt.Sprintf("%T", u), "*ir.")
				kinds[kind] = true
				c15Check(c, f, u, kind)
			}
			c15Succs(c, f)
			c15ReplaceAll(c, f)
		}
		// the successor view is live: on a fresh parse, redirect one branch target through its operand slot
		// after Succs() has been queried once
		if m2, oc, _ := parseGuard(src); oc == ocOk {
			for _, f := range m2.Funcs {
				c15SuccsLive(c, f)
			}
		}
		// edit histories (c15hist.go): after an earlier Operands() call the operand fields are assigned anew, or the
		// struct is copied by value and the copy's fields are assigned; the slots must be those of the struct as it is
		if m4, oc, _ := parseGuard(src); oc == ocOk {
			for _, f := range m4.Funcs {
				for _, b := range f.Blocks {
					for _, in := range b.Insts {
						c15History(c, in.(c15User), strings.TrimPrefix(fmt.Sprintf("%T", in), "*ir."))
					}
					if b.Term != nil {
						c15History(c, b.Term.(c15User), strings.TrimPrefix(fmt.Sprintf("%T", b.Term), "*ir."))
					}
				}
			}
		}
		// correspondence for the cache model: histories of Succs() queries and target writes
		if m3, oc, _ := parseGuard(src); oc == ocOk {
			for fi, f := range m3.Funcs {
				c15SuccsHistory(c, newRng(c.seed, fmt.Sprintf("c15h-%d-%d", len(src), fi)), f)
			}
		}
	}
	// constructed terminators whose target lists grow after the constructor returned (cases appended to a switch,
	// targets to an indirectbr, handlers to a catchswitch, indirect targets to a callbr): the first Succs() call
	// lists what the fields hold then
	for variant := 0; variant < 6; variant++ {
		m := ir.NewModule()
		callee := m.NewFunc("callee", types.Void)
		f := m.NewFunc("f", types.Void, ir.NewParam("x", types.I32))
		var bs []*ir.Block
		for k := 0; k < 6; k++ {
			bs = append(bs, f.NewBlock(fmt.Sprintf("b%d", k)))
		}
		for k := 1; k < 6; k++ {
			bs[k].NewRet(nil)
		}
		switch variant {
		case 0:
			sw := bs[0].NewSwitch(f.Params[0], bs[1], ir.NewCase(constant.NewInt(types.I32, 1), bs[2]))
			sw.Cases = append(sw.Cases, ir.NewCase(constant.NewInt(types.I32, 2), bs[3]), ir.NewCase(constant.NewInt(types.I32, 3), bs[4]))
		case 1:
			ib := bs[0].NewIndirectBr(constant.NewBlockAddress(f, bs[1]), bs[1])
			ib.ValidTargets = append(ib.ValidTargets, bs[2], bs[3])
		case 2:
			cs := bs[0].NewCatchSwitch(constant.None, []*ir.Block{bs[1]}, bs[5])
			cs.Handlers = append(cs.Handlers, bs[2], bs[3])
		case 3:
			cb := bs[0].NewCallBr(callee, nil, bs[1], bs[2])
			cb.OtherRetTargets = append(cb.OtherRetTargets, bs[3], bs[4])
		case 4:
			// the optional unwind target absent ("unwind to caller"): no successor, no slot for it
			pad := bs[0].NewCleanupPad(constant.None)
			t := bs[0].NewCleanupRet(pad, nil)
			for _, op := range c15Ops(c, t) {
				if op == nil || *op == nil || fmt.Sprintf("%v", reflect.ValueOf(*op).IsNil()) == "true" {
					o.Fail("succs_are_targets", "", "cleanupret without unwind target exposes an operand slot that holds nothing", map[string]string{"term": "cleanupret"})
				}
			}
		default:
			bs[0].NewCatchSwitch(constant.None, []*ir.Block{bs[1]}, nil)
		}
		o.Stat("constructed_then_extended")
		if oc, msg := guard(func() error { c15Succs(c, f); return nil }); oc != ocOk {
			o.Fail("succs_are_targets", "", "Succs() of a constructed terminator holds something that is no block (the walk over it panics)", map[string]string{"term": fmt.Sprintf("variant %d", variant), "msg": msg})
		}
		if bs[0].Term != nil {
			c15History(c, bs[0].Term.(c15User), "constructed:"+strings.TrimPrefix(fmt.Sprintf("%T", bs[0].Term), "*ir."))
		}
	}
	// constructed instructions with operand lists (the constructors keep the caller's slices), same histories
	{
		m := ir.NewModule()
		callee := m.NewFunc("callee", types.I32, ir.NewParam("", types.I32), ir.NewParam("", types.I64))
		arr := types.NewArray(4, types.I32)
		f := m.NewFunc("f", types.Void, ir.NewParam("a", types.NewPointer(arr)), ir.NewParam("i", types.I64), ir.NewParam("j", types.I64), ir.NewParam("x", types.I32))
		b0, b1 := f.NewBlock("b0"), f.NewBlock("b1")
		var built []c15User
		built = append(built, b0.NewGetElementPtr(arr, f.Params[0], constant.NewInt(types.I64, 0), f.Params[1]))
		built = append(built, b0.NewGetElementPtr(arr, f.Params[0], []value.Value{f.Params[1], f.Params[2]}...))
		built = append(built, b0.NewCall(callee, f.Params[3], f.Params[1]))
		built = append(built, b1.NewPhi(ir.NewIncoming(f.Params[3], b0), ir.NewIncoming(constant.NewInt(types.I32, 7), b1)))
		lp := b1.NewLandingPad(types.NewStruct(types.I8Ptr, types.I32), ir.NewClause(enum.ClauseTypeCatch, constant.NewNull(types.I8Ptr)))
		lp.Cleanup = true
		built = append(built, lp)
		built = append(built, b1.NewCleanupPad(constant.None, f.Params[1], f.Params[3]))
		built = append(built, b1.NewAdd(f.Params[3], f.Params[3]))
		built = append(built, b0.NewInvoke(callee, []value.Value{f.Params[3], f.Params[2]}, b1, b1))
		for _, u := range built {
			o.Stat("constructed_with_operand_lists")
			c15History(c, u, "constructed:"+strings.TrimPrefix(fmt.Sprintf("%T", u), "*ir."))
		}
	}
	c15LenRun(c) // c15lens.go: list-valued operand fields of differing lengths, constructed and parsed
	o.StatN("kinds_reached", len(kinds))
	var ks []string
	for k := range kinds {
		ks = append(ks, k)
	}
	o.Sample(map[string]interface{}{"kinds_reached": len(kinds), "of": 66, "kinds": strings.Join(ks, " ")})
}

func c15Check(c *config, f *ir.Func, u c15User, kind string) {
	o := c.out
	ops := c15Ops(c, u)
	cells, bundle := c15Cells(u)
	o.Stat("users")
	before := u.LLString()
	o.Nontrivial(kind + ":" + before)
	det := map[string]interface{}{"kind": kind, "inst": before, "operands": len(ops), "value_cells": cells}
	// complete: one slot per value-typed cell
	if len(ops) != cells {
		cls := ""
		if bundle > 0 && cells-len(ops) == bundle {
			cls = "operand_bundle_inputs"
		}
		o.Fail("operands_complete", cls, fmt.Sprintf("%d slots for %d value cells", len(ops), cells), det)
	} else {
		o.Pass("operands_complete")
	}
	// no two slots are the same cell (a slot that aliases another leaves one operand without a slot)
	for i := range ops {
		for j := i + 1; j < len(ops); j++ {
			if ops[i] == ops[j] {
				o.Fail("operands_complete", "", fmt.Sprintf("operand slots %d and %d are one and the same cell", i, j), det)
			}
		}
	}
	// live: a write through each slot changes the printed instruction, and undoing it restores it
	for i, slot := range ops {
		old := *slot
		if old == nil {
			continue
		}
		var sentinel value.Value
		if _, isBlock := old.(*ir.Block); isBlock {
			for _, b := range f.Blocks {
				if b != old {
					sentinel = b
					break
				}
			}
			if sentinel == nil {
				continue
			}
		} else {
			t := old.Type()
			if _, ok := t.(*types.LabelType); ok {
				continue
			}
			if _, ok := t.(*types.TokenType); ok {
				continue
			}
			if _, ok := t.(*types.MetadataType); ok {
				continue
			}
			sentinel = constant.NewUndef(t)
			if _, wasUndef := old.(*constant.Undef); wasUndef {
				sentinel = constant.NewPoison(t)
			}
		}
		*slot = sentinel
		var after string
		oc, _ := guard(func() error { after = u.LLString(); return nil })
		*slot = old
		restored := u.LLString()
		o.Stat("slots")
		d := map[string]interface{}{"kind": kind, "inst": before, "slot": i, "after": after}
		switch {
		case oc != ocOk:
			o.Pass("slot_live_skipped") // the sentinel is not acceptable in this position (e.g. callee must be a function)
		case after == before:
			o.Fail("operands_live", "", "a write through the slot does not change the printed instruction", d)
		case restored != before:
			o.Fail("operands_live", "", "restoring the slot does not restore the instruction", d)
		default:
			o.Pass("operands_live")
		}
	}
}

var c15LabelRe = regexp.MustCompile(`label (%[-a-zA-Z$._0-9]+)`)

func c15Succs(c *config, f *ir.Func) {
	o := c.out
	inFunc := map[*ir.Block]bool{}
	for _, b := range f.Blocks {
		inFunc[b] = true
	}
	for _, b := range f.Blocks {
		if b.Term == nil {
			continue
		}
		succs := c15SuccsOf(c, b.Term)
		// targets in order, by reflection over the terminator's block-typed fields
		var want []*ir.Block
		rv := reflect.ValueOf(b.Term).Elem()
		for i := 0; i < rv.NumField(); i++ {
			sf := rv.Type().Field(i)
			if sf.Name == "Successors" || sf.PkgPath != "" {
				continue
			}
			fv := rv.Field(i)
			switch x := fv.Interface().(type) {
			case *ir.Block:
				if x != nil {
					want = append(want, x)
				}
			case value.Value:
				if blk, ok := x.(*ir.Block); ok && blk != nil {
					want = append(want, blk)
				}
			case []value.Value:
				for _, y := range x {
					if blk, ok := y.(*ir.Block); ok {
						want = append(want, blk)
					}
				}
			case []*ir.Block:
				want = append(want, x...)
			case []*ir.Case:
				for _, cs := range x {
					if blk, ok := cs.Target.(*ir.Block); ok {
						want = append(want, blk)
					}
				}
			}
		}
		o.Stat("terminators")
		bad := ""
		for _, s := range succs {
			if !inFunc[s] {
				bad = "a successor is not a block of the function"
			}
		}
		// same multiset of targets (the order of default vs cases is the terminator's own)
		if len(succs) != len(want) {
			bad = fmt.Sprintf("%d successors, %d branch targets", len(succs), len(want))
		} else {
			cnt := map[*ir.Block]int{}
			for _, s := range succs {
				cnt[s]++
			}
			for _, w := range want {
				cnt[w]--
			}
			for _, v := range cnt {
				if v != 0 {
					bad = "successors are not the branch targets"
				}
			}
		}
		// ... in order: the order of the terminator's own target fields, which is the order of the `label`
		// operands in its printed form
		if bad == "" {
			for i := range succs {
				if succs[i] != want[i] {
					bad = fmt.Sprintf("successor %d is %s, the branch target at that position is %s", i, succs[i].Ident(), want[i].Ident())
					break
				}
			}
		}
		if bad == "" {
			labels := c15LabelRe.FindAllStringSubmatch(b.Term.LLString(), -1)
			if len(labels) == len(succs) {
				for i := range succs {
					if labels[i][1] != succs[i].Ident() {
						bad = fmt.Sprintf("successor %d is %s, the printed terminator names %s at that position", i, succs[i].Ident(), labels[i][1])
						break
					}
				}
				o.Stat("succs.order_checked_against_text")
			}
		}
		if bad != "" {
			o.Fail("succs_are_targets", "", bad, map[string]string{"term": b.Term.LLString()})
		} else {
			o.Pass("succs_are_targets")
		}
	}
}

// substitute one parameter for another through the slots of every user: no use may be left
func c15ReplaceAll(c *config, f *ir.Func) {
	o := c.out
	if len(f.Params) < 1 || len(f.Blocks) == 0 {
		return
	}
	old := f.Params[0]
	if old.Name() == "" {
		return
	}
	repl := ir.NewParam("verif.replacement", old.Type())
	var undo []func()
	wrapped := 0
	for _, b := range f.Blocks {
		var users []c15User
		for _, in := range b.Insts {
			users = append(users, in.(c15User))
		}
		if b.Term != nil {
			users = append(users, b.Term.(c15User))
		}
		for _, u := range users {
			for _, slot := range c15Ops(c, u) {
				if *slot == value.Value(old) {
					s := slot
					*s = repl
					undo = append(undo, func() { *s = old })
				} else if a, ok := (*slot).(*ir.Arg); ok && a.Value == value.Value(old) {
					wrapped++
				}
			}
		}
	}
	var body strings.Builder
	for _, b := range f.Blocks {
		body.WriteString(b.LLString())
		body.WriteString("\n")
	}
	for _, u := range undo {
		u()
	}
	o.Stat("replace_all_uses")
	ident := old.Ident()
	left := false
	for _, line := range strings.Split(body.String(), "\n") {
		for _, tok := range strings.FieldsFunc(line, func(r rune) bool { return strings.ContainsRune(" ,()[]{}<>", r) }) {
			if tok == ident {
				left = true
			}
		}
	}
	if left {
		cls := ""
		if strings.Contains(body.String(), "[ \"") {
			cls = "operand_bundle_inputs"
		} else if wrapped > 0 {
			cls = "arg_attr_wrapper"
		}
		o.Fail("replace_all_uses", cls, "a use of the replaced value is left behind", map[string]string{"func": f.Ident(), "value": ident, "body": body.String()})
	} else {
		o.Pass("replace_all_uses")
	}
}

// c15SuccsLive: Succs(), then a new target written through the operand slot that holds a successor, then
// Succs() again: the list must be the branch targets as they are now.
func c15SuccsLive(c *config, f *ir.Func) {
	o := c.out
	if len(f.Blocks) < 2 {
		return
	}
	for _, b := range f.Blocks {
		if b.Term == nil {
			continue
		}
		before := append([]*ir.Block{}, c15SuccsOf(c, b.Term)...)
		if len(before) == 0 {
			continue
		}
		// the first slot holding the first successor
		var slot *value.Value
		for _, op := range c15Ops(c, b.Term) {
			if blk, ok := (*op).(*ir.Block); ok && blk == before[0] {
				slot = op
				break
			}
		}
		if slot == nil {
			continue
		}
		var nb *ir.Block
		for _, cand := range f.Blocks {
			if cand != before[0] {
				nb = cand
				break
			}
		}
		*slot = nb
		after := c15SuccsOf(c, b.Term)
		o.Stat("succs_live.terminators")
		text := b.Term.LLString()
		if len(after) == 0 || after[0] != nb {
			o.Fail("succs_live", "succs_stale_after_write", "Succs() still lists the old target after a new one was written through the operand slot", map[string]string{"term": text, "old": before[0].Ident(), "new": nb.Ident(), "kind": fmt.Sprintf("%T", b.Term)})
		} else {
			o.Pass("succs_live")
		}
		*slot = before[0]
	}
}

// c15SuccsHistory: random histories of Succs() queries and writes through the block-valued operand slots
// (the i-th such slot is target i), against Model/Users.v trun
func c15SuccsHistory(c *config, r *rng, f *ir.Func) {
	o := c.out
	idx := map[*ir.Block]int{}
	for i, b := range f.Blocks {
		idx[b] = i
	}
	for _, b := range f.Blocks {
		if b.Term == nil {
			continue
		}
		var slots []*value.Value
		for _, op := range c15Ops(c, b.Term) {
			if _, ok := (*op).(*ir.Block); ok {
				slots = append(slots, op)
			}
		}
		if len(slots) == 0 {
			continue
		}
		var targets []string
		for _, sl := range slots {
			targets = append(targets, fmt.Sprint(idx[(*sl).(*ir.Block)]))
		}
		var ops, outs []string
		n := 1 + r.intn(6)
		for k := 0; k < n; k++ {
			if r.chance(55) {
				ops = append(ops, "S")
				var ss []string
				for _, sb := range c15SuccsOf(c, b.Term) {
					ss = append(ss, fmt.Sprint(idx[sb]))
				}
				outs = append(outs, strings.Join(ss, ","))
			} else {
				i, j := r.intn(len(slots)), r.intn(len(f.Blocks))
				*slots[i] = f.Blocks[j]
				ops = append(ops, fmt.Sprintf("W:%d:%d", i, j))
			}
		}
		o.Case("succs_hist", []string{strings.Join(targets, ","), strings.Join(ops, ",")}, []string{strings.Join(outs, ";")})
		o.Stat("succs_histories")
	}
}
