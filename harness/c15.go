package main

// C15: operand and successor views are complete and live.

import (
	"fmt"
	"os"
	"path/filepath"
	"reflect"
	"strings"

	"github.com/llir/llvm/ir"
	"github.com/llir/llvm/ir/constant"
	"github.com/llir/llvm/ir/types"
	"github.com/llir/llvm/ir/value"
)

func init() { props["C15"] = runC15 }

// a module in which the instruction kinds the corpus does not reach occur, with their optional
// operands present
const c15Extra = `
declare i32 @g(i32, ...)
declare void @v()
declare i32 @pers(...)
define i32 @all(i32 %a, i32* %p, <4 x i32> %vec, { i32, [2 x i8] } %agg, float %f, i8* %addr, i1 %c) personality i32 (...)* @pers {
entry:
	%fn = fneg float %f
	%ee = extractelement <4 x i32> %vec, i32 %a
	%ie = insertelement <4 x i32> %vec, i32 %a, i32 1
	%sv = shufflevector <4 x i32> %vec, <4 x i32> %ie, <4 x i32> <i32 0, i32 5, i32 2, i32 7>
	%ev = extractvalue { i32, [2 x i8] } %agg, 1, 0
	%iv = insertvalue { i32, [2 x i8] } %agg, i32 %a, 0
	%al = alloca i32, i32 %a, align 4
	%ld = load i32, i32* %p
	store i32 %a, i32* %p
	fence seq_cst
	%cx = cmpxchg i32* %p, i32 %a, i32 %ld seq_cst seq_cst
	%rmw = atomicrmw add i32* %p, i32 %a seq_cst
	%gep = getelementptr i32, i32* %p, i32 %a
	%tr = trunc i32 %a to i8
	%ic = icmp eq i32 %a, %ld
	%fc = fcmp oeq float %f, %fn
	%sel = select i1 %c, i32 %a, i32 %ld
	%fr = freeze i32 %a
	%cl = call i32 (i32, ...) @g(i32 %a, i32 %ld) [ "deopt"(i32 %a, i32* %p), "x"(float %f) ]
	%va = va_arg i8* %addr, i32
	br i1 %c, label %sw, label %ind
sw:
	%ph = phi i32 [ %a, %entry ], [ %ph, %sw ]
	switch i32 %ph, label %inv [ i32 0, label %sw
	                              i32 1, label %ind ]
ind:
	indirectbr i8* %addr, [ label %inv, label %cbr ]
inv:
	%r = invoke i32 (i32, ...) @g(i32 %a, i32 %ld, float %f, i32 %a) [ "deopt"(i32 %ld) ] to label %cbr unwind label %lp
cbr:
	%cb = callbr i32 (i32, ...) @g(i32 %a, i32 %ld, i32 %a) [ "deopt"(i32 %a) ] to label %ret [label %ind]
lp:
	%l = landingpad { i8*, i32 } cleanup catch i8* bitcast (i32 (...)* @pers to i8*)
	resume { i8*, i32 } %l
ret:
	ret i32 %sel
}
define void @eh(i8* %addr) personality i32 (...)* @pers {
entry:
	invoke void @v() to label %done unwind label %cs
cs:
	%s = catchswitch within none [label %cp] unwind to caller
cp:
	%p = catchpad within %s [i8* %addr, i32 7]
	catchret from %p to label %done
cl:
	%q = cleanuppad within none [i8* %addr]
	cleanupret from %q unwind to caller
done:
	unreachable
}
`

var valueIface = reflect.TypeOf((*value.Value)(nil)).Elem()

// counts the value-typed storage cells of an instruction by reflection, independently of Operands():
// fields of type value.Value / *ir.Block / []value.Value / []*ir.Block, and those inside the
// Incoming, Case, Clause and OperandBundle records
func c15Cells(x interface{}) (n int, bundleInputs int) {
	var walk func(v reflect.Value, depth int, inBundle bool)
	walk = func(v reflect.Value, depth int, inBundle bool) {
		switch v.Kind() {
		case reflect.Ptr:
			if v.IsNil() {
				return
			}
			switch v.Interface().(type) {
			case *ir.Incoming, *ir.Case, *ir.Clause:
				walk(v.Elem(), depth+1, false)
			case *ir.OperandBundle:
				walk(v.Elem(), depth+1, true)
			}
		case reflect.Struct:
			for i := 0; i < v.NumField(); i++ {
				sf := v.Type().Field(i)
				if sf.PkgPath != "" || sf.Name == "Parent" || sf.Name == "Successors" || sf.Name == "Metadata" || sf.Name == "Typ" {
					continue
				}
				f := v.Field(i)
				isVal := sf.Type == valueIface || sf.Type == reflect.TypeOf((*ir.Block)(nil)) || sf.Type.Implements(valueIface) && sf.Type.Kind() == reflect.Interface
				switch {
				case isVal:
					if !f.IsNil() {
						n++
						if inBundle {
							bundleInputs++
						}
					}
				case sf.Type.Kind() == reflect.Slice:
					et := sf.Type.Elem()
					if et == valueIface || et == reflect.TypeOf((*ir.Block)(nil)) || (et.Kind() == reflect.Interface && et.Implements(valueIface)) {
						n += f.Len()
						if inBundle {
							bundleInputs += f.Len()
						}
					} else if et.Kind() == reflect.Ptr {
						for k := 0; k < f.Len(); k++ {
							walk(f.Index(k), depth+1, inBundle)
						}
					}
				}
			}
		}
	}
	rv := reflect.ValueOf(x)
	if rv.Kind() == reflect.Ptr {
		walk(rv.Elem(), 0, false)
	}
	return
}

type c15User interface {
	Operands() []*value.Value
	LLString() string
}

func runC15(c *config) {
	o := c.out
	if c.replay != "" {
		fmt.Println("replay: re-run ./check C15 (inputs are the fixed corpus)")
		return
	}
	var srcs []string
	files, _ := filepath.Glob("/verif/corpus/modules/*.ll")
	more, _ := filepath.Glob("/repo/asm/testdata/*.ll")
	for _, f := range append(files, more...) {
		b, _ := os.ReadFile(f)
		srcs = append(srcs, string(b))
	}
	srcs = append(srcs, c15Extra)
	for i := 0; i < 20*c.scale; i++ {
		s, _, _ := genModule(c.seed, fmt.Sprintf("c15-%d", i), -1, -1)
		srcs = append(srcs, s)
	}
	kinds := map[string]bool{}
	for _, src := range srcs {
		m, oc, _ := parseGuard(src)
		if oc != ocOk {
			continue
		}
		for _, f := range m.Funcs {
			var users []c15User
			for _, b := range f.Blocks {
				for _, in := range b.Insts {
					users = append(users, in.(c15User))
				}
				if b.Term != nil {
					users = append(users, b.Term.(c15User))
				}
			}
			for _, u := range users {
				kind := strings.TrimPrefix(fmt.Sprintf("%T", u), "*ir.")
				kinds[kind] = true
				c15Check(c, f, u, kind)
			}
			c15Succs(c, f)
			c15ReplaceAll(c, f)
		}
	}
	o.StatN("kinds_reached", len(kinds))
	var ks []string
	for k := range kinds {
		ks = append(ks, k)
	}
	o.Sample(map[string]interface{}{"kinds_reached": len(kinds), "of": 66, "kinds": strings.Join(ks, " ")})
}

func c15Check(c *config, f *ir.Func, u c15User, kind string) {
	o := c.out
	ops := u.Operands()
	cells, bundle := c15Cells(u)
	o.Stat("users")
	before := u.LLString()
	o.Nontrivial(kind + ":" + before)
	det := map[string]interface{}{"kind": kind, "inst": before, "operands": len(ops), "value_cells": cells}
	// complete: one slot per value-typed cell
	if len(ops) != cells {
		cls := ""
		if bundle > 0 && cells-len(ops) == bundle {
			cls = "operand_bundle_inputs"
		}
		o.Fail("operands_complete", cls, fmt.Sprintf("%d slots for %d value cells", len(ops), cells), det)
	} else {
		o.Pass("operands_complete")
	}
	// live: a write through each slot changes the printed instruction, and undoing it restores it
	for i, slot := range ops {
		old := *slot
		if old == nil {
			continue
		}
		var sentinel value.Value
		if _, isBlock := old.(*ir.Block); isBlock {
			for _, b := range f.Blocks {
				if b != old {
					sentinel = b
					break
				}
			}
			if sentinel == nil {
				continue
			}
		} else {
			t := old.Type()
			if _, ok := t.(*types.LabelType); ok {
				continue
			}
			if _, ok := t.(*types.TokenType); ok {
				continue
			}
			if _, ok := t.(*types.MetadataType); ok {
				continue
			}
			sentinel = constant.NewUndef(t)
			if _, wasUndef := old.(*constant.Undef); wasUndef {
				sentinel = constant.NewPoison(t)
			}
		}
		*slot = sentinel
		var after string
		oc, _ := guard(func() error { after = u.LLString(); return nil })
		*slot = old
		restored := u.LLString()
		o.Stat("slots")
		d := map[string]interface{}{"kind": kind, "inst": before, "slot": i, "after": after}
		switch {
		case oc != ocOk:
			o.Pass("slot_live_skipped") // the sentinel is not acceptable in this position (e.g. callee must be a function)
		case after == before:
			o.Fail("operands_live", "", "a write through the slot does not change the printed instruction", d)
		case restored != before:
			o.Fail("operands_live", "", "restoring the slot does not restore the instruction", d)
		default:
			o.Pass("operands_live")
		}
	}
}

func c15Succs(c *config, f *ir.Func) {
	o := c.out
	inFunc := map[*ir.Block]bool{}
	for _, b := range f.Blocks {
		inFunc[b] = true
	}
	for _, b := range f.Blocks {
		if b.Term == nil {
			continue
		}
		succs := b.Term.Succs()
		// targets in order, by reflection over the terminator's block-typed fields
		var want []*ir.Block
		rv := reflect.ValueOf(b.Term).Elem()
		for i := 0; i < rv.NumField(); i++ {
			sf := rv.Type().Field(i)
			if sf.Name == "Successors" || sf.PkgPath != "" {
				continue
			}
			fv := rv.Field(i)
			switch x := fv.Interface().(type) {
			case *ir.Block:
				if x != nil {
					want = append(want, x)
				}
			case value.Value:
				if blk, ok := x.(*ir.Block); ok && blk != nil {
					want = append(want, blk)
				}
			case []value.Value:
				for _, y := range x {
					if blk, ok := y.(*ir.Block); ok {
						want = append(want, blk)
					}
				}
			case []*ir.Block:
				want = append(want, x...)
			case []*ir.Case:
				for _, cs := range x {
					if blk, ok := cs.Target.(*ir.Block); ok {
						want = append(want, blk)
					}
				}
			}
		}
		o.Stat("terminators")
		bad := ""
		for _, s := range succs {
			if !inFunc[s] {
				bad = "a successor is not a block of the function"
			}
		}
		// same multiset of targets (the order of default vs cases is the terminator's own)
		if len(succs) != len(want) {
			bad = fmt.Sprintf("%d successors, %d branch targets", len(succs), len(want))
		} else {
			cnt := map[*ir.Block]int{}
			for _, s := range succs {
				cnt[s]++
			}
			for _, w := range want {
				cnt[w]--
			}
			for _, v := range cnt {
				if v != 0 {
					bad = "successors are not the branch targets"
				}
			}
		}
		if bad != "" {
			o.Fail("succs_are_targets", "", bad, map[string]string{"term": b.Term.LLString()})
		} else {
			o.Pass("succs_are_targets")
		}
	}
}

// substitute one parameter for another through the slots of every user: no use may be left
func c15ReplaceAll(c *config, f *ir.Func) {
	o := c.out
	if len(f.Params) < 1 || len(f.Blocks) == 0 {
		return
	}
	old := f.Params[0]
	if old.Name() == "" {
		return
	}
	repl := ir.NewParam("verif.replacement", old.Type())
	var undo []func()
	wrapped := 0
	for _, b := range f.Blocks {
		var users []c15User
		for _, in := range b.Insts {
			users = append(users, in.(c15User))
		}
		if b.Term != nil {
			users = append(users, b.Term.(c15User))
		}
		for _, u := range users {
			for _, slot := range u.Operands() {
				if *slot == value.Value(old) {
					s := slot
					*s = repl
					undo = append(undo, func() { *s = old })
				} else if a, ok := (*slot).(*ir.Arg); ok && a.Value == value.Value(old) {
					wrapped++
				}
			}
		}
	}
	var body strings.Builder
	for _, b := range f.Blocks {
		body.WriteString(b.LLString())
		body.WriteString("\n")
	}
	for _, u := range undo {
		u()
	}
	o.Stat("replace_all_uses")
	ident := old.Ident()
	left := false
	for _, line := range strings.Split(body.String(), "\n") {
		for _, tok := range strings.FieldsFunc(line, func(r rune) bool { return strings.ContainsRune(" ,()[]{}<>", r) }) {
			if tok == ident {
				left = true
			}
		}
	}
	if left {
		cls := ""
		if strings.Contains(body.String(), "[ \"") {
			cls = "operand_bundle_inputs"
		} else if wrapped > 0 {
			cls = "arg_attr_wrapper"
		}
		o.Fail("replace_all_uses", cls, "a use of the replaced value is left behind", map[string]string{"func": f.Ident(), "value": ident, "body": body.String()})
	} else {
		o.Pass("replace_all_uses")
	}
}
