package main

// C15: every Operands() / Succs() call of the harness on a generated instruction runs under guard; a panic is a
// failure of operands_complete (resp. succs_are_targets) with the instruction's text as the failing input.

import (
	"fmt"
	"strings"

	"github.com/llir/llvm/ir"
	"github.com/llir/llvm/ir/value"
)

var c15PanicReported = map[string]bool{}

func c15Text(u interface{}) string {
	s := ""
	if ll, ok := u.(interface{ LLString() string }); ok {
		if oc, _ := guard(func() error { s = ll.LLString(); return nil }); oc != ocOk {
			s = fmt.Sprintf("%T (LLString panics too)", u)
		}
	}
	return s
}

func c15Ops(c *config, u interface{ Operands() []*value.Value }) []*value.Value {
	var ops []*value.Value
	oc, msg := guard(func() error { ops = u.Operands(); return nil })
	if oc == ocOk {
		return ops
	}
	kind := strings.TrimPrefix(fmt.Sprintf("%T", u), "*ir.")
	text := c15Text(u)
	if key := "O:" + kind + ":" + text; !c15PanicReported[key] {
		c15PanicReported[key] = true
		cells, _ := c15Cells(u)
		c.out.Fail("operands_complete", "", "Operands() panics: "+msg, map[string]interface{}{"kind": kind, "inst": text, "value_cells": cells})
	}
	return nil
}

func c15SuccsOf(c *config, t ir.Terminator) []*ir.Block {
	var ss []*ir.Block
	oc, msg := guard(func() error { ss = t.Succs(); return nil })
	if oc == ocOk {
		return ss
	}
	kind := strings.TrimPrefix(fmt.Sprintf("%T", t), "*ir.")
	text := c15Text(t)
	if key := "S:" + kind + ":" + text; !c15PanicReported[key] {
		c15PanicReported[key] = true
		c.out.Fail("succs_are_targets", "", "Succs() panics: "+msg, map[string]interface{}{"kind": kind, "term": text})
	}
	return nil
}
