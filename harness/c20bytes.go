package main

// C20 (and, through ordModule*, C02): names over the whole byte range and an independent reference of the
// natural order.
//
//   - c20RefCmp is a second, independent computation of the order the property states: a name is cut into
//     single non-digit bytes and maximal digit runs; non-digit bytes compare as bytes, two digit runs compare by
//     their value as integers of any size (math/big), equal values by the number of leading zeros (fewer first);
//     a name that ends first is less.
//   - c20Bytes: families of names that differ in exactly one byte position, the byte running over 0x00..0xFF
//     (ASCII, UTF-8 continuation bytes 0x80-0xBF, the never-valid leads 0xC0 0xC1 0xF5-0xFF, leads without their
//     continuation), in several contexts (alone, after a prefix, inside a truncated multi-byte sequence, next to
//     digits): oracle total (exactly one of a<b, b<a, a==b), bytewise_outside_digits (without digits the order is
//     the plain byte order, which the generator knows from the two bytes it wrote), reference_order (Less agrees
//     with c20RefCmp), and the order axioms of c20Axioms on every family.
//   - ordModuleCheck: a module whose type definitions, comdats and named metadata carry such names is printed,
//     on each of several fresh parses, with the three sections in the order the generator computed with
//     c20RefCmp, and the prints are byte-identical.

import (
	"fmt"
	"math/big"
	"sort"
	"strings"
)

// ---- independent reference

type c20Chunk struct {
	digit bool
	b     byte     // a non-digit byte
	zeros int      // leading zeros of a digit run
	val   *big.Int // value of a digit run
	first byte     // first byte of the chunk as written
}

func c20Chunks(s string) []c20Chunk {
	var out []c20Chunk
	for i := 0; i < len(s); {
		if s[i] < '0' || s[i] > '9' {
			out = append(out, c20Chunk{b: s[i], first: s[i]})
			i++
			continue
		}
		j := i
		for j < len(s) && s[j] >= '0' && s[j] <= '9' {
			j++
		}
		z := 0
		for i+z < j && s[i+z] == '0' {
			z++
		}
		v := new(big.Int)
		if i+z < j {
			v.SetString(s[i+z:j], 10)
		}
		out = append(out, c20Chunk{digit: true, zeros: z, val: v, first: s[i]})
		i = j
	}
	return out
}

// c20RefCmp returns -1, 0, +1: the natural order of the statement, computed on chunks with big integers
func c20RefCmp(a, b string) int {
	ca, cb := c20Chunks(a), c20Chunks(b)
	for i := 0; i < len(ca) && i < len(cb); i++ {
		x, y := ca[i], cb[i]
		if x.digit && y.digit {
			if c := x.val.Cmp(y.val); c != 0 {
				return c
			}
			if x.zeros != y.zeros {
				if x.zeros < y.zeros {
					return -1
				}
				return 1
			}
			continue
		}
		if x.first != y.first {
			if x.first < y.first {
				return -1
			}
			return 1
		}
	}
	switch {
	case len(ca) < len(cb):
		return -1
	case len(ca) > len(cb):
		return 1
	}
	return 0
}

func c20RefSort(names []string) []string {
	out := append([]string(nil), names...)
	sort.SliceStable(out, func(i, j int) bool { return c20RefCmp(out[i], out[j]) < 0 })
	return out
}

func c20HasDigit(s string) bool { return strings.ContainsAny(s, "0123456789") }

// c20Pair runs the pair oracles on (a, b); genCmp is the generator's own knowledge of the byte order of the two
// names (-1, +1), or 0 when it makes no claim of its own
var c20PairFails = map[string]int{}

func c20Pair(c *config, a, b string, genCmp int) {
	o := &c20CappedOut{out: c.out}
	ab, ba := less(a, b), less(b, a)
	det := map[string]string{"a": hx(a), "b": hx(b)}
	n := 0
	if ab {
		n++
	}
	if ba {
		n++
	}
	if a == b {
		n++
	}
	if n != 1 {
		o.Fail("total", "", fmt.Sprintf("not exactly one of less(a,b)=%v, less(b,a)=%v, a==b=%v", ab, ba, a == b), det)
	} else {
		o.Pass("total")
	}
	if genCmp != 0 && !c20HasDigit(a) && !c20HasDigit(b) {
		if ab != (genCmp < 0) || ba != (genCmp > 0) {
			o.Fail("bytewise_outside_digits", "", fmt.Sprintf("names without digits are ordered by their bytes: less(a,b)=%v, less(b,a)=%v, byte order says a<b=%v", ab, ba, genCmp < 0), det)
		} else {
			o.Pass("bytewise_outside_digits")
		}
	}
	ref := c20RefCmp(a, b)
	if ab != (ref < 0) || ba != (ref > 0) {
		o.Fail("reference_order", "", fmt.Sprintf("less(a,b)=%v, less(b,a)=%v, the natural order computed independently (digit runs as big integers) says %d", ab, ba, ref), det)
	} else {
		o.Pass("reference_order")
	}
}

// at most 40 failures of one oracle are written out (a broken comparison fails on thousands of pairs)
type c20CappedOut struct{ *out }

func (o *c20CappedOut) Fail(oracle, class, failkind string, detail interface{}) {
	c20PairFails[oracle]++
	if c20PairFails[oracle] <= 40 {
		o.out.Fail(oracle, class, failkind, detail)
	} else {
		o.out.Stat("failures_not_written." + oracle)
	}
}

// all 256 bytes, or (quick tier, the later contexts) the boundaries and a few inner members of every class of UTF-8
// well- and ill-formedness
func c20ByteSet(c *config, full bool) []byte {
	var bs []byte
	if c.tier == "thorough" || c.search || full {
		for i := 0; i < 256; i++ {
			bs = append(bs, byte(i))
		}
		return bs
	}
	for _, rg := range [][2]int{{0x00, 0x02}, {0x1f, 0x21}, {0x2e, 0x3b}, {0x40, 0x42}, {0x5a, 0x62}, {0x7a, 0x83}, {0x8f, 0x91}, {0x9f, 0xa1}, {0xbd, 0xc4},
		{0xdf, 0xe2}, {0xec, 0xf6}, {0xfb, 0xff}} {
		for i := rg[0]; i <= rg[1]; i++ {
			bs = append(bs, byte(i))
		}
	}
	return bs
}

func c20Bytes(c *config, r *rng) {
	o := c.out
	// 1. one byte position, the byte over the whole range, in contexts: alone, after ASCII, before ASCII, after a
	//    lead byte that wants a continuation, inside a three- and a four-byte sequence, next to digits
	//    (the first six with all 256 bytes in the quick tier too)
	contexts := [][2]string{{"", ""}, {"t", ""}, {"s.", ".x"}, {"a\xc3", ""}, {"k", "7"}, {"\xe2\x82", ""}, {"", "x"}, {"a\xc3", "z"}, {"\xe2", "\xac"}, {"\xf0\x9f", "\x80"},
		{"\xff", "\xfe"}, {"\xef\xbf", ""}, {"7", "k"}, {"n10", "2"}, {"é", "é"}}
	for ci, cx := range contexts {
		bs := c20ByteSet(c, ci < 6)
		var fam []string
		for _, x := range bs {
			fam = append(fam, cx[0]+string([]byte{x})+cx[1])
		}
		for i, a := range fam {
			for j, b := range fam {
				gen := 0
				switch {
				case bs[i] < bs[j]:
					gen = -1
				case bs[i] > bs[j]:
					gen = 1
				}
				if i == j {
					gen = 0
				}
				c20Pair(c, a, b, gen)
			}
		}
		o.StatN("byte_families.pairs", len(fam)*len(fam))
		// the axioms (irreflexive, asymmetric, total, transitive on sampled triples) on a slice of the family
		sub := fam
		if len(sub) > 48 {
			sub = nil
			for _, k := range r.perm(len(fam))[:48] {
				sub = append(sub, fam[k])
			}
		}
		c20Axioms(c, sub, fmt.Sprintf("bytes-%d", ci))
	}
	// 2. byte soup: names built from members of every class (valid sequences included, the replacement character
	//    U+FFFD among them), pairs that differ in one position, in one byte inserted, or by a truncation
	pieces := []string{"a", "Z", ".", "-", "_", "$", " ", "\x01", "\x7f", "\x80", "\x81", "\xbf", "\xc0", "\xc1", "\xc2", "\xc3", "\xdf", "\xe0", "\xed", "\xef", "\xf0", "\xf4",
		"\xf5", "\xfe", "\xff", "\xc3\xa9", "\xd0\x96", "\xe2\x82\xac", "\xef\xbf\xbd", "\xef\xbf\xbe", "\xf0\x9f\x98\x80", "\xed\xa0\x80", "\xc0\x80", "\xe0\x80\x80", "0", "1", "9", "00", "10", "007"}
	soup := func(n int) string {
		var b strings.Builder
		for k := 0; k < n; k++ {
			b.WriteString(pieces[r.intn(len(pieces))])
		}
		return b.String()
	}
	for i := 0; i < 4000*c.scale; i++ {
		p, s := soup(r.intn(4)), soup(r.intn(3))
		x, y := pieces[r.intn(len(pieces))], pieces[r.intn(len(pieces))]
		var a, b string
		switch r.intn(4) {
		case 0: // one piece differs
			a, b = p+x+s, p+y+s
		case 1: // one piece inserted
			a, b = p+s, p+x+s
		case 2: // a truncation (cuts multi-byte sequences)
			a = p + x + s
			b = a[:r.intn(len(a)+1)]
		default: // an ill-formed byte against the replacement character it decodes to
			a, b = p+"\xef\xbf\xbd"+s, p+string([]byte{byte(0x80 + r.intn(0x80))})+s
		}
		gen := 0
		if !c20HasDigit(a) && !c20HasDigit(b) {
			gen = strings.Compare(a, b) // bytewise comparison of the Go runtime
		}
		c20Pair(c, a, b, gen)
		o.Stat("byte_soup.pairs")
		o.Nontrivial("less:" + a + "|" + b)
		// also to the correspondence with the model
		o.Case("less", []string{hx(a), hx(b)}, []string{b2s(less(a, b))})
	}
	// 2b. adversarial order families (long digit runs above 2^64 and 2^128, leading zeros, several runs, shared
	//     prefixes, bytes >= 0x80): all pairs, and the axioms
	for i := 0; i < 14*c.scale; i++ {
		fam := ordFamily(r, i)
		for _, a := range fam {
			for _, b := range fam {
				c20Pair(c, a, b, 0)
				o.Case("less", []string{hx(a), hx(b)}, []string{b2s(less(a, b))})
			}
		}
		o.Stat("order_families")
		c20Axioms(c, fam, fmt.Sprintf("family-%d", i))
		if i < 28 {
			ordModuleCheck(c, "canonical_order", fam, ordModuleText(r, fam), 8, false)
		}
	}
	// 3. the module-level consequence: such names as type definitions, comdats and named metadata
	nmod := 12 * c.scale
	if nmod > 120 {
		nmod = 120
	}
	for i := 0; i < nmod; i++ {
		var names []string
		seen := map[string]bool{}
		want := 4 + r.intn(3)
		pre := []string{"t", "s.", "a\xc3", "k", ""}[r.intn(5)]
		suf := []string{"", ".x", "7", "z"}[r.intn(4)]
		for len(names) < want {
			var n string
			if r.chance(70) {
				n = pre + string([]byte{byte(0x80 + r.intn(0x80))}) + suf
			} else {
				n = pre + pieces[r.intn(len(pieces))] + suf
			}
			if seen[n] || !ordNameOK(n) {
				continue
			}
			seen[n] = true
			names = append(names, n)
		}
		ordModuleCheck(c, "canonical_order", names, ordModuleText(r, names), 8, i < 1)
	}
}

// ---- modules whose type definitions, comdats and named metadata carry given names

// ordNameOK: a name the module generators may use: not empty, no NUL (LLVM rejects it in a name), and not one of
// the listed defects about names that look like numbers (KF-01..KF-04, KF-26: a name of identifier characters
// that starts with a digit or a sign is printed bare and re-read as an ID)
func ordNameOK(n string) bool {
	if n == "" || strings.IndexByte(n, 0) >= 0 {
		return false
	}
	if bareName(n) && (n[0] >= '0' && n[0] <= '9' || n[0] == '-' || n[0] == '+') {
		return false
	}
	return !parsesInt64(n) && !allDigits(n)
}

// ordEscape spells a name for the assembly text: bytes other than letters, digits and . _ - $ as \XX
func ordEscape(name string) string {
	var b strings.Builder
	for i := 0; i < len(name); i++ {
		ch := name[i]
		if ch >= 'a' && ch <= 'z' || ch >= 'A' && ch <= 'Z' || ch >= '0' && ch <= '9' || ch == '.' || ch == '_' || ch == '-' || ch == '$' {
			b.WriteByte(ch)
		} else {
			fmt.Fprintf(&b, "\\%02X", ch)
		}
	}
	return b.String()
}

func ordUnescape(s string) string {
	var b []byte
	hexv := func(ch byte) int {
		switch {
		case ch >= '0' && ch <= '9':
			return int(ch - '0')
		case ch >= 'a' && ch <= 'f':
			return int(ch-'a') + 10
		case ch >= 'A' && ch <= 'F':
			return int(ch-'A') + 10
		}
		return -1
	}
	for i := 0; i < len(s); i++ {
		if s[i] == '\\' && i+2 < len(s) && hexv(s[i+1]) >= 0 && hexv(s[i+2]) >= 0 {
			b = append(b, byte(hexv(s[i+1])<<4|hexv(s[i+2])))
			i += 2
			continue
		}
		b = append(b, s[i])
	}
	return string(b)
}

// a metadata name may not start with a digit and is written without quotes; a type or comdat name is quoted
func ordMDName(name string) string {
	e := ordEscape(name)
	if len(name) > 0 && name[0] >= '0' && name[0] <= '9' {
		e = fmt.Sprintf("\\%02X", name[0]) + e[1:]
	}
	return "!" + e
}

// ordModuleText writes the definitions in the textual order perm gives (three independent shuffles)
func ordModuleText(r *rng, names []string) string {
	var b strings.Builder
	var lines []string
	for i, n := range names {
		lines = append(lines, fmt.Sprintf("%%\"%s\" = type { i%d }", ordEscape(n), i+1))
	}
	for _, n := range names {
		lines = append(lines, fmt.Sprintf("$\"%s\" = comdat any", ordEscape(n)))
	}
	for i, n := range names {
		lines = append(lines, fmt.Sprintf("@g%d = global %%\"%s\" zeroinitializer, comdat($\"%s\")", i, ordEscape(n), ordEscape(n)))
	}
	for i, n := range names {
		lines = append(lines, fmt.Sprintf("%s = !{!%d}", ordMDName(n), i))
	}
	for i := range names {
		lines = append(lines, fmt.Sprintf("!%d = !{i32 %d}", i, i))
	}
	// the definitions of the three sorted namespaces in a shuffled textual order; the globals keep theirs
	k := len(names)
	perm := r.perm(len(lines))
	var pos []int
	for _, p := range perm {
		if p >= 2*k && p < 3*k {
			continue
		}
		pos = append(pos, p)
	}
	gi := 0
	for _, p := range pos {
		b.WriteString(lines[p])
		b.WriteString("\n")
		if gi < k && r.coin() {
			b.WriteString(lines[2*k+gi])
			b.WriteString("\n")
			gi++
		}
	}
	for ; gi < k; gi++ {
		b.WriteString(lines[2*k+gi])
		b.WriteString("\n")
	}
	return b.String()
}

// ordPrinted reads the names of the three sorted sections off a printed module, in printed order
func ordPrinted(text string) map[string][]string {
	res := map[string][]string{}
	name := func(rest string) (string, string) { // the name at the start of rest (quoted or bare) and what follows
		if strings.HasPrefix(rest, "\"") {
			if j := strings.IndexByte(rest[1:], '"'); j >= 0 {
				return ordUnescape(rest[1 : 1+j]), rest[j+2:]
			}
			return "", ""
		}
		j := strings.IndexByte(rest, ' ')
		if j < 0 {
			return "", ""
		}
		return ordUnescape(rest[:j]), rest[j:]
	}
	for _, line := range strings.Split(text, "\n") {
		if len(line) < 2 {
			continue
		}
		switch line[0] {
		case '%':
			if n, rest := name(line[1:]); strings.HasPrefix(rest, " = type ") {
				res["type"] = append(res["type"], n)
			}
		case '$':
			if n, rest := name(line[1:]); strings.HasPrefix(rest, " = comdat ") {
				res["comdat"] = append(res["comdat"], n)
			}
		case '!':
			if line[1] >= '0' && line[1] <= '9' {
				continue
			}
			if n, rest := name(line[1:]); strings.HasPrefix(rest, " = !{") {
				res["named"] = append(res["named"], n)
			}
		}
	}
	return res
}

func ordHex(names []string) []string {
	var out []string
	for _, n := range names {
		out = append(out, fmt.Sprintf("%q", n))
	}
	return out
}

// ordModuleCheck: the module with the given names (the same set in the three namespaces), parsed and printed
// `runs` times from scratch: the sections are in the generator's natural order and every print is the same text;
// returns the printed text (or "" after a failure)
func ordModuleCheck(c *config, oracle string, names []string, src string, runs int, sample bool) string {
	o := c.out
	want := c20RefSort(names)
	det := map[string]interface{}{"src": src, "names": ordHex(names), "expected_order": ordHex(want)}
	o.Stat("ordered_name_modules")
	o.Nontrivial("ordmodule:" + src)
	first := ""
	for run := 0; run < runs; run++ {
		m, oc, msg := parseGuard(src)
		if oc != ocOk {
			if run == 0 && oc == ocErr {
				o.Stat("ordered_name_modules.rejected")
				det["msg"] = msg
				o.Fail(oracle, "", "a module whose names need escaping is rejected", det)
			} else {
				det["msg"] = msg
				o.Fail(oracle, "", "parsing a module whose names need escaping: "+oc.String(), det)
			}
			return ""
		}
		text, oc, msg := printGuard(m)
		if oc != ocOk {
			det["msg"] = msg
			o.Fail(oracle, "", "printing crashes", det)
			return ""
		}
		got := ordPrinted(text)
		for _, cat := range c20Sorted {
			if strings.Join(ordHex(got[cat]), ",") != strings.Join(ordHex(want), ",") {
				det["printed"] = text
				det["printed_order"] = ordHex(got[cat])
				det["run"] = run
				o.Fail(oracle, "", cat+" definitions are not printed in the natural order of their names (computed by the generator: digit runs as big integers, fewer leading zeros first, other bytes bytewise)", det)
				return ""
			}
		}
		if run == 0 {
			first = text
		} else if text != first {
			det["printed"] = first
			det["printed_again"] = text
			det["run"] = run
			o.Fail(oracle, "", "two fresh parses of one text print differently", det)
			return ""
		}
	}
	o.Pass(oracle)
	if sample {
		o.Sample(map[string]interface{}{"kind": "ordered names", "names": ordHex(names), "printed_prefix": first[:min(200, len(first))]})
	}
	return first
}

// ---- adversarial order families: names that a comparison has to look deep into, or with big integers, to order

func ordDigits(r *rng, n int, first string) string {
	b := []byte{first[r.intn(len(first))]}
	for len(b) < n {
		b = append(b, byte('0'+r.intn(10)))
	}
	return string(b)
}

// ordFamily returns 4 to 6 distinct names (kind selects the family; all start with a letter, so they are valid as
// type, comdat and metadata names and none is a number)
func ordFamily(r *rng, kind int) []string {
	prefix := []string{"t.", "n", "s_", "T", "x\xc3\xa9.", "q\xff", "v-"}[r.intn(7)]
	suffix := []string{"", "", ".x", "a7", "\xfe", ".0"}[r.intn(6)]
	want := 4 + r.intn(3)
	seen := map[string]bool{}
	var out []string
	add := func(n string) {
		if !seen[n] && ordNameOK(n) && len(out) < want {
			seen[n] = true
			out = append(out, n)
		}
	}
	long := ordDigits(r, 17+r.intn(21), "23456789") // with three more digits: 20..40 digits, above 2^64, from 39 on above 2^128
	head, tail := ordDigits(r, 10+r.intn(12), "23456789"), ordDigits(r, 9+r.intn(8), "0123456789")
	value := ordDigits(r, []int{1, 2, 20, 25, 40}[r.intn(5)], "123456789")
	for tries := 0; len(out) < want && tries < 200; tries++ {
		switch kind % 8 {
		case 0: // one long run, the names differ in its last digits
			add(prefix + long + ordDigits(r, 3, "0123456789") + suffix)
		case 1: // ... in one digit in the middle, equal tails
			add(prefix + head + ordDigits(r, 1, "0123456789") + tail + suffix)
		case 2: // one value, small or beyond 64 bits, under different numbers of leading zeros
			add(prefix + strings.Repeat("0", r.intn(6)) + value + suffix)
		case 3: // two runs: the first the same long number (sometimes under another number of zeros), the second differs
			z := ""
			if r.chance(30) {
				z = strings.Repeat("0", 1+r.intn(2))
			}
			add(prefix + z + long + "." + ordDigits(r, 20+r.intn(2), "9") + suffix)
		case 4: // shared prefixes: a name, the name continued, continued with digits
			for _, t := range []string{"", ".", ".1", ".1x", ".10", ".9", ".09", ".1.", ".1.1", "1", "10", "9", "_"} {
				if r.coin() {
					add(prefix + "a" + t)
				}
			}
		case 5: // ill-formed bytes before and after long runs
			hb := string([]byte{byte(0x80 + r.intn(0x80))})
			if r.coin() {
				add(prefix + hb + long + ordDigits(r, 1, "0123456789") + suffix)
			} else {
				add(prefix + long + hb + suffix)
			}
		case 6: // the boundaries of 64 and 128 bits, and a run one digit longer
			for _, t := range []string{"18446744073709551614", "18446744073709551615", "18446744073709551616", "18446744073709551617", "18446744073709551625",
				"99999999999999999999", "100000000000000000000", "340282366920938463463374607431768211455", "340282366920938463463374607431768211456",
				"340282366920938463463374607431768211457", "340282366920938463463374607431768211465"} {
				if r.chance(45) {
					add(prefix + t + suffix)
				}
			}
		default: // digits against the bytes around them in the byte order ('/' < '0'..'9' < ':'), one position
			for _, t := range []string{"/", "0", "1", "9", ":", "00", "01", "10", "\x80", "a", "."} {
				if r.chance(60) {
					add(prefix + "k" + t + suffix)
				}
			}
		}
	}
	return out
}
