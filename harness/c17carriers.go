package main

// C17, attachments on every carrier: each instruction and terminator kind of package ir that has a Metadata field
// (c17CarrierKindsInSource lists them from the sources; the table below must cover the list, freeze apart: KF-25), in
// each of its syntactic variants that the translator handles on a path of its own (value / void, atomic / plain,
// unwind label / unwind to caller, named result / none, ...), is parsed with two attachments: a numbered node !N and
// a tuple written in place that refers to !M.
//
// Oracle, from the generator: the carrier at the position the text puts it (block, instruction index or terminator)
// is of the expected Go type and holds exactly these two attachments, in order, by name; the first node IS the
// module's definition !N, the second is an unnumbered tuple whose first field IS the module's definition !M; the
// print shows the attachment text once, and the printed module parses back to a module with the same property.

import (
	"fmt"
	"go/ast"
	"go/parser"
	"go/token"
	"path/filepath"
	"reflect"
	"sort"
	"strings"

	"github.com/llir/llvm/asm"
	"github.com/llir/llvm/ir"
	"github.com/llir/llvm/ir/metadata"
)

type c17Carrier struct {
	typ     string // Go type of the carrier (InstAdd, TermCleanupRet, ...)
	variant string
	ret     string // return type of the function ("" = void)
	body    string // the blocks of function @t; the carrier's line holds $MD where the attachments go
}

const c17CarrierParams = "i32 %a, i32 %b, double %x, double %y, <4 x i32> %v, <4 x i32> %w, i32* %p, { i32, double } %agg, i1 %c, i8* %va, i64 %l, float %f, i8* %addr"

func c17One(typ, variant, line string) c17Carrier {
	return c17Carrier{typ: typ, variant: variant, body: "entry:\n" + line + "$MD\nret void"}
}

// landing-pad function: the carrier is put in place of the landingpad, the invoke or the resume
func c17LP(typ, variant, invoke, lp, resume string) c17Carrier {
	return c17Carrier{typ: typ, variant: variant, body: "entry:\n" + invoke + "\nok:\nret void\nlp:\n" + lp + "\n" + resume}
}

func c17Carriers() []c17Carrier {
	var cs []c17Carrier
	add := func(typ, variant, line string) { cs = append(cs, c17One(typ, variant, line)) }
	// binary, bitwise, unary
	for _, op := range []string{"Add add", "Sub sub", "Mul mul", "Shl shl"} {
		f := strings.Fields(op)
		add("Inst"+f[0], "", "%r = "+f[1]+" i32 %a, %b")
		add("Inst"+f[0], "flags", "%r = "+f[1]+" nuw nsw i32 %a, %b")
		add("Inst"+f[0], "vector", "%r = "+f[1]+" <4 x i32> %v, %w")
	}
	for _, op := range []string{"UDiv udiv", "SDiv sdiv", "LShr lshr", "AShr ashr"} {
		f := strings.Fields(op)
		add("Inst"+f[0], "", "%r = "+f[1]+" i32 %a, %b")
		add("Inst"+f[0], "exact", "%r = "+f[1]+" exact i32 %a, %b")
	}
	for _, op := range []string{"URem urem", "SRem srem", "And and", "Or or", "Xor xor"} {
		f := strings.Fields(op)
		add("Inst"+f[0], "", "%r = "+f[1]+" i32 %a, %b")
		add("Inst"+f[0], "constants", "%r = "+f[1]+" i32 7, 9")
	}
	for _, op := range []string{"FAdd fadd", "FSub fsub", "FMul fmul", "FDiv fdiv", "FRem frem"} {
		f := strings.Fields(op)
		add("Inst"+f[0], "", "%r = "+f[1]+" double %x, %y")
		add("Inst"+f[0], "fast", "%r = "+f[1]+" fast double %x, %y")
	}
	add("InstFNeg", "", "%r = fneg double %x")
	add("InstFNeg", "fast", "%r = fneg nnan ninf double %x")
	// aggregates and vectors
	add("InstExtractValue", "", "%r = extractvalue { i32, double } %agg, 1")
	add("InstInsertValue", "", "%r = insertvalue { i32, double } %agg, i32 %a, 0")
	add("InstExtractElement", "", "%r = extractelement <4 x i32> %v, i32 0")
	add("InstInsertElement", "", "%r = insertelement <4 x i32> %v, i32 %a, i32 %b")
	add("InstShuffleVector", "", "%r = shufflevector <4 x i32> %v, <4 x i32> %w, <4 x i32> zeroinitializer")
	add("InstShuffleVector", "mask", "%r = shufflevector <4 x i32> %v, <4 x i32> %w, <2 x i32> <i32 0, i32 5>")
	// conversions
	add("InstTrunc", "", "%r = trunc i32 %a to i8")
	add("InstZExt", "", "%r = zext i32 %a to i64")
	add("InstSExt", "", "%r = sext i32 %a to i64")
	add("InstFPTrunc", "", "%r = fptrunc double %x to float")
	add("InstFPExt", "", "%r = fpext float %f to double")
	add("InstFPToUI", "", "%r = fptoui double %x to i32")
	add("InstFPToSI", "", "%r = fptosi double %x to i32")
	add("InstUIToFP", "", "%r = uitofp i32 %a to double")
	add("InstSIToFP", "", "%r = sitofp i32 %a to double")
	add("InstPtrToInt", "", "%r = ptrtoint i32* %p to i64")
	add("InstIntToPtr", "", "%r = inttoptr i64 %l to i32*")
	add("InstBitCast", "", "%r = bitcast i32* %p to i8*")
	add("InstBitCast", "vector", "%r = bitcast <4 x i32> %v to <2 x i64>")
	add("InstAddrSpaceCast", "", "%r = addrspacecast i32* %p to i32 addrspace(1)*")
	// memory
	add("InstAlloca", "", "%r = alloca i32")
	add("InstAlloca", "align", "%r = alloca i32, align 8")
	add("InstAlloca", "nelems", "%r = alloca i32, i32 %a")
	add("InstAlloca", "nelems_align_addrspace", "%r = alloca inalloca i32, i32 4, align 4, addrspace(0)")
	add("InstLoad", "", "%r = load i32, i32* %p")
	add("InstLoad", "volatile_align", "%r = load volatile i32, i32* %p, align 4")
	add("InstLoad", "atomic", "%r = load atomic i32, i32* %p seq_cst, align 4")
	add("InstLoad", "atomic_syncscope", "%r = load atomic volatile i32, i32* %p syncscope(\"one\") acquire, align 4")
	add("InstStore", "", "store i32 %a, i32* %p")
	add("InstStore", "volatile_align", "store volatile i32 %a, i32* %p, align 4")
	add("InstStore", "atomic", "store atomic i32 %a, i32* %p release, align 4")
	add("InstFence", "", "fence seq_cst")
	add("InstFence", "syncscope", "fence syncscope(\"one\") acquire")
	add("InstCmpXchg", "", "%r = cmpxchg i32* %p, i32 %a, i32 %b seq_cst seq_cst")
	add("InstCmpXchg", "weak_volatile", "%r = cmpxchg weak volatile i32* %p, i32 %a, i32 %b syncscope(\"one\") acq_rel monotonic")
	add("InstAtomicRMW", "", "%r = atomicrmw add i32* %p, i32 %a seq_cst")
	add("InstAtomicRMW", "volatile", "%r = atomicrmw volatile xchg i32* %p, i32 %a syncscope(\"one\") monotonic")
	add("InstGetElementPtr", "", "%r = getelementptr i32, i32* %p, i64 %l")
	add("InstGetElementPtr", "inbounds", "%r = getelementptr inbounds i32, i32* %p, i32 1")
	add("InstGetElementPtr", "no_index", "%r = getelementptr i32, i32* %p")
	// other
	add("InstICmp", "", "%r = icmp eq i32 %a, %b")
	add("InstICmp", "pointers", "%r = icmp ne i32* %p, null")
	add("InstICmp", "vector", "%r = icmp slt <4 x i32> %v, %w")
	add("InstFCmp", "", "%r = fcmp oeq double %x, %y")
	add("InstFCmp", "fast", "%r = fcmp fast uno double %x, %y")
	add("InstSelect", "", "%r = select i1 %c, i32 %a, i32 %b")
	add("InstSelect", "fast", "%r = select fast i1 %c, double %x, double %y")
	add("InstCall", "void", "call void @callee()")
	add("InstCall", "value", "%r = call i32 @calleei(i32 %a)")
	add("InstCall", "unnamed_value", "call i32 @calleei(i32 %a)")
	add("InstCall", "tail_cc_attrs", "%r = tail call fastcc zeroext i32 @calleei(i32 signext %a) nounwind")
	add("InstCall", "variadic", "call void (i32, ...) @calleev(i32 %a, double %x)")
	add("InstCall", "pointer", "call void %fp()")
	add("InstCall", "bundle", "call void @callee() [ \"tag\"(i32 %a) ]")
	add("InstCall", "asm", "call void asm sideeffect \"nop\", \"\"()")
	add("InstVAArg", "", "%r = va_arg i8* %va, i32")
	cs = append(cs, c17Carrier{typ: "InstPhi", body: "entry:\nbr label %n\nn:\n%r = phi i32 [ %a, %entry ]$MD\nret void"})
	cs = append(cs, c17Carrier{typ: "InstPhi", variant: "two_incoming", body: "entry:\nbr i1 %c, label %m, label %n\nm:\nbr label %n\nn:\n%r = phi fast double [ %x, %entry ], [ %y, %m ]$MD\nret void"})
	inv := "invoke void @callee() to label %ok unwind label %lp"
	res := "resume { i8*, i32 } %e"
	cs = append(cs, c17LP("InstLandingPad", "cleanup", inv, "%e = landingpad { i8*, i32 } cleanup$MD", res))
	cs = append(cs, c17LP("InstLandingPad", "catch", inv, "%e = landingpad { i8*, i32 } catch i8* null$MD", res))
	cs = append(cs, c17LP("InstLandingPad", "cleanup_catch_filter", inv, "%e = landingpad { i8*, i32 } cleanup catch i8* null filter [0 x i8*] zeroinitializer$MD", res))
	// terminators
	cs = append(cs, c17LP("TermInvoke", "void", inv+"$MD", "%e = landingpad { i8*, i32 } cleanup", res))
	cs = append(cs, c17LP("TermInvoke", "value", "%r = invoke i32 @calleei(i32 %a) to label %ok unwind label %lp$MD", "%e = landingpad { i8*, i32 } cleanup", res))
	cs = append(cs, c17LP("TermInvoke", "unnamed_value_cc", "invoke fastcc i32 @calleei(i32 %a) to label %ok unwind label %lp$MD", "%e = landingpad { i8*, i32 } cleanup", res))
	cs = append(cs, c17LP("TermInvoke", "variadic", "invoke void (i32, ...) @calleev(i32 %a, i32 %b) to label %ok unwind label %lp$MD", "%e = landingpad { i8*, i32 } cleanup", res))
	cs = append(cs, c17LP("TermResume", "", inv, "%e = landingpad { i8*, i32 } cleanup", res+"$MD"))
	cs = append(cs, c17Carrier{typ: "TermRet", variant: "void", body: "entry:\nret void$MD"})
	cs = append(cs, c17Carrier{typ: "TermRet", variant: "value", ret: "i32", body: "entry:\nret i32 %a$MD"})
	cs = append(cs, c17Carrier{typ: "TermRet", variant: "constant", ret: "i32*", body: "entry:\nret i32* null$MD"})
	cs = append(cs, c17Carrier{typ: "TermBr", body: "entry:\nbr label %n$MD\nn:\nret void"})
	cs = append(cs, c17Carrier{typ: "TermCondBr", body: "entry:\nbr i1 %c, label %n, label %m$MD\nn:\nret void\nm:\nret void"})
	cs = append(cs, c17Carrier{typ: "TermCondBr", variant: "constant", body: "entry:\nbr i1 true, label %n, label %n$MD\nn:\nret void"})
	cs = append(cs, c17Carrier{typ: "TermSwitch", body: "entry:\nswitch i32 %a, label %n [ i32 1, label %m i32 2, label %n ]$MD\nn:\nret void\nm:\nret void"})
	cs = append(cs, c17Carrier{typ: "TermSwitch", variant: "no_case", body: "entry:\nswitch i32 %a, label %n [ ]$MD\nn:\nret void"})
	cs = append(cs, c17Carrier{typ: "TermIndirectBr", body: "entry:\nindirectbr i8* %addr, [label %n, label %m]$MD\nn:\nret void\nm:\nret void"})
	cs = append(cs, c17Carrier{typ: "TermIndirectBr", variant: "blockaddress", body: "entry:\nindirectbr i8* blockaddress(@t, %n), [label %n]$MD\nn:\nret void"})
	cs = append(cs, c17Carrier{typ: "TermUnreachable", body: "entry:\nunreachable$MD"})
	cs = append(cs, c17Carrier{typ: "TermCallBr", variant: "void", body: "entry:\ncallbr void asm sideeffect \"\", \"X\"(i8* blockaddress(@t, %m)) to label %n [label %m]$MD\nn:\nret void\nm:\nret void"})
	cs = append(cs, c17Carrier{typ: "TermCallBr", variant: "value", body: "entry:\n%r = callbr i32 asm \"\", \"=r,r,X\"(i32 %a, i8* blockaddress(@t, %m)) to label %n [label %m]$MD\nn:\nret void\nm:\nret void"})
	cs = append(cs, c17Carrier{typ: "TermCallBr", variant: "no_other_target", body: "entry:\ncallbr void asm sideeffect \"\", \"\"() to label %n []$MD\nn:\nret void"})
	// funclet pads
	pad := func(typ, variant, cs0, cp, cr, cl, clret string) c17Carrier {
		return c17Carrier{typ: typ, variant: variant, body: "entry:\ninvoke void @callee() to label %ok unwind label %cs\nok:\nret void\ncs:\n" + cs0 + "\ncp:\n" + cp + "\n" + cr +
			"\ncl:\n" + cl + "\n" + clret + "\ncl2:\n%k2 = cleanuppad within none []\ncleanupret from %k2 unwind to caller"}
	}
	csw, cp, cr, cl := "%s = catchswitch within none [label %cp] unwind label %cl", "%h = catchpad within %s [i8* null, i32 64, i8* null]", "catchret from %h to label %ok", "%k = cleanuppad within none []"
	clr, clrLabel := "cleanupret from %k unwind to caller", "cleanupret from %k unwind label %cl2"
	cs = append(cs, pad("TermCatchSwitch", "unwind_label", csw+"$MD", cp, cr, cl, clr))
	cs = append(cs, pad("TermCatchSwitch", "unwind_to_caller", "%s = catchswitch within none [label %cp] unwind to caller$MD", cp, cr, cl, clr))
	cs = append(cs, pad("TermCatchSwitch", "unnamed_to_caller", "catchswitch within none [label %cp] unwind to caller$MD", "%h = catchpad within %0 []", cr, cl, clr))
	cs = append(cs, pad("InstCatchPad", "", csw, cp+"$MD", cr, cl, clr))
	cs = append(cs, pad("InstCatchPad", "no_argument", csw, "%h = catchpad within %s []$MD", cr, cl, clr))
	cs = append(cs, pad("TermCatchRet", "", csw, cp, cr+"$MD", cl, clr))
	cs = append(cs, pad("InstCleanupPad", "within_none", csw, cp, cr, cl+"$MD", clr))
	cs = append(cs, pad("InstCleanupPad", "arguments", csw, cp, cr, "%k = cleanuppad within none [i32 1, i8* null]$MD", clr))
	cs = append(cs, pad("TermCleanupRet", "unwind_to_caller", csw, cp, cr, cl, clr+"$MD"))
	cs = append(cs, pad("TermCleanupRet", "unwind_label", csw, cp, cr, cl, clrLabel+"$MD"))
	// a cleanuppad nested in a catchpad
	cs = append(cs, c17Carrier{typ: "InstCleanupPad", variant: "within_pad", body: "entry:\ninvoke void @callee() to label %ok unwind label %cs\nok:\nret void\ncs:\n%s = catchswitch within none [label %cp] unwind to caller\ncp:\n%h = catchpad within %s []\ninvoke void @callee() [ \"funclet\"(token %h) ] to label %done unwind label %in\ndone:\ncatchret from %h to label %ok\nin:\n%k = cleanuppad within %h []$MD\ncleanupret from %k unwind to caller"})
	return cs
}

// c17CarrierSrc writes the module; it returns the position of the carrier: block, instruction index, terminator.
func c17CarrierSrc(c c17Carrier, r *rng) (src string, bi, ii int, isTerm bool, n, mm int, names [2]string) {
	n = r.intn(40)
	mm = r.intn(40)
	for mm == n {
		mm = r.intn(40)
	}
	extra := r.intn(40)
	for extra == n || extra == mm {
		extra = r.intn(40)
	}
	pool := []string{"va", "vb", "x.y", "note", "k1"}
	p := r.perm(len(pool))
	names = [2]string{pool[p[0]], pool[p[1]]}
	md := fmt.Sprintf(", !%s !%d, !%s !{!%d, i32 7}", names[0], n, names[1], mm)
	defs := []string{fmt.Sprintf("!%d = !{!\"n\"}", n), fmt.Sprintf("!%d = distinct !{}", mm), fmt.Sprintf("!%d = !{!%d, !%d}", extra, mm, n)}
	var b strings.Builder
	front := r.chance(40)
	if front {
		for _, k := range r.perm(3) {
			b.WriteString(defs[k] + "\n")
		}
	}
	b.WriteString("declare void @callee()\ndeclare i32 @calleei(i32)\ndeclare void @calleev(i32, ...)\ndeclare i32 @pers(...)\n")
	ret := c.ret
	if ret == "" {
		ret = "void"
	}
	fmt.Fprintf(&b, "define %s @t(%s, void ()* %%fp) personality i32 (...)* @pers {\n", ret, c17CarrierParams)
	lines := strings.Split(c.body, "\n")
	cur, idx := -1, 0
	for k, l := range lines {
		if strings.HasSuffix(l, ":") {
			b.WriteString(l + "\n")
			cur++
			idx = 0
			continue
		}
		if strings.Contains(l, "$MD") {
			bi, ii = cur, idx
			isTerm = k+1 == len(lines) || strings.HasSuffix(lines[k+1], ":")
			l = strings.Replace(l, "$MD", md, 1)
		}
		idx++
		b.WriteString("\t" + l + "\n")
	}
	b.WriteString("}\n")
	if !front {
		for _, k := range r.perm(3) {
			b.WriteString(defs[k] + "\n")
		}
	}
	return b.String(), bi, ii, isTerm, n, mm, names
}

// c17CarrierCheck: the structural oracle on a parsed module
func c17CarrierCheck(m *ir.Module, c c17Carrier, bi, ii int, isTerm bool, n, mm int, names [2]string) string {
	var f *ir.Func
	for _, x := range m.Funcs {
		if x.Name() == "t" {
			f = x
		}
	}
	if f == nil || bi >= len(f.Blocks) {
		return "function @t or the carrier's block is missing"
	}
	blk := f.Blocks[bi]
	var carrier interface{}
	if isTerm {
		carrier = blk.Term
	} else {
		if ii >= len(blk.Insts) {
			return "the carrier's block has too few instructions"
		}
		carrier = blk.Insts[ii]
	}
	rv := reflect.ValueOf(carrier)
	if rv.Kind() != reflect.Ptr || rv.Elem().Type().Name() != c.typ {
		return fmt.Sprintf("the value at the carrier's position is a %T, expected %s", carrier, c.typ)
	}
	mf := rv.Elem().FieldByName("Metadata")
	if !mf.IsValid() {
		return c.typ + " has no Metadata field"
	}
	atts, ok := mf.Interface().(ir.Metadata)
	if !ok {
		return "the Metadata field is not an ir.Metadata"
	}
	if len(atts) != 2 {
		return fmt.Sprintf("the carrier holds %d attachments, 2 were written", len(atts))
	}
	def := func(id int) metadata.Definition {
		for _, d := range m.MetadataDefs {
			if d.ID() == int64(id) {
				return d
			}
		}
		return nil
	}
	dn, dm := def(n), def(mm)
	if dn == nil || dm == nil {
		return "a definition that was written is not in the module"
	}
	if atts[0] == nil || atts[1] == nil || atts[0].Name != names[0] || atts[1].Name != names[1] {
		return "the names of the attachments differ from the ones written (or their order)"
	}
	if d, ok := atts[0].Node.(metadata.Definition); !ok || d != dn {
		return fmt.Sprintf("the node of attachment !%s is not the module's definition !%d", names[0], n)
	}
	tup, ok := atts[1].Node.(*metadata.Tuple)
	if !ok {
		return fmt.Sprintf("the node of attachment !%s is a %T, a tuple was written in place", names[1], atts[1].Node)
	}
	if tup.ID() != -1 {
		return fmt.Sprintf("the tuple written in place carries the ID %d", tup.ID())
	}
	for _, d := range m.MetadataDefs {
		if d == metadata.Definition(tup) {
			return "the tuple written in place is listed among the module's numbered definitions"
		}
	}
	if len(tup.Fields) != 2 {
		return "the tuple written in place has not its two fields"
	}
	if d, ok := tup.Fields[0].(metadata.Definition); !ok || d != dm {
		return fmt.Sprintf("the first field of the tuple written in place is not the module's definition !%d", mm)
	}
	return ""
}

// c17CarrierKindsInSource lists the instruction and terminator struct types of package ir that embed Metadata.
func c17CarrierKindsInSource() ([]string, error) {
	files, _ := filepath.Glob("/repo/ir/inst_*.go")
	files = append(files, "/repo/ir/terminator.go")
	var kinds []string
	fset := token.NewFileSet()
	for _, fn := range files {
		if strings.HasSuffix(fn, "_test.go") {
			continue
		}
		af, err := parser.ParseFile(fset, fn, nil, 0)
		if err != nil {
			return nil, err
		}
		for _, d := range af.Decls {
			gd, ok := d.(*ast.GenDecl)
			if !ok {
				continue
			}
			for _, s := range gd.Specs {
				ts, ok := s.(*ast.TypeSpec)
				if !ok {
					continue
				}
				st, ok := ts.Type.(*ast.StructType)
				if !ok || !(strings.HasPrefix(ts.Name.Name, "Inst") || strings.HasPrefix(ts.Name.Name, "Term")) {
					continue
				}
				for _, fl := range st.Fields.List {
					if id, ok := fl.Type.(*ast.Ident); ok && id.Name == "Metadata" && (len(fl.Names) == 0 || fl.Names[0].Name == "Metadata") {
						kinds = append(kinds, ts.Name.Name)
					}
				}
			}
		}
	}
	sort.Strings(kinds)
	return kinds, nil
}

func c17CarrierRun(c *config, r *rng) {
	o := c.out
	table := c17Carriers()
	covered := map[string]bool{}
	rounds := 2 * c.scale
	if rounds > 8 {
		rounds = 8
	}
	for _, cr := range table {
		for round := 0; round < rounds; round++ {
			src, bi, ii, isTerm, n, mm, names := c17CarrierSrc(cr, r)
			md := fmt.Sprintf(", !%s !%d, !%s !{!%d, i32 7}", names[0], n, names[1], mm)
			det := map[string]interface{}{"src": src, "carrier": cr.typ, "variant": cr.variant}
			var m *ir.Module
			var text string
			stage := "parse"
			oc, msg := guard(func() error {
				var err error
				m, err = asm.ParseString("c17carrier.ll", src)
				if err != nil {
					return err
				}
				stage = "print"
				text = m.String()
				if printedPanic(text) {
					panic(text)
				}
				return nil
			})
			o.Stat("carriers")
			o.Nontrivial("carrier:" + cr.typ + "/" + cr.variant)
			if oc != ocOk {
				det["stage"], det["msg"] = stage, msg
				o.Fail("md_carriers", "", "a carrier with two attachments is rejected or crashes at "+stage, det)
				continue
			}
			covered[cr.typ] = true
			bad := c17CarrierCheck(m, cr, bi, ii, isTerm, n, mm, names)
			if bad == "" {
				if b2, _ := c17Identity(m); b2 != "" {
					bad = b2
				}
			}
			if bad == "" && strings.Count(text, md) != 1 {
				bad = fmt.Sprintf("the print shows the attachments %q %d times, once was written", md, strings.Count(text, md))
			}
			if bad == "" {
				m2, err := asm.ParseString("c17carrier2.ll", text)
				if err != nil {
					bad = "the printed module does not parse: " + err.Error()
				} else if b2 := c17CarrierCheck(m2, cr, bi, ii, isTerm, n, mm, names); b2 != "" {
					bad = "after print and parse: " + b2
				} else if m2.String() != text {
					bad = "the printed module is not a fixpoint"
				}
			}
			if bad != "" {
				det["printed"] = text
				o.Fail("md_carriers", "", bad, det)
			} else {
				o.Pass("md_carriers")
			}
		}
	}
	kinds, err := c17CarrierKindsInSource()
	if err != nil || len(kinds) == 0 {
		o.Fail("md_carrier_kinds_complete", "", "the sources of package ir could not be read", map[string]interface{}{"err": fmt.Sprint(err)})
		return
	}
	var missing []string
	for _, k := range kinds {
		if !covered[k] && k != "InstFreeze" { // freeze with an attachment: KF-25 (the grammar)
			missing = append(missing, k)
		}
	}
	o.StatN("carrier_kinds", len(kinds))
	if len(missing) > 0 {
		o.Fail("md_carrier_kinds_complete", "", "no input with attachments on a kind that can carry them", map[string]interface{}{"missing": missing})
	} else {
		o.Pass("md_carrier_kinds_complete")
	}
}
