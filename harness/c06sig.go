package main

// C06, call-like values: for call / invoke / callbr x callee direct / pointer / inline asm x return type void / scalar /
// struct / pointer x the type spelled alone or as a full function type, the parsed value's Type(), its Sig().RetType,
// the return type of the callee operand's pointee function type and Type() recomputed after the Typ cache of a copy
// was cleared all equal the return type the generator wrote (LLVM's rule: the type of a call is its callee's return type).

import (
	"fmt"
	"reflect"

	"github.com/llir/llvm/ir/types"
	"github.com/llir/llvm/ir/value"
)

func c06Sig(c *config) {
	o := c.out
	for _, kind := range []string{"call", "invoke", "callbr"} {
		for _, callee := range []string{"direct", "pointer", "asm"} {
			for ri, ret := range []string{"void", "i32", "{ i32, i8 }", "i8*", "<2 x float>"} {
				for _, full := range []bool{false, true} {
					cal := map[string]string{"direct": "@d", "pointer": "%fp", "asm": `asm sideeffect "", "` + []string{"", "=r", "=r,=r", "=r", "=x"}[ri] + `"`}[callee]
					spelled := ret
					if full {
						spelled = ret + " ()"
					}
					res := "%r = "
					if ret == "void" {
						res = ""
					}
					src := "declare " + ret + " @d()\ndeclare i32 @pers(...)\ndefine void @f(" + ret + " ()* %fp) personality i32 (...)* @pers {\nentry:\n"
					switch kind {
					case "call":
						src += "\t" + res + "call " + spelled + " " + cal + "()\n\tbr label %n\n"
					case "invoke":
						src += "\t" + res + "invoke " + spelled + " " + cal + "() to label %n unwind label %lp\nlp:\n\t%l = landingpad { i8*, i32 } cleanup\n\tresume { i8*, i32 } %l\n"
					default:
						src += "\t" + res + "callbr " + spelled + " " + cal + "() to label %n [label %t]\nt:\n\tret void\n"
					}
					src += "n:\n\tret void\n}\n"
					m, oc, _ := parseGuard(src)
					if oc != ocOk {
						o.Stat("sig.rejected_by_grammar")
						continue
					}
					o.Stat("sig.modules")
					b := m.Funcs[len(m.Funcs)-1].Blocks[0]
					var x interface{} = b.Term
					if kind == "call" {
						x = b.Insts[0]
					}
					det := map[string]interface{}{"src": src, "kind": kind, "callee": callee, "want": ret}
					check := func(what string, get func() types.Type) {
						var t types.Type
						oc, msg := guard(func() error { t = get(); return nil })
						got := msg
						if oc == ocOk && t != nil {
							got = t.String()
						}
						if oc != ocOk || got != ret {
							d := map[string]interface{}{"what": what, "got": got}
							for k, v := range det {
								d[k] = v
							}
							o.Fail("call_type", "", fmt.Sprintf("%s of a parsed %s is %s, the callee returns %s", what, kind, got, ret), d)
						} else {
							o.Pass("call_type")
						}
					}
					check("Type()", func() types.Type { return x.(value.Value).Type() })
					check("Sig().RetType", func() types.Type { return x.(interface{ Sig() *types.FuncType }).Sig().RetType })
					check("the callee operand's function type's return type", func() types.Type {
						fv := reflect.ValueOf(x).Elem().FieldByName("Callee")
						if !fv.IsValid() {
							fv = reflect.ValueOf(x).Elem().FieldByName("Invokee") // TermInvoke's name of the field
						}
						cv := fv.Interface().(value.Value)
						return cv.Type().(*types.PointerType).ElemType.(*types.FuncType).RetType
					})
					check("Type() of a copy whose Typ cache was cleared", func() types.Type {
						cp := reflect.New(reflect.TypeOf(x).Elem())
						cp.Elem().Set(reflect.ValueOf(x).Elem())
						tf := cp.Elem().FieldByName("Typ")
						tf.Set(reflect.Zero(tf.Type()))
						return cp.Interface().(value.Value).Type()
					})
				}
			}
		}
	}
}
