package main

// C04, comdats (c04comdat.go): modules in which global variables AND functions are members of comdats, written in
// the long form `comdat($name)` and in the short form `comdat` (the comdat named like the entity), several members
// per comdat, the names drawn from the shapes a name can have (identifier-like, needing quotes, numbers in quotes,
// signed numbers in quotes).  The generator knows which comdat every member belongs to: the member's Comdat field
// must be the very object m.ComdatDefs lists under that name (pointer identity), so all members of one comdat share
// one object, and the general identity walk (checkIdentity) runs on the module as well.
//
// The short form on an entity named by a number in quotes is rejected by the unchanged library (KF-03: the lookup
// key keeps the quote characters); such a rejection is counted apart and says nothing.  Were the text accepted, the
// expectations above hold for it like for any other module.

import (
	"fmt"
	"strings"

	"github.com/llir/llvm/ir"
)

func c04ComdatName(r *rng, seen map[string]bool) string {
	for {
		var s string
		switch r.intn(6) {
		case 0, 1:
			s = string(r.pick("abcxyzXYZ_.$"))
			for k := 0; k < r.intn(6); k++ {
				s += string(r.pick("abcXYZ019$-._"))
			}
		case 2:
			for k := 0; k < 1+r.intn(5); k++ {
				s += string(r.pick("ab z9:;,()[]{}<>=!@#%^&*?/|~'"))
			}
		case 3:
			s = []string{"0", "1", "7", "42", "00", "007", "10", "123456"}[r.intn(8)]
		case 4:
			s = []string{"-1", "+5", "-42", "+007"}[r.intn(4)]
		default:
			s = string(r.pick("0123456789"))
			for k := 0; k < 1+r.intn(4); k++ {
				s += string(r.pick("abc019._"))
			}
		}
		if !seen[s] {
			seen[s] = true
			return s
		}
	}
}

// how the generator writes a name after its sigil: bare when LLVM's lexer reads it as a name, quoted otherwise
// (and sometimes quoted although it need not be)
func c04WriteName(r *rng, s string) string {
	bare := s != ""
	for i := 0; i < len(s); i++ {
		ch := s[i]
		letter := ch >= 'a' && ch <= 'z' || ch >= 'A' && ch <= 'Z' || ch == '$' || ch == '.' || ch == '_' || ch == '-'
		digit := ch >= '0' && ch <= '9'
		if !(letter || digit && i > 0) {
			bare = false
		}
	}
	if bare && r.chance(70) {
		return s
	}
	return "\"" + s + "\""
}

type c04CdUser struct {
	fn     bool
	comdat int // index of the comdat the generator put it in
	short  bool
}

func c04Comdats(c *config) {
	o := c.out
	r := newRng(c.seed, "c04-comdats")
	for i := 0; i < 120*c.scale; i++ {
		seenC := map[string]bool{}
		nc := 1 + r.intn(4)
		var cnames []string
		for k := 0; k < nc; k++ {
			cnames = append(cnames, c04ComdatName(r, seenC))
		}
		seenG := map[string]bool{}
		for _, n := range cnames {
			seenG[n] = true // global names of long-form members differ from every comdat name
		}
		var defs, members []string
		var users []c04CdUser
		numericShort := false
		for k, cn := range cnames {
			defs = append(defs, fmt.Sprintf("$%s = comdat %s", c04WriteName(r, cn), []string{"any", "largest", "nodeduplicate", "samesize", "exactmatch"}[r.intn(5)]))
			nu := 1 + r.intn(4)
			shortAt := -1
			if r.chance(70) {
				shortAt = r.intn(nu)
			}
			for u := 0; u < nu; u++ {
				us := c04CdUser{fn: r.coin(), comdat: k, short: u == shortAt}
				name, form := cn, "comdat"
				if !us.short {
					name = c04ComdatName(r, seenG)
					form = "comdat($" + c04WriteName(r, cn) + ")"
				} else if numericName(cn) {
					numericShort = true
				}
				if us.fn {
					members = append(members, fmt.Sprintf("define void @%s() %s {\n\tret void\n}", c04WriteName(r, name), form))
				} else {
					members = append(members, fmt.Sprintf("@%s = global i32 %d, %s", c04WriteName(r, name), u, form))
				}
				users = append(users, us)
			}
		}
		// members in any order among themselves; comdat definitions before, after or between
		var lines []string
		var order []c04CdUser
		for _, k := range r.perm(len(members)) {
			lines = append(lines, members[k])
			order = append(order, users[k])
		}
		for _, d := range defs {
			at := r.intn(len(lines) + 1)
			lines = append(lines[:at], append([]string{d}, lines[at:]...)...)
		}
		src := strings.Join(lines, "\n") + "\n"
		m, oc, msg := parseGuard(src)
		if oc != ocOk {
			if numericShort && oc == ocErr && strings.Contains(msg, "unable to locate comdat") {
				o.Stat("comdats.short_form_numeric_name_rejected_kf03")
				continue
			}
			o.Fail("comdat_identity", "", "generated valid module rejected: "+oc.String(), map[string]string{"src": src, "msg": msg})
			continue
		}
		o.Stat("modules.comdats")
		if numericShort {
			o.Stat("comdats.short_form_numeric_name_accepted")
		}
		o.Nontrivial(src)
		bad := c04ComdatCheck(m, cnames, order)
		if bad == "" {
			if rep := checkIdentity(m); len(rep.bad) > 0 {
				bad = rep.bad[0]
			}
		}
		if bad != "" {
			o.Fail("comdat_identity", "", bad, map[string]string{"src": src})
		} else {
			o.Pass("comdat_identity")
		}
	}
}

// c04ComdatCheck: order lists the members in source order (global variables and functions interleaved)
func c04ComdatCheck(m *ir.Module, cnames []string, order []c04CdUser) string {
	listed := map[string]*ir.ComdatDef{}
	for _, d := range m.ComdatDefs {
		if listed[d.Name] != nil {
			return fmt.Sprintf("two comdats are listed under the name %q", d.Name)
		}
		listed[d.Name] = d
	}
	if len(m.ComdatDefs) != len(cnames) {
		return fmt.Sprintf("%d comdats written, %d listed", len(cnames), len(m.ComdatDefs))
	}
	for _, cn := range cnames {
		if listed[cn] == nil {
			return fmt.Sprintf("the comdat written with the name %q is not listed under that name", cn)
		}
	}
	gi, fi := 0, 0
	nf, ng := 0, 0
	for _, u := range order {
		if u.fn {
			nf++
		} else {
			ng++
		}
	}
	if len(m.Funcs) != nf || len(m.Globals) != ng {
		return fmt.Sprintf("%d functions and %d global variables written, %d and %d listed", nf, ng, len(m.Funcs), len(m.Globals))
	}
	for _, u := range order {
		var got *ir.ComdatDef
		var who string
		if u.fn {
			got, who = m.Funcs[fi].Comdat, "function "+m.Funcs[fi].Ident()
			fi++
		} else {
			got, who = m.Globals[gi].Comdat, "global variable "+m.Globals[gi].Ident()
			gi++
		}
		form := "comdat($name)"
		if u.short {
			form = "comdat (short form)"
		}
		want := listed[cnames[u.comdat]]
		switch {
		case got == nil:
			return fmt.Sprintf("%s, written with %s, has no comdat", who, form)
		case got != want && got.Name == want.Name:
			return fmt.Sprintf("%s, written with %s: its comdat %q is not the object the module lists under that name (other members of the comdat hold the listed one)", who, form, got.Name)
		case got != want:
			return fmt.Sprintf("%s, written with %s of %q: holds a comdat object named %q that the module does not list", who, form, want.Name, got.Name)
		}
	}
	return ""
}
