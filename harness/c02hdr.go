package main

// C02, headers: the optional parts of the four kinds of global-object headers -- function declaration, function
// definition, global variable declaration, global variable definition -- in every combination of (metadata
// attachments: none / one / two) x (linkage: none and every linkage the kind admits) x (the other optional keywords of
// the header: each one alone, all together, and random subsets).  The order of the optional parts differs between
// the kinds (`declare !a !0 extern_weak void @f()` but `define weak void @f() !a !0 {`; `@g = external global i32,
// align 4, !a !0`), which is why every kind is crossed with every part.  Each module holds one such object and goes
// through the fixed-point check of C02 (c02One); in addition the parsed object must hold what the generator wrote
// (linkage, number of attachments) and the printed text must still spell every optional keyword that was written.

import (
	"fmt"
	"strings"

	"github.com/llir/llvm/ir"
	"github.com/llir/llvm/ir/metadata"
)

type hdrOpts struct {
	preempt, vis, dll, cc, retattr, tls, unnamed, as, extinit, fattr, section, comdat, align, gc string
}

// the optional keywords of a header, by slot; a variant picks at most one per slot
var hdrSlots = []struct {
	slot string
	alts []string
}{
	{"preempt", []string{"dso_local", "dso_preemptable"}},
	{"vis", []string{"hidden", "protected"}},
	{"dll", []string{"dllimport", "dllexport"}},
	{"cc", []string{"fastcc", "coldcc", "cc 300"}},
	{"retattr", []string{"noundef", "signext"}},
	{"tls", []string{"thread_local", "thread_local(localdynamic)"}},
	{"unnamed", []string{"unnamed_addr", "local_unnamed_addr"}},
	{"as", []string{"addrspace(1)"}},
	{"extinit", []string{"externally_initialized"}},
	{"fattr", []string{"nounwind", "#0", "nounwind readnone"}},
	{"section", []string{"section \"sec\""}},
	{"comdat", []string{"comdat($cd)"}},
	{"align", []string{"align 8"}},
	{"gc", []string{"gc \"shadow-stack\""}},
}

func hdrApplicable(kind, slot, alt, linkage string) bool {
	local := linkage == "private" || linkage == "internal"
	switch slot {
	case "cc", "retattr", "gc":
		if kind != "decl" && kind != "def" {
			return false
		}
	case "tls", "extinit":
		if kind != "gdecl" && kind != "gdef" {
			return false
		}
	}
	switch slot {
	case "vis":
		return !local
	case "dll":
		if local {
			return false
		}
		if alt == "dllimport" {
			return kind == "decl" || kind == "gdecl"
		}
		return kind == "def" || kind == "gdef"
	case "preempt":
		return !(local && alt == "dso_preemptable")
	case "comdat":
		return (kind == "def" || kind == "gdef") && !local
	case "gc":
		return true
	case "fattr":
		return kind == "decl" || kind == "def" || alt == "#0"
	case "extinit":
		return kind == "gdef"
	}
	return true
}

func hdrRender(kind, linkage string, nmd int, o map[string]string) (src string, keywords []string) {
	var pre []string // header keywords in the grammar's order
	add := func(s string) {
		if s != "" {
			pre = append(pre, s)
			keywords = append(keywords, s)
		}
	}
	mds := [][]string{nil, {"!foo !0"}, {"!foo !0", "!bar !1"}}[nmd]
	if o["dll"] != "" && o["preempt"] == "dso_local" && o["dll"] == "dllimport" {
		o["preempt"] = ""
	}
	if o["dll"] != "" {
		o["vis"] = "" // a DLL storage class goes with default visibility
	}
	var b strings.Builder
	if o["comdat"] != "" {
		b.WriteString("$cd = comdat any\n\n")
	}
	isFunc := kind == "decl" || kind == "def"
	if isFunc {
		add(linkage)
		add(o["preempt"])
		add(o["vis"])
		add(o["dll"])
		add(o["cc"])
		add(o["retattr"])
		head := strings.Join(pre, " ")
		if head != "" {
			head += " "
		}
		var post []string
		for _, s := range []string{"unnamed", "as", "fattr", "section", "comdat", "align", "gc"} {
			if o[s] != "" {
				post = append(post, o[s])
				keywords = append(keywords, o[s])
			}
		}
		tail := ""
		if len(post) > 0 {
			tail = " " + strings.Join(post, " ")
		}
		if kind == "decl" {
			b.WriteString("declare ")
			for _, md := range mds {
				b.WriteString(md + " ")
			}
			fmt.Fprintf(&b, "%si32 @f(i32)%s\n", head, tail)
		} else {
			fmt.Fprintf(&b, "define %si32 @f(i32 %%x)%s", head, tail)
			for _, md := range mds {
				b.WriteString(" " + md)
			}
			b.WriteString(" {\n\tret i32 %x\n}\n")
		}
	} else {
		add(linkage)
		add(o["preempt"])
		add(o["vis"])
		add(o["dll"])
		add(o["tls"])
		add(o["unnamed"])
		add(o["as"])
		add(o["extinit"])
		head := strings.Join(pre, " ")
		if head != "" {
			head += " "
		}
		fmt.Fprintf(&b, "@g = %sglobal i32", head)
		if kind == "gdef" {
			b.WriteString(" 7")
		}
		for _, s := range []string{"section", "comdat", "align"} {
			if o[s] != "" {
				b.WriteString(", " + o[s])
				keywords = append(keywords, o[s])
			}
		}
		for _, md := range mds {
			b.WriteString(", " + md)
		}
		if o["fattr"] != "" {
			b.WriteString(" " + o["fattr"])
			keywords = append(keywords, o["fattr"])
		}
		b.WriteString("\n")
	}
	if o["fattr"] == "#0" {
		b.WriteString("\nattributes #0 = { \"k\"=\"v\" }\n")
	}
	if nmd > 0 {
		b.WriteString("\n!0 = !{}\n")
	}
	if nmd > 1 {
		b.WriteString("!1 = !{!\"x\"}\n")
	}
	return b.String(), keywords
}

func c02Headers(c *config) {
	o := c.out
	r := newRng(c.seed, "c02hdr")
	linkages := map[string][]string{
		"decl":  {"", "extern_weak", "external"},
		"gdecl": {"extern_weak", "external"},
		"def":   {"", "private", "internal", "weak", "weak_odr", "linkonce", "linkonce_odr", "available_externally"},
		"gdef":  {"", "private", "internal", "weak", "weak_odr", "linkonce_odr", "common", "appending", "available_externally"},
	}
	for _, kind := range []string{"decl", "def", "gdecl", "gdef"} {
		for _, linkage := range linkages[kind] {
			if kind == "gdef" && (linkage == "common" || linkage == "appending") {
				continue // (they constrain the initialiser: zero / an array)
			}
			for nmd := 0; nmd < 3; nmd++ {
				var variants []map[string]string
				variants = append(variants, map[string]string{}) // nothing else
				all := map[string]string{}
				for _, s := range hdrSlots {
					for _, alt := range s.alts {
						if !hdrApplicable(kind, s.slot, alt, linkage) {
							continue
						}
						variants = append(variants, map[string]string{s.slot: alt})
						if _, ok := all[s.slot]; !ok || r.coin() {
							all[s.slot] = alt
						}
					}
				}
				variants = append(variants, all)
				for k := 0; k < 3*c.scale; k++ {
					v := map[string]string{}
					for _, s := range hdrSlots {
						alt := s.alts[r.intn(len(s.alts))]
						if r.chance(40) && hdrApplicable(kind, s.slot, alt, linkage) {
							v[s.slot] = alt
						}
					}
					variants = append(variants, v)
				}
				for vi, v := range variants {
					src, keywords := hdrRender(kind, linkage, nmd, v)
					name := fmt.Sprintf("header-%s-%s-md%d-v%d", kind, linkage, nmd, vi)
					in := rtInput{name: name, src: src, kind: "headers"}
					m1, oc, _ := parseGuard(src)
					if oc != ocOk {
						o.Stat("inputs.rejected.headers")
						continue
					}
					c02One(c, in, false)
					// what was written is what the parsed object holds and what the printed text spells
					det := map[string]interface{}{"name": name, "src": src}
					var gotLinkage string
					var gotMD []*metadata.Attachment
					if kind == "decl" || kind == "def" {
						if len(m1.Funcs) != 1 {
							o.Fail("header_kept", "", "the parsed module does not hold the one function written", det)
							continue
						}
						gotLinkage, gotMD = m1.Funcs[0].Linkage.String(), m1.Funcs[0].Metadata
					} else {
						if len(m1.Globals) != 1 {
							o.Fail("header_kept", "", "the parsed module does not hold the one global written", det)
							continue
						}
						gotLinkage, gotMD = m1.Globals[0].Linkage.String(), m1.Globals[0].Metadata
					}
					if gotLinkage == "none" {
						gotLinkage = ""
					}
					if gotLinkage != linkage || len(gotMD) != nmd {
						det["linkage"], det["attachments"] = gotLinkage, len(gotMD)
						o.Fail("header_kept", "", "the parsed object does not hold the linkage / metadata attachments written", det)
						continue
					}
					y, oc, _ := printGuard(m1)
					if oc != ocOk {
						continue // reported by c02One
					}
					missing := ""
					for _, kw := range keywords {
						if !strings.Contains(y, kw) {
							missing = kw
						}
					}
					if missing != "" {
						det["printed"] = y
						o.Fail("header_kept", "", "the printed text no longer spells `"+missing+"` of the header", det)
						continue
					}
					o.Pass("header_kept")
				}
			}
		}
	}
	_ = ir.NewModule
}
