package main

// C06, value-producing terminators and exception-handling pads.  The instruction cases of c06.go stop at the
// instructions a single block can hold; invoke, callbr and catchswitch are terminators with a result, and catchpad,
// cleanuppad and landingpad are only meaningful next to them.  Here whole functions are generated from a recipe
// (callee type, funclet or landing-pad style, handlers, unwind targets, named or numbered results), three ways:
// written out as text by the generator and parsed; assembled through the constructors; and the constructed module
// printed and parsed.  In each of the three modules the type of every definition is read from the definition itself
// (Type() of the terminator or instruction) and from each of its users (the operand as the user holds it: the
// `within` operand of a catchpad, the `from` operand of catchret and cleanupret, the parent pad of a nested
// catchswitch, the token in a "funclet" operand bundle, the invoke and callbr results in a select), and compared with
// LLVM's rule, which the generator states by itself: token for catchswitch, catchpad and cleanuppad (and for the
// `none` parent), the callee's return type for invoke and callbr (whichever way the callee type is spelled), the
// type written after `landingpad`.

import (
	"fmt"
	"sort"
	"strings"

	"github.com/llir/llvm/asm"
	"github.com/llir/llvm/ir"
	"github.com/llir/llvm/ir/constant"
	"github.com/llir/llvm/ir/types"
	"github.com/llir/llvm/ir/value"
)

type ehRecipe struct {
	ret       *tyTree
	params    []*tyTree
	variadic  bool
	viaPtr    bool // the callee is a parameter of function-pointer type
	fullType  bool // the call sites spell the whole function type (mandatory when variadic)
	landing   bool // landing-pad style (invoke unwinds to a landingpad) instead of funclets
	lpType    *tyTree
	handlers  int  // catchpads of the catchswitch
	swUnwind  bool // the catchswitch unwinds to the cleanup block (else to the caller)
	crUnwind  bool // the first cleanupret unwinds to the second cleanup block
	nested    bool // a catchswitch within the second cleanuppad (its parent pad is a token value, not none)
	bundle    bool // calls in the handlers carry a "funclet" bundle naming their catchpad
	named     bool // results are named (else numbered by position)
	padArg    bool
	catchArgs int
	asmGoto   bool // the callbr goes through inline assembly with a label operand (the one form LLVM 14 itself takes)
}

func c06EHRecipe(r *rng, g *tyGen) ehRecipe {
	rc := ehRecipe{ret: g.sized(2), variadic: r.chance(30), viaPtr: r.chance(35), landing: r.chance(30), lpType: g.sized(1),
		handlers: 1 + r.intn(3), swUnwind: r.coin(), crUnwind: r.coin(), nested: r.chance(60), bundle: r.chance(60), named: r.chance(60),
		padArg: r.coin(), catchArgs: r.intn(3)}
	if r.chance(25) {
		rc.ret = &tyTree{kind: 'v'}
	}
	for k := r.intn(3); k > 0; k-- {
		rc.params = append(rc.params, g.sized(1))
	}
	rc.fullType = rc.variadic || r.chance(30)
	if r.chance(30) {
		rc.lpType = tS(false, tP(0, tI(8)), tI(32)) // the usual { i8*, i32 }
	}
	if r.chance(35) {
		// asm goto: no result or one register result
		rc.asmGoto = true
		if rc.ret.kind != 'v' {
			rc.ret = tI([]uint64{8, 32, 64}[r.intn(3)])
		}
	}
	return rc
}

func (rc ehRecipe) funcType() *tyTree { return tFn(rc.variadic, rc.ret, rc.params...) }

// ehKey names a definition by its place: "block:index", "block:term", "param:index"
type ehWant map[string]string

// c06EHText writes the function out and states the type of each definition
func c06EHText(rc ehRecipe, u *universe) (string, ehWant) {
	want := ehWant{}
	var b strings.Builder
	line := func(format string, a ...interface{}) { fmt.Fprintf(&b, format+"\n", a...) }
	var names []string
	for n := range u.named {
		names = append(names, n)
	}
	sort.Strings(names)
	for _, n := range names {
		var fs []string
		for _, f := range u.named[n].Fields {
			fs = append(fs, c16Text(treeOf(f)))
		}
		line("%%%s = type { %s }", quoteIfNeeded(n), strings.Join(fs, ", "))
	}
	ret, ft := c16Text(rc.ret), c16Text(rc.funcType())
	var ps, args []string
	for _, p := range rc.params {
		ps = append(ps, c16Text(p))
		args = append(args, c16Text(p)+" undef")
	}
	if rc.variadic {
		ps = append(ps, "...")
		args = append(args, "i32 7")
	}
	callee := "@callee"
	if rc.viaPtr {
		callee = "%fp"
	} else {
		line("declare %s @callee(%s)", ret, strings.Join(ps, ", "))
	}
	line("declare void @side()")
	line("declare i32 @pers(...)")
	line("define void @f(%s* %%fp, i32 %%x, i1 %%c) personality i32 (...)* @pers {", ft)
	want["param:0"], want["param:1"], want["param:2"] = ft+"*", "i32", "i1"
	// results: named, or numbered in the order of their definitions
	next := 0
	ids := map[string]string{}
	def := func(name string) string {
		if rc.named {
			ids[name] = "%" + name
		} else {
			ids[name] = fmt.Sprintf("%%%d", next)
			next++
		}
		return ids[name]
	}
	spell := ret
	if rc.fullType {
		spell = ft
	}
	site := func(name string) string {
		if rc.ret.kind == 'v' {
			return ""
		}
		return def(name) + " = "
	}
	line("entry:")
	if rc.landing {
		line("\t%sinvoke %s %s(%s) to label %%cont unwind label %%lp", site("iv"), spell, callee, strings.Join(args, ", "))
		want["entry:term"] = ret
		line("lp:")
		line("\t%s = landingpad %s cleanup", def("l"), c16Text(rc.lpType))
		want["lp:0"] = c16Text(rc.lpType)
		line("\tresume %s %s", c16Text(rc.lpType), ids["l"])
	} else {
		line("\t%sinvoke %s %s(%s) to label %%cont unwind label %%cs", site("iv"), spell, callee, strings.Join(args, ", "))
		want["entry:term"] = ret
		line("cs:")
		var hs []string
		for k := 0; k < rc.handlers; k++ {
			hs = append(hs, fmt.Sprintf("label %%h%d", k))
		}
		unw := "to caller"
		if rc.swUnwind {
			unw = "label %cl"
		}
		line("\t%s = catchswitch within none [%s] unwind %s", def("sw"), strings.Join(hs, ", "), unw)
		want["cs:term"] = "token"
		for k := 0; k < rc.handlers; k++ {
			line("h%d:", k)
			var cas []string
			for j := 0; j < (rc.catchArgs+k)%3; j++ {
				cas = append(cas, "i32 %x")
			}
			cp := def(fmt.Sprintf("cp%d", k))
			line("\t%s = catchpad within %s [%s]", cp, ids["sw"], strings.Join(cas, ", "))
			want[fmt.Sprintf("h%d:0", k)] = "token"
			if rc.bundle {
				line("\tcall void @side() [ \"funclet\"(token %s) ]", cp)
				want[fmt.Sprintf("h%d:1", k)] = "void"
			}
			line("\tcatchret from %s to label %%other", cp)
		}
		line("cl:")
		pa := ""
		if rc.padArg {
			pa = "i32 %x"
		}
		line("\t%s = cleanuppad within none [%s]", def("pad"), pa)
		want["cl:0"] = "token"
		if rc.crUnwind {
			line("\tcleanupret from %s unwind label %%cl2", ids["pad"])
		} else {
			line("\tcleanupret from %s unwind to caller", ids["pad"])
		}
		line("cl2:")
		line("\t%s = cleanuppad within none []", def("pad2"))
		want["cl2:0"] = "token"
		if rc.nested {
			line("\tinvoke void @side() [ \"funclet\"(token %s) ] to label %%cl2c unwind label %%cs2", ids["pad2"])
			want["cl2:term"] = "void"
			line("cl2c:")
			line("\tcleanupret from %s unwind to caller", ids["pad2"])
			line("cs2:")
			line("\t%s = catchswitch within %s [label %%h9] unwind to caller", def("sw2"), ids["pad2"])
			want["cs2:term"] = "token"
			line("h9:")
			line("\t%s = catchpad within %s []", def("cp9"), ids["sw2"])
			want["h9:0"] = "token"
			line("\tcatchret from %s to label %%cl2c", ids["cp9"])
		} else {
			line("\tcleanupret from %s unwind to caller", ids["pad2"])
		}
	}
	line("cont:")
	if rc.asmGoto {
		// the callee is an inline-assembly value of type R (i8*)*; its result type is R
		cons, aspell := "X", ret
		if rc.ret.kind != 'v' {
			cons = "=r,X"
		}
		if rc.fullType {
			aspell = ret + " (i8*)"
		}
		line("\t%scallbr %s asm sideeffect \"\", \"%s\"(i8* blockaddress(@f, %%other)) to label %%fall [label %%other]", site("cb"), aspell, cons)
	} else {
		line("\t%scallbr %s %s(%s) to label %%fall [label %%other]", site("cb"), spell, callee, strings.Join(args, ", "))
	}
	want["cont:term"] = ret
	line("fall:")
	if rc.ret.kind != 'v' {
		line("\t%s = select i1 %%c, %s %s, %s %s", def("u"), ret, ids["iv"], ret, ids["cb"])
		want["fall:0"] = ret
	}
	line("\tret void")
	line("other:")
	line("\tret void")
	line("}")
	return b.String(), want
}

// c06EHBuild assembles the same function through the constructors
func c06EHBuild(rc ehRecipe, u *universe) *ir.Module {
	m := ir.NewModule()
	var names []string
	for n := range u.named {
		names = append(names, n)
	}
	sort.Strings(names)
	for _, n := range names {
		m.TypeDefs = append(m.TypeDefs, u.named[n])
	}
	ft := rc.funcType().build(u).(*types.FuncType)
	var callee value.Value
	if !rc.viaPtr {
		var ps []*ir.Param
		for _, p := range rc.params {
			ps = append(ps, ir.NewParam("", p.build(u)))
		}
		cf := m.NewFunc("callee", rc.ret.build(u), ps...)
		cf.Sig.Variadic = rc.variadic
		cf.Typ = nil // (the pointer type was computed by the constructor, before the signature was complete)
		_ = cf.Type()
		callee = cf
	}
	side := m.NewFunc("side", types.Void)
	pers := m.NewFunc("pers", types.I32)
	pers.Sig.Variadic = true
	pers.Typ = nil
	_ = pers.Type()
	fp, x, c := ir.NewParam("fp", types.NewPointer(ft)), ir.NewParam("x", types.I32), ir.NewParam("c", types.I1)
	f := m.NewFunc("f", types.Void, fp, x, c)
	f.Personality = pers
	if rc.viaPtr {
		callee = fp
	}
	args := func() []value.Value {
		var as []value.Value
		for _, p := range rc.params {
			as = append(as, constant.NewUndef(p.build(u)))
		}
		if rc.variadic {
			as = append(as, constant.NewInt(types.I32, 7))
		}
		return as
	}
	name := func(v value.Named, n string) {
		if rc.named {
			v.SetName(n)
		}
	}
	nameSite := func(v value.Named, n string) {
		if rc.ret.kind != 'v' {
			name(v, n)
		}
	}
	entry := f.NewBlock("entry")
	var iv *ir.TermInvoke
	if rc.landing {
		lp := f.NewBlock("lp")
		cont, fall, other := f.NewBlock("cont"), f.NewBlock("fall"), f.NewBlock("other")
		iv = entry.NewInvoke(callee, args(), cont, lp)
		nameSite(iv, "iv")
		l := lp.NewLandingPad(rc.lpType.build(u))
		l.Cleanup = true
		name(l, "l")
		lp.NewResume(l)
		c06EHTail(rc, f, cont, fall, other, callee, args(), iv, c, name, nameSite)
		return m
	}
	cs := f.NewBlock("cs")
	var hs []*ir.Block
	for k := 0; k < rc.handlers; k++ {
		hs = append(hs, f.NewBlock(fmt.Sprintf("h%d", k)))
	}
	cl, cl2 := f.NewBlock("cl"), f.NewBlock("cl2")
	var cl2c, cs2, h9 *ir.Block
	if rc.nested {
		cl2c, cs2, h9 = f.NewBlock("cl2c"), f.NewBlock("cs2"), f.NewBlock("h9")
	}
	cont, fall, other := f.NewBlock("cont"), f.NewBlock("fall"), f.NewBlock("other")
	iv = entry.NewInvoke(callee, args(), cont, cs)
	nameSite(iv, "iv")
	var unw *ir.Block
	if rc.swUnwind {
		unw = cl
	}
	sw := cs.NewCatchSwitch(constant.None, hs, unw)
	name(sw, "sw")
	for k, h := range hs {
		var cas []value.Value
		for j := 0; j < (rc.catchArgs+k)%3; j++ {
			cas = append(cas, x)
		}
		cp := h.NewCatchPad(sw, cas...)
		name(cp, fmt.Sprintf("cp%d", k))
		if rc.bundle {
			call := h.NewCall(side)
			call.OperandBundles = append(call.OperandBundles, ir.NewOperandBundle("funclet", cp))
		}
		h.NewCatchRet(cp, other)
	}
	var pas []value.Value
	if rc.padArg {
		pas = append(pas, x)
	}
	pad := cl.NewCleanupPad(constant.None, pas...)
	name(pad, "pad")
	if rc.crUnwind {
		cl.NewCleanupRet(pad, cl2)
	} else {
		cl.NewCleanupRet(pad, nil)
	}
	pad2 := cl2.NewCleanupPad(constant.None)
	name(pad2, "pad2")
	if rc.nested {
		inv := cl2.NewInvoke(side, nil, cl2c, cs2)
		inv.OperandBundles = append(inv.OperandBundles, ir.NewOperandBundle("funclet", pad2))
		cl2c.NewCleanupRet(pad2, nil)
		sw2 := cs2.NewCatchSwitch(pad2, []*ir.Block{h9}, nil)
		name(sw2, "sw2")
		cp9 := h9.NewCatchPad(sw2)
		name(cp9, "cp9")
		h9.NewCatchRet(cp9, cl2c)
	} else {
		cl2.NewCleanupRet(pad2, nil)
	}
	c06EHTail(rc, f, cont, fall, other, callee, args(), iv, c, name, nameSite)
	return m
}

func c06EHTail(rc ehRecipe, f *ir.Func, cont, fall, other *ir.Block, callee value.Value, args []value.Value, iv *ir.TermInvoke, c value.Value, name, nameSite func(value.Named, string)) {
	if rc.asmGoto {
		var ret types.Type = types.Void
		cons := "X"
		if rc.ret.kind != 'v' {
			ret, cons = types.NewInt(rc.ret.n), "=r,X"
		}
		ia := ir.NewInlineAsm(types.NewPointer(types.NewFunc(ret, types.NewPointer(types.I8))), "", cons)
		ia.SideEffect = true
		callee, args = ia, []value.Value{constant.NewBlockAddress(f, other)}
	}
	cb := cont.NewCallBr(callee, args, fall, other)
	nameSite(cb, "cb")
	if rc.ret.kind != 'v' {
		sel := fall.NewSelect(c, iv, cb)
		name(sel, "u")
	}
	fall.NewRet(nil)
	other.NewRet(nil)
}

// c06EHCheck reads the type of every definition of @f from the definition and from each of its users
func c06EHCheck(c *config, m *ir.Module, want ehWant, how string, det map[string]interface{}) {
	o := c.out
	var f *ir.Func
	for _, fn := range m.Funcs {
		if fn.Name() == "f" {
			f = fn
		}
	}
	// (one report per module: the first disagreement, and how many there are)
	nfail := 0
	var first func()
	fail := func(what, key, got, wanted string) {
		nfail++
		if first != nil {
			return
		}
		first = func() {
			d := map[string]interface{}{"module": how, "definition": key, "got": got, "llvm": wanted, "disagreements_in_this_module": nfail}
			for k, v := range det {
				d[k] = v
			}
			o.Fail("result_type", "", what, d)
		}
	}
	defer func() {
		if first != nil {
			first()
		}
	}()
	if f == nil {
		fail("the function is missing from the module", "@f", "", "")
		return
	}
	keys := map[interface{}]string{}
	for i, p := range f.Params {
		keys[p] = fmt.Sprintf("param:%d", i)
	}
	for _, b := range f.Blocks {
		for i, inst := range b.Insts {
			keys[inst] = fmt.Sprintf("%s:%d", b.Name(), i)
		}
		keys[b.Term] = b.Name() + ":term"
	}
	typeOf := func(v value.Value) string {
		var s string
		oc, _ := guard(func() error {
			t := v.Type()
			s = "Ok " + t.String()
			// the predicates and Equal agree with the text
			if (s == "Ok token") != (types.IsToken(t) && types.Equal(t, types.Token) && types.Equal(types.Token, t)) {
				s += " (but IsToken/Equal(token) say otherwise)"
			}
			return nil
		})
		if oc != ocOk {
			return "Panic"
		}
		return s
	}
	seen := 0
	checkDef := func(def interface{}) {
		k, ok := keys[def]
		if !ok {
			return
		}
		w, ok := want[k]
		if !ok {
			return
		}
		seen++
		if got := typeOf(def.(value.Value)); got != "Ok "+w {
			fail("the type of a definition differs from LLVM's rule", k, got, w)
		} else {
			o.Pass("result_type")
		}
	}
	checkUse := func(user interface{}, ops []value.Value) {
		for i, op := range ops {
			if op == nil {
				continue
			}
			w, ok := "", false
			if _, isNone := op.(*constant.NoneToken); isNone {
				w, ok = "token", true
			} else if k, has := keys[op]; has {
				w, ok = want[k]
			}
			if !ok {
				continue
			}
			if got := typeOf(op); got != "Ok "+w {
				fail(fmt.Sprintf("the type of operand %d of %s, as its user holds it, differs from LLVM's rule", i, keys[user]), keys[op], got, w)
			} else {
				o.Pass("result_type")
			}
		}
	}
	operandsOf := func(x interface{}) []value.Value {
		var ops []value.Value
		if h, ok := x.(interface{ Operands() []*value.Value }); ok {
			oc, _ := guard(func() error {
				for _, p := range h.Operands() {
					ops = append(ops, *p)
				}
				return nil
			})
			if oc != ocOk {
				ops = nil
			}
		}
		var bundles []*ir.OperandBundle
		switch x := x.(type) {
		case *ir.InstCall:
			bundles = x.OperandBundles
		case *ir.TermInvoke:
			bundles = x.OperandBundles
		case *ir.TermCallBr:
			bundles = x.OperandBundles
		// the fields, whether or not Operands lists them
		case *ir.InstCatchPad:
			ops = append(ops, x.CatchSwitch)
		case *ir.InstCleanupPad:
			ops = append(ops, x.ParentPad)
		case *ir.TermCatchSwitch:
			ops = append(ops, x.ParentPad)
		case *ir.TermCatchRet:
			ops = append(ops, x.CatchPad)
		case *ir.TermCleanupRet:
			ops = append(ops, x.CleanupPad)
		case *ir.TermResume:
			ops = append(ops, x.X)
		}
		for _, bd := range bundles {
			ops = append(ops, bd.Inputs...)
		}
		return ops
	}
	for _, p := range f.Params {
		checkDef(p)
	}
	for _, b := range f.Blocks {
		for _, inst := range b.Insts {
			checkDef(inst)
			checkUse(inst, operandsOf(inst))
		}
		checkDef(b.Term)
		checkUse(b.Term, operandsOf(b.Term))
	}
	if seen != len(want) {
		fail(fmt.Sprintf("the module does not hold the definitions of the recipe: %d of %d found", seen, len(want)), "@f", "", "")
	}
}

func c06EH(c *config, r *rng) {
	o := c.out
	g := newTyGen(r)
	u := newUniverse()
	for _, n := range g.names {
		u.namedStruct(n)
	}
	for i := 0; i < 250*c.scale; i++ {
		rc := c06EHRecipe(r, g)
		src, want := c06EHText(rc, u)
		o.Stat("eh.recipes")
		if rc.landing {
			o.Stat("eh.landingpad_style")
		} else {
			o.Stat("eh.funclet_style")
		}
		o.Nontrivial("eh:" + src)
		det := map[string]interface{}{"recipe": src}
		// (1) the generator's text, parsed.  (The grammar is narrower than LLVM's in places: a text it turns down
		// is not counted.)
		var pm *ir.Module
		oc, msg := guard(func() error {
			var err error
			pm, err = asm.ParseString("c06eh.ll", src)
			return err
		})
		switch oc {
		case ocOk:
			c06EHCheck(c, pm, want, "parsed from the generator's text", det)
		case ocErr:
			if o.stats["eh.text_rejected"] == 0 {
				o.Sample(map[string]interface{}{"eh_text_rejected_by_the_grammar": src, "msg": msg})
			}
			o.Stat("eh.text_rejected")
		default:
			o.Fail("result_type", "", "the parser crashes on a function with exception-handling terminators", map[string]interface{}{"recipe": src, "msg": msg})
		}
		// (2) the constructors
		var bm *ir.Module
		oc, msg = guard(func() error { bm = c06EHBuild(rc, u); return nil })
		if oc != ocOk {
			o.Fail("result_type", "", "a constructor rejects a well-typed recipe", map[string]interface{}{"recipe": src, "msg": msg})
			continue
		}
		c06EHCheck(c, bm, want, "assembled through the constructors", det)
		// (3) printed and parsed
		var printed string
		oc, msg = guard(func() error {
			printed = bm.String()
			var err error
			pm, err = asm.ParseString("c06ehp.ll", printed)
			return err
		})
		if oc != ocOk {
			o.Fail("result_type", "", "the constructed function does not print and parse: "+oc.String(), map[string]interface{}{"recipe": src, "printed": printed, "msg": msg})
			continue
		}
		det2 := map[string]interface{}{"recipe": src, "printed": printed}
		c06EHCheck(c, pm, want, "constructed, printed and parsed", det2)
		if i == 0 {
			o.Sample(map[string]interface{}{"eh_recipe": src})
		}
	}
}
