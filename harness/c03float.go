package main

import (
	"fmt"
	"math"
	"strings"

	"github.com/llir/llvm/ir/constant"
	"github.com/llir/llvm/ir/types"
)

// c03FloatConstructor: C03 says the text denotes exactly what was constructed, constant values included.
func c03FloatConstructor(c *config, r *rng) {
	o := c.out
	// the constructor on a double that is not a value of the kind (half, float): the constant printed is the
	// nearest value of the kind (ties to even, denormals included, beyond the range infinity) in LLVM's spelling,
	// never a literal LLVM rejects (KF-48: the last 29 bits were cleared instead).  Expected values: the
	// hardware's float32 conversion, and for half a rounding written here over exact power-of-two scalings.
	for i := 0; i < 1500*c.scale; i++ {
		var d float64
		switch r.intn(8) {
		case 0: // the denormal range of float and below it
			d = math.Ldexp(1+float64(r.next()>>12)/(1<<52), -127-r.intn(30))
		case 1: // around the largest float
			d = math.Float64frombits(0x47EFFFFFE0000000 - 1<<30 + r.next()>>33)
		case 2: // the denormal range of half and below it
			d = math.Ldexp(1+float64(r.next()>>12)/(1<<52), -15-r.intn(14))
		case 3: // around the largest half (65504; 65520 and above round to infinity)
			d = 65472 + float64(r.intn(1<<20))/(1<<13)
		case 4: // exact ties of float: a float plus half an ulp
			f := math.Float32frombits(uint32(1+r.intn(253))<<23 | uint32(r.next()>>41))
			d = float64(f) + float64(math.Nextafter32(f, float32(math.Inf(1)))-f)/2
		default:
			d = math.Float64frombits((uint64(1023-30+r.intn(60)) << 52) | r.next()>>12)
		}
		if r.coin() {
			d = -d
		}
		wantF := fmt.Sprintf("0x%X", math.Float64bits(float64(float32(d))))
		wantH := fmt.Sprintf("0xH%04X", c03HalfBits(d))
		for _, kw := range []struct {
			typ  *types.FloatType
			want string
		}{{types.Float, wantF}, {types.Half, wantH}} {
			o.Stat("float_constructor_cases")
			var printed string
			oc, msg := guard(func() error { printed = constant.NewFloat(kw.typ, d).Ident(); return nil })
			ok := oc == ocOk && printed == kw.want
			if oc == ocOk && !ok {
				// a value of the kind may also be written in decimal: then it must read back as the expected bits
				if c2, err := constant.NewFloatFromString(kw.typ, printed); err == nil && !strings.HasPrefix(printed, "0x") {
					if c3, err := constant.NewFloatFromString(kw.typ, kw.want); err == nil && c2.X.Cmp(c3.X) == 0 {
						ok = true
					}
				}
			}
			if !ok {
				cls := ""
				if kw.typ == types.Half && oc == ocOk {
					// KF-49: the half printer goes through binary16.NewFromBig of github.com/mewmew/float, which does not round
					cls = "half_constructor_inexact"
				}
				o.Fail("constant_value", cls, "the constructor on a double that is not a value of the kind does not print the nearest value of the kind",
					map[string]interface{}{"kind": kw.typ.String(), "value": fmt.Sprintf("%b", d), "printed": printed, "nearest": kw.want, "msg": msg})
			} else {
				o.Pass("constant_value")
			}
		}
	}
}

// c03HalfBits rounds a double to the nearest IEEE half (ties to even; 65520 and above to infinity) and returns its
// bits.  All scalings are by powers of two, hence exact.
func c03HalfBits(d float64) uint16 {
	var sign uint16
	if math.Signbit(d) {
		sign = 0x8000
		d = -d
	}
	if d == 0 {
		return sign
	}
	if d < math.Ldexp(1, -14) { // denormal range: multiples of 2^-24
		n := math.RoundToEven(math.Ldexp(d, 24))
		return sign | uint16(n) // n = 1024 is the smallest normal, the same bits
	}
	_, ex := math.Frexp(d) // d = m * 2^ex, m in [0.5, 1)
	e := ex - 1
	n := math.RoundToEven(math.Ldexp(d, 10-e)) // in [1024, 2048]
	if n == 2048 {
		e, n = e+1, 1024
	}
	if e > 15 {
		return sign | 0x7C00
	}
	return sign | uint16(e+15)<<10 | uint16(n-1024)
}
