package main

// C12, histories with operations that FAIL.  The determinism rounds of runC12 repeat parses and prints that succeed
// (or are rejected with an error); state that survives only an abnormal exit -- a print that panics half-way and is
// recovered by the caller, a write that stops at a failing writer, a parse that panics -- is never left behind by
// them.  Here every input's parse+print result is compared
//   - with the result of the first round of this process, and
//   - with the result a fresh child process computes that performs NO failing operation at all (it is given only the
//     inputs the parent accepted),
// after each of a rotating list of failing operations: printing constructed modules with a block that lacks its
// terminator or with a wrong stored ID (the panic comes after types, globals and earlier functions were written),
// printing a parsed input whose last block lost its terminator, WriteTo into a writer that fails after n bytes,
// parsing the crash inputs of known_findings.txt, rejected and truncated texts.  Modules parsed BEFORE a failing
// operation must print the same text after it; and the same comparison runs while other goroutines do nothing but
// fail.

import (
	"bufio"
	"context"
	"encoding/json"
	"errors"
	"fmt"
	"os"
	"os/exec"
	"strconv"
	"strings"
	"sync"
	"sync/atomic"
	"time"

	"github.com/llir/llvm/asm"
	"github.com/llir/llvm/ir"
	"github.com/llir/llvm/ir/constant"
	"github.com/llir/llvm/ir/types"
)

func init() {
	props["C12-clean"] = c12CleanChild
}

// c12CleanChild: digests of the texts listed in the file $VERIF_C12_SRCS, nothing else happens in the process
func c12CleanChild(c *config) {
	b, err := os.ReadFile(os.Getenv("VERIF_C12_SRCS"))
	if err != nil {
		panic(err)
	}
	var srcs []string
	if err := json.Unmarshal(b, &srcs); err != nil {
		panic(err)
	}
	for i, s := range srcs {
		c.out.Case("digest", []string{strconv.Itoa(i)}, []string{digestOf(s)})
	}
}

type c12Op struct {
	name string
	src  string // the text involved, if any (for the report)
	run  func() string
}

type c12FailWriter struct{ left int }

func (w *c12FailWriter) Write(p []byte) (int, error) {
	if len(p) > w.left {
		n := w.left
		w.left = 0
		return n, errors.New("writer full")
	}
	w.left -= len(p)
	return len(p), nil
}

// how an operation ended, as text (statistics only: what is asserted is the effect on LATER operations)
func c12Ended(f func() error) string {
	oc, _ := guard(f)
	return oc.String()
}

// a constructed module whose print panics after part of the text was produced
func c12BrokenModule(k int) *ir.Module {
	m := ir.NewModule()
	m.SourceFilename = fmt.Sprintf("leftover%d.c", k)
	for i := 0; i <= k%3; i++ {
		m.NewTypeDef(fmt.Sprintf("leftover.t%d", i), types.NewStruct(types.I32, types.I8))
	}
	for i := 0; i <= k%4; i++ {
		m.NewGlobalDef(fmt.Sprintf("leftover.g%d", i), constant.NewInt(types.I32, int64(100+i)))
	}
	ok := m.NewFunc("leftover.ok", types.I32, ir.NewParam("x", types.I32))
	eb := ok.NewBlock("entry")
	eb.NewRet(eb.NewAdd(ok.Params[0], constant.NewInt(types.I32, 1)))
	bad := m.NewFunc("leftover.bad", types.I32, ir.NewParam("", types.I32))
	b0 := bad.NewBlock("")
	v := b0.NewAdd(bad.Params[0], constant.NewInt(types.I32, 2))
	switch k % 3 {
	case 0:
		// no terminator in the only block
	case 1:
		// a later block without terminator: the first is printed in full
		b1 := bad.NewBlock("later")
		b0.NewBr(b1)
		b1.NewMul(v, v)
	default:
		// a stored ID that is not the value's position
		v.SetID(7)
		b0.NewRet(v)
	}
	return m
}

func c12FailingOps(inputs []string, firstRound map[int]string, r *rng) []c12Op {
	var ops []c12Op
	for k := 0; k < 6; k++ {
		k := k
		ops = append(ops, c12Op{name: fmt.Sprintf("String() of constructed module %d whose print panics (recovered)", k), run: func() string {
			return "print:" + c12Ended(func() error { _ = c12BrokenModule(k).String(); return nil })
		}})
	}
	// accepted inputs with a function body: the last block of the last definition loses its terminator
	var withBody []int
	for idx, src := range inputs {
		if strings.HasPrefix(firstRound[idx], "ok:") && strings.Contains(src, "\ndefine ") && len(src) < 20000 {
			withBody = append(withBody, idx)
		}
	}
	for n := 0; n < 8 && len(withBody) > 0; n++ {
		src := inputs[withBody[r.intn(len(withBody))]]
		ops = append(ops, c12Op{name: "String() of a parsed input after its last block lost the terminator (recovered)", src: src, run: func() string {
			return "print:" + c12Ended(func() error {
				m, err := asm.ParseString("h.ll", src)
				if err != nil {
					return err
				}
				for i := len(m.Funcs) - 1; i >= 0; i-- {
					if bs := m.Funcs[i].Blocks; len(bs) > 0 {
						bs[len(bs)-1].Term = nil
						break
					}
				}
				_ = m.String()
				return nil
			})
		}})
		cut := 1 + r.intn(len(src)-1)
		ops = append(ops, c12Op{name: fmt.Sprintf("WriteTo of a parsed input into a writer that fails after %d bytes", cut), src: src, run: func() string {
			return "write:" + c12Ended(func() error {
				m, err := asm.ParseString("h.ll", src)
				if err != nil {
					return nil
				}
				_, err = m.WriteTo(&c12FailWriter{left: cut})
				return err
			})
		}})
		trunc := src[:cut]
		ops = append(ops, c12Op{name: fmt.Sprintf("parse of an input truncated after %d bytes", cut), src: trunc, run: func() string {
			return "parse:" + c12Ended(func() error { _, err := asm.ParseString("h.ll", trunc); return err })
		}})
	}
	// the listed crash inputs and plain rejections
	for _, src := range []string{
		"%v = type <vscale x 2 x i32>\n",
		"@a = global i32 1\n@g = global ppc_fp128 0xM7FF0000000000000FFF0000000000000\n",
		"@a = global i32 1\n@g = global i8* getelementptr (i8, i8* null, i64 add (i64 1, i64 2))\n",
		"!0 = !{}\n!1 = distinct !DICompileUnit(language: DW_LANG_C99, file: !0)\n",
		"@a = global i32 1\ndefine i1 @f() {\n\tret i1 -1\n}\n",
		"%a = type %b\n",
		"@a = global i32 1\n@g = global i32* @nosuch\n",
		"@a = global i32 1\ndefine void @f() {\n\tbr label %nosuch\n}\n",
		"@a = global i32 1\n@a = global i32 2\n",
		"@a = global i32 1\ndefine void @f() {\n\tret void\n",
		"@a = global i32 1\n@s = global [2 x i8] c\"abc\n",
	} {
		src := src
		ops = append(ops, c12Op{name: "parse (and print, if accepted) of a text that is rejected or crashes", src: src, run: func() string {
			return "parse:" + c12Ended(func() error {
				m, err := asm.ParseString("h.ll", src)
				if err != nil {
					return err
				}
				_ = m.String()
				return nil
			})
		}})
	}
	for idx, src := range inputs {
		if firstRound[idx] != "" && !strings.HasPrefix(firstRound[idx], "ok:") && len(src) < 20000 && len(ops) < 60 {
			src := src
			ops = append(ops, c12Op{name: "parse of a rejected input", src: src, run: func() string {
				return "parse:" + c12Ended(func() error { _, err := asm.ParseString("h.ll", src); return err })
			}})
		}
	}
	return ops
}

// c12CleanReference runs the child; digests by position in srcs
func c12CleanReference(c *config, srcs []string) ([]string, error) {
	exe, err := os.Executable()
	if err != nil {
		exe = os.Args[0]
	}
	list := c.outPath + ".c12srcs"
	childOut := c.outPath + ".c12clean"
	defer os.Remove(list)
	defer os.Remove(childOut)
	js, _ := json.Marshal(srcs)
	if err := os.WriteFile(list, js, 0o600); err != nil {
		return nil, err
	}
	ctx, cancel := context.WithTimeout(context.Background(), 2*time.Minute)
	defer cancel()
	cmd := exec.CommandContext(ctx, exe, "C12-clean", "-seed", fmt.Sprint(c.seed), "-tier", c.tier, "-out", childOut)
	cmd.Env = append(os.Environ(), "VERIF_C12_SRCS="+list)
	if outb, err := cmd.CombinedOutput(); err != nil {
		return nil, fmt.Errorf("%v: %s", err, outb[:min(len(outb), 600)])
	}
	f, err := os.Open(childOut)
	if err != nil {
		return nil, err
	}
	defer f.Close()
	ref := make([]string, len(srcs))
	sc := bufio.NewScanner(f)
	sc.Buffer(make([]byte, 1<<16), 1<<22)
	for sc.Scan() {
		t := strings.Split(sc.Text(), "\t")
		if len(t) == 5 && t[0] == "C" && t[1] == "digest" {
			if i, err := strconv.Atoi(t[2]); err == nil && i >= 0 && i < len(ref) {
				ref[i] = t[4]
			}
		}
	}
	for i, d := range ref {
		if d == "" {
			return nil, fmt.Errorf("the clean child reported no digest for input %d", i)
		}
	}
	return ref, nil
}

func c12FailingHistory(c *config, inputs []string, firstRound map[int]string) {
	o := c.out
	reported := 0
	fail := func(kind string, det map[string]string) {
		// every later result may differ once something was left behind: a handful of reports is enough
		if reported < 4 {
			if len(det["src"]) > 6000 {
				det["src"] = det["src"][:6000]
			}
			if len(det["history_src"]) > 3000 {
				det["history_src"] = det["history_src"][:3000]
			}
			o.Fail("deterministic", "", kind, det)
		} else {
			o.Stat("failing_history.further_differences")
		}
		reported++
	}
	// ---- the reference of a process in which nothing fails
	var okIdx []int
	var okSrc []string
	for idx, src := range inputs {
		if strings.HasPrefix(firstRound[idx], "ok:") {
			okIdx = append(okIdx, idx)
			okSrc = append(okSrc, src)
		}
	}
	clean := map[int]string{}
	if ref, err := c12CleanReference(c, okSrc); err != nil {
		o.Fail("deterministic", "", "the child process that computes the reference results did not run", map[string]string{"err": err.Error()})
	} else {
		for k, idx := range okIdx {
			clean[idx] = ref[k]
			if ref[k] != firstRound[idx] {
				fail("the result differs from that of a fresh process that only parses and prints accepted inputs: "+firstRound[idx]+" vs "+ref[k], map[string]string{"src": inputs[idx], "history": "the inputs before it in the first round, rejected ones among them"})
			} else {
				o.Pass("same_as_fresh_process")
			}
		}
	}
	expect := func(idx int, got string, op *c12Op, history, hsrc string) {
		want := firstRound[idx]
		if got == want {
			if cw, ok := clean[idx]; ok && got != cw {
				want = cw
			}
		}
		if got != want {
			det := map[string]string{"src": inputs[idx], "history": history, "history_src": hsrc}
			if op != nil && reported < 4 {
				// the same two steps once more, for the report: what is printed now
				op.run()
				guard(func() error {
					if m, err := asm.ParseString("x.ll", inputs[idx]); err == nil {
						t := m.String()
						det["printed_after_the_same_history"] = t[:min(len(t), 500)]
					}
					return nil
				})
			}
			fail("the result depends on an operation that failed earlier in the process: "+got+" vs "+want, det)
		} else {
			o.Pass("independent_of_failed_operations")
		}
	}
	r := newRng(c.seed, "c12-failing")
	ops := c12FailingOps(inputs, firstRound, r)
	// modules parsed before the failures, printed after them
	type held struct {
		idx  int
		m    *ir.Module
		text string
	}
	var keep []held
	for _, idx := range okIdx {
		if len(inputs[idx]) < 20000 && len(keep) < 12 {
			if m, err := asm.ParseString("k.ll", inputs[idx]); err == nil {
				keep = append(keep, held{idx, m, m.String()})
			}
		}
	}
	// ---- one failing operation before every parse+print
	for round := 0; round < 2; round++ {
		for idx, src := range inputs {
			if len(src) > 20000 && round > 0 {
				continue
			}
			op := ops[(idx*7+round*3)%len(ops)]
			o.Stat("failing_ops." + op.run())
			expect(idx, digestOf(src), &op, op.name, op.src)
			if h := keep[(idx+round)%len(keep)]; len(keep) > 0 {
				var again string
				oc, _ := guard(func() error { again = h.m.String(); return nil })
				if oc != ocOk || again != h.text {
					fail("a module parsed before a failed operation prints another text after it", map[string]string{"src": inputs[h.idx], "history": op.name, "history_src": op.src, "printed": again[:min(len(again), 600)], "outcome": oc.String()})
				} else {
					o.Pass("independent_of_failed_operations")
				}
			}
		}
	}
	// ---- a burst of failures, then everything once more
	for _, op := range ops {
		o.Stat("failing_ops." + op.run())
	}
	for idx, src := range inputs {
		if len(src) <= 20000 {
			expect(idx, digestOf(src), nil, "all failing operations, one after the other", "")
		}
	}
	// ---- goroutines that do nothing but fail, next to goroutines that parse and print
	var stop int32
	var wgF, wgP sync.WaitGroup
	for g := 0; g < 4; g++ {
		wgF.Add(1)
		go func(g int) {
			defer wgF.Done()
			for k := g; atomic.LoadInt32(&stop) == 0; k++ {
				ops[k%len(ops)].run()
			}
		}(g)
	}
	var mu sync.Mutex
	type diff struct {
		idx int
		got string
	}
	var diffs []diff
	var small []int
	for idx, src := range inputs {
		if len(src) < 8000 {
			small = append(small, idx)
		}
	}
	for g := 0; g < 4; g++ {
		wgP.Add(1)
		go func(g int) {
			defer wgP.Done()
			for k := g; k < len(small); k += 4 {
				idx := small[k]
				d := digestOf(inputs[idx])
				if d != firstRound[idx] {
					mu.Lock()
					diffs = append(diffs, diff{idx, d})
					mu.Unlock()
				}
			}
		}(g)
	}
	wgP.Wait()
	atomic.StoreInt32(&stop, 1)
	wgF.Wait()
	o.StatN("failing_history.concurrent_parses", len(small))
	for _, d := range diffs {
		fail("the result depends on operations that fail concurrently in other goroutines: "+d.got+" vs "+firstRound[d.idx], map[string]string{"src": inputs[d.idx], "history": "four goroutines that print modules whose print panics, write to failing writers and parse rejected texts"})
	}
	if len(diffs) == 0 {
		o.Pass("independent_of_failed_operations")
	}
}
