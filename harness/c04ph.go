package main

// C04, second half: the correspondence between the model of the two-phase translation with blockaddress
// placeholders (coq/theories/Proofs/PlaceholderProofs.v: run / observe) and package asm.
//
// A generator writes modules whose only interesting content is blockaddress constants: in the
// initialisers of global variables (bare, inside arrays, structures, vectors and constant expressions),
// in instructions and terminators (store, select, phi, call, icmp, getelementptr, ret, indirectbr, br,
// switch, inline metadata attachments), in numbered metadata definitions and in module-level use-list
// orders; naming blocks of the same and of other functions, defined before and after the site, with named,
// quoted, numeric-looking and unnamed (numbered) blocks and global names; plus faulty variants (missing
// block, a local that is not a block, missing function, a declaration, a global variable named as the
// function, duplicate labels, duplicate global names).
//
// The model's input is written from the generator's own knowledge of what it wrote (never from the parsed
// module):
//
//	module = part ; part ; ... ; L|sites
//	part   = v|ID|sites                      global variable, the sites of its initialiser (and attachments)
//	       | d|ID                            function declaration
//	       | f|ID|label:sites/label:sites    function definition, per block the sites of its instructions and terminator
//	L|sites                                  late sites: numbered metadata definitions by ID, then use-list orders in textual order
//	sites  = F.B,F.B,...                     blockaddress(@F, %B) in textual order
//	ID, F, B, label = x<hex of the name> | <decimal number>   (unnamed blocks and globals arrive numbered)
//
// The observation on the implementation (after asm.ParseString), the same text the driver prints for the model:
//
//	Ok  ent ; ent ; ... ; L=consts        |  Err  |  Panic
//	ent    = v=consts | f<P>=<Q>:consts/<Q>:consts/...    P: f.Parent == m, Q: b.Parent == f
//	consts = c,c,...   c = <i>.<j>  i: index of c.Func among the module's globals and functions in textual order,
//	                              j: index of c.Block in c.Func.(*ir.Func).Blocks, both by pointer comparison; "-" when not found
//
// Every module is parsed twice (the orders in which package asm ranges over its maps differ between the two);
// the model is run with the identity oracles and with the reversing oracle for the order of the bodies.

import (
	"fmt"
	"reflect"
	"regexp"
	"strconv"
	"strings"

	"github.com/llir/llvm/ir"
	"github.com/llir/llvm/ir/constant"
	"github.com/llir/llvm/ir/metadata"
	"github.com/llir/llvm/ir/types"
)

type phIdent struct {
	named bool
	name  string
	id    int64
}

func phName(s string) phIdent { return phIdent{named: true, name: s} }
func phNum(n int64) phIdent   { return phIdent{id: n} }

func (i phIdent) tok() string {
	if i.named {
		return hx(i.name)
	}
	return strconv.FormatInt(i.id, 10)
}

var phPlain = regexp.MustCompile(`^[A-Za-z$._][A-Za-z$._0-9]*$`)

func (i phIdent) text() string {
	if !i.named {
		return strconv.FormatInt(i.id, 10)
	}
	if phPlain.MatchString(i.name) {
		return i.name
	}
	var sb strings.Builder
	sb.WriteByte('"')
	for _, c := range []byte(i.name) {
		if c == '"' || c == '\\' || c < 0x20 || c >= 0x7f {
			fmt.Fprintf(&sb, "\\%02X", c)
		} else {
			sb.WriteByte(c)
		}
	}
	sb.WriteByte('"')
	return sb.String()
}
func (i phIdent) global() string { return "@" + i.text() }
func (i phIdent) local() string  { return "%" + i.text() }

type phSite struct{ f, b phIdent }

type phInst struct {
	kind    string
	value   bool    // produces a value
	result  phIdent // of a value
	operand int     // for phi: number of incoming values
}

type phBlock struct {
	label    phIdent
	implicit bool // an unnamed entry block written without a label
	insts    []*phInst
	term     string
	sites    []phSite
	lines    []string
}

type phTop struct {
	kind   byte // v d f
	id     phIdent
	params int // shape of the parameter list
	blocks []*phBlock
	sites  []phSite // of a global variable
	text   string
}

type phGen struct {
	r      *rng
	tops   []*phTop
	late   []phSite
	faults []string
	budget int // faulty sites still to write
	nsites int
	where  map[string]int
	dir    map[string]int // forward / backward / self
	curTop int
	curBlk int
}

// ---- the model's input

func phSites(l []phSite) string {
	var t []string
	for _, s := range l {
		t = append(t, s.f.tok()+"."+s.b.tok())
	}
	return strings.Join(t, ",")
}

func (g *phGen) encoding() string {
	var parts []string
	for _, t := range g.tops {
		switch t.kind {
		case 'v', 'a': // an alias is, for the model, a global variable: not a function, its aliasee an initialiser
			parts = append(parts, "v|"+t.id.tok()+"|"+phSites(t.sites))
		case 'd':
			parts = append(parts, "d|"+t.id.tok())
		default:
			var bl []string
			for _, b := range t.blocks {
				bl = append(bl, b.label.tok()+":"+phSites(b.sites))
			}
			parts = append(parts, "f|"+t.id.tok()+"|"+strings.Join(bl, "/"))
		}
	}
	parts = append(parts, "L|"+phSites(g.late))
	return strings.Join(parts, ";")
}

// ---- generation

var phParams = []string{"", "i8* %p", "i8*", "i8* %p, i64", "i64, i8* %q, i8*"}
var phUnnamedParams = []int{0, 0, 1, 1, 2}
var phParamNames = [][]string{nil, {"p"}, nil, {"p"}, {"q"}}

func genPlaceholders(seed uint64, stream string) (string, *phGen) {
	r := newRng(seed, stream)
	g := &phGen{r: r, where: map[string]int{}, dir: map[string]int{}}
	// ---- the entities and the shape of the bodies (everything that decides a number)
	n := 1 + r.intn(7)
	gpool := []string{"f", "g", "h", "k", "v", "w", "a.b", "x y", "7", "0", "q-1", "_z", "1"}
	gperm := r.perm(len(gpool))
	unnamed := int64(0)
	hasDef := false
	for i := 0; i < n; i++ {
		t := &phTop{}
		switch k := r.intn(100); {
		case k < 50:
			t.kind = 'f'
			hasDef = true
		case k < 78:
			t.kind = 'v'
		case k < 86:
			t.kind = 'a'
		default:
			t.kind = 'd'
		}
		g.tops = append(g.tops, t)
	}
	if !hasDef && r.chance(90) {
		g.tops[r.intn(n)].kind = 'f'
	}
	faulty := r.chance(35)
	dupTop, dupLabel := false, false
	if faulty {
		switch k := r.intn(100); {
		case k < 15:
			dupTop = n > 1
		case k < 40:
			dupLabel = true
		default:
			g.budget = 1 + r.intn(2)
		}
	}
	for i, t := range g.tops {
		if r.chance(25) {
			t.id = phNum(unnamed)
			unnamed++
		} else {
			t.id = phName(gpool[gperm[i]])
		}
	}
	if dupTop {
		i, j := r.intn(n), r.intn(n)
		if !g.tops[i].id.named {
			i, j = j, i
		}
		if i != j && g.tops[i].id.named {
			// the second definition of a name; the numbers of the unnamed entities stay in sequence
			if !g.tops[j].id.named {
				for _, t := range g.tops {
					if !t.id.named && t.id.id > g.tops[j].id.id {
						t.id.id--
					}
				}
			}
			g.tops[j].id = g.tops[i].id
			g.faults = append(g.faults, "duplicate_global")
		}
	}
	for _, t := range g.tops {
		if t.kind == 'v' || t.kind == 'a' {
			continue
		}
		t.params = r.intn(len(phParams))
		if t.kind == 'd' {
			continue
		}
		ctr := int64(phUnnamedParams[t.params])
		lpool := []string{"a", "b", "c", "entry", "x.y", "l 1", "3", "0", "1", "2"}
		lperm := r.perm(len(lpool))
		nb := 1 + r.intn(5)
		vals := 0
		for k := 0; k < nb; k++ {
			b := &phBlock{}
			if r.chance(35) {
				b.label = phNum(ctr)
				ctr++
				b.implicit = k == 0 && r.chance(60)
			} else {
				b.label = phName(lpool[lperm[k]])
			}
			ni := r.intn(4)
			for q := 0; q < ni; q++ {
				in := &phInst{}
				kinds := []string{"store", "select", "ptrtoint", "icmp", "gep", "call", "callv", "insertvalue", "extractvalue", "storemd", "plain"}
				in.kind = kinds[r.intn(len(kinds))]
				if q == 0 && r.chance(25) {
					in.kind = "phi"
					in.operand = 1 + r.intn(3)
				}
				switch in.kind {
				case "store", "callv", "storemd":
				default:
					in.value = true
					if r.chance(35) {
						in.result = phNum(ctr)
						ctr++
					} else {
						in.result = phName(fmt.Sprintf("v%d", vals))
						vals++
					}
				}
				b.insts = append(b.insts, in)
			}
			terms := []string{"ret", "ret", "indirectbr", "indirectbr", "br", "condbr", "switch", "unreachable", "retnull"}
			b.term = terms[r.intn(len(terms))]
			t.blocks = append(t.blocks, b)
		}
		if dupLabel {
			var named []int
			for k, b := range t.blocks {
				if b.label.named {
					named = append(named, k)
				}
			}
			if len(named) > 1 {
				p := r.perm(len(named))
				t.blocks[named[p[0]]].label = t.blocks[named[p[1]]].label
				g.faults = append(g.faults, "duplicate_label")
				dupLabel = false
			}
		}
	}
	// ---- the text, with the sites
	for i, t := range g.tops {
		g.curTop, g.curBlk = i, -1
		switch t.kind {
		case 'v':
			g.genVar(t)
		case 'a':
			// the aliasee is a typed constant; the sites are those of an initialiser
			t.text = fmt.Sprintf("%s = alias i8, i8* %s\n", t.id.global(), g.constant(&t.sites, "i8*", 2, "aliasee"))
		case 'd':
			t.text = fmt.Sprintf("declare i8* %s(%s)\n", t.id.global(), strings.ReplaceAll(strings.ReplaceAll(phParams[t.params], " %p", ""), " %q", ""))
		default:
			g.genDef(t)
		}
	}
	// late sites: numbered metadata definitions (observed, and encoded, by ID), use-list orders (textual order)
	g.curTop, g.curBlk = len(g.tops), -1
	var lateLines []string
	nMD := r.intn(4)
	mdText := make([]string, nMD)
	for k := 0; k < nMD; k++ {
		var ops []string
		for q := 0; q < 1+r.intn(3); q++ {
			switch r.intn(5) {
			case 0:
				ops = append(ops, fmt.Sprintf("!%d", r.intn(nMD)))
			case 1:
				ops = append(ops, "!{i8* "+g.constant(&g.late, "i8*", 1, "metadata")+", !\"s\"}")
			case 2:
				ops = append(ops, fmt.Sprintf("i32 %d", k))
			default:
				ops = append(ops, "i8* "+g.constant(&g.late, "i8*", 2, "metadata"))
			}
		}
		d := ""
		if r.chance(30) {
			d = "distinct "
		}
		mdText[k] = fmt.Sprintf("!%d = %s!{%s}\n", k, d, strings.Join(ops, ", "))
	}
	for _, k := range r.perm(nMD) {
		lateLines = append(lateLines, mdText[k])
	}
	if nMD > 0 && r.coin() {
		lateLines = append(lateLines, "!named = !{!0}\n")
	}
	nUL := r.intn(3)
	for k := 0; k < nUL; k++ {
		lateLines = append(lateLines, fmt.Sprintf("uselistorder i8* %s, { 1, 0 }\n", g.constant(&g.late, "i8*", 1, "uselistorder")))
	}
	// the late lines keep their relative order and go anywhere between the entities
	slots := make([][]string, len(g.tops)+1)
	at := 0
	if r.coin() {
		at = len(g.tops) // the usual place: after everything
	}
	for _, l := range lateLines {
		if at < len(g.tops) && r.chance(50) {
			at += r.intn(len(g.tops) - at + 1)
		}
		slots[at] = append(slots[at], l)
	}
	var sb strings.Builder
	for i, t := range g.tops {
		for _, l := range slots[i] {
			sb.WriteString(l)
		}
		sb.WriteString(t.text)
	}
	for _, l := range slots[len(g.tops)] {
		sb.WriteString(l)
	}
	return sb.String(), g
}

// target chooses the function and the block a blockaddress constant names.
func (g *phGen) target(where string) phSite {
	r := g.r
	var defs, decls, vars []int
	for i, t := range g.tops {
		switch t.kind {
		case 'f':
			defs = append(defs, i)
		case 'd':
			decls = append(decls, i)
		default: // global variables and aliases
			vars = append(vars, i)
		}
	}
	g.nsites++
	g.where[where]++
	fault := ""
	if g.budget > 0 && r.chance(20) || len(defs) == 0 {
		kinds := []string{"missing_block", "missing_block", "not_a_block", "quoted_number", "missing_function", "declaration", "global_variable"}
		fault = kinds[r.intn(len(kinds))]
		if len(defs) == 0 && (fault == "missing_block" || fault == "not_a_block" || fault == "quoted_number") {
			fault = "missing_function"
		}
		if fault == "declaration" && len(decls) == 0 || fault == "global_variable" && len(vars) == 0 {
			fault = "missing_function"
		}
		g.budget--
	}
	anyLabel := func() phIdent {
		if r.coin() {
			return phName([]string{"a", "b", "0", "nosuch"}[r.intn(4)])
		}
		return phNum(int64(r.intn(3)))
	}
	switch fault {
	case "missing_function":
		g.faults = append(g.faults, fault)
		if r.coin() {
			return phSite{phName("nosuch"), anyLabel()}
		}
		return phSite{phNum(40 + int64(r.intn(3))), anyLabel()}
	case "declaration":
		g.faults = append(g.faults, fault)
		return phSite{g.tops[decls[r.intn(len(decls))]].id, anyLabel()}
	case "global_variable":
		g.faults = append(g.faults, fault)
		return phSite{g.tops[vars[r.intn(len(vars))]].id, anyLabel()}
	}
	fi := defs[r.intn(len(defs))]
	f := g.tops[fi]
	has := func(l phIdent) bool {
		for _, b := range f.blocks {
			if b.label == l {
				return true
			}
		}
		return false
	}
	var cand []phIdent
	switch fault {
	case "missing_block":
		cand = []phIdent{phName("nosuch"), phNum(99), phName("a"), phNum(0), phNum(1), phName("0")}
	case "not_a_block": // parameters and instruction results are locals of the function, but no blocks
		for _, p := range phParamNames[f.params] {
			cand = append(cand, phName(p))
		}
		for k := 0; k < phUnnamedParams[f.params]; k++ {
			cand = append(cand, phNum(int64(k)))
		}
		for _, b := range f.blocks {
			for _, in := range b.insts {
				if in.value {
					cand = append(cand, in.result)
				}
			}
		}
	case "quoted_number": // %"3" is a name, %3 a number
		for _, b := range f.blocks {
			if b.label.named {
				if n, err := strconv.ParseInt(b.label.name, 10, 64); err == nil {
					cand = append(cand, phNum(n))
				}
			} else {
				cand = append(cand, phName(strconv.FormatInt(b.label.id, 10)))
			}
		}
	}
	if fault != "" {
		var miss []phIdent
		for _, c := range cand {
			if !has(c) {
				miss = append(miss, c)
			}
		}
		if len(miss) > 0 {
			g.faults = append(g.faults, fault)
			return phSite{f.id, miss[r.intn(len(miss))]}
		}
		g.budget++
	}
	bi := r.intn(len(f.blocks))
	switch {
	case fi == g.curTop && bi == g.curBlk:
		g.dir["self"]++
	case fi < g.curTop || fi == g.curTop && bi < g.curBlk:
		g.dir["backward"]++
	default:
		g.dir["forward"]++
	}
	if fi != g.curTop && g.curTop < len(g.tops) && g.tops[g.curTop].kind == 'f' {
		g.dir["other_function"]++
	}
	return phSite{f.id, f.blocks[bi].label}
}

// constant writes a constant of the type (without the type) and appends its sites in textual order.
func (g *phGen) constant(sites *[]phSite, typ string, depth int, where string) string {
	r := g.r
	c := func(t string) string { return g.constant(sites, t, depth-1, where) }
	if typ == "i64" {
		if depth <= 0 || r.chance(40) {
			return strconv.Itoa(r.intn(9))
		}
		switch r.intn(3) {
		case 0:
			return "ptrtoint (i8* " + c("i8*") + " to i64)"
		case 1:
			return "sub (i64 " + c("i64") + ", i64 " + c("i64") + ")"
		default:
			return "add (i64 ptrtoint (i8* " + c("i8*") + " to i64), i64 " + c("i64") + ")"
		}
	}
	if depth <= 0 || r.chance(55) {
		if r.chance(12) {
			return "null"
		}
		s := g.target(where)
		*sites = append(*sites, s)
		return fmt.Sprintf("blockaddress(%s, %s)", s.f.global(), s.b.local())
	}
	switch r.intn(4) {
	case 0:
		return "getelementptr (i8, i8* " + c("i8*") + ", i64 " + g.gepIndex(sites, depth-1, where) + ")"
	case 1:
		return "select (i1 true, i8* " + c("i8*") + ", i8* " + c("i8*") + ")"
	case 2:
		return "inttoptr (i64 " + c("i64") + " to i8*)"
	default:
		return "bitcast (i8* " + c("i8*") + " to i8*)"
	}
}

// gepIndex writes an index of getelementptr: a literal or ptrtoint (the parser panics on other constant
// expressions in this position: KF-09, not the subject here).
func (g *phGen) gepIndex(sites *[]phSite, depth int, where string) string {
	if depth <= 0 || g.r.coin() {
		return strconv.Itoa(g.r.intn(9))
	}
	return "ptrtoint (i8* " + g.constant(sites, "i8*", depth-1, where) + " to i64)"
}

// typed writes a type and a constant of it: scalars, arrays, structures, vectors.
func (g *phGen) typed(sites *[]phSite, depth int, where string) string {
	r := g.r
	switch k := r.intn(10); {
	case depth <= 0 || k < 4:
		return "i8* " + g.constant(sites, "i8*", 2, where)
	case k < 5:
		return "i64 " + g.constant(sites, "i64", 2, where)
	case k < 7:
		n := 1 + r.intn(3)
		var el []string
		for i := 0; i < n; i++ {
			el = append(el, "i8* "+g.constant(sites, "i8*", 1, where))
		}
		return fmt.Sprintf("[%d x i8*] [%s]", n, strings.Join(el, ", "))
	case k < 8:
		var el []string
		for i := 0; i < 2; i++ {
			el = append(el, "i8* "+g.constant(sites, "i8*", 1, where))
		}
		return fmt.Sprintf("<2 x i8*> <%s>", strings.Join(el, ", "))
	default:
		n := 1 + r.intn(3)
		var ts, el []string
		for i := 0; i < n; i++ {
			e := g.typed(sites, depth-1, where)
			el = append(el, e)
			ts = append(ts, phTypeOf(e))
		}
		return fmt.Sprintf("{ %s } { %s }", strings.Join(ts, ", "), strings.Join(el, ", "))
	}
}

// phTypeOf returns the type a text written by typed starts with.
func phTypeOf(e string) string {
	switch {
	case strings.HasPrefix(e, "i8* "):
		return "i8*"
	case strings.HasPrefix(e, "i64 "):
		return "i64"
	case strings.HasPrefix(e, "["):
		return e[:strings.Index(e, "]")+1]
	case strings.HasPrefix(e, "<"):
		return e[:strings.Index(e, ">")+1]
	}
	// a structure: the type ends at the brace that closes the first one
	d := 0
	for i, c := range e {
		switch c {
		case '{':
			d++
		case '}':
			d--
			if d == 0 {
				return e[:i+1]
			}
		}
	}
	return e
}

func (g *phGen) genVar(t *phTop) {
	r := g.r
	switch k := r.intn(10); {
	case k < 1:
		t.text = fmt.Sprintf("%s = external global i8*\n", t.id.global())
	case k < 2:
		t.text = fmt.Sprintf("%s = global i32 %d\n", t.id.global(), r.intn(9))
	default:
		kw := "global"
		if r.coin() {
			kw = "constant"
		}
		init := g.typed(&t.sites, 2, "initialiser")
		md := ""
		if r.chance(15) {
			md = ", !dbg !{i8* " + g.constant(&t.sites, "i8*", 1, "global attachment") + "}"
		}
		t.text = fmt.Sprintf("%s = %s %s%s\n", t.id.global(), kw, init, md)
	}
}

func (g *phGen) genDef(t *phTop) {
	r := g.r
	var sb strings.Builder
	fmt.Fprintf(&sb, "define i8* %s(%s) {\n", t.id.global(), phParams[t.params])
	lbl := func() string { return "label " + t.blocks[r.intn(len(t.blocks))].label.local() }
	for bi, b := range t.blocks {
		g.curBlk = bi
		if !b.implicit {
			fmt.Fprintf(&sb, "%s:\n", b.label.text())
		}
		c := func(typ string, where string) string { return g.constant(&b.sites, typ, 2, where) }
		for _, in := range b.insts {
			lhs := ""
			if in.value {
				lhs = in.result.local() + " = "
			}
			var l string
			switch in.kind {
			case "store":
				l = "store i8* " + c("i8*", "instruction") + ", i8** null"
			case "storemd":
				l = "store i8* " + c("i8*", "instruction") + ", i8** null, !note !{i8* " + c("i8*", "instruction attachment") + "}"
			case "select":
				l = "select i1 true, i8* " + c("i8*", "instruction") + ", i8* " + c("i8*", "instruction")
			case "ptrtoint":
				l = "ptrtoint i8* " + c("i8*", "instruction") + " to i64"
			case "icmp":
				l = "icmp eq i8* " + c("i8*", "instruction") + ", " + c("i8*", "instruction")
			case "gep":
				l = "getelementptr i8, i8* " + c("i8*", "instruction") + ", i64 " + g.gepIndex(&b.sites, 1, "instruction")
			case "call":
				l = "call i8* (i8*, i64) null(i8* " + c("i8*", "instruction") + ", i64 " + c("i64", "instruction") + ")"
			case "callv":
				l = "call void (i8*, i8*) null(i8* " + c("i8*", "instruction") + ", i8* " + c("i8*", "instruction") + ")"
			case "insertvalue":
				l = "insertvalue { i8*, i64 } undef, i8* " + c("i8*", "instruction") + ", 0"
			case "extractvalue":
				l = "extractvalue { i8*, i64 } { i8* " + c("i8*", "instruction") + ", i64 " + c("i64", "instruction") + " }, 0"
			case "phi":
				var inc []string
				for q := 0; q < in.operand; q++ {
					inc = append(inc, "[ "+c("i8*", "instruction")+", "+t.blocks[r.intn(len(t.blocks))].label.local()+" ]")
				}
				l = "phi i8* " + strings.Join(inc, ", ")
			default:
				l = "add i64 1, 2"
			}
			fmt.Fprintf(&sb, "\t%s%s\n", lhs, l)
		}
		var l string
		switch b.term {
		case "ret":
			l = "ret i8* " + c("i8*", "terminator")
		case "retnull":
			l = "ret i8* null"
		case "indirectbr":
			l = "indirectbr i8* " + c("i8*", "terminator") + ", [" + lbl() + ", " + lbl() + "]"
		case "br":
			l = "br " + lbl()
		case "condbr":
			l = "br i1 icmp eq (i8* " + c("i8*", "terminator") + ", i8* " + c("i8*", "terminator") + "), " + lbl() + ", " + lbl()
		case "switch":
			l = "switch i64 " + c("i64", "terminator") + ", " + lbl() + " [ i64 " + c("i64", "terminator") + ", " + lbl() + " ]"
		default:
			l = "unreachable"
		}
		fmt.Fprintf(&sb, "\t%s\n", l)
	}
	sb.WriteString("}\n")
	t.text = sb.String()
}

// ---- the observation on the implementation

// phCollect appends the blockaddress constants below v in the order of the fields: through constants,
// operand lists, inline metadata; not through definitions (globals, functions, blocks, parameters, other
// instructions, numbered metadata) or types.
func phCollect(v reflect.Value, top bool, acc *[]*constant.BlockAddress, depth int) {
	if !v.IsValid() || depth > 60 {
		return
	}
	switch v.Kind() {
	case reflect.Interface:
		if !v.IsNil() {
			phCollect(v.Elem(), top, acc, depth)
		}
	case reflect.Ptr:
		if v.IsNil() || !v.CanInterface() {
			return
		}
		switch x := v.Interface().(type) {
		case *constant.BlockAddress:
			*acc = append(*acc, x)
			return
		case *ir.Func, *ir.Global, *ir.Alias, *ir.IFunc, *ir.Block, *ir.Param, types.Type:
			return
		case metadata.Definition:
			if !top && x.ID() >= 0 {
				return
			}
		case ir.Instruction, ir.Terminator:
			if !top {
				return
			}
		}
		phCollect(v.Elem(), false, acc, depth+1)
	case reflect.Struct:
		for i := 0; i < v.NumField(); i++ {
			sf := v.Type().Field(i)
			if sf.PkgPath != "" || sf.Name == "Parent" || sf.Name == "Typ" {
				continue
			}
			phCollect(v.Field(i), false, acc, depth+1)
		}
	case reflect.Slice, reflect.Array:
		for i := 0; i < v.Len(); i++ {
			phCollect(v.Index(i), false, acc, depth+1)
		}
	}
}

func phObserve(g *phGen, m *ir.Module) string {
	// the entities in textual order: the generator knows the sequence of kinds, the module lists each kind in textual order
	var ents []constant.Constant
	ng, nf, na := 0, 0, 0
	for _, t := range g.tops {
		if t.kind == 'v' {
			if ng >= len(m.Globals) {
				return "Ok shape: global variable missing"
			}
			ents = append(ents, m.Globals[ng])
			ng++
		} else if t.kind == 'a' {
			if na >= len(m.Aliases) {
				return "Ok shape: alias missing"
			}
			ents = append(ents, m.Aliases[na])
			na++
		} else {
			if nf >= len(m.Funcs) {
				return "Ok shape: function missing"
			}
			ents = append(ents, m.Funcs[nf])
			nf++
		}
	}
	if ng != len(m.Globals) || nf != len(m.Funcs) || na != len(m.Aliases) {
		return "Ok shape: more entities than written"
	}
	consts := func(vs ...interface{}) string {
		var acc []*constant.BlockAddress
		for _, v := range vs {
			phCollect(reflect.ValueOf(v), true, &acc, 0)
		}
		var t []string
		for _, c := range acc {
			fi, bi := -1, -1
			for i, e := range ents {
				if e == c.Func {
					fi = i
				}
			}
			if f, ok := c.Func.(*ir.Func); ok {
				for j, b := range f.Blocks {
					if interface{}(b) == interface{}(c.Block) {
						bi = j
					}
				}
			}
			if fi < 0 || bi < 0 {
				t = append(t, "-")
			} else {
				t = append(t, fmt.Sprintf("%d.%d", fi, bi))
			}
		}
		return strings.Join(t, ",")
	}
	var parts []string
	for _, e := range ents {
		switch x := e.(type) {
		case *ir.Global:
			parts = append(parts, "v="+consts(x.Init, x.Metadata))
		case *ir.Alias:
			parts = append(parts, "v="+consts(x.Aliasee))
		case *ir.Func:
			var bl []string
			for _, b := range x.Blocks {
				var vs []interface{}
				for _, in := range b.Insts {
					vs = append(vs, in)
				}
				vs = append(vs, b.Term)
				bl = append(bl, b2s(b.Parent == x)+":"+consts(vs...))
			}
			parts = append(parts, "f"+b2s(x.Parent == m)+"="+strings.Join(bl, "/"))
		}
	}
	var late []interface{}
	for _, d := range m.MetadataDefs {
		late = append(late, d)
	}
	for _, u := range m.UseListOrders {
		late = append(late, u.Value)
	}
	parts = append(parts, "L="+consts(late...))
	return "Ok " + strings.Join(parts, ";")
}

func c04Placeholders(c *config) {
	o := c.out
	for i := 0; i < 150*c.scale; i++ {
		src, g := genPlaceholders(c.seed, fmt.Sprintf("c04-placeholders-%d", i))
		var outs []string
		for rep := 0; rep < 2; rep++ {
			m, oc, _ := parseGuard(src)
			obs := oc.String()
			if oc == ocOk {
				oc2, msg := guard(func() error { obs = phObserve(g, m); return nil })
				if oc2 != ocOk {
					obs = "Ok observation failed: " + msg
				}
			}
			outs = append(outs, obs)
		}
		o.Case("placeholders", []string{g.encoding()}, outs)
		// the same observation, expected from what the generator wrote (no model involved): in a module written
		// without a fault every blockaddress constant is, by pointer, the block with the label written at the site,
		// in the function named there, and the parent links hold
		if len(g.faults) == 0 {
			want := phExpect(g)
			for rep, got := range outs {
				if got != want {
					o.Fail("reference_identity", "", "a blockaddress constant is not the block its site names (or a parent link is off)", map[string]interface{}{"src": src, "observed": got, "expected": want, "parse": rep})
					break
				}
			}
			o.Pass("blockaddress_binding")
		}
		o.Stat("placeholders.modules." + strings.Fields(outs[0])[0])
		o.StatN("placeholders.sites", g.nsites)
		for k, n := range g.where {
			o.StatN("placeholders.sites."+k, n)
		}
		for k, n := range g.dir {
			o.StatN("placeholders.targets."+k, n)
		}
		for _, f := range g.faults {
			o.Stat("placeholders.faults." + f)
		}
		if len(g.faults) == 0 {
			o.Stat("placeholders.faults.none")
		}
		if i < 1 {
			o.Sample(map[string]interface{}{"placeholders_module": src, "encoding": g.encoding(), "observed": outs[0]})
		}
	}
}

// phExpect renders what phObserve must see on a module the generator wrote without a fault
func phExpect(g *phGen) string {
	same := func(a, b phIdent) bool { return a.named == b.named && a.name == b.name && a.id == b.id }
	site := func(st phSite) string {
		for i, t := range g.tops {
			if t.kind == 'f' && same(t.id, st.f) {
				for j, b := range t.blocks {
					if same(b.label, st.b) {
						return fmt.Sprintf("%d.%d", i, j)
					}
				}
			}
		}
		return "-"
	}
	sites := func(l []phSite) string {
		var t []string
		for _, st := range l {
			t = append(t, site(st))
		}
		return strings.Join(t, ",")
	}
	var parts []string
	for _, t := range g.tops {
		switch t.kind {
		case 'v', 'a':
			parts = append(parts, "v="+sites(t.sites))
		default:
			var bl []string
			for _, b := range t.blocks {
				bl = append(bl, "1:"+sites(b.sites))
			}
			parts = append(parts, "f1="+strings.Join(bl, "/"))
		}
	}
	parts = append(parts, "L="+sites(g.late))
	return "Ok " + strings.Join(parts, ";")
}
