package main

// C17: metadata IDs are unique, references share node identity.

import (
	"fmt"
	"os"
	"path/filepath"
	"reflect"
	"regexp"
	"sort"
	"strings"

	"github.com/llir/llvm/asm"
	"github.com/llir/llvm/ir"
	"github.com/llir/llvm/ir/constant"
	"github.com/llir/llvm/ir/metadata"
	"github.com/llir/llvm/ir/types"
)

func init() { props["C17"] = runC17 }

// walkMetadataRefs visits every metadata definition reachable from the module through exported
// fields and calls f(def) for every value that implements metadata.Definition.
func walkMetadataRefs(m *ir.Module, f func(def metadata.Definition, path string)) {
	seen := map[uintptr]bool{}
	var walk func(v reflect.Value, path string, depth int)
	walk = func(v reflect.Value, path string, depth int) {
		if depth > 60 || !v.IsValid() {
			return
		}
		switch v.Kind() {
		case reflect.Interface:
			if !v.IsNil() {
				walk(v.Elem(), path, depth)
			}
		case reflect.Ptr:
			if v.IsNil() {
				return
			}
			if v.CanInterface() {
				if d, ok := v.Interface().(metadata.Definition); ok {
					f(d, path)
				}
			}
			if seen[v.Pointer()] {
				return
			}
			seen[v.Pointer()] = true
			// do not descend into types, functions referenced as values (their own walk covers them)
			if v.CanInterface() {
				if _, ok := v.Interface().(types.Type); ok {
					return
				}
			}
			walk(v.Elem(), path, depth+1)
		case reflect.Struct:
			for i := 0; i < v.NumField(); i++ {
				sf := v.Type().Field(i)
				if sf.PkgPath != "" || sf.Name == "Parent" {
					continue
				}
				walk(v.Field(i), path+"."+sf.Name, depth+1)
			}
		case reflect.Slice, reflect.Array:
			for i := 0; i < v.Len(); i++ {
				walk(v.Index(i), fmt.Sprintf("%s[%d]", path, i), depth+1)
			}
		case reflect.Map:
			keys := v.MapKeys()
			sort.Slice(keys, func(i, j int) bool { return fmt.Sprint(keys[i]) < fmt.Sprint(keys[j]) })
			for _, k := range keys {
				walk(v.MapIndex(k), fmt.Sprintf("%s[%v]", path, k), depth+1)
			}
		}
	}
	walk(reflect.ValueOf(m), "m", 0)
}

// identity oracle: every reachable numbered definition is the object the module lists under that ID
func c17Identity(m *ir.Module) (bad string, refs int) {
	byID := map[int64]metadata.Definition{}
	for _, d := range m.MetadataDefs {
		if _, dup := byID[d.ID()]; dup {
			return fmt.Sprintf("two definitions carry !%d", d.ID()), 0
		}
		byID[d.ID()] = d
	}
	walkMetadataRefs(m, func(d metadata.Definition, path string) {
		if d.ID() < 0 {
			return // inline node
		}
		refs++
		want, ok := byID[d.ID()]
		if !ok {
			if bad == "" {
				bad = fmt.Sprintf("%s refers to !%d, which the module does not define", path, d.ID())
			}
			return
		}
		if want != d && bad == "" {
			bad = fmt.Sprintf("%s holds a node numbered !%d that is not the module's definition !%d", path, d.ID(), d.ID())
		}
	})
	return
}

var reMDDef = regexp.MustCompile(`(?m)^!([0-9]+) = `)

func c17Assign(c *config, ids []int64, label string) {
	o := c.out
	m := ir.NewModule()
	for _, id := range ids {
		m.MetadataDefs = append(m.MetadataDefs, &metadata.Tuple{MetadataID: metadata.MetadataID(id)})
	}
	var in []string
	for _, id := range ids {
		in = append(in, fmt.Sprint(id))
	}
	var err error
	oc, _ := guard(func() error { err = m.AssignMetadataIDs(); return err })
	res := "Err"
	var out []int64
	if oc == ocOk {
		var s []string
		for _, d := range m.MetadataDefs {
			out = append(out, d.ID())
			s = append(s, fmt.Sprint(d.ID()))
		}
		res = "Ok " + strings.Join(s, ",")
	} else if oc == ocPanic {
		res = "Panic"
	}
	o.Case("md_assign", []string{strings.Join(in, ",")}, []string{res})
	o.Stat("assign." + label)
	o.Nontrivial("ids:" + strings.Join(in, ","))
	// oracle: unique, explicit kept, fresh = smallest unused in order; duplicate explicit -> error
	explicit := map[int64]int{}
	dup := false
	for _, id := range ids {
		if id != -1 {
			explicit[id]++
			if explicit[id] > 1 {
				dup = true
			}
		}
	}
	det := map[string]interface{}{"ids": in, "result": res}
	if dup {
		if oc != ocErr {
			o.Fail("md_ids", "", "duplicate explicit IDs not reported as an error", det)
		} else {
			o.Pass("md_ids")
		}
		return
	}
	if oc != ocOk {
		o.Fail("md_ids", "", "AssignMetadataIDs fails on distinct explicit IDs", det)
		return
	}
	next := int64(0)
	for i, id := range ids {
		if id != -1 {
			if out[i] != id {
				o.Fail("md_ids", "", "explicit ID changed", det)
				return
			}
			continue
		}
		for explicit[next] > 0 {
			next++
		}
		if out[i] != next {
			o.Fail("md_ids", "", "unassigned definition did not receive the smallest unused number", det)
			return
		}
		next++
	}
	o.Pass("md_ids")
	// printed definitions carry exactly these IDs, once each
	text := m.String()
	var printed []string
	for _, mm := range reMDDef.FindAllStringSubmatch(text, -1) {
		printed = append(printed, mm[1])
	}
	var want []string
	for _, v := range out {
		want = append(want, fmt.Sprint(v))
	}
	if strings.Join(printed, ",") != strings.Join(want, ",") {
		o.Fail("md_ids", "", "printed IDs differ from the assigned ones", det)
	}
}

// a random metadata graph as text: explicit sparse IDs, forward references, cycles, distinct,
// inline nodes, attachments, repeated named metadata
func c17GenGraph(r *rng) (src string, ids []int, named map[string][]int) {
	n := 2 + r.intn(8)
	used := map[int]bool{}
	for len(ids) < n {
		id := r.intn(3 * n)
		if !used[id] {
			used[id] = true
			ids = append(ids, id)
		}
	}
	ref := func() string { return fmt.Sprintf("!%d", ids[r.intn(len(ids))]) }
	var b strings.Builder
	named = map[string][]int{}
	// attachments on a global, a function declaration, a definition, an instruction and a terminator
	fmt.Fprintf(&b, "@g = global i32 0, !dbg %s, !foo %s\n", ref(), ref())
	fmt.Fprintf(&b, "declare !bar %s void @d()\n", ref())
	fmt.Fprintf(&b, "define void @f() !dbg %s {\n\t%%x = add i32 1, 2, !a %s, !b %s\n\tcall void @m(metadata %s), !c !{%s, i32 7}\n\tret void, !r %s\n}\n", ref(), ref(), ref(), ref(), ref(), ref())
	b.WriteString("declare void @m(metadata)\n")
	// kinds are fixed first so that typed references (file:, scope:) point at nodes of the right kind
	kinds := make([]int, len(ids))
	for k := range kinds {
		kinds[k] = r.intn(9)
	}
	kinds[0] = 3 // at least one DIFile
	var files, scopes, exprs, gvars []int
	for k, id := range ids {
		if kinds[k] == 6 {
			exprs = append(exprs, id)
		}
		if kinds[k] == 7 {
			gvars = append(gvars, id)
		}
		if kinds[k] == 3 {
			files = append(files, id)
			scopes = append(scopes, id)
		}
		if kinds[k] == 4 {
			scopes = append(scopes, id)
		}
	}
	order := r.perm(len(ids))
	for _, k := range order {
		id := ids[k]
		// named metadata interleaved, possibly repeated names
		if r.chance(30) {
			name := []string{"nm", "llvm.x", "nm2"}[r.intn(3)]
			var ns []string
			for j := 1 + r.intn(2); j > 0; j-- {
				t := ids[r.intn(len(ids))]
				ns = append(ns, fmt.Sprintf("!%d", t))
				named[name] = append(named[name], t)
			}
			fmt.Fprintf(&b, "!%s = !{%s}\n", name, strings.Join(ns, ", "))
		}
		dist := ""
		if r.chance(30) {
			dist = "distinct "
		}
		switch kinds[k] {
		case 0:
			fmt.Fprintf(&b, "!%d = %s!{%s, %s, null, !\"s\", i32 %d}\n", id, dist, ref(), ref(), id)
		case 1:
			fmt.Fprintf(&b, "!%d = %s!{!%d}\n", id, dist, id) // self reference
		case 2:
			// inline nodes: tuples and specialised nodes written in place
			inl := []string{"!DISubrange(count: 3)", "!DIEnumerator(name: \"e\", value: 1)", "!DIExpression(DW_OP_deref)", "!DIBasicType(name: \"int\", size: 32)", "!DISubroutineType(types: null)", "!DILocation(line: 1, column: 2, scope: " + fmt.Sprintf("!%d", scopes[r.intn(len(scopes))]) + ")"}
			fmt.Fprintf(&b, "!%d = %s!{!{%s}, !{!{%s}}, %s, %s}\n", id, dist, ref(), ref(), inl[r.intn(len(inl))], inl[r.intn(len(inl))])
		case 3:
			fmt.Fprintf(&b, "!%d = %s!DIFile(filename: \"a.c\", directory: \"/\")\n", id, dist)
		case 4:
			fmt.Fprintf(&b, "!%d = %s!DILexicalBlock(scope: !%d, file: !%d, line: %d)\n", id, dist, scopes[r.intn(len(scopes))], files[r.intn(len(files))], id+1)
		case 6:
			// a numbered expression: references to it are written !N, not as a copy in place
			fmt.Fprintf(&b, "!%d = %s!DIExpression(DW_OP_plus_uconst, %d)\n", id, dist, id)
		case 7:
			fmt.Fprintf(&b, "!%d = %s!DIGlobalVariable(name: \"v%d\", file: !%d, line: %d)\n", id, dist, id, files[r.intn(len(files))], id+1)
		case 8:
			v, e := "null", "!DIExpression()"
			if len(gvars) > 0 {
				v = fmt.Sprintf("!%d", gvars[r.intn(len(gvars))])
			}
			if len(exprs) > 0 && r.chance(70) {
				e = fmt.Sprintf("!%d", exprs[r.intn(len(exprs))])
			}
			fmt.Fprintf(&b, "!%d = %s!DIGlobalVariableExpression(var: %s, expr: %s)\n", id, dist, v, e)
		default:
			fmt.Fprintf(&b, "!%d = %s!DISubrange(count: %d)\n", id, dist, id)
		}
	}
	return b.String(), ids, named
}

var reFieldRef = regexp.MustCompile(`[A-Za-z]+: ![0-9]+`)

func runC17(c *config) {
	o := c.out
	r := newRng(c.seed, "c17")
	if c.replay != "" {
		rp := readReplay(c.replay)
		if src, ok := rp.Detail["src"].(string); ok {
			m, err := asm.ParseString("replay.ll", src)
			fmt.Println("parse:", err)
			if err == nil {
				bad, _ := c17Identity(m)
				fmt.Println("identity:", bad)
				fmt.Println(m.String())
			}
		}
		return
	}
	// 1. AssignMetadataIDs on ID vectors: unassigned, explicit, sparse, duplicate
	for i := 0; i < 1500*c.scale; i++ {
		n := r.intn(9)
		ids := make([]int64, n)
		label := "mixed"
		for k := range ids {
			if r.chance(50) {
				ids[k] = -1
			} else {
				ids[k] = int64(r.intn(2*n + 1))
			}
		}
		c17Assign(c, ids, label)
	}
	c17Assign(c, []int64{-1, 3, -1, 0, -1}, "example")
	c17Assign(c, []int64{0, 0}, "zero_value_ids") // two constructed nodes with Go's zero value: collide
	// 2. metadata graphs through the parser
	reMDRef := regexp.MustCompile(`!([0-9]+)`)
	for i := 0; i < 600*c.scale; i++ {
		src, ids, named := c17GenGraph(r)
		if i%3 == 2 {
			// IDs spelled with leading zeros (decimal all the same: !010 is !10), wherever no specialised node is
			// written on the line (those are compared verbatim with the printer's spelling below)
			lines := strings.Split(src, "\n")
			for k, l := range lines {
				if !strings.Contains(l, "!DI") {
					lines[k] = reMDRef.ReplaceAllStringFunc(l, func(m string) string {
						return "!" + strings.Repeat("0", r.intn(3)) + m[1:]
					})
				}
			}
			src = strings.Join(lines, "\n")
			o.Stat("graphs.leading_zero_ids")
		}
		var m *ir.Module
		var text string
		stage := "parse"
		oc, msg := guard(func() error {
			var err error
			m, err = asm.ParseString("c17.ll", src)
			if err != nil {
				return err
			}
			stage = "print"
			text = m.String()
			if printedPanic(text) {
				panic(text)
			}
			return nil
		})
		o.Stat("graphs")
		o.Nontrivial("g:" + src)
		det := map[string]interface{}{"src": src, "stage": stage, "msg": msg}
		if oc != ocOk {
			o.Fail("md_graph", "", "valid metadata graph rejected or crash at "+stage, det)
			continue
		}
		bad, refs := c17Identity(m)
		o.StatN("references_checked", refs)
		if bad == "" && len(m.MetadataDefs) != len(ids) {
			bad = fmt.Sprintf("%d definitions in the module, %d in the text", len(m.MetadataDefs), len(ids))
		}
		// named metadata merged in textual order
		for name, want := range named {
			def := m.NamedMetadataDefs[name]
			if def == nil || len(def.Nodes) != len(want) {
				bad = "named metadata " + name + " not merged"
				break
			}
			for k, nd := range def.Nodes {
				if d, ok := nd.(metadata.Definition); !ok || d.ID() != int64(want[k]) {
					bad = "named metadata " + name + " nodes out of textual order"
				}
			}
		}
		// explicit IDs kept, distinct preserved, inline stays inline: the printed text is a fixpoint
		if bad == "" {
			m2, err := asm.ParseString("c17b.ll", text)
			if err != nil {
				bad = "printed module does not re-parse: " + err.Error()
			} else if t2 := m2.String(); t2 != text {
				bad = "printed module is not a fixpoint"
			} else if b2, _ := c17Identity(m2); b2 != "" {
				bad = "after re-parse: " + b2
			}
		}
		for _, id := range ids {
			if bad == "" && !strings.Contains(text, fmt.Sprintf("\n!%d = ", id)) && !strings.HasPrefix(text, fmt.Sprintf("!%d = ", id)) {
				bad = fmt.Sprintf("explicit ID !%d not kept", id)
			}
		}
		// the specialised nodes are written in the printer's own spelling: each definition is printed as it was
		// written, references by ID included (a reference !N must not come back as a copy in place)
		for _, line := range strings.Split(src, "\n") {
			if bad == "" && strings.HasPrefix(line, "!") && strings.Contains(line, " = ") && strings.Contains(line, "!DI") && !strings.Contains(line, "!{") {
				if !strings.Contains("\n"+text, "\n"+line+"\n") {
					bad = "a specialised node is not printed as it was written: " + line
				}
			}
		}
		if bad != "" {
			det["printed"] = text
			o.Fail("md_graph", "", bad, det)
		} else {
			o.Pass("md_graph")
		}
		if i < 2 {
			o.Sample(map[string]interface{}{"src": src, "refs": refs})
		}
	}
	// 2b. two attachments on every instruction and terminator kind, in every syntactic variant (c17carriers.go)
	c17CarrierRun(c, newRng(c.seed, "c17carriers"))
	// 3. corpus modules with real debug info: identity and fixpoint; also with every specialised definition
	// written in place once more (inlineVariant, shared with C04)
	files, _ := filepath.Glob("/verif/corpus/modules/*.ll")
	var texts []string
	for _, f := range files {
		b, _ := os.ReadFile(f)
		texts = append(texts, string(b))
	}
	nfiles := len(files)
	for i := 0; i < nfiles; i++ {
		if v := inlineVariant(texts[i]); v != "" {
			files = append(files, files[i]+" (inline variant)")
			texts = append(texts, v)
		}
	}
	for fi, f := range files {
		b := []byte(texts[fi])
		m, err := asm.ParseString(f, string(b))
		if err != nil {
			o.Fail("md_corpus", "", "corpus module does not parse", map[string]string{"file": f, "err": err.Error()})
			continue
		}
		bad, refs := c17Identity(m)
		o.StatN("references_checked", refs)
		text := m.String()
		// a numbered specialised definition of the corpus is printed as it was written, field by field (the corpus
		// is in the printer's own spelling; a reference stored under another field prints under that field)
		// (field by field for the references: `key: !N` written under a key is printed under that key in the
		// definition of the same ID; scalar fields at their default value may legitimately be left out)
		printedDef := map[string]string{}
		for _, l := range strings.Split(text, "\n") {
			if sm := reSpecDef.FindStringSubmatch(l); sm != nil {
				printedDef[sm[1]] = l
			}
		}
		for _, line := range strings.Split(string(b), "\n") {
			sm := reSpecDef.FindStringSubmatch(line)
			if bad != "" || sm == nil {
				continue
			}
			for _, kv := range reFieldRef.FindAllString(line, -1) {
				if !strings.Contains(printedDef[sm[1]], kv) {
					bad = fmt.Sprintf("definition !%s: the reference written as %q is not printed under that field: %s", sm[1], kv, printedDef[sm[1]])
					break
				}
			}
		}
		if bad == "" {
			m2, err := asm.ParseString(f, text)
			if err != nil || m2.String() != text {
				bad = "printed corpus module is not a fixpoint"
			}
		}
		if bad != "" {
			o.Fail("md_corpus", "", bad, map[string]string{"file": f})
		} else {
			o.Pass("md_corpus")
		}
	}
	// 3b. the same modules with 'distinct' flipped on every numbered definition (added where it was absent,
	// removed where it was present) and with 'distinct' on all of them: a definition is printed distinct exactly
	// when it was written distinct, whatever kind of node it is
	reDef := regexp.MustCompile(`(?m)^!([0-9]+) = (distinct )?!`)
	for _, f := range files {
		b, _ := os.ReadFile(f)
		if !reDef.Match(b) {
			continue
		}
		for variant := 0; variant < 3; variant++ {
			want := map[string]bool{}
			src := reDef.ReplaceAllStringFunc(string(b), func(l string) string {
				sm := reDef.FindStringSubmatch(l)
				d := sm[2] != ""
				switch variant {
				case 1:
					d = !d
				case 2:
					d = true
				}
				want[sm[1]] = d
				if d {
					return "!" + sm[1] + " = distinct !"
				}
				return "!" + sm[1] + " = !"
			})
			var text string
			oc, msg := guard(func() error {
				m, err := asm.ParseString(f, src)
				if err != nil {
					return err
				}
				text = m.String()
				return nil
			})
			o.Stat("distinct_variants")
			if oc != ocOk {
				// a node kind that may not be distinct (or must be) is the parser's to reject; nothing to compare
				o.Stat("distinct_variant_rejected")
				_ = msg
				continue
			}
			bad := ""
			got := map[string]bool{}
			for _, sm := range reDef.FindAllStringSubmatch(text, -1) {
				got[sm[1]] = sm[2] != ""
			}
			for id, d := range want {
				if g, ok := got[id]; !ok {
					bad = "definition !" + id + " is not printed"
				} else if g != d {
					bad = fmt.Sprintf("definition !%s: written distinct=%v, printed distinct=%v", id, d, g)
				}
				if bad != "" {
					break
				}
			}
			if bad != "" {
				o.Fail("md_corpus", "", bad, map[string]interface{}{"file": f, "variant": variant, "src": src})
			} else {
				o.Pass("md_distinct_kept")
			}
		}
	}
	// 3c. histories on one module: print, exchange definitions for new unnumbered ones (the list keeps its length),
	// print again: every definition of the second print carries an ID and the text parses back to as many
	rh := newRng(c.seed, "c17-history")
	for i := 0; i < 120*c.scale; i++ {
		hm := ir.NewModule()
		n := 2 + rh.intn(5)
		for k := 0; k < n; k++ {
			hm.MetadataDefs = append(hm.MetadataDefs, &metadata.Tuple{MetadataID: -1, Fields: []metadata.Field{&metadata.String{Value: fmt.Sprintf("n%d", k)}}})
		}
		hm.NamedMetadataDefs["all"] = &metadata.NamedDef{Name: "all", Nodes: []metadata.Node{hm.MetadataDefs[0].(metadata.Node)}}
		var text string
		steps := 1 + rh.intn(3)
		oc, msg := guard(func() error {
			_ = hm.String()
			for st := 0; st < steps; st++ {
				k := rh.intn(len(hm.MetadataDefs))
				fresh := &metadata.Tuple{MetadataID: -1, Fields: []metadata.Field{&metadata.String{Value: fmt.Sprintf("fresh%d", st)}}}
				if rh.coin() {
					hm.MetadataDefs[k] = fresh // replaced in place
				} else {
					hm.MetadataDefs = append(append([]metadata.Definition{}, hm.MetadataDefs[:k]...), hm.MetadataDefs[k+1:]...)
					hm.MetadataDefs = append(hm.MetadataDefs, fresh) // removed, appended
				}
				hm.NamedMetadataDefs["all"].Nodes = []metadata.Node{fresh}
				text = hm.String()
			}
			return nil
		})
		o.Stat("md_histories")
		bad := ""
		if oc != ocOk {
			bad = "printing panics: " + msg
		} else if m2, err := asm.ParseString("c17h.ll", text); err != nil {
			bad = "the second print does not parse: " + err.Error()
		} else if len(m2.MetadataDefs) != n {
			bad = fmt.Sprintf("%d definitions in the module, %d after print and parse", n, len(m2.MetadataDefs))
		}
		if bad != "" {
			o.Fail("md_constructed", "", bad, map[string]interface{}{"printed": text, "definitions": n, "steps": steps})
		} else {
			o.Pass("md_history")
		}
	}
	// 4. constructed: references print the ID of the node they point to
	m := ir.NewModule()
	a := &metadata.Tuple{MetadataID: -1}
	bnode := &metadata.Tuple{MetadataID: 5, Fields: []metadata.Field{a}}
	a.Fields = []metadata.Field{bnode, a}
	m.MetadataDefs = append(m.MetadataDefs, a, bnode)
	g := m.NewGlobalDef("g", constant.NewInt(types.I32, 0))
	g.Metadata = append(g.Metadata, &metadata.Attachment{Name: "dbg", Node: bnode})
	text := m.String()
	if !strings.Contains(text, "!dbg !5") || !strings.Contains(text, "!0 = !{!5, !0}") || !strings.Contains(text, "!5 = !{!0}") {
		o.Fail("md_constructed", "", "references do not print the ID of the node they point to", map[string]string{"printed": text})
	} else {
		o.Pass("md_constructed")
	}
}
