package main

import (
	"bufio"
	"encoding/hex"
	"encoding/json"
	"fmt"
	"os"
	"sort"
	"strings"
)

// ---- deterministic PRNG (splitmix64); every random choice of a run derives from VERIF_SEED

type rng struct{ s uint64 }

func newRng(seed uint64, stream string) *rng {
	r := &rng{s: seed*0x9E3779B97F4A7C15 + 0x1234567}
	for _, c := range []byte(stream) {
		r.s = r.s*31 + uint64(c)
		r.next()
	}
	return r
}

func (r *rng) next() uint64 {
	r.s += 0x9E3779B97F4A7C15
	z := r.s
	z = (z ^ (z >> 30)) * 0xBF58476D1CE4E5B9
	z = (z ^ (z >> 27)) * 0x94D049BB133111EB
	return z ^ (z >> 31)
}

func (r *rng) intn(n int) int {
	if n <= 0 {
		return 0
	}
	return int(r.next() % uint64(n))
}
func (r *rng) coin() bool         { return r.next()&1 == 1 }
func (r *rng) chance(p int) bool  { return r.intn(100) < p }
func (r *rng) pick(s string) byte { return s[r.intn(len(s))] }
func (r *rng) perm(n int) []int {
	p := make([]int, n)
	for i := range p {
		p[i] = i
	}
	for i := n - 1; i > 0; i-- {
		j := r.intn(i + 1)
		p[i], p[j] = p[j], p[i]
	}
	return p
}

// ---- output protocol
//
//	C <kind> <in...> | <out...>     correspondence case: inputs and the implementation's projected observables
//	O <oracle> <class> <kind-of-failure> <json>   a failure of the property's own oracle on the implementation
//	                                              (class "-" when no known-finding class predicate holds)
//	P <oracle> <count>              how many oracle evaluations passed
//	S <key> <count>                 distribution statistics
//	X <json>                        a sample case, written out
//	N <count>                       number of distinct non-trivial cases by the property's rule
//
// Fields are separated by tabs; byte strings are hex encoded with a leading 'x' (so the empty string is "x").

type out struct {
	w        *bufio.Writer
	stats    map[string]int
	pass     map[string]int
	samples  int
	nontriv  map[string]bool
	failures int
	ncases   int
}

func newOut(path string) *out {
	f, err := os.Create(path)
	if err != nil {
		panic(err)
	}
	return &out{w: bufio.NewWriterSize(f, 1<<20), stats: map[string]int{}, pass: map[string]int{}, nontriv: map[string]bool{}}
}

func hx(s string) string { return "x" + hex.EncodeToString([]byte(s)) }
func unhx(s string) string {
	b, err := hex.DecodeString(strings.TrimPrefix(s, "x"))
	if err != nil {
		panic(err)
	}
	return string(b)
}
func hxs(ss []string) string {
	var t []string
	for _, s := range ss {
		t = append(t, hx(s))
	}
	if len(t) == 0 {
		return "-"
	}
	return strings.Join(t, ",")
}
func b2s(b bool) string {
	if b {
		return "1"
	}
	return "0"
}

// Case writes one correspondence case.
func (o *out) Case(kind string, in []string, outs []string) {
	o.ncases++
	fmt.Fprintf(o.w, "C\t%s\t%s\t|\t%s\n", kind, strings.Join(in, "\t"), strings.Join(outs, "\t"))
}

// Fail records a failure of the property oracle on the implementation.
func (o *out) Fail(oracle, class, failkind string, detail interface{}) {
	o.failures++
	js, _ := json.Marshal(detail)
	if class == "" {
		class = "-"
	}
	fmt.Fprintf(o.w, "O\t%s\t%s\t%s\t%s\n", oracle, class, failkind, js)
}
func (o *out) Pass(oracle string)      { o.pass[oracle]++ }
func (o *out) Stat(key string)         { o.stats[key]++ }
func (o *out) StatN(key string, n int) { o.stats[key] += n }
func (o *out) Nontrivial(key string)   { o.nontriv[key] = true }
func (o *out) Sample(v interface{}) {
	if o.samples >= 12 {
		return
	}
	o.samples++
	js, _ := json.Marshal(v)
	fmt.Fprintf(o.w, "X\t%s\n", js)
}
func (o *out) Close() {
	keys := func(m map[string]int) []string {
		var ks []string
		for k := range m {
			ks = append(ks, k)
		}
		sort.Strings(ks)
		return ks
	}
	for _, k := range keys(o.pass) {
		fmt.Fprintf(o.w, "P\t%s\t%d\n", k, o.pass[k])
	}
	for _, k := range keys(o.stats) {
		fmt.Fprintf(o.w, "S\t%s\t%d\n", k, o.stats[k])
	}
	fmt.Fprintf(o.w, "N\t%d\n", len(o.nontriv))
	o.w.Flush()
}

// outcome classes: a panic is never folded into an error.
type outcome int

const (
	ocOk outcome = iota
	ocErr
	ocPanic
)

func (c outcome) String() string { return [...]string{"Ok", "Err", "Panic"}[c] }

// guard runs f and classifies how it ended.
func guard(f func() error) (oc outcome, msg string) {
	defer func() {
		if r := recover(); r != nil {
			oc, msg = ocPanic, fmt.Sprint(r)
		}
	}()
	if err := f(); err != nil {
		return ocErr, err.Error()
	}
	return ocOk, ""
}

// printedPanic reports whether fmt swallowed a panic raised inside a String method.
func printedPanic(s string) bool { return strings.Contains(s, "%!") && strings.Contains(s, "(PANIC=") }

// ---- replay files (written by tools/check on a violation)

type replayFile struct {
	Property string                 `json:"property"`
	Oracle   string                 `json:"oracle"`
	Class    string                 `json:"class"`
	FailKind string                 `json:"failkind"`
	Detail   map[string]interface{} `json:"detail"`
}

func readReplay(path string) *replayFile {
	b, err := os.ReadFile(path)
	if err != nil {
		panic(err)
	}
	var r replayFile
	if err := json.Unmarshal(b, &r); err != nil {
		panic(err)
	}
	if r.Detail == nil {
		r.Detail = map[string]interface{}{}
	}
	return &r
}
