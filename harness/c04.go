package main

// C04: every reference in a parsed module is the object that defines it.
// C05: undefined or doubly defined names are reported as errors.
// C12: translation is deterministic.

import (
	"crypto/sha256"
	"fmt"
	"math/big"
	"os"
	"path/filepath"
	"reflect"
	"regexp"
	"sort"
	"strconv"
	"strings"
	"sync"

	"github.com/llir/llvm/asm"
	"github.com/llir/llvm/ir"
	"github.com/llir/llvm/ir/constant"
	"github.com/llir/llvm/ir/metadata"
	"github.com/llir/llvm/ir/types"
)

func init() {
	props["C04"] = runC04
	props["C05"] = runC05
	props["C12"] = runC12
}

// ---- identity oracle

type identityReport struct {
	bad  []string
	refs map[string]int // reference kind -> count
	dump []string       // canonical "path -> key" lines (for determinism digests)
}

func typeName(t types.Type) string {
	return t.Name()
}

// checkIdentity walks the module by reflection. Every reachable object of a definition kind must be
// the very object the module (or the enclosing function) lists as the definition.
func checkIdentity(m *ir.Module) *identityReport {
	rep := &identityReport{refs: map[string]int{}}
	addBad := func(format string, a ...interface{}) {
		if len(rep.bad) < 8 {
			rep.bad = append(rep.bad, fmt.Sprintf(format, a...))
		}
	}
	listed := map[interface{}]string{} // object -> key
	for i, t := range m.TypeDefs {
		listed[t] = fmt.Sprintf("type#%d:%s", i, typeName(t))
	}
	for i, c := range m.ComdatDefs {
		listed[c] = fmt.Sprintf("comdat#%d", i)
	}
	for i, g := range m.Globals {
		listed[g] = fmt.Sprintf("global#%d", i)
	}
	for i, a := range m.Aliases {
		listed[a] = fmt.Sprintf("alias#%d", i)
	}
	for i, a := range m.IFuncs {
		listed[a] = fmt.Sprintf("ifunc#%d", i)
	}
	for i, a := range m.AttrGroupDefs {
		listed[a] = fmt.Sprintf("attrgroup#%d", i)
	}
	for i, d := range m.MetadataDefs {
		listed[d] = fmt.Sprintf("md#%d", i)
	}
	owner := map[interface{}]*ir.Func{} // local definition -> function
	for i, f := range m.Funcs {
		listed[f] = fmt.Sprintf("func#%d", i)
		if f.Parent != m {
			addBad("function %s: parent link is not the module", f.Ident())
		}
		for j, p := range f.Params {
			listed[p] = fmt.Sprintf("func#%d.param#%d", i, j)
			owner[p] = f
		}
		for j, b := range f.Blocks {
			listed[b] = fmt.Sprintf("func#%d.block#%d", i, j)
			owner[b] = f
			if b.Parent != f {
				addBad("block %s of %s: parent link is not the function", b.Ident(), f.Ident())
			}
			for k, in := range b.Insts {
				listed[in] = fmt.Sprintf("func#%d.block#%d.inst#%d", i, j, k)
				owner[in] = f
			}
			if b.Term != nil {
				listed[b.Term] = fmt.Sprintf("func#%d.block#%d.term", i, j)
				owner[b.Term] = f
			}
		}
	}
	// within a namespace no two listed definitions share a name
	names := map[string]bool{}
	dupCheck := func(nsName, n string) {
		if n == "" {
			return
		}
		if names[nsName+n] {
			addBad("two %s definitions are listed under the name %q", nsName, n)
		}
		names[nsName+n] = true
	}
	for _, t := range m.TypeDefs {
		dupCheck("type ", typeName(t))
	}
	for _, g := range m.Globals {
		dupCheck("global ", g.Ident())
	}
	for _, g := range m.Aliases {
		dupCheck("global ", g.Ident())
	}
	for _, g := range m.IFuncs {
		dupCheck("global ", g.Ident())
	}
	for _, g := range m.Funcs {
		dupCheck("global ", g.Ident())
	}
	for _, g := range m.ComdatDefs {
		dupCheck("comdat ", g.Name)
	}
	seen := map[uintptr]bool{}
	var cur *ir.Func
	var walk func(v reflect.Value, path string, depth int)
	visitPtr := func(v reflect.Value, path string) (descend bool) {
		x := v.Interface()
		kind := ""
		local := false
		switch o := x.(type) {
		case *ir.Global:
			kind = "global"
		case *ir.Func:
			kind = "function"
		case *ir.Alias:
			kind = "alias"
		case *ir.IFunc:
			kind = "ifunc"
		case *ir.ComdatDef:
			kind = "comdat"
		case *ir.AttrGroupDef:
			kind = "attribute group"
		case *ir.Param:
			kind, local = "parameter", true
		case *ir.Block:
			kind, local = "block", true
		case ir.Instruction:
			kind, local = "instruction", true
		case ir.Terminator:
			kind, local = "terminator", true
		case metadata.Definition:
			if o.ID() >= 0 {
				kind = "metadata"
			}
		case types.Type:
			if o.Name() != "" {
				kind = "named type"
			}
		}
		if kind == "" {
			return true
		}
		key, ok := listed[x]
		rep.refs[kind]++
		if !ok {
			addBad("%s holds a %s (%v) that no definition list of the module contains", path, kind, describe(x))
			return false
		}
		rep.dump = append(rep.dump, path+" -> "+key)
		if local && cur != nil {
			if f := owner[x]; f != cur && !strings.Contains(path, "BlockAddress") && !strings.Contains(path, ".Parent") {
				addBad("%s inside %s resolves to a local of %s", path, cur.Ident(), f.Ident())
			}
		}
		return true
	}
	walk = func(v reflect.Value, path string, depth int) {
		if depth > 80 || !v.IsValid() {
			return
		}
		switch v.Kind() {
		case reflect.Interface:
			if !v.IsNil() {
				walk(v.Elem(), path, depth)
			}
		case reflect.Ptr:
			if v.IsNil() || !v.CanInterface() {
				return
			}
			if !visitPtr(v, path) {
				return
			}
			// listed definitions are descended into once (the IR is cyclic through them); everything else
			// (types, constants, incoming values, cases, inline metadata) hangs off a definition as a tree
			// and is walked wherever it occurs, so that the dump does not depend on how objects are shared
			if _, isDef := listed[v.Interface()]; isDef || depth > 40 {
				if seen[v.Pointer()] {
					return
				}
				seen[v.Pointer()] = true
			}
			if f, ok := v.Interface().(*ir.Func); ok {
				prev := cur
				cur = f
				walk(v.Elem(), path, depth+1)
				cur = prev
				return
			}
			if ba, ok := v.Interface().(*constant.BlockAddress); ok {
				// the block must be one of the blocks of the function named
				found := false
				if bf, ok := ba.Func.(*ir.Func); ok {
					for _, b := range bf.Blocks {
						if interface{}(b) == interface{}(ba.Block) {
							found = true
						}
					}
				}
				rep.refs["blockaddress"]++
				if !found {
					addBad("%s: blockaddress block %v is not a block of %s", path, describe(ba.Block), ba.Func.Ident())
				}
				// below a blockaddress constant the locals are those of the function it names
				prev := cur
				if bf, ok := ba.Func.(*ir.Func); ok {
					cur = bf
				}
				walk(v.Elem(), path, depth+1)
				cur = prev
				return
			}
			walk(v.Elem(), path, depth+1)
		case reflect.Struct:
			for i := 0; i < v.NumField(); i++ {
				sf := v.Type().Field(i)
				if sf.PkgPath != "" || sf.Name == "Parent" || sf.Name == "mu" {
					continue
				}
				walk(v.Field(i), path+"."+sf.Name, depth+1)
			}
		case reflect.Slice, reflect.Array:
			for i := 0; i < v.Len(); i++ {
				walk(v.Index(i), fmt.Sprintf("%s[%d]", path, i), depth+1)
			}
		case reflect.Map:
			keys := v.MapKeys()
			sort.Slice(keys, func(i, j int) bool { return fmt.Sprint(keys[i]) < fmt.Sprint(keys[j]) })
			for _, k := range keys {
				walk(v.MapIndex(k), fmt.Sprintf("%s[%v]", path, k), depth+1)
			}
		}
	}
	walk(reflect.ValueOf(m), "m", 0)
	// the type of every value definition is part of the structural dump (a cached type that differs
	// between a constructed and a re-parsed module is a structural difference)
	typeOf := func(key string, v interface{ Type() types.Type }) {
		var t string
		oc, _ := guard(func() error { t = v.Type().String(); return nil })
		if oc != ocOk {
			t = "PANIC"
		}
		rep.dump = append(rep.dump, key+" :: "+t)
	}
	for i, g := range m.Globals {
		typeOf(fmt.Sprintf("global#%d", i), g)
	}
	for i, f := range m.Funcs {
		typeOf(fmt.Sprintf("func#%d", i), f)
		for j, b := range f.Blocks {
			for k, in := range b.Insts {
				if v, ok := in.(interface{ Type() types.Type }); ok {
					typeOf(fmt.Sprintf("func#%d.block#%d.inst#%d", i, j, k), v)
				}
			}
			if v, ok := b.Term.(interface{ Type() types.Type }); ok {
				typeOf(fmt.Sprintf("func#%d.block#%d.term", i, j), v)
			}
		}
	}
	return rep
}

func describe(x interface{}) string {
	if s, ok := x.(interface{ Ident() string }); ok {
		var id string
		oc, _ := guard(func() error { id = s.Ident(); return nil })
		if oc == ocOk {
			return fmt.Sprintf("%T %s", x, id)
		}
	}
	if t, ok := x.(types.Type); ok {
		return fmt.Sprintf("%T %s", x, t.Name())
	}
	return fmt.Sprintf("%T", x)
}

func parseGuard(src string) (m *ir.Module, oc outcome, msg string) {
	oc, msg = guard(func() error {
		var err error
		m, err = asm.ParseString("gen.ll", src)
		return err
	})
	return
}

// the known-finding class of an identity failure: %a = type %b (KF-11)
func c04Class(src string, bad []string) string {
	// the finding is that the alias is listed as a second definition under the name of its target, and nothing
	// else: a use that holds an unlisted object, or any other failure, in a module with an alias is not it
	for _, b := range bad {
		if !strings.HasPrefix(b, "two type  definitions are listed under the name") {
			return ""
		}
	}
	for _, l := range strings.Split(src, "\n") {
		f := strings.Fields(l)
		if len(f) == 4 && f[1] == "=" && f[2] == "type" && strings.HasPrefix(f[3], "%") && strings.HasPrefix(f[0], "%") {
			return "type_alias_copy"
		}
	}
	return ""
}

func c04Check(c *config, src, label string, sample bool) {
	o := c.out
	m, oc, msg := parseGuard(src)
	o.Stat("modules." + label)
	o.Nontrivial(src)
	if oc != ocOk {
		o.Fail("reference_identity", "", "generated valid module rejected: "+oc.String(), map[string]string{"src": src, "msg": msg})
		return
	}
	rep := checkIdentity(m)
	for k, n := range rep.refs {
		o.StatN("refs."+k, n)
	}
	if sample {
		o.Sample(map[string]interface{}{"module_prefix": src[:min(400, len(src))], "references": rep.refs})
	}
	if len(rep.bad) > 0 {
		o.Fail("reference_identity", c04Class(src, rep.bad), rep.bad[0], map[string]interface{}{"src": src, "all": rep.bad})
		return
	}
	o.Pass("reference_identity")
}

func runC04(c *config) {
	o := c.out
	if c.replay != "" {
		rp := readReplay(c.replay)
		src, _ := rp.Detail["src"].(string)
		c04Check(c, src, "replay", false)
		return
	}
	n := 150 * c.scale
	for i := 0; i < n; i++ {
		src, g := genModuleG(c.seed, fmt.Sprintf("c04-%d", i), -1, -1)
		c04Check(c, src, "generated", i < 2)
		_, oc, _ := parseGuard(src)
		o.Case("skeleton", []string{g.skeleton()}, []string{oc.String()})
	}
	files, _ := filepath.Glob("/verif/corpus/modules/*.ll")
	more, _ := filepath.Glob("/repo/asm/testdata/*.ll")
	for _, f := range append(files, more...) {
		b, _ := os.ReadFile(f)
		c04Check(c, string(b), "corpus", false)
		// the same module with every specialised metadata definition also written in place, as an operand of a
		// new tuple: an inline node has no ID and is listed nowhere, whatever its kind
		if v := inlineVariant(string(b)); v != "" {
			c04Check(c, v, "inline_metadata_variant", false)
		}
	}
	// references by number: module shapes with named and unnamed globals, aliases, ifuncs and functions,
	// definitions of other namespaces (attribute groups, metadata, types, comdats) in between, and a use @N
	// of every unnamed global variable: it must be bound to the N-th unnamed definition (oracle
	// unnamed_global_binding, shared with C08)
	rb := newRng(c.seed, "c04-binding")
	for i := 0; i < 300*c.scale; i++ {
		c08Module(c, rb, false)
	}
	// type aliases used inside other type bodies (pointer, array and struct positions), parsed several times: the
	// order in which the definitions are translated is a Go map order, and every use must be the object the
	// module lists whatever that order was
	ra := newRng(c.seed, "c04-alias")
	for i := 0; i < 25*c.scale; i++ {
		var sb strings.Builder
		nt := 2 + ra.intn(4)
		na := 1 + ra.intn(3)
		for t := 0; t < nt; t++ {
			// the target of an alias may refer back to the alias
			if ra.intn(2) == 0 {
				fmt.Fprintf(&sb, "%%s%d = type { i%d, %%al%d* }\n", t, 8*(1+t%4), ra.intn(na))
			} else {
				fmt.Fprintf(&sb, "%%s%d = type { i%d, %%s%d* }\n", t, 8*(1+t%4), ra.intn(nt))
			}
		}
		for a := 0; a < na; a++ {
			fmt.Fprintf(&sb, "%%al%d = type %%s%d\n", a, ra.intn(nt))
		}
		for u := 0; u < 2+ra.intn(6); u++ {
			a := ra.intn(na)
			switch ra.intn(3) {
			case 0:
				fmt.Fprintf(&sb, "%%u%d = type { %%al%d*, i32 }\n", u, a)
			case 1:
				fmt.Fprintf(&sb, "%%u%d = type { [3 x %%al%d], %%al%d* }\n", u, a, a)
			default:
				fmt.Fprintf(&sb, "%%u%d = type { void (%%al%d*)*, %%al%d }\n", u, a, a)
			}
			fmt.Fprintf(&sb, "@gu%d = external global %%u%d\n", u, u)
		}
		for rep := 0; rep < 6; rep++ {
			c04Check(c, sb.String(), "alias_uses", false)
		}
	}
	// hand-written patterns of the quantifier: recursive types, type aliases, blockaddress across functions
	for _, src := range []string{
		"%a = type { %b* }\n%b = type { %a*, %b* }\n@g = external global %a\n",
		"%b = type { i32 }\n%a = type %b\n@g = external global %a\n@h = external global %b\n",
		"define void @f() {\ne:\n\tbr label %x\nx:\n\tret void\n}\ndefine i8* @g() {\ne:\n\tret i8* blockaddress(@f, %x)\n}\n",
		"define i32 @f(i32 %x) {\n\tret i32 %x\n}\ndefine i32 @g(i32 %x) {\n\t%y = add i32 %x, 1\n\tret i32 %y\n}\n",
		"!0 = !{!1}\n!1 = !{!0, !2}\n!2 = distinct !{!2}\n!llvm.x = !{!0, !2}\n",
	} {
		c04Check(c, src, "patterns", false)
	}
	c04Placeholders(c) // blockaddress placeholders and parent links against Proofs/PlaceholderProofs.v (c04ph.go)
	c04Bindings(c)
	// attribute groups defined more than once, used in every position (c04attr.go)
	c04RepeatedAttrGroups(c)
	c04Comdats(c) // members of comdats, short and long form, names of every shape (c04comdat.go)
	_ = o
}

// c04Bindings: modules in which a NAME that looks like a number lives next to the unnamed value with
// that number as its ID; every use must bind to its own namesake
func c04Bindings(c *config) {
	o := c.out
	type bcase struct {
		name, src string
		check     func(m *ir.Module) string
	}
	for _, bc := range []bcase{
		{"labels", "define i32 @f(i1 %c) {\n\tbr i1 %c, label %\"0\", label %\"7\"\n\"0\":\n\tbr label %\"7\"\n\"7\":\n\t%p = phi i32 [ 1, %\"0\" ], [ 2, %0 ]\n\tret i32 %p\n}\n",
			func(m *ir.Module) string {
				f := m.Funcs[0]
				br := f.Blocks[0].Term.(*ir.TermCondBr)
				phi := f.Blocks[2].Insts[0].(*ir.InstPhi)
				switch {
				case br.TargetTrue != f.Blocks[1] || br.TargetFalse != f.Blocks[2]:
					return "a branch to the block named \"0\" / \"7\" binds to another block"
				case phi.Incs[0].Pred != f.Blocks[1]:
					return "the phi predecessor %\"0\" is not the block named 0"
				case phi.Incs[1].Pred != f.Blocks[0]:
					return "the phi predecessor %0 is not the unnamed entry block"
				}
				return ""
			}},
		{"globals", "@0 = global i32 1\n@\"0\" = global i32 2\n@a = global i32* @0\n@b = global i32* @\"0\"\n",
			func(m *ir.Module) string {
				if m.Globals[2].Init != constant.Constant(m.Globals[0]) || m.Globals[3].Init != constant.Constant(m.Globals[1]) {
					return "@0 and @\"0\" are confused"
				}
				return ""
			}},
		{"params", "define i32 @f(i32, i32 %\"0\") {\n\t%r = sub i32 %0, %\"0\"\n\tret i32 %r\n}\n",
			func(m *ir.Module) string {
				f := m.Funcs[0]
				sub := f.Blocks[0].Insts[0].(*ir.InstSub)
				if sub.X != f.Params[0] || sub.Y != f.Params[1] {
					return "%0 and %\"0\" are confused"
				}
				return ""
			}},
	} {
		m, oc, msg := parseGuard(bc.src)
		o.Stat("modules.bindings")
		if oc != ocOk {
			o.Fail("reference_identity", "", "valid module with numeric names rejected: "+msg, map[string]string{"src": bc.src})
			continue
		}
		var bad string
		oc2, _ := guard(func() error { bad = bc.check(m); return nil })
		if oc2 != ocOk {
			bad = "unexpected shape of the parsed module"
		}
		if bad != "" {
			o.Fail("reference_identity", "", bad, map[string]string{"src": bc.src})
		} else {
			o.Pass("reference_binding")
		}
	}
}

// ---- C05

func c05Class(ns string, src string, oc outcome) string {
	return ""
}

var c05OtherIDs = regexp.MustCompile(`(?m)^(?:attributes #|!)(\d+) =`)

func runC05(c *config) {
	o := c.out
	if c.replay != "" {
		rp := readReplay(c.replay)
		src, _ := rp.Detail["src"].(string)
		m, oc, msg := parseGuard(src)
		fmt.Println(oc, msg, m != nil)
		return
	}
	nmod := 25 * c.scale
	for i := 0; i < nmod; i++ {
		stream := fmt.Sprintf("c05-%d", i)
		base, sites, defs := genModule(c.seed, stream, -1, -1)
		if _, oc, msg := parseGuard(base); oc != ocOk {
			o.Fail("undefined_or_duplicate", "", "generated valid module rejected", map[string]string{"src": base, "msg": msg})
			continue
		}
		o.Stat("base_modules")
		for k, s := range sites {
			src, gg := genModuleG(c.seed, stream, k, -1)
			m, oc, msg := parseGuard(src)
			if !gg.skip {
				o.Case("skeleton", []string{gg.skeleton()}, []string{oc.String()})
			}
			o.Stat("fault.undefined." + s.ns)
			o.Nontrivial(fmt.Sprintf("%s|u%d", stream, k))
			res := oc.String()
			det := map[string]interface{}{"fault": "use of " + s.name + " (" + s.where + ") redirected to an undefined name", "ns": s.ns, "src": src, "msg": msg}
			switch {
			case s.ns == "attr":
				// documented exception: an undefined attribute group is materialised as an empty group
				if oc != ocOk {
					o.Fail("undefined_or_duplicate", "", "undefined attribute group not materialised: "+res, det)
				} else {
					o.Pass("attr_group_materialised")
				}
			case oc == ocOk:
				_ = m
				o.Fail("undefined_or_duplicate", "", "undefined "+s.ns+" accepted", det)
			case oc == ocPanic:
				o.Fail("undefined_or_duplicate", "", "undefined "+s.ns+" crashes the parser", det)
			default:
				o.Pass("undefined_is_error")
			}
			if i == 0 && k < 2 {
				o.Sample(map[string]interface{}{"fault": det["fault"], "outcome": res, "msg": msg})
			}
		}
		for k, d := range defs {
			ns := strings.SplitN(d, ":", 2)[0]
			if ns == "attr" {
				continue
			}
			src, gg := genModuleG(c.seed, stream, -1, k)
			if src == base {
				continue
			}
			_, oc, msg := parseGuard(src)
			if ns != "local" {
				o.Case("skeleton", []string{gg.skeleton()}, []string{oc.String()})
			}
			o.Stat("fault.duplicate." + ns)
			o.Nontrivial(fmt.Sprintf("%s|d%d", stream, k))
			det := map[string]interface{}{"fault": "definition " + d + " duplicated", "src": src, "msg": msg}
			switch oc {
			case ocOk:
				o.Fail("undefined_or_duplicate", "", "duplicate "+ns+" accepted", det)
			case ocPanic:
				o.Fail("undefined_or_duplicate", "", "duplicate "+ns+" crashes the parser", det)
			default:
				o.Pass("duplicate_is_error")
			}
		}
	}
	// undefined references by number: module shapes with named and unnamed entities and definitions of other
	// namespaces in between (their IDs take no global number), plus one use @K of a number no entity carries
	ru := newRng(c.seed, "c05-numbers")
	for i := 0; i < 200*c.scale; i++ {
		src, _, kinds, named := c08ModuleText(ru)
		unnamed := 0
		for k := range kinds {
			if !named[k] {
				unnamed++
			}
		}
		// (without the module's own uses by number: the dangling use is the only one)
		var kept []string
		for _, l := range strings.Split(src, "\n") {
			if !strings.HasPrefix(l, "@ref") {
				kept = append(kept, l)
			}
		}
		src = strings.Join(kept, "\n")
		// candidates: numbers just past the last one, and the IDs the other namespaces use in this module
		cands := []int{unnamed, unnamed + 1 + ru.intn(8)}
		for _, m := range c05OtherIDs.FindAllStringSubmatch(src, -1) {
			if k, err := strconv.Atoi(m[1]); err == nil && k >= unnamed {
				cands = append(cands, k, k+1)
			}
		}
		bad := src + fmt.Sprintf("@dangling = global i32* @%d\n", cands[ru.intn(len(cands))])
		_, oc, msg := parseGuard(bad)
		o.Stat("fault.undefined_number")
		switch oc {
		case ocOk:
			o.Fail("undefined_or_duplicate", "", "a use @N of a number that no unnamed global carries is accepted", map[string]string{"src": bad})
		case ocPanic:
			o.Fail("undefined_or_duplicate", "", "a use @N of an undefined number crashes the parser", map[string]string{"src": bad, "msg": msg})
		default:
			o.Pass("undefined_is_error")
		}
	}
	// type aliases through the skeleton model: undefined target, defined target, cycle
	for _, h := range []struct{ src, sk string }{
		{"%a = type %b\n", "type|%a|alias:%b|||"},
		{"%a = type %b\n%b = type { i32 }\n", "type|%a|alias:%b|||;type|%b|plain|||"},
		{"%a = type %b\n%b = type %a\n", "type|%a|alias:%b|||;type|%b|alias:%a|||"},
		{"%a = type %b\n%b = type %c\n%c = type opaque\n", "type|%a|alias:%b|||;type|%b|alias:%c|||;type|%c|opaque|||"},
	} {
		_, oc, _ := parseGuard(h.src)
		o.Case("skeleton", []string{h.sk}, []string{oc.String()})
	}
	// a second definition of another kind: a definition with a body followed by an opaque one, by an alias, or by a
	// different body is a duplicate like any other (only "opaque first" is the listed defect KF-24)
	bodies := []struct{ text, kind string }{
		{"{ i32, i8 }", "plain"}, {"<{ i8 }>", "plain"}, {"[4 x i32]", "plain"}, {"i32", "plain"}, {"i8*", "plain"},
		{"void (i32)", "plain"}, {"<4 x float>", "plain"}, {"%other", "alias:%other"}, {"opaque", "opaque"},
	}
	for i, b1 := range bodies {
		for j, b2 := range bodies {
			if b1.kind == "opaque" {
				continue
			}
			src := fmt.Sprintf("%%other = type { i64 }\n%%T = type %s\n@g%d = external global i32\n%%T = type %s\n@u = external global %%T*\n", b1.text, i*10+j, b2.text)
			sk := fmt.Sprintf("type|%%other|plain|||;type|%%T|%s|||;global|@g%d||||;type|%%T|%s|||;global|@u||type=%%T||", b1.kind, i*10+j, b2.kind)
			_, oc, msg := parseGuard(src)
			o.Case("skeleton", []string{sk}, []string{oc.String()})
			o.Stat("fault.duplicate.type_other_kind")
			det := map[string]interface{}{"fault": "type %T defined as " + b1.text + " and again as " + b2.text, "src": src, "msg": msg}
			switch oc {
			case ocOk:
				o.Fail("undefined_or_duplicate", "", "duplicate type accepted", det)
			case ocPanic:
				o.Fail("undefined_or_duplicate", "", "duplicate type crashes the parser", det)
			default:
				o.Pass("duplicate_is_error")
			}
		}
	}
	// hand-written faults with a known outcome; the listed defects carry their class
	type hw struct{ src, class, want string }
	for _, h := range []hw{
		{"%a = type %b\n", "", "Err"},
		{"%a = type opaque\n%a = type { i32 }\n", "typedef_after_opaque", "Err"},
		{"%v = type <vscale x 2 x i32>\n", "scalable_typedef", "Ok"},
		{"define i32 @f(i32) {\nentry:\n\tret i32 %\"\"\n}\n", "empty_quoted_name", "Err"},
		{"@0 = global i32 0\n@p = global i32* @\"\"\n", "empty_quoted_name", "Err"},
		{"@g = global i32* @h\n", "", "Err"},
		{"define void @f() {\n\tbr label %nope\n}\n", "", "Err"},
		{"define void @f() {\n\tret i8* blockaddress(@f, %nope)\n}\n", "", "Err"},
		{"define i8* @f() {\n\tret i8* blockaddress(@nope, %b)\n}\n", "", "Err"},
		{"@g = global i32 0, !dbg !7\n", "", "Err"},
		{"!named = !{!7}\n", "", "Err"},
		// an undefined metadata ID in every attachment position
		{"declare !dbg !7 void @f(i32)\n", "", "Err"},
		{"define void @f() !dbg !7 {\n\tret void\n}\n", "", "Err"},
		{"define void @f() {\n\tret void, !dbg !7\n}\n", "", "Err"},
		{"define void @f() {\n\t%x = add i32 1, 2, !tag !7\n\tret void\n}\n", "", "Err"},
		{"declare void @m(metadata)\ndefine void @f() {\n\tcall void @m(metadata !7)\n\tret void\n}\n", "", "Err"},
		{"!0 = !{!7}\n", "", "Err"},
		{"@g = global i32 0, comdat($nope)\n", "", "Err"},
		{"@g = external global %nope\n", "", "Err"},
		{"define void @f() {\n\t%x = add i32 %y, 1\n\tret void\n}\n", "", "Err"},
		{"define void @f() {\n\tret void\n}\nuselistorder_bb @f, %nope, { 1, 0 }\n", "", "Err"},
		// a block whose NAME is a number, at the position where the unnamed block of that number would sit: the number
		// itself stays undefined (branch target, phi predecessor, blockaddress), the quoted name is defined
		{"define void @f() {\nentry:\n\tbr label %0\n\"0\":\n\tret void\n}\n", "", "Err"},
		{"define void @f() {\nentry:\n\tbr label %\"0\"\n\"0\":\n\tret void\n}\n", "", "Ok"},
		{"define void @f(i32) {\n\tbr label %2\n\"2\":\n\tret void\n}\n", "", "Err"},
		{"define i32 @f(i1 %c) {\nentry:\n\tbr i1 %c, label %\"0\", label %x\n\"0\":\n\tbr label %x\nx:\n\t%p = phi i32 [ 1, %0 ], [ 2, %entry ]\n\tret i32 %p\n}\n", "", "Err"},
		{"@g = global i8* blockaddress(@f, %0)\ndefine void @f() {\nentry:\n\tbr label %\"0\"\n\"0\":\n\tret void\n}\n", "", "Err"},
		{"@g = global i8* blockaddress(@f, %\"0\")\ndefine void @f() {\nentry:\n\tbr label %\"0\"\n\"0\":\n\tret void\n}\n", "", "Ok"},
		// the local %0 defined twice; the number 0 on a later value; a numbered parameter of a declaration (KF-42, repaired)
		{"define i32 @f(i32 %x) {\nentry:\n\t%0 = add i32 %x, 1\n\t%0 = add i32 %x, 2\n\tret i32 %0\n}\n", "", "Err"},
		{"define i32 @f(i32 %x) {\n\t%0 = add i32 %x, 1\n\tret i32 %0\n}\n", "", "Err"},
		{"define void @f(i32, i32 %0) {\n\tret void\n}\n", "", "Err"},
		{"define void @f(i32) {\n0:\n\tret void\n}\n", "", "Err"},
		{"declare void @f(i32 %5)\n", "", "Err"},
		// ... and on the value terminators (invoke, callbr, catchswitch), whose identifiers are read at another site
		{"declare i32 @g()\ndefine i32 @f(i32) personality i8* null {\nentry:\n\t%0 = invoke i32 @g() to label %a unwind label %b\na:\n\tret i32 %0\nb:\n\t%l = landingpad i32 cleanup\n\tret i32 0\n}\n", "", "Err"},
		{"declare i32 @g()\ndefine i32 @f() {\nentry:\n\t%x = add i32 1, 2\n\tbr label %n\nn:\n\t%0 = callbr i32 @g() to label %a []\na:\n\tret i32 %0\n}\n", "", "Ok"},
		{"declare i32 @g()\ndefine i32 @f() {\n\t%0 = callbr i32 @g() to label %a []\na:\n\tret i32 %0\n}\n", "", "Err"},
		{"define void @f() personality i8* null {\nentry:\n\t%y = add i32 1, 2\n\t%1 = add i32 1, %y\n\tbr label %cs\ncs:\n\t%0 = catchswitch within none [label %h] unwind to caller\nh:\n\t%p = catchpad within %0 []\n\tunreachable\n}\n", "", "Err"},
		{"define i32 @f(i32 %x) {\nentry:\n\t%0 = add i32 %x, 1\n\tret i32 %0\n}\n", "", "Ok"},
		{"define void @f(i32 %x, i32 %0) {\n\tret void\n}\n", "", "Ok"},
	} {
		_, oc, msg := parseGuard(h.src)
		o.Stat("fault.handwritten")
		if oc.String() != h.want {
			o.Fail("undefined_or_duplicate", h.class, fmt.Sprintf("expected %s, got %s", h.want, oc), map[string]string{"src": h.src, "msg": msg})
		} else {
			o.Pass("handwritten_fault")
		}
	}
	// the number of an unnamed local written a second time (c05ids.go)
	c05RepeatedIDs(c)
	// undefined names next to same-named entities of other namespaces and namesakes of the carrier (c05shadow.go)
	c05Shadowed(c)
}

// ---- C12

func digestOf(src string) string {
	m, oc, msg := parseGuard(src)
	if oc != ocOk {
		// the class and, for errors, nothing else: which error is reported may legitimately vary
		_ = msg
		return "rejected:" + oc.String()
	}
	var text string
	oc2, _ := guard(func() error { text = m.String(); return nil })
	if oc2 != ocOk {
		return "print:" + oc2.String()
	}
	rep := checkIdentity(m)
	h := sha256.New()
	h.Write([]byte(text))
	h.Write([]byte(strings.Join(rep.dump, "\n")))
	return fmt.Sprintf("ok:%x", h.Sum(nil)[:12])
}

func runC12(c *config) {
	o := c.out
	if c.replay != "" {
		rp := readReplay(c.replay)
		src, _ := rp.Detail["src"].(string)
		for i := 0; i < 5; i++ {
			fmt.Println(digestOf(src))
		}
		return
	}
	var inputs []string
	n := 40 * c.scale
	for i := 0; i < n; i++ {
		src, sites, _ := genModule(c.seed, fmt.Sprintf("c12-%d", i), -1, -1)
		inputs = append(inputs, src)
		if i%2 == 0 && len(sites) > 0 {
			r := newRng(c.seed, fmt.Sprintf("c12f-%d", i))
			bad, _, _ := genModule(c.seed, fmt.Sprintf("c12-%d", i), r.intn(len(sites)), -1)
			inputs = append(inputs, bad)
		}
	}
	files, _ := filepath.Glob("/verif/corpus/modules/*.ll")
	for _, f := range files {
		b, _ := os.ReadFile(f)
		inputs = append(inputs, string(b))
	}
	// a module with many entries per map
	var bigMod strings.Builder
	for i := 0; i < 40; i++ {
		fmt.Fprintf(&bigMod, "%%t%d = type { i32, %%t%d* }\n$c%d = comdat any\n@g%d = global i32 %d, comdat($c%d)\nattributes #%d = { nounwind }\n!%d = !{!%d}\n!n%d = !{!%d}\n", i, (i+7)%40, i, i, i, i, i, i, (i+3)%40, i, i)
	}
	inputs = append(inputs, bigMod.String())
	// named scalar types: constants typed with a named type next to constants of the plain type, in
	// several functions and in separate inputs (shared constant objects must not carry state between parses)
	inputs = append(inputs,
		"%bool = type i1\n\ndefine i1 @f() {\n\tret i1 true\n}\n\ndefine %bool @g() {\n\tret %bool true\n}\n\ndefine %bool @h() {\n\tret %bool false\n}\n",
		"define i1 @h() {\n\tret i1 false\n}\n\ndefine i1 @t() {\n\tret i1 true\n}\n",
		"%flag = type i1\n\ndefine %flag @k() {\n\tret %flag false\n}\n",
		"%word = type i32\n%real = type double\n@a = global %word 7\n@b = global i32 7\n@c = global %real 1.0\n@d = global double 1.0\n@e = global %word* null\n@z = global %real zeroinitializer\n",
	)
	// type aliases (a definition whose body is another named type), alias chains, several aliases of one
	// type, next to the types they name; also used as content and parameter types
	inputs = append(inputs,
		"%a = type %b\n%b = type { i32, %b* }\n@g = external global %a\n",
		"%b = type { i32, %b* }\n%a = type %b\n%c = type { %b, %b }\n@g = external global %c\n@h = external global %a\n",
		"%z = type %y\n%y = type %x\n%x = type { i8 }\n%w = type %x\n@g = external global %z\n@h = external global %w\n",
		"%t1 = type %t9\n%t2 = type %t9\n%t3 = type %t9\n%t9 = type { i64, %t9* }\n%t5 = type { %t1, %t2 }\ndeclare void @f(%t1, %t2*, %t3, %t5)\n",
		"%i = type i32\n%j = type %i\n%k = type %j\n@g = global %k 5\n@h = global %j 6\n",
	)
	{
		ra := newRng(c.seed, "c12-alias")
		for i := 0; i < 12*c.scale; i++ {
			var sb strings.Builder
			nt := 2 + ra.intn(5)
			var lines []string
			for t := 0; t < nt; t++ {
				lines = append(lines, fmt.Sprintf("%%s%d = type { i%d, %%s%d* }\n", t, 8*(1+t%4), ra.intn(nt)))
			}
			na := 1 + ra.intn(5)
			for a := 0; a < na; a++ {
				lines = append(lines, fmt.Sprintf("%%al%d = type %%s%d\n", a, ra.intn(nt)))
			}
			for _, k := range ra.perm(len(lines)) {
				sb.WriteString(lines[k])
			}
			for a := 0; a < na; a++ {
				fmt.Fprintf(&sb, "@g%d = external global %%al%d\n", a, a)
			}
			inputs = append(inputs, sb.String())
		}
	}
	// globals and functions in a non-zero address space, used by the initialisers and bodies of other entities
	// through constant expressions whose type is computed from the type of the operand: in which order the
	// entities are translated is a Go map order
	{
		rs := newRng(c.seed, "c12-addrspace")
		for i := 0; i < 10*c.scale; i++ {
			var sb strings.Builder
			ng := 2 + rs.intn(5)
			sp := make([]int, ng)
			for g := 0; g < ng; g++ {
				sp[g] = 1 + rs.intn(7)
				fmt.Fprintf(&sb, "@lds%d = addrspace(%d) global [4 x i32] zeroinitializer\n", g, sp[g])
			}
			for u := 0; u < 3+rs.intn(8); u++ {
				g := rs.intn(ng)
				switch rs.intn(4) {
				case 0:
					fmt.Fprintf(&sb, "@p%d = global i32 addrspace(%d)* getelementptr inbounds ([4 x i32], [4 x i32] addrspace(%d)* @lds%d, i32 0, i32 %d)\n", u, sp[g], sp[g], g, rs.intn(4))
				case 1:
					fmt.Fprintf(&sb, "@p%d = global [4 x i32] addrspace(%d)* select (i1 true, [4 x i32] addrspace(%d)* @lds%d, [4 x i32] addrspace(%d)* null)\n", u, sp[g], sp[g], g, sp[g])
				case 2:
					fmt.Fprintf(&sb, "@p%d = global i8 addrspace(%d)* bitcast ([4 x i32] addrspace(%d)* @lds%d to i8 addrspace(%d)*)\n", u, sp[g], sp[g], g, sp[g])
				default:
					fmt.Fprintf(&sb, "define i32 @p%d() {\n\t%%v = load i32, i32 addrspace(%d)* getelementptr inbounds ([4 x i32], [4 x i32] addrspace(%d)* @lds%d, i32 0, i32 %d)\n\tret i32 %%v\n}\n", u, sp[g], sp[g], g, rs.intn(4))
				}
			}
			fmt.Fprintf(&sb, "define void @fn() addrspace(5) {\n\tret void\n}\n@fp = global void () addrspace(5)* @fn\n@fq = global i8 addrspace(5)* bitcast (void () addrspace(5)* @fn to i8 addrspace(5)*)\n")
			inputs = append(inputs, sb.String())
		}
	}
	// a wide module in which every function uses an attribute group that is defined nowhere (materialised as an empty
	// group while the functions are translated) next to as many defined groups: whatever the translator does with
	// its tables while it walks them, it does it here two thousand times
	{
		var sb strings.Builder
		nw := 2000
		for k := 0; k < nw; k++ {
			fmt.Fprintf(&sb, "declare void @w%d() #%d\n", k, 2*k+1)
		}
		for k := 0; k < nw; k++ {
			fmt.Fprintf(&sb, "attributes #%d = { nounwind }\n", 2*k)
		}
		inputs = append(inputs, sb.String())
	}
	// bytes that only mean something to one of the entry points: CR LF inside quoted strings (a section name, a
	// metadata string, a character array whose length counts both bytes), CR LF and a lone CR between tokens
	inputs = append(inputs,
		"@a = global i32 0, section \"x\r\ny\"\r\n!0 = !{!\"line1\r\nline2\"}\r\n",
		"@s = global [4 x i8] c\"x\r\ny\"\n",
		"@s = global [3 x i8] c\"x\r\ny\"\n",
		"@a = global i32 0\r\n@b = global i32 1\r\n\r\ndefine void @f() {\r\n\tret void\r\n}\r\n",
	)
	// invalid texts whose fault sits in one top-level entity and refers into another (a blockaddress of a block
	// that the named function does not have, from a global, an alias target expression, another function): whether
	// the text is rejected must not depend on which of the two is translated first
	{
		rx := newRng(c.seed, "c12-cross-faults")
		for i := 0; i < 8*c.scale; i++ {
			var sb strings.Builder
			nf := 2 + rx.intn(4)
			for f := 0; f < nf; f++ {
				fmt.Fprintf(&sb, "define void @f%d() {\nentry:\n\tbr label %%next\nnext:\n\tret void\n}\n", f)
			}
			for g := 0; g < 2+rx.intn(6); g++ {
				fmt.Fprintf(&sb, "@ok%d = global i8* blockaddress(@f%d, %%next)\n", g, rx.intn(nf))
			}
			switch i % 3 {
			case 0:
				fmt.Fprintf(&sb, "@bad = global [2 x i8*] [i8* blockaddress(@f%d, %%next), i8* blockaddress(@f%d, %%nope)]\n", rx.intn(nf), rx.intn(nf))
			case 1:
				fmt.Fprintf(&sb, "define i8* @user() {\n\tret i8* blockaddress(@f%d, %%nope)\n}\n", rx.intn(nf))
			default:
				fmt.Fprintf(&sb, "@bad = global i8* getelementptr (i8, i8* blockaddress(@f%d, %%nope), i32 1)\n", rx.intn(nf))
			}
			inputs = append(inputs, sb.String())
		}
	}
	c12MapOrderFaults(c) // invalid modules, one faulty entity among several per map-walked namespace (c12maps.go)
	firstRound := map[int]string{}
	for idx, src := range inputs {
		firstRound[idx] = digestOf(src)
	}
	// operations that fail (prints that panic, writers that fail, parses that crash) before and between (c12fail.go)
	c12FailingHistory(c, inputs, firstRound)
	// whatever was parsed or printed earlier in the process: a second round over all inputs, in reverse
	for idx := len(inputs) - 1; idx >= 0; idx-- {
		if d := digestOf(inputs[idx]); d != firstRound[idx] {
			o.Fail("deterministic", "", "the result depends on what was parsed earlier in the process: "+d+" vs "+firstRound[idx], map[string]string{"src": inputs[idx]})
		} else {
			o.Pass("independent_of_prior_activity")
		}
	}
	for idx, src := range inputs {
		first := digestOf(src)
		o.Stat("inputs." + strings.SplitN(first, ":", 2)[0])
		o.Nontrivial(src)
		bad := ""
		// repetitions in process
		for k := 0; k < 8; k++ {
			if d := digestOf(src); d != first {
				bad = fmt.Sprintf("repetition %d differs: %s vs %s", k, d, first)
			}
		}
		// every entry point
		var viaBytes, viaReader, viaFile, viaOSFile string
		guard(func() error {
			// the caller's buffer is the caller's: it is reused (overwritten with another input, then cleared)
			// between the parse and the print, as a read loop over many files would do
			buf := []byte(src)
			m, err := asm.ParseBytes("x.ll", buf)
			other := inputs[(idx+1)%len(inputs)]
			for k := range buf {
				buf[k] = other[k%len(other)]
			}
			if m2, err2 := asm.ParseBytes("y.ll", buf); err2 == nil {
				_ = m2.String()
			}
			for k := range buf {
				buf[k] = 0
			}
			viaBytes = entryDigest(m, err)
			m, err = asm.Parse("x.ll", strings.NewReader(src))
			viaReader = entryDigest(m, err)
			tmp := filepath.Join(os.TempDir(), fmt.Sprintf("verif-c12-%d.ll", os.Getpid()))
			os.WriteFile(tmp, []byte(src), 0o600)
			m, err = asm.ParseFile(tmp)
			os.Remove(tmp)
			viaFile = entryDigest(m, err)
			// a reader that happens to be a file: positioned after bytes that are no assembly, and already unlinked
			// (what the reader delivers is the input, not what its name denotes)
			tmp2 := filepath.Join(os.TempDir(), fmt.Sprintf("verif-c12r-%d.ll", os.Getpid()))
			prefix := "@@@ not assembly @@@\n"
			os.WriteFile(tmp2, []byte(prefix+src), 0o600)
			if fh, e := os.Open(tmp2); e == nil {
				fh.Seek(int64(len(prefix)), 0)
				os.Remove(tmp2)
				m, err = asm.Parse("x.ll", fh)
				fh.Close()
				viaOSFile = entryDigest(m, err)
			} else {
				viaOSFile = viaReader
			}
			return nil
		})
		m0, err0 := func() (m *ir.Module, err error) {
			defer func() { recover() }()
			return asm.ParseString("x.ll", src)
		}()
		viaString := entryDigest(m0, err0)
		if viaOSFile != viaReader && bad == "" {
			bad = fmt.Sprintf("a reader that is an *os.File (positioned, unlinked) is read differently: %s vs %s", viaOSFile, viaReader)
		}
		if viaBytes != viaString || viaReader != viaString || (viaFile != viaString && !strings.Contains(viaString, "source_filename")) {
			if bad == "" && !(viaString == "rejected" && viaBytes == "rejected") {
				bad = fmt.Sprintf("entry points disagree: string %s bytes %s reader %s file %s", viaString, viaBytes, viaReader, viaFile)
			}
		}
		// concurrently with parses of unrelated inputs
		var wg sync.WaitGroup
		res := make([]string, 6)
		for k := 0; k < 6; k++ {
			wg.Add(1)
			go func(k int) {
				defer wg.Done()
				if k%2 == 0 {
					res[k] = digestOf(src)
				} else {
					digestOf(inputs[(idx+k)%len(inputs)])
					res[k] = first
				}
			}(k)
		}
		wg.Wait()
		for _, d := range res {
			if d != first && bad == "" {
				bad = "a concurrent parse differs: " + d + " vs " + first
			}
		}
		if bad != "" {
			o.Fail("deterministic", "", bad, map[string]string{"src": src})
		} else {
			o.Pass("deterministic")
		}
		if idx < 2 {
			o.Sample(map[string]interface{}{"digest": first, "module_prefix": src[:min(200, len(src))]})
		}
	}
	// many goroutines, many rounds, inputs that go through every literal path of the parser (decimal, u0x and
	// negative s0x integers of different widths, hexadecimal floats of every kind, character arrays, named
	// types): each concurrent parse must print what the same text prints when parsed alone
	var heavy []string
	for k, w := range []int{8, 16, 24, 32, 48, 64, 96, 128} {
		var b strings.Builder
		for j := 0; j < 40; j++ {
			top := new(big.Int).Lsh(big.NewInt(1), uint(w-1))
			v := new(big.Int).Add(top, big.NewInt(int64(j*7+k))) // sign bit set: a negative s0x literal
			fmt.Fprintf(&b, "@s%d = global i%d s0x%X\n@u%d = global i%d u0x%X\n@d%d = global i%d %d\n", j, w, v, j, w, v, j, w, -(j + 1))
		}
		fmt.Fprintf(&b, "@f = global double 0x%X\n@h = global half 0xH%04X\n@c = global [3 x i8] c\"a\\%02Xb\"\n", 0x3FF0000000000000+uint64(k), 0x3C00+k, 65+k)
		heavy = append(heavy, b.String())
	}
	alone := make([]string, len(heavy))
	for i, src := range heavy {
		alone[i] = digestOf(src)
	}
	var mu sync.Mutex
	diffs := 0
	firstBad := ""
	var wg2 sync.WaitGroup
	for g := 0; g < 16; g++ {
		wg2.Add(1)
		go func(g int) {
			defer wg2.Done()
			for round := 0; round < 12*c.scale; round++ {
				i := (g + round) % len(heavy)
				if d := digestOf(heavy[i]); d != alone[i] {
					mu.Lock()
					diffs++
					if firstBad == "" {
						firstBad = fmt.Sprintf("input %d (i%d literals), goroutine %d, round %d: %s, alone: %s", i, []int{8, 16, 24, 32, 48, 64, 96, 128}[i], g, round, d, alone[i])
					}
					mu.Unlock()
				}
			}
		}(g)
	}
	wg2.Wait()
	o.StatN("concurrent_heavy_parses", 16*12*c.scale)
	if diffs > 0 {
		o.Fail("deterministic", "", fmt.Sprintf("%d concurrent parses of unrelated inputs differ from the parse of the same text alone", diffs), map[string]string{"first": firstBad, "src": heavy[0]})
	} else {
		o.Pass("deterministic")
	}
}

func entryDigest(m *ir.Module, err error) string {
	if err != nil || m == nil {
		return "rejected"
	}
	var text string
	oc, _ := guard(func() error { text = m.String(); return nil })
	if oc != ocOk {
		return "print-panic"
	}
	// the file entry point records the path as source filename when none is given
	var keep []string
	for _, l := range strings.Split(text, "\n") {
		if !strings.HasPrefix(l, "source_filename") {
			keep = append(keep, l)
		}
	}
	return fmt.Sprintf("%x", sha256.Sum256([]byte(strings.TrimLeft(strings.Join(keep, "\n"), "\n"))))[:16]
}

var reSpecDef = regexp.MustCompile(`(?m)^!([0-9]+) = (?:distinct )?(!(?:DI[A-Za-z]+|GenericDINode)\(.*\))\s*$`)

// inlineVariant appends, for every numbered specialised metadata definition of the module, a tuple that holds the
// same node written in place (its own references to numbered nodes stay references)
func inlineVariant(src string) string {
	defs := reSpecDef.FindAllStringSubmatch(src, -1)
	if len(defs) == 0 {
		return ""
	}
	max := 0
	for _, m := range regexp.MustCompile(`(?m)^!([0-9]+) = `).FindAllStringSubmatch(src, -1) {
		var n int
		fmt.Sscan(m[1], &n)
		if n > max {
			max = n
		}
	}
	var sb strings.Builder
	sb.WriteString(src)
	if !strings.HasSuffix(src, "\n") {
		sb.WriteString("\n")
	}
	for i, d := range defs {
		fmt.Fprintf(&sb, "!%d = !{%s}\n", max+1+i, d[2])
	}
	return sb.String()
}
