package main

// C12, acceptance does not depend on map order (c12maps.go).
//
// The translator walks Go maps for every module-level namespace (type definitions, comdats, globals and functions,
// attribute groups, named metadata, numbered metadata).  An error that is found inside such a walk must end the
// translation whatever entity the walk happened to visit first or last.  The inputs here are INVALID modules with
// N >= 4 entities in EVERY one of these namespaces, exactly one of which is faulty (it refers to something that is
// defined nowhere, or is defined twice); the faulty one sits at every position of its namespace in turn.  Each text
// is parsed many times, in process (map orders differ from walk to walk) and concurrently: LLVM rejects the text, so
// every single parse must reject it -- what is expected comes from the generator, which knows that it wrote a fault.
// A parse that accepts is reported with the text that was printed (the entities that silently went missing).

import (
	"fmt"
	"strings"
	"sync"

	"github.com/llir/llvm/asm"
)

// the entities of one generated module, by namespace, in source order
type c12Ents struct {
	types, comdats, globals, funcs, attrs, named, mds []string
}

type c12MapFault struct {
	ns, kind string
	// put replaces (or extends) the entity at position p
	put func(e *c12Ents, nm c12Names, p int)
}

type c12Names struct {
	t, c, g, f, n []string // type, comdat, global, function, named metadata names
}

func c12MapNames(r *rng, n int) c12Names {
	mk := func(prefix string) []string {
		var out []string
		seen := map[string]bool{}
		for len(out) < n {
			s := prefix
			for k := 0; k < 1+r.intn(5); k++ {
				s += string(r.pick("abcdefghijklmnopqrstuvwxyz_.0123456789"))
			}
			if !seen[s] {
				seen[s] = true
				out = append(out, s)
			}
		}
		return out
	}
	return c12Names{t: mk("T"), c: mk("C"), g: mk("g"), f: mk("f"), n: mk("n")}
}

func c12MapBase(nm c12Names, n int, r *rng) *c12Ents {
	e := &c12Ents{}
	for i := 0; i < n; i++ {
		e.types = append(e.types, fmt.Sprintf("%%%s = type { i32, %%%s* }", nm.t[i], nm.t[(i+1)%n]))
		e.comdats = append(e.comdats, fmt.Sprintf("$%s = comdat any", nm.c[i]))
		e.globals = append(e.globals, fmt.Sprintf("@%s = global %%%s* null, comdat($%s)", nm.g[i], nm.t[i], nm.c[i]))
		if i%2 == 0 {
			j := r.intn(n)
			e.funcs = append(e.funcs, fmt.Sprintf("define i32 @%s(i32 %%x) #%d comdat($%s) !note !%d {\n\t%%p = ptrtoint %%%s** @%s to i32\n\t%%y = add i32 %%x, %%p\n\tret i32 %%y\n}", nm.f[i], i, nm.c[r.intn(n)], i, nm.t[j], nm.g[j]))
		} else {
			e.funcs = append(e.funcs, fmt.Sprintf("declare void @%s(%%%s*) #%d", nm.f[i], nm.t[r.intn(n)], r.intn(n)))
		}
		e.attrs = append(e.attrs, fmt.Sprintf("attributes #%d = { nounwind \"k%d\"=\"v\" }", i, i))
		e.named = append(e.named, fmt.Sprintf("!%s = !{!%d, !%d}", nm.n[i], i, r.intn(n)))
		e.mds = append(e.mds, fmt.Sprintf("!%d = !{!%d, i32 %d}", i, (i+1)%n, i))
	}
	return e
}

func (e *c12Ents) text(r *rng) string {
	// the groups in a random order (all references may be forward references in LLVM assembly), except that type
	// definitions come first and metadata last, as llvm-as prints them
	groups := [][]string{e.comdats, e.globals, e.funcs, e.attrs}
	var sb strings.Builder
	for _, l := range e.types {
		sb.WriteString(l + "\n")
	}
	for _, k := range r.perm(len(groups)) {
		for _, l := range groups[k] {
			sb.WriteString(l + "\n")
		}
	}
	if r.coin() {
		for _, l := range e.named {
			sb.WriteString(l + "\n")
		}
		for _, l := range e.mds {
			sb.WriteString(l + "\n")
		}
	} else {
		for _, l := range e.mds {
			sb.WriteString(l + "\n")
		}
		for _, l := range e.named {
			sb.WriteString(l + "\n")
		}
	}
	return sb.String()
}

func c12MapFaults() []c12MapFault {
	return []c12MapFault{
		{"typedef", "field-of-undefined-type", func(e *c12Ents, nm c12Names, p int) {
			e.types[p] = fmt.Sprintf("%%%s = type { i32, %%undefined.type* }", nm.t[p])
		}},
		{"typedef", "alias-of-undefined-type", func(e *c12Ents, nm c12Names, p int) {
			e.types[p] = fmt.Sprintf("%%%s = type %%undefined.type", nm.t[p])
		}},
		{"typedef", "defined-twice", func(e *c12Ents, nm c12Names, p int) {
			e.types[p] += fmt.Sprintf("\n%%%s = type { i8 }", nm.t[p])
		}},
		{"comdat", "defined-twice", func(e *c12Ents, nm c12Names, p int) {
			e.comdats[p] += fmt.Sprintf("\n$%s = comdat largest", nm.c[p])
		}},
		{"global", "initialiser-undefined-global", func(e *c12Ents, nm c12Names, p int) {
			e.globals[p] = fmt.Sprintf("@%s = global i32* @undefined.global", nm.g[p])
		}},
		{"global", "undefined-comdat", func(e *c12Ents, nm c12Names, p int) {
			e.globals[p] = fmt.Sprintf("@%s = global i32 0, comdat($undefined.comdat)", nm.g[p])
		}},
		{"global", "undefined-content-type", func(e *c12Ents, nm c12Names, p int) {
			e.globals[p] = fmt.Sprintf("@%s = external global %%undefined.type", nm.g[p])
		}},
		{"global", "undefined-metadata-attachment", func(e *c12Ents, nm c12Names, p int) {
			e.globals[p] = fmt.Sprintf("@%s = global i32 0, !dbg !999", nm.g[p])
		}},
		{"global", "defined-twice", func(e *c12Ents, nm c12Names, p int) {
			e.globals[p] += fmt.Sprintf("\n@%s = global i8 1", nm.g[p])
		}},
		{"func", "body-undefined-callee", func(e *c12Ents, nm c12Names, p int) {
			e.funcs[p] = fmt.Sprintf("define void @%s() {\n\tcall void @undefined.func()\n\tret void\n}", nm.f[p])
		}},
		{"func", "body-undefined-local", func(e *c12Ents, nm c12Names, p int) {
			e.funcs[p] = fmt.Sprintf("define i32 @%s() {\n\tret i32 %%undefined.local\n}", nm.f[p])
		}},
		{"func", "body-undefined-label", func(e *c12Ents, nm c12Names, p int) {
			e.funcs[p] = fmt.Sprintf("define void @%s() {\n\tbr label %%undefined.label\n}", nm.f[p])
		}},
		{"func", "header-undefined-comdat", func(e *c12Ents, nm c12Names, p int) {
			e.funcs[p] = fmt.Sprintf("declare void @%s() comdat($undefined.comdat)", nm.f[p])
		}},
		{"func", "header-undefined-type", func(e *c12Ents, nm c12Names, p int) {
			e.funcs[p] = fmt.Sprintf("declare void @%s(%%undefined.type*)", nm.f[p])
		}},
		{"func", "header-undefined-metadata", func(e *c12Ents, nm c12Names, p int) {
			e.funcs[p] = fmt.Sprintf("define void @%s() !dbg !999 {\n\tret void\n}", nm.f[p])
		}},
		{"func", "body-undefined-metadata", func(e *c12Ents, nm c12Names, p int) {
			e.funcs[p] = fmt.Sprintf("define void @%s() {\n\tret void, !dbg !999\n}", nm.f[p])
		}},
		{"func", "defined-twice", func(e *c12Ents, nm c12Names, p int) {
			e.funcs[p] += fmt.Sprintf("\ndefine void @%s() {\n\tret void\n}", nm.f[p])
		}},
		{"alias", "undefined-aliasee", func(e *c12Ents, nm c12Names, p int) {
			e.globals[p] += fmt.Sprintf("\n@alias.%d = alias i32, i32* @undefined.global", p)
		}},
		{"namedmd", "undefined-node", func(e *c12Ents, nm c12Names, p int) {
			e.named[p] = fmt.Sprintf("!%s = !{!%d, !999}", nm.n[p], p)
		}},
		{"namedmd", "undefined-node-only", func(e *c12Ents, nm c12Names, p int) {
			e.named[p] = fmt.Sprintf("!%s = !{!999}", nm.n[p])
		}},
		{"namedmd", "undefined-node-second-definition", func(e *c12Ents, nm c12Names, p int) {
			e.named[p] += fmt.Sprintf("\n!%s = !{!999}", nm.n[p])
		}},
		{"mddef", "tuple-undefined-node", func(e *c12Ents, nm c12Names, p int) {
			e.mds[p] = fmt.Sprintf("!%d = !{!999, i32 %d}", p, p)
		}},
		{"mddef", "tuple-undefined-global", func(e *c12Ents, nm c12Names, p int) {
			e.mds[p] = fmt.Sprintf("!%d = !{i32* @undefined.global}", p)
		}},
		{"mddef", "specialised-undefined-node", func(e *c12Ents, nm c12Names, p int) {
			e.mds[p] = fmt.Sprintf("!%d = !DILocation(line: 1, column: 1, scope: !999)", p)
		}},
		{"mddef", "tuple-undefined-type", func(e *c12Ents, nm c12Names, p int) {
			e.mds[p] = fmt.Sprintf("!%d = !{%%undefined.type* null}", p)
		}},
		{"mddef", "defined-twice", func(e *c12Ents, nm c12Names, p int) {
			e.mds[p] += fmt.Sprintf("\n!%d = !{i32 77}", p)
		}},
	}
}

// c12ParseOutcome: "rejected", "panic" or "accepted: <printed text>"
func c12ParseOutcome(src string) string {
	res := ""
	oc, _ := guard(func() error {
		m, err := asm.ParseString("x.ll", src)
		if err != nil {
			res = "rejected"
			return nil
		}
		res = "accepted: " + m.String()
		return nil
	})
	if oc == ocPanic {
		return "panic"
	}
	return res
}

func c12MapOrderFaults(c *config) {
	o := c.out
	r := newRng(c.seed, "c12-map-faults")
	const parses = 40
	reported := 0
	// the valid base modules are accepted (otherwise a rejection below would say nothing about the fault)
	for round := 0; round < c.scale; round++ {
		for _, flt := range c12MapFaults() {
			n := 4 + r.intn(3)
			nm := c12MapNames(r, n)
			seedR := r.next()
			base := c12MapBase(nm, n, newRng(seedR, "ents")).text(newRng(seedR, "text"))
			if oc := c12ParseOutcome(base); !strings.HasPrefix(oc, "accepted") {
				// the grammar or a known finding rejects the valid sibling module: nothing to learn from it
				o.Stat("maporder.base_not_accepted")
				continue
			}
			for p := 0; p < n; p++ {
				e := c12MapBase(nm, n, newRng(seedR, "ents"))
				flt.put(e, nm, p)
				src := e.text(newRng(seedR, "text"))
				o.Stat("maporder." + flt.ns + "." + flt.kind)
				o.Nontrivial("maporder:" + flt.ns + "." + flt.kind)
				counts := map[string]int{}
				example := ""
				note := func(oc string) {
					if strings.HasPrefix(oc, "accepted") {
						if example == "" {
							example = oc
						}
						oc = "accepted"
					}
					counts[oc]++
				}
				for k := 0; k < parses-8; k++ {
					note(c12ParseOutcome(src))
				}
				var wg sync.WaitGroup
				var mu sync.Mutex
				for k := 0; k < 8; k++ {
					wg.Add(1)
					go func() {
						defer wg.Done()
						oc := c12ParseOutcome(src)
						mu.Lock()
						note(oc)
						mu.Unlock()
					}()
				}
				wg.Wait()
				if counts["rejected"] == parses {
					o.Pass("fault_rejected_in_every_map_order")
					continue
				}
				if reported++; reported > 3 {
					o.Stat("maporder.further_failures_not_reported")
					continue
				}
				o.Fail("fault_rejected_in_every_map_order", "", fmt.Sprintf("an invalid module (%s: %s, entity %d of %d) is not rejected by every parse: %d rejected, %d accepted, %d panicked of %d parses of the same text", flt.ns, flt.kind, p+1, n, counts["rejected"], counts["accepted"], counts["panic"], parses),
					map[string]string{"src": src, "accepted_as": example})
			}
		}
	}
}
