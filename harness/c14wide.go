package main

// C14, wide histories: construction and editing steps over a whole module (globals, functions, blocks,
// instructions of several kinds, terminators set and replaced, renames, inserts and removals, field
// assignments after the constructors), with observer calls interleaved at any position.  Every value is
// named, so the numbering of unnamed values (the part History.v models, and where KF-15 lives) plays no
// role here: the observers must be no-ops outright.

import (
	"fmt"
	"strings"

	"github.com/llir/llvm/ir"
	"github.com/llir/llvm/ir/constant"
	"github.com/llir/llvm/ir/enum"
	"github.com/llir/llvm/ir/types"
	"github.com/llir/llvm/ir/value"
)

type c14wOp struct {
	kind       byte // G global, F func, B block, I append/insert inst, R remove inst, T replace terminator, N rename, E field edit, Q observe
	a, b, c, d int
}

type c14wFunc struct {
	f      *ir.Func
	vals   []value.Value // i32 values usable as operands (parameters and results)
	ptrs   []value.Value // i32* values (allocas)
	bools  []value.Value
	used   map[ir.Instruction]bool
	isVoid bool
}

type c14wState struct {
	m       *ir.Module
	globals []*ir.Global
	funcs   []*c14wFunc
	serial  int
}

func (s *c14wState) name(p string) string { s.serial++; return fmt.Sprintf("%s%d", p, s.serial) }

func pickV(vs []value.Value, k int, dflt value.Value) value.Value {
	if len(vs) == 0 {
		return dflt
	}
	return vs[k%len(vs)]
}

func (s *c14wState) newInst(fn *c14wFunc, op c14wOp) ir.Instruction {
	i32 := types.I32
	c := func(k int) value.Value { return constant.NewInt(i32, int64(k%7)) }
	x := pickV(fn.vals, op.b, c(op.b))
	y := pickV(fn.vals, op.c, c(op.c))
	mark := func(vs ...value.Value) {
		for _, v := range vs {
			if in, ok := v.(ir.Instruction); ok {
				fn.used[in] = true
			}
		}
	}
	switch op.a % 9 {
	case 0, 1:
		in := ir.NewAdd(x, y)
		in.SetName(s.name("v"))
		mark(x, y)
		fn.vals = append(fn.vals, in)
		return in
	case 2:
		if len(s.globals) > 0 {
			g := s.globals[op.b%len(s.globals)]
			in := ir.NewLoad(i32, g)
			in.SetName(s.name("l"))
			fn.vals = append(fn.vals, in)
			return in
		}
		fallthrough
	case 3:
		in := ir.NewAlloca(i32)
		in.SetName(s.name("a"))
		fn.ptrs = append(fn.ptrs, in)
		return in
	case 4:
		var dst value.Value
		if len(s.globals) > 0 && op.d%2 == 0 {
			dst = s.globals[op.c%len(s.globals)]
		} else if len(fn.ptrs) > 0 {
			dst = fn.ptrs[op.c%len(fn.ptrs)]
			mark(dst)
		}
		if dst == nil {
			in := ir.NewAlloca(i32)
			in.SetName(s.name("a"))
			fn.ptrs = append(fn.ptrs, in)
			return in
		}
		mark(x)
		// the store is built from its fields: NewStore compares the operand types, which is a type query of its own
		return &ir.InstStore{Src: x, Dst: dst}
	case 5:
		callee := s.funcs[op.b%len(s.funcs)]
		var args []value.Value
		for i := range callee.f.Params {
			a := pickV(fn.vals, op.c+i, c(op.c+i))
			mark(a)
			args = append(args, a)
		}
		in := ir.NewCall(callee.f, args...)
		if !callee.isVoid {
			in.SetName(s.name("r"))
			fn.vals = append(fn.vals, in)
		}
		return in
	case 6:
		in := ir.NewICmp(enum.IPredSLT, x, y)
		in.SetName(s.name("c"))
		mark(x, y)
		fn.bools = append(fn.bools, in)
		return in
	case 7:
		if len(fn.bools) > 0 {
			cnd := fn.bools[op.d%len(fn.bools)]
			in := ir.NewSelect(cnd, x, y)
			in.SetName(s.name("s"))
			mark(cnd, x, y)
			fn.vals = append(fn.vals, in)
			return in
		}
		fallthrough
	default:
		if len(s.globals) > 0 {
			g := s.globals[op.b%len(s.globals)]
			in := ir.NewGetElementPtr(i32, g, x)
			in.SetName(s.name("p"))
			mark(x)
			return in
		}
		in := ir.NewMul(x, y)
		in.SetName(s.name("m"))
		mark(x, y)
		fn.vals = append(fn.vals, in)
		return in
	}
}

func (s *c14wState) newTerm(fn *c14wFunc, blk *ir.Block, op c14wOp) ir.Terminator {
	bs := fn.f.Blocks
	switch op.b % 6 {
	case 4:
		t := bs[op.c%len(bs)]
		return ir.NewIndirectBr(constant.NewBlockAddress(fn.f, t), t, bs[(op.c+op.d)%len(bs)])
	case 0:
		return ir.NewBr(bs[op.c%len(bs)])
	case 1:
		if len(fn.bools) > 0 {
			cnd := fn.bools[op.d%len(fn.bools)]
			if in, ok := cnd.(ir.Instruction); ok {
				fn.used[in] = true
			}
			return ir.NewCondBr(cnd, bs[op.c%len(bs)], bs[(op.c+op.d)%len(bs)])
		}
	case 2:
		x := pickV(fn.vals, op.d, constant.NewInt(types.I32, 1))
		if in, ok := x.(ir.Instruction); ok {
			fn.used[in] = true
		}
		return ir.NewSwitch(x, bs[op.c%len(bs)], ir.NewCase(constant.NewInt(types.I32, 1), bs[(op.c+1)%len(bs)]), ir.NewCase(constant.NewInt(types.I32, 2), bs[(op.c+op.d)%len(bs)]))
	case 3:
		return ir.NewUnreachable()
	}
	if fn.isVoid {
		return ir.NewRet(nil)
	}
	x := pickV(fn.vals, op.d, constant.NewInt(types.I32, 0))
	if in, ok := x.(ir.Instruction); ok {
		fn.used[in] = true
	}
	return ir.NewRet(x)
}

func (s *c14wState) observe(mask int) {
	if mask&1 != 0 {
		_ = s.m.String()
	}
	if mask&2 != 0 {
		var sb strings.Builder
		s.m.WriteTo(&sb)
	}
	for _, g := range s.globals {
		if mask&4 != 0 {
			_ = g.Type()
			_ = g.Ident()
		}
		if mask&8 != 0 {
			_ = g.String()
			_ = g.LLString()
		}
	}
	for _, fn := range s.funcs {
		if mask&4 != 0 {
			_ = fn.f.Type()
			_ = fn.f.Ident()
			_ = fn.f.String()
		}
		if mask&16 != 0 {
			_ = fn.f.LLString()
		}
		for _, b := range fn.f.Blocks {
			if mask&32 != 0 {
				_ = b.Ident()
				_ = b.Type()
				_ = b.LLString()
			}
			for _, in := range b.Insts {
				if mask&64 != 0 {
					if v, ok := in.(value.Value); ok {
						_ = v.Type()
						_ = v.Ident()
						_ = v.String()
					}
					_ = in.LLString()
				}
				if mask&128 != 0 {
					_ = in.Operands()
				}
			}
			if b.Term != nil && mask&128 != 0 {
				_ = b.Term.Succs()
				_ = b.Term.Operands()
				_ = b.Term.LLString()
			}
		}
	}
}

func (s *c14wState) apply(op c14wOp, observers bool) {
	switch op.kind {
	case 'G':
		var g *ir.Global
		if op.a%2 == 0 {
			g = s.m.NewGlobal(s.name("g"), types.I32)
			g.Linkage = enum.LinkageExternal
		} else {
			g = s.m.NewGlobalDef(s.name("g"), constant.NewInt(types.I32, int64(op.b%5)))
		}
		s.globals = append(s.globals, g)
	case 'F':
		var ps []*ir.Param
		for i := 0; i < op.a%3; i++ {
			ps = append(ps, ir.NewParam(s.name("p"), types.I32))
		}
		isVoid := op.b%2 == 0
		var ret types.Type = types.I32
		if isVoid {
			ret = types.Void
		}
		f := s.m.NewFunc(s.name("f"), ret, ps...)
		fn := &c14wFunc{f: f, used: map[ir.Instruction]bool{}, isVoid: isVoid}
		for _, p := range ps {
			fn.vals = append(fn.vals, p)
		}
		b := f.NewBlock(s.name("b"))
		s.funcs = append(s.funcs, fn)
		b.Term = s.newTerm(fn, b, c14wOp{b: 4})
	case 'B':
		if len(s.funcs) == 0 {
			return
		}
		fn := s.funcs[op.a%len(s.funcs)]
		b := fn.f.NewBlock(s.name("b"))
		b.Term = s.newTerm(fn, b, op)
	case 'I':
		if len(s.funcs) == 0 {
			return
		}
		fn := s.funcs[op.d%len(s.funcs)]
		b := fn.f.Blocks[(op.d/7)%len(fn.f.Blocks)]
		in := s.newInst(fn, op)
		pos := len(b.Insts)
		if op.c%3 == 0 && pos > 0 {
			pos = (op.c / 3) % (pos + 1)
		}
		b.Insts = append(b.Insts, nil)
		copy(b.Insts[pos+1:], b.Insts[pos:])
		b.Insts[pos] = in
	case 'R':
		if len(s.funcs) == 0 {
			return
		}
		fn := s.funcs[op.a%len(s.funcs)]
		b := fn.f.Blocks[op.b%len(fn.f.Blocks)]
		// remove the first instruction from position c on that nothing uses
		for k := 0; k < len(b.Insts); k++ {
			i := (op.c + k) % len(b.Insts)
			if !fn.used[b.Insts[i]] {
				gone := b.Insts[i]
				b.Insts = append(b.Insts[:i:i], b.Insts[i+1:]...)
				drop := func(vs []value.Value) []value.Value {
					var out []value.Value
					for _, v := range vs {
						if v != value.Value(nil) && interface{}(v) != interface{}(gone) {
							out = append(out, v)
						}
					}
					return out
				}
				fn.vals, fn.ptrs, fn.bools = drop(fn.vals), drop(fn.ptrs), drop(fn.bools)
				break
			}
		}
	case 'T':
		if len(s.funcs) == 0 {
			return
		}
		fn := s.funcs[op.a%len(s.funcs)]
		b := fn.f.Blocks[op.d%len(fn.f.Blocks)]
		b.Term = s.newTerm(fn, b, op)
	case 'N':
		if len(s.funcs) == 0 {
			return
		}
		fn := s.funcs[op.a%len(s.funcs)]
		switch op.b % 3 {
		case 0:
			if len(fn.f.Params) > 0 {
				fn.f.Params[op.c%len(fn.f.Params)].SetName(s.name("pn"))
			}
		case 1:
			fn.f.Blocks[op.c%len(fn.f.Blocks)].SetName(s.name("bn"))
		default:
			b := fn.f.Blocks[op.c%len(fn.f.Blocks)]
			if len(b.Insts) > 0 {
				if n, ok := b.Insts[op.d%len(b.Insts)].(interface {
					SetName(string)
					Name() string
				}); ok && n.Name() != "" {
					n.SetName(s.name("vn"))
				}
			}
		}
	case 'E':
		switch op.a % 5 {
		case 0, 1:
			if len(s.globals) > 0 {
				g := s.globals[op.b%len(s.globals)]
				switch op.c % 4 {
				case 0, 1:
					g.AddrSpace = types.AddrSpace(op.d % 4)
				case 2:
					g.Align = ir.Align(1 << uint(op.d%4))
				default:
					g.Immutable = op.d%2 == 0
				}
			}
		case 2:
			if len(s.funcs) > 0 {
				f := s.funcs[op.b%len(s.funcs)].f
				switch op.c % 3 {
				case 0:
					f.AddrSpace = types.AddrSpace(op.d % 3)
				case 1:
					f.CallingConv = enum.CallingConvFast
				default:
					f.Section = fmt.Sprintf(".s%d", op.d%3)
				}
			}
		default:
			if len(s.funcs) > 0 {
				fn := s.funcs[op.b%len(s.funcs)]
				b := fn.f.Blocks[op.c%len(fn.f.Blocks)]
				// the targets of a terminator, edited through its fields (what the next print must show, whatever a
				// Succs() or a print before the edit has cached)
				if op.a%2 == 0 {
					other := fn.f.Blocks[(op.c+1+op.d)%len(fn.f.Blocks)]
					switch t := b.Term.(type) {
					case *ir.TermIndirectBr:
						t.ValidTargets = append(t.ValidTargets, other)
					case *ir.TermSwitch:
						t.Cases = append(t.Cases, ir.NewCase(constant.NewInt(types.I32, int64(10+len(t.Cases))), other))
					case *ir.TermBr:
						t.Target = other
					case *ir.TermCondBr:
						t.TargetTrue, t.TargetFalse = t.TargetFalse, other
					}
				}
				if len(b.Insts) > 0 {
					switch in := b.Insts[op.d%len(b.Insts)].(type) {
					case *ir.InstLoad:
						in.Align = ir.Align(4)
						in.Volatile = op.d%2 == 0
					case *ir.InstStore:
						in.Align = ir.Align(4)
					case *ir.InstAlloca:
						in.Align = ir.Align(8)
						in.AddrSpace = types.AddrSpace(op.d % 2)
					case *ir.InstAdd:
						in.OverflowFlags = []enum.OverflowFlag{enum.OverflowFlagNSW}
					case *ir.InstCall:
						in.Tail = enum.TailTail
					case *ir.InstGetElementPtr:
						in.InBounds = true
					}
				}
			}
		}
	case 'Q':
		if observers {
			s.observe(op.a)
		}
	}
}

func c14wGen(r *rng, n int) []c14wOp {
	h := []c14wOp{{kind: 'G', a: r.intn(2), b: r.intn(5)}, {kind: 'F', a: r.intn(3), b: r.intn(2)}}
	for i := 0; i < n; i++ {
		op := c14wOp{a: r.intn(1000), b: r.intn(1000), c: r.intn(1000), d: r.intn(1000)}
		switch k := r.intn(20); {
		case k < 1:
			op.kind = 'G'
		case k < 2:
			op.kind = 'F'
		case k < 4:
			op.kind = 'B'
		case k < 10:
			op.kind = 'I'
		case k < 11:
			op.kind = 'R'
		case k < 13:
			op.kind = 'T'
		case k < 14:
			op.kind = 'N'
		case k < 16:
			op.kind = 'E'
		default:
			op.kind = 'Q'
			op.a = 1 + r.intn(255)
			if r.chance(30) {
				op.a = 1 << uint(r.intn(8))
			}
		}
		h = append(h, op)
	}
	return h
}

func c14wEnc(h []c14wOp) string {
	var sb strings.Builder
	for _, op := range h {
		fmt.Fprintf(&sb, "%c%d.%d.%d.%d ", op.kind, op.a, op.b, op.c, op.d)
	}
	return strings.TrimSpace(sb.String())
}

func c14wDec(s string) []c14wOp {
	var h []c14wOp
	for _, t := range strings.Fields(s) {
		var op c14wOp
		op.kind = t[0]
		fmt.Sscanf(t[1:], "%d.%d.%d.%d", &op.a, &op.b, &op.c, &op.d)
		h = append(h, op)
	}
	return h
}

// c14wRun applies the history with or without the observer calls and returns the final printed module
func c14wRun(h []c14wOp, observers bool) (text string, second string) {
	s := &c14wState{m: ir.NewModule()}
	oc, msg := guard(func() error {
		for _, op := range h {
			s.apply(op, observers)
		}
		text = s.m.String()
		if printedPanic(text) {
			panic(text)
		}
		second = s.m.String()
		return nil
	})
	if oc != ocOk {
		return "Panic: " + msg, ""
	}
	return text, second
}

// c14wShrink drops operations while the two runs keep differing
func c14wShrink(h []c14wOp) []c14wOp {
	differs := func(h []c14wOp) bool {
		a, _ := c14wRun(h, true)
		b, _ := c14wRun(h, false)
		return a != b
	}
	for changed := true; changed; {
		changed = false
		for i := len(h) - 1; i >= 0; i-- {
			cand := append(append([]c14wOp{}, h[:i]...), h[i+1:]...)
			if differs(cand) {
				h, changed = cand, true
			}
		}
	}
	return h
}

func c14Wide(c *config, r *rng) {
	o := c.out
	// printing twice in a row, first print of a constructed module: references to unnamed blocks of functions
	// that are printed later (KF-39)
	for variant := 0; variant < 8; variant++ {
		m := ir.NewModule()
		early := m.NewFunc("early", types.NewPointer(types.I8))
		f := m.NewFunc("f", types.Void, ir.NewParam("", types.I32))
		e := f.NewBlock("")
		for k := 0; k < variant%4; k++ {
			e.NewAdd(f.Params[0], f.Params[0])
		}
		bb := f.NewBlock("")
		e.NewBr(bb)
		bb.NewRet(nil)
		early.NewBlock("").NewRet(constant.NewBlockAddress(f, bb))
		if variant < 4 {
			m.NewGlobalDef("g", constant.NewBlockAddress(f, bb)) // (variants 4..7: a module without any global variable)
		}
		var a, b string
		oc, _ := guard(func() error { a = m.String(); b = m.String(); return nil })
		if oc != ocOk || a != b {
			o.Fail("print_twice", "", "the first and the second print of a constructed module differ", map[string]interface{}{"first": a, "second": b})
		} else {
			o.Pass("print_twice")
		}
	}
	for i := 0; i < 1500*c.scale; i++ {
		h := c14wGen(r, 5+r.intn(60))
		with, second := c14wRun(h, true)
		without, _ := c14wRun(h, false)
		o.Stat("wide_histories")
		o.StatN("wide_ops", len(h))
		for _, op := range h {
			o.Stat("wide_op." + string(op.kind))
		}
		o.Nontrivial("wide:" + c14wEnc(h))
		if i < 1 {
			o.Sample(map[string]interface{}{"wide_history": c14wEnc(h), "final": with})
		}
		if with != without {
			small := c14wShrink(h)
			w2, _ := c14wRun(small, true)
			wo2, _ := c14wRun(small, false)
			o.Fail("observers_noop", "", "final module differs with and without the observer calls (module-wide history)", map[string]interface{}{"wide_history": c14wEnc(small), "with": w2, "without": wo2})
		} else {
			o.Pass("observers_noop")
		}
		if !strings.HasPrefix(with, "Panic") {
			if second != with {
				o.Fail("print_twice", "", "second print differs (module-wide history)", map[string]interface{}{"wide_history": c14wEnc(h)})
			} else {
				o.Pass("print_twice")
			}
		} else {
			o.Stat("wide_histories.final_print_panics")
		}
	}
}
