package main

// C19: Module.WriteTo honours io.WriterTo, also when the writer fails.

import (
	"crypto/md5"
	"encoding/hex"
	"errors"
	"fmt"
	"os"
	"path/filepath"
	"strconv"
	"strings"

	"github.com/llir/llvm/asm"
	"github.com/llir/llvm/ir"
)

func init() { props["C19"] = runC19 }

var errC19 = errors.New("c19: writer failed")

// records the chunks handed to Write; never fails
type chunkRecorder struct{ chunks []string }

func (w *chunkRecorder) Write(p []byte) (int, error) {
	w.chunks = append(w.chunks, string(p))
	return len(p), nil
}

// accepts at most k bytes in total; the call crossing the limit is a short write with an error
type failAfter struct {
	k          int
	acc        []byte
	failed     bool
	callsAfter int
	calls      int
	zeroErr    bool // if set: the failing call accepts nothing beyond the limit even when it could accept some
}

func (w *failAfter) Write(p []byte) (int, error) {
	w.calls++
	if w.failed {
		w.callsAfter++
		return 0, errC19
	}
	if len(w.acc)+len(p) <= w.k {
		w.acc = append(w.acc, p...)
		return len(p), nil
	}
	n := w.k - len(w.acc)
	w.acc = append(w.acc, p[:n]...)
	w.failed = true
	return n, errC19
}

// the same writer, also an io.StringWriter (what a *bufio.Writer, a *strings.Builder or an http response writer
// is): whichever of the two methods the printer picks, the contract is the same
type failAfterSW struct{ failAfter }

func (w *failAfterSW) WriteString(s string) (int, error) { return w.Write([]byte(s)) }

// never fails, forwards in pieces of odd sizes (what a buffered or packetising writer does)
type rechunk struct {
	acc  []byte
	size int
}

func (w *rechunk) Write(p []byte) (int, error) {
	for i := 0; i < len(p); i += w.size {
		j := i + w.size
		if j > len(p) {
			j = len(p)
		}
		w.acc = append(w.acc, p[i:j]...)
	}
	return len(p), nil
}

func md5hex(b []byte) string { s := md5.Sum(b); return hex.EncodeToString(s[:]) }

func c19Modules(c *config, r *rng) []*ir.Module {
	var ms []*ir.Module
	files, _ := filepath.Glob("/repo/asm/testdata/*.ll")
	for _, f := range files {
		var m *ir.Module
		oc, _ := guard(func() error {
			var err error
			m, err = asm.ParseFile(f)
			return err
		})
		if oc == ocOk {
			ms = append(ms, m)
		}
	}
	n := 40
	if c.tier == "thorough" {
		n = 200
	}
	for i := 0; i < n; i++ {
		var b strings.Builder
		if r.chance(40) {
			b.WriteString("source_filename = \"a.c\"\n")
		}
		if r.chance(40) {
			b.WriteString("target datalayout = \"e-m:e-i64:64\"\n")
		}
		if r.chance(40) {
			b.WriteString("target triple = \"x86_64-unknown-linux-gnu\"\n")
		}
		if r.chance(30) {
			b.WriteString("module asm \"nop\"\n")
		}
		defs := c20GenModule(r)
		keep := map[string]bool{}
		for _, cat := range []string{"type", "comdat", "global", "alias", "ifunc", "func", "attr", "md", "named"} {
			keep[cat] = r.chance(55)
		}
		if keep["alias"] {
			keep["global"] = true
		}
		if keep["ifunc"] {
			keep["func"] = true
		}
		if keep["named"] {
			keep["md"] = true
		}
		for _, d := range defs {
			if keep[d.cat] {
				b.WriteString(d.text + "\n")
			}
		}
		// the last sections WriteTo prints: use-list order directives of the module and of basic blocks
		if i == 0 || r.chance(45) {
			b.WriteString("@ulg = global i32 0\n@ulp = global i32* @ulg\n@ulq = global i32* @ulg\n")
			b.WriteString("define void @ulf(i1 %c) {\nentry:\n\tbr i1 %c, label %bb, label %bb\nbb:\n\tret void\n}\n")
			if i == 0 || r.coin() {
				b.WriteString("uselistorder i32* @ulg, { 1, 0 }\n")
			}
			if i == 0 || r.coin() {
				b.WriteString("uselistorder_bb @ulf, %bb, { 1, 0 }\n")
				if r.coin() {
					b.WriteString("uselistorder_bb @ulf, %bb, { 0, 1 }\n")
				}
			}
		}
		m, err := asm.ParseString("c19.ll", b.String())
		if err != nil {
			panic(fmt.Sprintf("c19 generator produced an unparsable module: %v\n%s", err, b.String()))
		}
		ms = append(ms, m)
	}
	// constructed, empty and header-only modules
	ms = append(ms, ir.NewModule())
	h := ir.NewModule()
	h.SourceFilename = "x"
	ms = append(ms, h)
	return ms
}

func runC19(c *config) {
	o := c.out
	r := newRng(c.seed, "c19")
	if c.replay != "" {
		rp := readReplay(c.replay)
		src, _ := rp.Detail["module"].(string)
		k := 0
		if f, ok := rp.Detail["k"].(float64); ok {
			k = int(f)
		}
		m, err := asm.ParseString("replay.ll", src)
		if err != nil {
			o.Fail("replay", "", "module does not parse", rp.Detail)
			return
		}
		c19Check(c, m, []int{k}, true)
		return
	}
	for mi, m := range c19Modules(c, r) {
		var text string
		if oc, msg := guard(func() error { text = m.String(); return nil }); oc != ocOk {
			o.Fail("never_failing_writer", "", "String() panics: "+msg, map[string]interface{}{"module": mi})
			continue
		}
		L := len(text)
		rec := &chunkRecorder{}
		m.WriteTo(rec)
		var ks []int
		if c.tier == "thorough" && L <= 6000 {
			for k := 0; k <= L+1; k++ {
				ks = append(ks, k)
			}
		} else {
			seen := map[int]bool{}
			add := func(k int) {
				if k >= 0 && k <= L+2 && !seen[k] {
					seen[k] = true
					ks = append(ks, k)
				}
			}
			pos := 0
			for _, ch := range rec.chunks {
				add(pos - 1)
				add(pos)
				add(pos + 1)
				pos += len(ch)
			}
			add(L - 1)
			add(L)
			add(L + 1)
			for i := 0; i < 200*c.scale; i++ {
				add(r.intn(L + 1))
			}
			if len(ks) > 700*c.scale {
				ks = ks[:700*c.scale]
			}
		}
		c19Check(c, m, ks, mi < 2)
	}
}

func c19Check(c *config, m *ir.Module, ks []int, sample bool) {
	o := c.out
	var text string
	if oc, msg := guard(func() error { text = m.String(); return nil }); oc != ocOk {
		o.Fail("never_failing_writer", "", "String() panics: "+msg, map[string]interface{}{})
		return
	}
	L := len(text)
	rec := &chunkRecorder{}
	n0, err0 := m.WriteTo(rec)
	joined := strings.Join(rec.chunks, "")
	if joined != text || n0 != int64(L) || err0 != nil {
		o.Fail("never_failing_writer", "", "bytes/count differ from String()", map[string]interface{}{"module": text, "n": n0, "len": L})
	} else {
		o.Pass("never_failing_writer")
	}
	for _, sz := range []int{1, 3, 7, 4096} {
		rc := &rechunk{size: sz}
		n, err := m.WriteTo(rc)
		if string(rc.acc) != text || n != int64(L) || err != nil {
			o.Fail("rechunking_writer", "", "bytes/count differ from String()", map[string]interface{}{"module": text, "chunk": sz})
		} else {
			o.Pass("rechunking_writer")
		}
	}
	var outs []string
	var kstr []string
	for ki, k := range ks {
		w := &failAfter{k: k}
		var n int64
		var err error
		if oc, msg := guard(func() error { n, err = m.WriteTo(w); return nil }); oc != ocOk {
			o.Fail("failing_writer", "", "WriteTo panics with a failing writer: "+msg, map[string]interface{}{"module": text, "k": k})
			continue
		}
		// a call is on its own: after a WriteTo that met a failing writer, the next call with a writer that
		// never fails (and String()) delivers the whole text again
		if ki%16 == 0 || ki == len(ks)-1 {
			good := &rechunk{size: 4096}
			var n2 int64
			var err2 error
			var s2 string
			oc, msg := guard(func() error { n2, err2 = m.WriteTo(good); s2 = m.String(); return nil })
			if oc != ocOk || string(good.acc) != text || n2 != int64(L) || err2 != nil || s2 != text {
				o.Fail("failing_writer", "", "a WriteTo / String() after a call whose writer failed does not deliver the text", map[string]interface{}{"module": text, "k": k, "n": n2, "err": fmt.Sprint(err2), "msg": msg})
			} else {
				o.Pass("independent_calls")
			}
		}
		want := k
		if k > L {
			want = L
		}
		bad := ""
		switch {
		case string(w.acc) != text[:want]:
			bad = "delivered bytes are not the first k bytes of String()"
		case n != int64(want):
			bad = fmt.Sprintf("count %d, accepted %d", n, want)
		case k < L && err != errC19:
			bad = "first error not reported"
		case k >= L && err != nil:
			bad = "error reported by a writer that did not fail"
		case w.callsAfter != 0:
			bad = fmt.Sprintf("%d Write calls after the failure", w.callsAfter)
		}
		if bad != "" {
			o.Fail("failing_writer", "", bad, map[string]interface{}{"module": text, "k": k, "n": n, "err": fmt.Sprint(err), "calls_after": w.callsAfter})
		} else {
			o.Pass("failing_writer")
		}
		e := "0"
		if err != nil {
			e = "1"
		}
		outs = append(outs, fmt.Sprintf("%d:%s:%s:%d", n, e, md5hex(w.acc), w.calls))
		kstr = append(kstr, strconv.Itoa(k))
		o.Nontrivial(fmt.Sprintf("%s|%d", md5hex([]byte(text)), k))
	}
	for ki, k := range ks {
		if ki%3 != 0 && ki != len(ks)-1 {
			continue
		}
		w := &failAfterSW{failAfter{k: k}}
		var n int64
		var err error
		o.Stat("writers.string_writer")
		if oc, msg := guard(func() error { n, err = m.WriteTo(w); return nil }); oc != ocOk {
			o.Fail("failing_writer", "", "WriteTo panics with a failing string writer: "+msg, map[string]interface{}{"module": text, "k": k})
			continue
		}
		want := k
		if k > L {
			want = L
		}
		bad := ""
		switch {
		case string(w.acc) != text[:want]:
			bad = "delivered bytes are not the first k bytes of String()"
		case n != int64(want):
			bad = fmt.Sprintf("count %d, accepted %d", n, want)
		case k < L && err != errC19:
			bad = "first error not reported"
		case k >= L && err != nil:
			bad = "error reported by a writer that did not fail"
		case w.callsAfter != 0:
			bad = fmt.Sprintf("%d calls after the failure", w.callsAfter)
		}
		if bad != "" {
			o.Fail("failing_writer", "", bad+" (writer that is also an io.StringWriter)", map[string]interface{}{"module": text, "k": k, "n": n, "err": fmt.Sprint(err), "calls_after": w.callsAfter})
		} else {
			o.Pass("failing_writer")
		}
	}
	// a destination that is a real file: one that takes everything, one that is closed, one opened read-only, and
	// the device that is always full -- the count is what the file accepted, an error is reported, not swallowed
	if L > 0 {
		tmp := filepath.Join(os.TempDir(), fmt.Sprintf("verif-c19-%d.ll", os.Getpid()))
		if fh, e := os.Create(tmp); e == nil {
			n, err := m.WriteTo(fh)
			fh.Close()
			got, _ := os.ReadFile(tmp)
			o.Stat("writers.os_file")
			if err != nil || n != int64(L) || string(got) != text {
				o.Fail("failing_writer", "", "a file destination does not receive the text of String()", map[string]interface{}{"module": text, "n": n, "err": fmt.Sprint(err)})
			} else {
				o.Pass("file_writer")
			}
			n, err = m.WriteTo(fh) // closed
			if err == nil || n != 0 {
				o.Fail("failing_writer", "", "a closed file as destination: no error or a count above zero", map[string]interface{}{"module": text, "n": n, "err": fmt.Sprint(err)})
			} else {
				o.Pass("file_writer")
			}
			if ro, e := os.Open(tmp); e == nil {
				n, err = m.WriteTo(ro)
				ro.Close()
				if err == nil || n != 0 {
					o.Fail("failing_writer", "", "a read-only file as destination: no error or a count above zero", map[string]interface{}{"module": text, "n": n, "err": fmt.Sprint(err)})
				} else {
					o.Pass("file_writer")
				}
			}
			os.Remove(tmp)
		}
		if full, e := os.OpenFile("/dev/full", os.O_WRONLY, 0); e == nil {
			n, err := m.WriteTo(full)
			full.Close()
			if err == nil || n != 0 {
				o.Fail("failing_writer", "", "/dev/full as destination: no error or a count above zero", map[string]interface{}{"module": text, "n": n, "err": fmt.Sprint(err)})
			} else {
				o.Pass("file_writer")
			}
		}
	}
	o.Case("writeto", []string{hxs(rec.chunks), strings.Join(kstr, ",")}, []string{strings.Join(outs, ",")})
	o.StatN("writers.fail_after_k", len(ks))
	o.Stat("modules")
	o.StatN("chunks", len(rec.chunks))
	if sample {
		t := text
		if len(t) > 300 {
			t = t[:300] + "..."
		}
		o.Sample(map[string]interface{}{"module_prefix": t, "len": L, "chunks": len(rec.chunks), "ks_first": kstr[:min(8, len(kstr))]})
	}
	_ = os.Stdout
}
