package main

// C05, fault class "the number of an unnamed local written a second time": function shapes with unnamed
// parameters, blocks, instruction results and value terminators (invoke, callbr, catchswitch), rendered with
// LLVM's numbering, and then one definition whose explicit number is replaced by a number that an earlier
// unnamed local of the same function already carries (a parameter, a block label, an instruction result or a
// value terminator).  The generator planted a second definition of that number, so the expected outcome is a
// rejection whatever the rest of the function looks like; the unfaulted text of the same shape must be accepted.

import (
	"fmt"
	"strings"
)

// c05IDText renders the shape with the numbers given by written (index in items -> number on the page).  Every use
// (operands, branch and invoke targets, blockaddress) is written with the same numbers as the definitions.
// implicit leaves out the numbers wherever the syntax allows it (parameters, instruction results, the entry block)
// except on the entries listed in keep.
func c05IDText(r *rng, items []c08Item, want []int64, written func(k int) int64, implicit bool, keep map[int]bool) string {
	names := c08Names(items, want)
	name := func(k int) string {
		if items[k].named {
			return "%" + names[k]
		}
		return fmt.Sprintf("%%%d", written(k))
	}
	blockLabel := func(from int) string {
		for k := from; k >= 0; k-- {
			if items[k].kind == 'B' {
				if items[k].named {
					return names[k]
				}
				return fmt.Sprint(written(k))
			}
		}
		return "0"
	}
	var b strings.Builder
	b.WriteString("declare void @vf()\ndeclare i32 @if()\n")
	var ps []string
	i := 0
	for ; i < len(items) && items[i].kind == 'P'; i++ {
		if items[i].named || !implicit || keep[i] {
			ps = append(ps, "i32 "+name(i))
		} else {
			ps = append(ps, "i32")
		}
	}
	fmt.Fprintf(&b, "define void @f(%s) personality i8* null {\n", strings.Join(ps, ", "))
	lastVal := -1
	first := true
	for ; i < len(items); i++ {
		it := items[i]
		lhs := ""
		if it.isValue() && it.kind != 'B' && (it.named || !implicit || keep[i]) {
			lhs = name(i) + " = "
		}
		switch it.kind {
		case 'B':
			if it.named {
				fmt.Fprintf(&b, "%s:\n", names[i])
			} else if !implicit || keep[i] || !first {
				fmt.Fprintf(&b, "%d:\n", written(i))
			}
			first = false
		case 'I':
			op := "1"
			// an operand by number only where the definition carries its number on the page
			if lastVal >= 0 && r.coin() && (items[lastVal].named || !implicit || keep[lastVal]) {
				op = name(lastVal)
			}
			fmt.Fprintf(&b, "\t%sadd i32 %s, 2\n", lhs, op)
			lastVal = i
		case 'C':
			b.WriteString("\tcall " + []string{"void", "void ()"}[r.intn(2)] + " @vf()\n")
		case 'V':
			fmt.Fprintf(&b, "\t%scall %s @if()\n", lhs, []string{"i32", "i32 ()"}[r.intn(2)])
			lastVal = i
		case 'S':
			b.WriteString("\tstore i32 1, i32* null\n")
		case 'R':
			b.WriteString("\tret void\n")
		case 'N', 'O':
			tgt := "%" + blockLabel(i)
			if it.kind == 'N' {
				fmt.Fprintf(&b, "\t%sinvoke %s @if() to label %s unwind label %s\n", lhs, []string{"i32", "i32 ()"}[r.intn(2)], tgt, tgt)
			} else {
				fmt.Fprintf(&b, "\tinvoke %s @vf() to label %s unwind label %s\n", []string{"void", "void ()"}[r.intn(2)], tgt, tgt)
			}
		case 'W':
			fmt.Fprintf(&b, "\t%scatchswitch within none [label %%%s] unwind to caller\n", lhs, blockLabel(i))
		case 'L', 'M':
			tgt := "%" + blockLabel(i)
			if it.kind == 'L' {
				fmt.Fprintf(&b, "\t%scallbr i32 @if() to label %s [label %s]\n", lhs, tgt, tgt)
			} else {
				fmt.Fprintf(&b, "\tcallbr void @vf() to label %s [label %s]\n", tgt, tgt)
			}
		}
	}
	b.WriteString("}\n")
	return b.String()
}

func c05KindName(k byte) string {
	switch k {
	case 'P':
		return "parameter"
	case 'B':
		return "block label"
	case 'I', 'V':
		return "instruction result"
	case 'N':
		return "invoke result"
	case 'W':
		return "catchswitch result"
	case 'L':
		return "callbr result"
	}
	return string(k)
}

// c05RepeatedIDs: see the head of the file.
func c05RepeatedIDs(c *config) {
	o := c.out
	r := newRng(c.seed, "c05-repeated-ids")
	n := 250 * c.scale
	for i := 0; i < n; i++ {
		items := c08GenShape(r)
		// a few more unnamed values than the C08 shapes have on average: most entries unnamed
		for k := range items {
			if items[k].named && r.chance(50) {
				items[k].named = false
			}
		}
		want := c08Llvm(items)
		valid := func(k int) int64 { return want[k] }
		// the unfaulted text is a module LLVM accepts (C08 checks the binding of its numbers); a shape that the
		// grammar does not take is dropped, not counted
		base := c05IDText(r, items, want, valid, false, nil)
		if _, oc, _ := parseGuard(base); oc != ocOk {
			o.Stat("repeated_id.base_rejected")
			continue
		}
		// candidates for the second definition: every unnamed value but the first one of the function (a parameter
		// after another unnamed parameter included: that one is the function header's own check)
		var cand []int
		for k, it := range items {
			if !it.named && want[k] >= 1 {
				cand = append(cand, k)
			}
		}
		if len(cand) == 0 {
			continue
		}
		for rep := 0; rep < 2; rep++ {
			k := cand[r.intn(len(cand))]
			// the number written again: any number an earlier unnamed value carries
			j := int64(r.intn(int(want[k])))
			if j == 0 && want[k] > 1 && r.chance(70) {
				j = 1 + int64(r.intn(int(want[k])-1))
			}
			var first int
			for q := range items {
				if !items[q].named && want[q] == j {
					first = q
				}
			}
			mode := r.intn(3)
			var written func(q int) int64
			implicit := false
			keep := map[int]bool{}
			modeName := ""
			switch mode {
			case 0:
				// only this definition is off; the later ones carry LLVM's numbers
				modeName = "later_numbers_valid"
				written = func(q int) int64 {
					if q == k {
						return j
					}
					return want[q]
				}
			case 1:
				// the writer counts on from the repeated number: every later unnamed value is lower by the same amount
				modeName = "later_numbers_continue"
				written = func(q int) int64 {
					if q >= k && want[q] >= 0 {
						return want[q] - (want[k] - j)
					}
					return want[q]
				}
			default:
				// numbers only on the two definitions (and on the labels that cannot be left out)
				modeName = "other_numbers_implicit"
				implicit = true
				keep[k], keep[first] = true, true
				written = func(q int) int64 {
					if q == k {
						return j
					}
					return want[q]
				}
			}
			src := c05IDText(r, items, want, written, implicit, keep)
			_, oc, msg := parseGuard(src)
			o.Stat("fault.repeated_id." + strings.ReplaceAll(c05KindName(items[k].kind), " ", "_"))
			o.Stat("fault.repeated_id.first_is_" + strings.ReplaceAll(c05KindName(items[first].kind), " ", "_"))
			o.Stat("fault.repeated_id.mode." + modeName)
			if j == 0 {
				o.Stat("fault.repeated_id.number_zero")
			}
			o.Nontrivial(fmt.Sprintf("rid|%s|%d|%d|%d", c08Enc(items), k, j, mode))
			det := map[string]interface{}{
				"fault": fmt.Sprintf("the %s that LLVM numbers %%%d is written with the number %d, which the %s before it already carries (%s)",
					c05KindName(items[k].kind), want[k], j, c05KindName(items[first].kind), modeName),
				"src": src, "msg": msg, "valid": base}
			switch oc {
			case ocOk:
				o.Fail("undefined_or_duplicate", "", "an unnamed local defined twice (explicit number repeated) is accepted", det)
			case ocPanic:
				o.Fail("undefined_or_duplicate", "", "an unnamed local defined twice (explicit number repeated) crashes the parser", det)
			default:
				o.Pass("repeated_id_is_error")
			}
			if i == 0 && rep == 0 {
				o.Sample(map[string]interface{}{"fault": det["fault"], "outcome": oc.String(), "msg": msg, "src": src})
			}
		}
	}
}
