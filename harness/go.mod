module harness

go 1.23

require (
	github.com/llir/llvm v0.0.0
	github.com/mewmew/float v0.0.0-20201204173432-505706aa38fa
)

require (
	github.com/llir/ll v0.0.0-20220802205332-9207a04d0275 // indirect
	github.com/pkg/errors v0.9.1 // indirect
)

replace github.com/llir/llvm => /repo
