package main

// C09, concurrent reads: a literal denotes the same integer whenever and wherever it is read.  Many goroutines read
// a mix of literals (s0x with and without the sign bit set, u0x, signed decimals; widths from 2 to several thousand
// bits, neighbouring goroutines at different widths) at the same time, through constant.NewIntFromString and through
// the parser (small modules of global definitions).  Every result is compared with the integer the generator chose
// before it rendered the literal -- never with what a sequential run of the code returned.  A panic is recovered
// and reported with its literal.
//
// The workers run in a child process (the harness re-executed with VERIF_C09_CONC_CHILD=1): shared scratch state in
// the code under test means torn slice headers, and writes through them corrupt unrelated heap objects (seen while
// building this oracle: the generator's own expected values became malformed and the process died with a fatal
// error).  The child flushes every failure as it finds it and stops at the tenth; the parent copies the child's
// lines, and reports a child that died without a recorded failure as a failure of its own.

import (
	"bufio"
	"bytes"
	"context"
	"fmt"
	"math/big"
	"os"
	"os/exec"
	"runtime"
	"strconv"
	"strings"
	"sync"
	"sync/atomic"
	"time"

	"github.com/llir/llvm/asm"
	"github.com/llir/llvm/ir/constant"
	"github.com/llir/llvm/ir/types"
)

type c09Lit struct {
	w    uint64
	text string
	want *big.Int
	form string
	wtxt string // want in decimal, rendered before any worker starts
}

type c09Mod struct {
	src  string
	lits []c09Lit
}

func c09RandBelow(r *rng, bound *big.Int) *big.Int {
	x := new(big.Int)
	for b := 0; b < bound.BitLen()+8; b += 60 {
		x.Lsh(x, 60)
		x.Or(x, new(big.Int).SetUint64(r.next()>>4))
	}
	return x.Mod(x, bound)
}

// c09GenLit draws a value first and renders it afterwards: want is the generator's, text its spelling.
func c09GenLit(r *rng) c09Lit {
	var w uint64
	switch r.intn(10) {
	case 0, 1, 2, 3:
		w = uint64(2 + r.intn(63))
	case 4, 5:
		w = uint64(65 + r.intn(200))
	case 6:
		w = []uint64{8, 16, 32, 64, 128}[r.intn(5)]
	default:
		w = []uint64{300, 512, 1000, 1024, 2048, 4099, 6000}[r.intn(7)]
	}
	half, full := pow2(w-1), pow2(w)
	switch k := r.intn(10); {
	case k < 5: // s0x, sign bit set: x in [-2^(w-1), -1], spelled as x + 2^w
		x := c09RandBelow(r, half)
		x.Add(x, big.NewInt(1)).Neg(x)
		if r.chance(15) {
			x = big.NewInt(-1)
		} else if r.chance(10) {
			x = new(big.Int).Neg(half)
		}
		return c09Lit{w: w, text: "s0x" + strings.ToUpper(new(big.Int).Add(x, full).Text(16)), want: x, form: "s0x_negative"}
	case k < 6: // s0x, sign bit clear
		x := c09RandBelow(r, half)
		return c09Lit{w: w, text: "s0x" + strings.ToUpper(x.Text(16)), want: x, form: "s0x_nonnegative"}
	case k < 8: // u0x: any w-bit pattern, read as unsigned
		x := c09RandBelow(r, full)
		t := x.Text(16)
		if r.coin() {
			t = strings.ToUpper(t)
		}
		return c09Lit{w: w, text: "u0x" + t, want: x, form: "u0x"}
	default: // decimal, negative or not
		x := c09RandBelow(r, half)
		if r.coin() {
			x.Neg(x)
		}
		return c09Lit{w: w, text: x.String(), want: x, form: "decimal"}
	}
}

// c09Concurrent runs the workers; perWorker direct reads and modsPerWorker module parses each.
func c09Concurrent(c *config, r *rng, perWorker, modsPerWorker int) {
	o := c.out
	workers := runtime.GOMAXPROCS(0)
	if workers > 16 {
		workers = 16
	}
	if workers < 4 {
		workers = 4
	}
	var lits []c09Lit
	for i := 0; i < 4096; i++ {
		l := c09GenLit(r)
		l.wtxt = l.want.String()
		lits = append(lits, l)
		o.Stat("concurrent.literals." + l.form)
	}
	var mods []c09Mod
	for i := 0; i < 256; i++ {
		var sb strings.Builder
		var m c09Mod
		for k := 0; k < 3+r.intn(6); k++ {
			l := c09GenLit(r)
			if l.w > 1100 {
				l = c09GenLit(r)
			}
			l.wtxt = l.want.String()
			fmt.Fprintf(&sb, "@g%d = global i%d %s\n", k, l.w, l.text)
			m.lits = append(m.lits, l)
		}
		m.src = sb.String()
		mods = append(mods, m)
	}
	type failure struct {
		what string
		det  map[string]interface{}
	}
	var mu sync.Mutex
	var fails []failure
	var reads, parses int
	var stop int32
	report := func(f failure) {
		mu.Lock()
		if len(fails) < 10 {
			fails = append(fails, f)
			// written and flushed at once: the process may not live to the end of the run (the main goroutine is
			// blocked in Wait, nobody else writes)
			o.Fail("concurrent_reads", "", f.what, f.det)
			o.w.Flush()
		}
		if len(fails) >= 10 {
			atomic.StoreInt32(&stop, 1)
		}
		mu.Unlock()
	}
	var wg sync.WaitGroup
	start := make(chan struct{})
	for g := 0; g < workers; g++ {
		wg.Add(1)
		go func(g int) {
			defer wg.Done()
			wr := newRng(c.seed, fmt.Sprintf("c09conc-%d", g))
			nr, np := 0, 0
			<-start
			for i := 0; i < perWorker && atomic.LoadInt32(&stop) == 0; i++ {
				l := lits[wr.intn(len(lits))]
				var got *constant.Int
				oc, msg := guard(func() error {
					var err error
					got, err = constant.NewIntFromString(types.NewInt(l.w), l.text)
					return err
				})
				nr++
				det := map[string]interface{}{"width": l.w, "literal": l.text, "want": l.wtxt, "concurrent": true, "goroutines": workers}
				switch {
				case oc == ocPanic:
					det["msg"] = msg
					report(failure{"reading a literal panics while other goroutines read other literals", det})
				case oc == ocErr:
					det["msg"] = msg
					report(failure{"a literal is rejected while other goroutines read other literals", det})
				default:
					// the result itself may be a malformed big integer (limbs written by another goroutine): comparing or
					// printing it can panic, which is a failure of this read
					differs, gotText := false, ""
					oc2, msg2 := guard(func() error {
						differs = got.X.Cmp(l.want) != 0
						if differs {
							gotText = got.X.String()
						}
						return nil
					})
					if oc2 != ocOk {
						det["msg"] = msg2
						report(failure{"a literal read while other goroutines read other literals yields a malformed integer (using it panics)", det})
					} else if differs {
						det["got"] = gotText
						report(failure{"a literal read while other goroutines read other literals does not denote its value", det})
					}
				}
				if modsPerWorker > 0 && i%(perWorker/modsPerWorker+1) == 0 {
					m := mods[wr.intn(len(mods))]
					np++
					var vals []*big.Int
					oc, msg := guard(func() error {
						pm, err := asm.ParseString("c09conc.ll", m.src)
						if err != nil {
							return err
						}
						for _, gl := range pm.Globals {
							vals = append(vals, gl.Init.(*constant.Int).X)
						}
						for k := range vals {
							if k < len(m.lits) && vals[k].Cmp(m.lits[k].want) != 0 {
								_ = vals[k].String() // a malformed result panics here, inside the guard
							}
						}
						return nil
					})
					if oc != ocOk {
						report(failure{"a module of integer globals is not parsed while other goroutines parse: " + oc.String(), map[string]interface{}{"width": m.lits[0].w, "src": m.src, "msg": msg, "concurrent": true, "goroutines": workers}})
						continue
					}
					if len(vals) != len(m.lits) {
						report(failure{"a module of integer globals parsed while other goroutines parse has not its globals", map[string]interface{}{"width": m.lits[0].w, "src": m.src, "concurrent": true, "goroutines": workers}})
						continue
					}
					for k, l := range m.lits {
						if vals[k].Cmp(l.want) != 0 {
							report(failure{"a literal in a module parsed while other goroutines parse does not denote its value", map[string]interface{}{"width": l.w, "literal": l.text, "want": l.want.String(), "got": fmt.Sprint(vals[k]), "src": m.src, "concurrent": true, "goroutines": workers}})
							break
						}
					}
				}
			}
			mu.Lock()
			reads += nr
			parses += np
			mu.Unlock()
		}(g)
	}
	close(start)
	wg.Wait()
	o.StatN("concurrent.reads", reads)
	o.StatN("concurrent.module_parses", parses)
	o.StatN("concurrent.goroutines", workers)
	if len(fails) == 0 {
		o.pass["concurrent_reads"] += reads + parses
	}
}

// c09ConcurrentIsolated runs c09Concurrent in a child process and merges what the child wrote.
func c09ConcurrentIsolated(c *config) {
	o := c.out
	exe, err := os.Executable()
	if err != nil {
		exe = os.Args[0]
	}
	childOut := c.outPath + ".conc"
	os.Remove(childOut)
	args := []string{"C09", "-seed", fmt.Sprint(c.seed), "-tier", c.tier, "-out", childOut}
	if c.search {
		args = append(args, "-search")
	}
	ctx, cancel := context.WithTimeout(context.Background(), 5*time.Minute)
	defer cancel()
	cmd := exec.CommandContext(ctx, exe, args...)
	cmd.Env = append(os.Environ(), "VERIF_C09_CONC_CHILD=1")
	var stderr bytes.Buffer
	cmd.Stderr = &stderr
	runErr := cmd.Run()
	nfail := 0
	if f, err := os.Open(childOut); err == nil {
		sc := bufio.NewScanner(f)
		sc.Buffer(make([]byte, 1<<20), 1<<26)
		for sc.Scan() {
			line := sc.Text()
			t := strings.Split(line, "\t")
			switch {
			case t[0] == "O" && len(t) == 5:
				nfail++
				o.failures++
				fmt.Fprintln(o.w, line)
			case t[0] == "P" && len(t) == 3:
				n, _ := strconv.Atoi(t[2])
				o.pass[t[1]] += n
			case t[0] == "S" && len(t) == 3:
				n, _ := strconv.Atoi(t[2])
				o.stats[t[1]] += n
			}
		}
		f.Close()
	}
	os.Remove(childOut)
	if runErr != nil && nfail == 0 {
		msg := stderr.String()
		if len(msg) > 1500 {
			msg = msg[:1500]
		}
		o.Fail("concurrent_reads", "", "the process dies while goroutines read integer literals concurrently", map[string]interface{}{"width": 0, "concurrent": true, "exit": runErr.Error(), "stderr": msg})
	}
	if runErr != nil {
		o.Stat("concurrent.child_died")
	}
}
