// harness runs the implementation (/repo, built with -tags verif) on generated inputs and writes,
// per property, correspondence cases, oracle failures and the input distribution.
//
//	harness <property> -seed N -tier quick|thorough -out <file> [-replay <file>] [-search]
package main

import (
	"flag"
	"fmt"
	"os"
	"strconv"
)

type config struct {
	seed    uint64
	tier    string
	out     *out
	replay  string
	search  bool
	scale   int // volume multiplier: 1 quick, 20 thorough (x3 more in search mode)
	corpus  string
	outPath string
}

var props = map[string]func(*config){}

func main() {
	if len(os.Args) < 2 {
		fmt.Fprintln(os.Stderr, "usage: harness <property> [flags]")
		os.Exit(2)
	}
	id := os.Args[1]
	if id == "DUMP" {
		runDumpMain(os.Args[2:])
		return
	}
	fs := flag.NewFlagSet(id, flag.ExitOnError)
	seed := fs.String("seed", "1", "PRNG seed")
	tier := fs.String("tier", "quick", "quick|thorough")
	outp := fs.String("out", "", "output file")
	replay := fs.String("replay", "", "replay file")
	search := fs.Bool("search", false, "search mode: larger oracle stream")
	corpus := fs.String("corpus", "", "corpus directory")
	fs.Parse(os.Args[2:])
	f, ok := props[id]
	if !ok {
		fmt.Fprintln(os.Stderr, "unknown property", id)
		os.Exit(2)
	}
	s, _ := strconv.ParseUint(*seed, 10, 64)
	c := &config{seed: s, tier: *tier, out: newOut(*outp), replay: *replay, search: *search, scale: 1, corpus: *corpus, outPath: *outp}
	if *tier == "thorough" {
		c.scale = 20
	}
	if *search {
		c.scale *= 3
	}
	f(c)
	c.out.Close()
}
