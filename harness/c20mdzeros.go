package main

// C20, metadata definitions (and attribute groups) whose IDs are written with leading zeros (`!010`, `!08`, `!007`)
// next to plain ones, in every permutation of 4-5 definitions.  An ID is a decimal number whatever its spelling:
// the generator knows the decimal value of each definition (it is also the i32 payload of the node), so the printed
// definitions are in ascending order of those values, each printed under its plain decimal ID with its own payload,
// a reference `!010` is bound to the definition whose value is 10, and every permutation prints the same text.

import (
	"fmt"
	"regexp"
	"sort"
	"strings"

	"github.com/llir/llvm/asm"
	"github.com/llir/llvm/ir"
	"github.com/llir/llvm/ir/metadata"
)

type c20ZDef struct {
	id    int    // decimal value
	spell string // the ID as written in the definition
	ref   int    // decimal value of the referenced definition, -1: none
	refSp string // the ID as written in the reference
}

func c20ZSpell(r *rng, id int) string {
	switch r.intn(5) {
	case 0:
		return fmt.Sprintf("0%d", id)
	case 1:
		return fmt.Sprintf("00%d", id)
	case 2:
		return fmt.Sprintf("%s%d", strings.Repeat("0", 1+r.intn(4)), id)
	}
	return fmt.Sprint(id)
}

var reZMD = regexp.MustCompile(`^!([0-9]+) = !\{i32 ([0-9]+)(?:, !([0-9]+))?\}$`)
var reZAttr = regexp.MustCompile(`^attributes #([0-9]+) = \{ (.*) \}$`)

// all permutations of 0..n-1
func c20ZPerms(n int) [][]int {
	var res [][]int
	var rec func(cur []int, used []bool)
	rec = func(cur []int, used []bool) {
		if len(cur) == n {
			res = append(res, append([]int{}, cur...))
			return
		}
		for i := 0; i < n; i++ {
			if !used[i] {
				used[i] = true
				rec(append(cur, i), used)
				used[i] = false
			}
		}
	}
	rec(nil, make([]bool, n))
	return res
}

func c20ZSrc(defs []c20ZDef, attrs []c20ZDef, perm []int, permA []int) string {
	var sb strings.Builder
	// uses first: a named node listing every definition in the generator's order, and functions carrying the groups
	sb.WriteString("!nm = !{")
	for i, d := range defs {
		if i > 0 {
			sb.WriteString(", ")
		}
		sb.WriteString("!" + d.refSp)
	}
	sb.WriteString("}\n")
	for i, a := range attrs {
		fmt.Fprintf(&sb, "declare void @f%d() #%s\n", i, a.refSp)
	}
	for _, i := range perm {
		d := defs[i]
		if d.ref >= 0 {
			var rs string
			for _, e := range defs {
				if e.id == d.ref {
					rs = e.refSp
				}
			}
			// the spelling of this reference: the one of the definition or the plain one
			if i%2 == 0 {
				rs = fmt.Sprint(d.ref)
			}
			fmt.Fprintf(&sb, "!%s = !{i32 %d, !%s}\n", d.spell, d.id, rs)
		} else {
			fmt.Fprintf(&sb, "!%s = !{i32 %d}\n", d.spell, d.id)
		}
	}
	for _, i := range permA {
		a := attrs[i]
		fmt.Fprintf(&sb, "attributes #%s = { \"k\"=\"%d\" }\n", a.spell, a.id)
	}
	return sb.String()
}

// checks one text; returns the printed module
func c20ZCheck(c *config, defs, attrs []c20ZDef, src string) (string, bool) {
	o := c.out
	var text string
	var m *ir.Module
	oc, msg := guard(func() error {
		var err error
		m, err = asm.ParseString("c20z.ll", src)
		if err != nil {
			return err
		}
		text = m.String()
		return nil
	})
	det := map[string]interface{}{"mdzeros": true, "src": src, "msg": msg}
	if oc != ocOk {
		o.Fail("module_permutation", "", "a module whose metadata / attribute group IDs are written with leading zeros: parse/print "+oc.String(), det)
		return "", false
	}
	det["printed"] = text
	// expected from the generator
	ids := []int{}
	refOf := map[int]int{}
	for _, d := range defs {
		ids = append(ids, d.id)
		refOf[d.id] = d.ref
	}
	sort.Ints(ids)
	var want, got []string
	for _, id := range ids {
		if refOf[id] >= 0 {
			want = append(want, fmt.Sprintf("!%d = !{i32 %d, !%d}", id, id, refOf[id]))
		} else {
			want = append(want, fmt.Sprintf("!%d = !{i32 %d}", id, id))
		}
	}
	aids := []int{}
	for _, a := range attrs {
		aids = append(aids, a.id)
	}
	sort.Ints(aids)
	var wantA, gotA []string
	for _, id := range aids {
		wantA = append(wantA, fmt.Sprintf("attributes #%d = { \"k\"=\"%d\" }", id, id))
	}
	var nm string
	var uses []string
	for _, line := range strings.Split(text, "\n") {
		switch {
		case reZMD.MatchString(line):
			got = append(got, line)
		case reZAttr.MatchString(line):
			gotA = append(gotA, line)
		case strings.HasPrefix(line, "!nm = "):
			nm = line
		case strings.HasPrefix(line, "declare "):
			uses = append(uses, line)
		}
	}
	wantNm := "!nm = !{"
	for i, d := range defs {
		if i > 0 {
			wantNm += ", "
		}
		wantNm += fmt.Sprintf("!%d", d.id)
	}
	wantNm += "}"
	var wantUses []string
	for i, a := range attrs {
		wantUses = append(wantUses, fmt.Sprintf("declare void @f%d() #%d", i, a.id))
	}
	ok := true
	fail := func(what string, w, g interface{}) {
		if ok {
			det["want"], det["got"] = w, g
			o.Fail("canonical_order", "", what, det)
		}
		ok = false
	}
	if strings.Join(got, "\n") != strings.Join(want, "\n") {
		fail("md definitions with IDs written with leading zeros are not printed by ascending decimal ID, each under its own ID", want, got)
	}
	if strings.Join(gotA, "\n") != strings.Join(wantA, "\n") {
		fail("attr definitions with IDs written with leading zeros are not printed by ascending decimal ID, each under its own ID", wantA, gotA)
	}
	if nm != wantNm {
		fail("references to metadata IDs written with leading zeros are not bound to the definitions with those decimal IDs", wantNm, nm)
	}
	if strings.Join(uses, "\n") != strings.Join(wantUses, "\n") {
		fail("references to attribute group IDs written with leading zeros are not bound to the groups with those decimal IDs", wantUses, uses)
	}
	// the same on the objects
	if ok {
		if len(m.MetadataDefs) != len(ids) {
			fail("number of metadata definitions", len(ids), len(m.MetadataDefs))
		} else {
			byID := map[int64]metadata.Definition{}
			for i, md := range m.MetadataDefs {
				byID[md.ID()] = md
				if md.ID() != int64(ids[i]) {
					fail("Module.MetadataDefs is not in ascending order of the decimal IDs", ids, fmt.Sprint(md.ID()))
				}
			}
			if ok && len(m.NamedMetadataDefs) == 1 {
				for _, nd := range m.NamedMetadataDefs {
					for i, n := range nd.Nodes {
						if i < len(defs) {
							if dn, isDef := n.(metadata.Definition); !isDef || dn != byID[int64(defs[i].id)] {
								fail("a reference is not bound to the definition with its decimal ID", defs[i].id, fmt.Sprint(n))
							}
						}
					}
				}
			}
		}
	}
	if ok {
		o.Pass("canonical_order")
	}
	return text, ok
}

func c20MDZeros(c *config, r *rng) {
	o := c.out
	sets := 4 * c.scale
	if sets > 12 {
		sets = 12
	}
	for s := 0; s < sets; s++ {
		n := 4
		if s%4 == 3 {
			n = 5
		}
		// distinct decimal IDs; 8, 9 and two-digit values often (a leading zero must not turn the digits into another base)
		pool := []int{7, 8, 9, 10, 11, 12, 17, 18, 19, 63, 64, 77, 80, 100}
		seen := map[int]bool{}
		var defs []c20ZDef
		for len(defs) < n {
			id := pool[r.intn(len(pool))]
			if r.chance(30) {
				id = r.intn(130)
			}
			if seen[id] {
				continue
			}
			seen[id] = true
			d := c20ZDef{id: id, spell: c20ZSpell(r, id), ref: -1, refSp: c20ZSpell(r, id)}
			defs = append(defs, d)
		}
		// at least one definition and one reference with a leading zero
		if k := r.intn(n); !strings.HasPrefix(defs[k].spell, "0") {
			defs[k].spell = "0" + defs[k].spell
		}
		if k := r.intn(n); !strings.HasPrefix(defs[k].refSp, "0") {
			defs[k].refSp = "0" + defs[k].refSp
		}
		// references to a definition with a smaller ID (no cycles)
		for i := range defs {
			var smaller []int
			for _, e := range defs {
				if e.id < defs[i].id {
					smaller = append(smaller, e.id)
				}
			}
			if len(smaller) > 0 && r.chance(70) {
				defs[i].ref = smaller[r.intn(len(smaller))]
			}
		}
		var attrs []c20ZDef
		seenA := map[int]bool{}
		for len(attrs) < 3 {
			id := pool[r.intn(len(pool))]
			if seenA[id] {
				continue
			}
			seenA[id] = true
			attrs = append(attrs, c20ZDef{id: id, spell: c20ZSpell(r, id), refSp: c20ZSpell(r, id)})
		}
		if !strings.HasPrefix(attrs[0].spell, "0") {
			attrs[0].spell = "0" + attrs[0].spell
		}
		permsA := c20ZPerms(len(attrs))
		var firstText, firstSrc string
		for pi, perm := range c20ZPerms(n) {
			src := c20ZSrc(defs, attrs, perm, permsA[pi%len(permsA)])
			text, ok := c20ZCheck(c, defs, attrs, src)
			o.Stat("modorder.md_leading_zero_ids")
			if !ok {
				break // one report per set of definitions
			}
			if pi == 0 {
				firstText, firstSrc = text, src
				continue
			}
			if text != firstText {
				o.Fail("permutation_invariant", "", "modules that differ in the order of metadata definitions with leading-zero IDs print differently", map[string]interface{}{"mdzeros": true, "src": src, "other_src": firstSrc, "printed": text, "other_printed": firstText})
				break
			}
			o.Pass("permutation_invariant")
		}
	}
}

func c20MDZerosReplay(c *config) bool {
	rp := readReplay(c.replay)
	if _, ok := rp.Detail["mdzeros"]; !ok {
		return false
	}
	src, _ := rp.Detail["src"].(string)
	var text string
	oc, msg := guard(func() error {
		m, err := asm.ParseString("replay.ll", src)
		if err != nil {
			return err
		}
		text = m.String()
		return nil
	})
	fmt.Println("replay:\n" + src)
	fmt.Println("=>", oc.String(), msg)
	fmt.Println(text)
	fmt.Println("want:", rp.Detail["want"])
	return true
}
