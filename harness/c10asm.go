package main

// C10, parser route: a floating-point literal of every kind, written in the text of a module (as the initializer of
// a global, as an operand of an instruction, as an element of a vector), is read by asm.ParseString as the exact
// value of the bit pattern the generator chose; the module prints, the printed module parses, and the value is still
// the same.  The generator picks the fields (sign, exponent field, significand field) of the kind's own format,
// renders every spelling LLVM has for it (0xH/0xK/0xL/0xM, the 16-digit pattern of the equal double for half and
// float, the shortest decimal of the equal double for half, float and double), and computes the exact value itself
// with big.Float.  A valid literal that the parser refuses is a failure.  Patterns: both zeros, the smallest and the
// largest subnormal, the smallest normal, one, the largest finite, the infinities, random subnormals, random normals.

import (
	"fmt"
	"math"
	"math/big"
	"strconv"
	"strings"

	"github.com/llir/llvm/asm"
	"github.com/llir/llvm/ir"
	"github.com/llir/llvm/ir/constant"
	"github.com/llir/llvm/ir/types"
)

// an IEEE-like format: exponent field width, stored significand width, whether the integer bit is stored (x87)
type c10Format struct {
	k        c10Kind
	ew, mw   uint
	explicit bool
}

var c10Formats = []c10Format{
	{c10Kinds[0], 5, 10, false},   // half
	{c10Kinds[1], 8, 23, false},   // float
	{c10Kinds[2], 11, 52, false},  // double
	{c10Kinds[3], 15, 63, true},   // x86_fp80: 63 fraction bits after the explicit integer bit
	{c10Kinds[4], 15, 112, false}, // fp128
	{c10Kinds[5], 11, 52, false},  // ppc_fp128: a double in the high word, the low word zero
}

type c10Pattern struct {
	sign  uint
	e     uint64   // exponent field
	m     *big.Int // fraction field (without the integer bit)
	label string
}

// exact value of a finite pattern
func (f c10Format) value(p c10Pattern) *big.Float {
	bias := int(1)<<(f.ew-1) - 1
	sig := new(big.Int).Set(p.m)
	e := int(p.e)
	if e != 0 {
		sig.SetBit(sig, int(f.mw), 1)
	} else {
		e = 1
	}
	x := new(big.Float).SetPrec(256).SetInt(sig)
	x.SetMantExp(x, e-bias-int(f.mw))
	if p.sign == 1 {
		x.Neg(x)
	}
	return x
}

func (f c10Format) isInf(p c10Pattern) bool { return p.e == 1<<f.ew-1 }

// the spellings of the pattern: the kind's own hexadecimal form, and for half, float and double the forms that go
// through the equal double
func (f c10Format) spellings(p c10Pattern) (lits []string, bits *big.Int) {
	native := new(big.Int).SetUint64(uint64(p.sign))
	native.Lsh(native, f.ew)
	native.Or(native, new(big.Int).SetUint64(p.e))
	asDouble := func() (float64, bool) {
		if f.isInf(p) {
			return math.Inf(1 - 2*int(p.sign)), true
		}
		d, acc := f.value(p).Float64()
		return d, acc == big.Exact
	}
	dec := func(d float64) string {
		s := strconv.FormatFloat(d, 'e', -1, 64)
		if !strings.Contains(s, ".") {
			s = strings.Replace(s, "e", ".0e", 1)
		}
		return s
	}
	switch f.k.letter {
	case "K":
		native.Lsh(native, 64)
		m := new(big.Int).Set(p.m)
		if p.e != 0 {
			m.SetBit(m, 63, 1)
		}
		native.Or(native, m)
		return []string{f.k.literal(native)}, native
	case "M":
		native.Lsh(native, f.mw)
		native.Or(native, p.m)
		native.Lsh(native, 64)
		return []string{f.k.literal(native)}, native
	}
	native.Lsh(native, f.mw)
	native.Or(native, p.m)
	switch f.k.letter {
	case "H":
		lits = append(lits, f.k.literal(native))
		if d, ok := asDouble(); ok {
			lits = append(lits, fmt.Sprintf("0x%016X", math.Float64bits(d)))
			if !f.isInf(p) {
				lits = append(lits, dec(d))
			}
		}
		return lits, native
	case "F":
		d, _ := asDouble()
		lits = append(lits, fmt.Sprintf("0x%016X", math.Float64bits(d)))
		if !f.isInf(p) {
			lits = append(lits, dec(d))
		}
		return lits, new(big.Int).SetUint64(math.Float64bits(d))
	case "D":
		lits = append(lits, f.k.literal(native))
		if d, ok := asDouble(); ok && !f.isInf(p) {
			lits = append(lits, dec(d))
		}
		return lits, native
	}
	return []string{f.k.literal(native)}, native // L
}

func (f c10Format) patterns(r *rng, n int) []c10Pattern {
	ones := new(big.Int).Sub(new(big.Int).Lsh(big.NewInt(1), f.mw), big.NewInt(1))
	emax := uint64(1)<<f.ew - 1
	randM := func() *big.Int {
		m := c10Random(r, int(f.mw))
		if m.Sign() == 0 {
			m.SetInt64(1)
		}
		return m
	}
	var out []c10Pattern
	for s := uint(0); s < 2; s++ {
		out = append(out,
			c10Pattern{s, 0, big.NewInt(0), "zero"},
			c10Pattern{s, 0, big.NewInt(1), "smallest_subnormal"},
			c10Pattern{s, 0, big.NewInt(2), "subnormal"},
			c10Pattern{s, 0, new(big.Int).Lsh(big.NewInt(1), f.mw-1), "subnormal"},
			c10Pattern{s, 0, new(big.Int).Sub(ones, big.NewInt(1)), "subnormal"},
			c10Pattern{s, 0, ones, "largest_subnormal"},
			c10Pattern{s, 1, big.NewInt(0), "smallest_normal"},
			c10Pattern{s, 1, big.NewInt(1), "normal"},
			c10Pattern{s, emax / 2, big.NewInt(0), "one"},
			c10Pattern{s, emax - 1, big.NewInt(0), "normal"},
			c10Pattern{s, emax - 1, new(big.Int).Sub(ones, big.NewInt(1)), "normal"},
			c10Pattern{s, emax - 1, ones, "largest_finite"},
			c10Pattern{s, emax, big.NewInt(0), "infinity"},
		)
	}
	for i := 0; i < n; i++ {
		s := uint(r.intn(2))
		switch r.intn(5) {
		case 0, 1: // a subnormal with all of its bits random
			out = append(out, c10Pattern{s, 0, randM(), "random_subnormal"})
		case 2: // a subnormal with few significant bits (also exact in narrower spellings)
			m := new(big.Int).Lsh(big.NewInt(int64(1+r.intn(255))), uint(r.intn(int(f.mw)-8)))
			out = append(out, c10Pattern{s, 0, m, "random_subnormal"})
		case 3: // the lowest binades
			out = append(out, c10Pattern{s, uint64(1 + r.intn(3)), randM(), "random_normal"})
		default:
			out = append(out, c10Pattern{s, uint64(1 + r.intn(int(emax)-1)), randM(), "random_normal"})
		}
	}
	return out
}

// the places a literal is written in
var c10Carriers = []struct {
	name string
	text func(ty, lit string) string
	get  func(m *ir.Module) interface{}
}{
	{"global_initializer", func(ty, lit string) string { return fmt.Sprintf("@g = global %s %s\n", ty, lit) },
		func(m *ir.Module) interface{} { return m.Globals[0].Init }},
	{"operand", func(ty, lit string) string {
		return fmt.Sprintf("define %s @f() {\n\tret %s %s\n}\n", ty, ty, lit)
	}, func(m *ir.Module) interface{} { return m.Funcs[0].Blocks[0].Term.(*ir.TermRet).X }},
	{"vector_element", func(ty, lit string) string {
		return fmt.Sprintf("@g = global <2 x %s> <%s %s, %s %s>\n", ty, ty, lit, ty, lit)
	}, func(m *ir.Module) interface{} { return m.Globals[0].Init.(*constant.Vector).Elems[1] }},
}

func c10Holds(x interface{}, f c10Format, p c10Pattern) string {
	c, ok := x.(*constant.Float)
	if !ok {
		return fmt.Sprintf("the literal is held as a %T", x)
	}
	if c.Typ == nil || c.Typ.Kind != f.k.typ.Kind {
		return fmt.Sprintf("the constant has type %v", c.Typ)
	}
	if c.NaN || c.X == nil {
		return "the constant is a NaN"
	}
	if f.isInf(p) {
		if !c.X.IsInf() || c.X.Signbit() != (p.sign == 1) {
			return "the constant is not the infinity of that sign: " + c.X.Text('p', 0)
		}
		return ""
	}
	want := f.value(p)
	if c.X.IsInf() || c.X.Cmp(want) != 0 || c.X.Signbit() != (p.sign == 1) {
		return "the constant holds " + c.X.Text('p', 0) + ", the literal denotes " + want.Text('p', 0)
	}
	return ""
}

func c10AsmRoute(c *config, r *rng) {
	o := c.out
	n := 60 * c.scale
	which := 0
	for _, f := range c10Formats {
		ty := f.k.typ.String()
		for _, p := range f.patterns(r, n) {
			lits, bits := f.spellings(p)
			cls := c10Class(f.k, bits)
			for _, lit := range lits {
				car := c10Carriers[which%len(c10Carriers)]
				which++
				src := car.text(ty, lit)
				o.Stat("asm_route." + f.k.letter + "." + p.label)
				o.Nontrivial("asm:" + ty + " " + lit)
				var text, bad1, bad2 string
				oc, msg := guard(func() error {
					m, err := asm.ParseString("c10.ll", src)
					if err != nil {
						return err
					}
					bad1 = c10Holds(car.get(m), f, p)
					text = m.String()
					m2, err := asm.ParseString("c10b.ll", text)
					if err != nil {
						return fmt.Errorf("printed module does not parse: %v", err)
					}
					bad2 = c10Holds(car.get(m2), f, p)
					return nil
				})
				det := map[string]interface{}{"kind": ty, "literal": lit, "pattern": p.label, "carrier": car.name, "src": src, "printed": text, "msg": msg}
				switch {
				case oc != ocOk:
					o.Fail("float_round_trip", cls, "a valid literal in a module is rejected or crashes the parser: "+oc.String(), det)
				case bad1 != "":
					det["read"] = bad1
					o.Fail("float_round_trip", cls, "the parser reads another value than the literal denotes", det)
				case bad2 != "":
					det["read"] = bad2
					o.Fail("float_round_trip", cls, "the value changes through print and parse of the module", det)
				default:
					o.Pass("float_round_trip")
				}
			}
		}
	}
}

var _ = types.Half
