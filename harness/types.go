package main

// Shared type trees: a small prefix encoding of LLVM types that both the Go harness (building
// types.Type values) and the OCaml driver (building Model.Types.ty) read.
//
//	v void  m mmx  l label  k token  M metadata
//	i<N>;           integer of N bits
//	f<0..5>         half float double x86_fp80 fp128 ppc_fp128
//	p<AS>;T         pointer to T in address space AS
//	V<0|1><LEN>;T   fixed / scalable vector
//	A<LEN>;T        array
//	S<0|1><N>;T..   literal struct (packed flag, N fields)
//	N<hexname>;     identified struct (by name)
//	F<0|1><N>;R P.. function type (variadic flag, N parameters)

import (
	"encoding/hex"
	"fmt"
	"strings"

	"github.com/llir/llvm/ir/types"
)

type tyTree struct {
	kind     byte
	n        uint64 // bits, address space, length, float kind
	flag     bool   // scalable, packed, variadic
	name     string
	children []*tyTree // elem; fields; ret :: params
}

func (t *tyTree) enc() string {
	var b strings.Builder
	t.encTo(&b)
	return b.String()
}
func (t *tyTree) encTo(b *strings.Builder) {
	f := func(x bool) byte {
		if x {
			return '1'
		}
		return '0'
	}
	switch t.kind {
	case 'v', 'm', 'l', 'k', 'M':
		b.WriteByte(t.kind)
	case 'i':
		fmt.Fprintf(b, "i%d;", t.n)
	case 'f':
		fmt.Fprintf(b, "f%d", t.n)
	case 'p':
		fmt.Fprintf(b, "p%d;", t.n)
		t.children[0].encTo(b)
	case 'V':
		fmt.Fprintf(b, "V%c%d;", f(t.flag), t.n)
		t.children[0].encTo(b)
	case 'A':
		fmt.Fprintf(b, "A%d;", t.n)
		t.children[0].encTo(b)
	case 'S':
		fmt.Fprintf(b, "S%c%d;", f(t.flag), len(t.children))
		for _, c := range t.children {
			c.encTo(b)
		}
	case 'N':
		fmt.Fprintf(b, "N%s;", hex.EncodeToString([]byte(t.name)))
	case 'F':
		fmt.Fprintf(b, "F%c%d;", f(t.flag), len(t.children)-1)
		for _, c := range t.children {
			c.encTo(b)
		}
	}
}

var floatKinds = []types.FloatKind{types.FloatKindHalf, types.FloatKindFloat, types.FloatKindDouble, types.FloatKindX86_FP80, types.FloatKindFP128, types.FloatKindPPC_FP128}

// universe: identified structs by name (names unique; the body of a name is fixed per universe)
type universe struct {
	named map[string]*types.StructType
}

func newUniverse() *universe { return &universe{named: map[string]*types.StructType{}} }

func (u *universe) namedStruct(name string) *types.StructType {
	if s, ok := u.named[name]; ok {
		return s
	}
	s := types.NewStruct()
	s.TypeName = name
	u.named[name] = s
	// a body that refers to itself and to another name: recursive and mutually recursive
	other := "n" + fmt.Sprint(len(name)%3)
	s.Fields = []types.Type{types.I32, types.NewPointer(s)}
	if other != name {
		s.Fields = append(s.Fields, types.NewPointer(u.namedStruct(other)))
	}
	return s
}

func (t *tyTree) build(u *universe) types.Type {
	switch t.kind {
	case 'v':
		return &types.VoidType{}
	case 'm':
		return &types.MMXType{}
	case 'l':
		return &types.LabelType{}
	case 'k':
		return &types.TokenType{}
	case 'M':
		return &types.MetadataType{}
	case 'i':
		return types.NewInt(t.n)
	case 'f':
		return &types.FloatType{Kind: floatKinds[t.n]}
	case 'p':
		p := types.NewPointer(t.children[0].build(u))
		p.AddrSpace = types.AddrSpace(t.n)
		return p
	case 'V':
		v := types.NewVector(t.n, t.children[0].build(u))
		v.Scalable = t.flag
		return v
	case 'A':
		return types.NewArray(t.n, t.children[0].build(u))
	case 'S':
		var fs []types.Type
		for _, c := range t.children {
			fs = append(fs, c.build(u))
		}
		s := types.NewStruct(fs...)
		s.Packed = t.flag
		return s
	case 'N':
		return u.namedStruct(t.name)
	case 'F':
		var ps []types.Type
		for _, c := range t.children[1:] {
			ps = append(ps, c.build(u))
		}
		f := types.NewFunc(t.children[0].build(u), ps...)
		f.Variadic = t.flag
		return f
	}
	panic("bad type tree")
}

type tyGen struct {
	r        *rng
	widths   []uint64
	names    []string
	spaces   []uint64
	lens     []uint64
	allKinds bool // include void/label/token/metadata/mmx/function leaves anywhere
}

func newTyGen(r *rng) *tyGen {
	return &tyGen{r: r, widths: []uint64{1, 8, 32, 64}, names: []string{"n0", "n1", "n2", "a.b", "n 3"}, spaces: []uint64{0, 0, 0, 1, 5}, lens: []uint64{0, 1, 2, 4, 4, 7}}
}

func (g *tyGen) pickU(l []uint64) uint64 { return l[g.r.intn(len(l))] }

// first-class, sized type of depth <= d (what can be the content type of a global or an element)
func (g *tyGen) sized(d int) *tyTree {
	r := g.r
	if d <= 0 || r.chance(30) {
		switch r.intn(5) {
		case 0, 1:
			return &tyTree{kind: 'i', n: g.pickU(g.widths)}
		case 2:
			return &tyTree{kind: 'f', n: uint64(r.intn(6))}
		case 3:
			return &tyTree{kind: 'N', name: g.names[r.intn(len(g.names))]}
		default:
			return &tyTree{kind: 'p', n: g.pickU(g.spaces), children: []*tyTree{{kind: 'i', n: 8}}}
		}
	}
	switch r.intn(7) {
	case 0, 1:
		return &tyTree{kind: 'p', n: g.pickU(g.spaces), children: []*tyTree{g.pointee(d - 1)}}
	case 2:
		el := g.sized(0)
		if el.kind == 'N' {
			el = &tyTree{kind: 'i', n: 32}
		}
		return &tyTree{kind: 'V', flag: r.chance(25), n: 1 + g.pickU(g.lens), children: []*tyTree{el}}
	case 3:
		return &tyTree{kind: 'A', n: g.pickU(g.lens), children: []*tyTree{g.sized(d - 1)}}
	case 4, 5:
		var fs []*tyTree
		for k := r.intn(4); k > 0; k-- {
			fs = append(fs, g.sized(d-1))
		}
		return &tyTree{kind: 'S', flag: r.chance(30), children: fs}
	default:
		return g.sized(0)
	}
}

// anything a pointer may point to: sized types and function types
func (g *tyGen) pointee(d int) *tyTree {
	if g.r.chance(25) {
		return g.funcType(d)
	}
	return g.sized(d)
}

func (g *tyGen) funcType(d int) *tyTree {
	r := g.r
	ret := g.sized(d - 1)
	if r.chance(40) {
		ret = &tyTree{kind: 'v'}
	}
	ch := []*tyTree{ret}
	for k := r.intn(4); k > 0; k-- {
		if r.chance(10) {
			ch = append(ch, &tyTree{kind: 'M'})
		} else {
			ch = append(ch, g.sized(d-1))
		}
	}
	return &tyTree{kind: 'F', flag: r.chance(30), children: ch}
}

// any type at all (for Equal / String, which are defined on every type)
func (g *tyGen) any(d int) *tyTree {
	r := g.r
	switch r.intn(12) {
	case 0:
		return &tyTree{kind: "vmlkM"[r.intn(5)]}
	case 1:
		return g.funcType(d)
	default:
		return g.sized(d)
	}
}

// single-attribute mutants of a type: each differs from t in exactly one attribute somewhere
func (t *tyTree) clone() *tyTree {
	c := *t
	c.children = nil
	for _, ch := range t.children {
		c.children = append(c.children, ch.clone())
	}
	return &c
}

func (t *tyTree) nodes() []*tyTree {
	res := []*tyTree{t}
	for _, c := range t.children {
		res = append(res, c.nodes()...)
	}
	return res
}

func (g *tyGen) mutate(t *tyTree) (*tyTree, string) {
	m := t.clone()
	ns := m.nodes()
	n := ns[g.r.intn(len(ns))]
	switch n.kind {
	case 'i':
		n.n = n.n + 1
		return m, "width"
	case 'f':
		n.n = (n.n + 1) % 6
		return m, "float kind"
	case 'p':
		n.n = n.n + 1
		return m, "address space"
	case 'V':
		if g.r.coin() {
			n.flag = !n.flag
			return m, "scalability"
		}
		n.n++
		return m, "vector length"
	case 'A':
		n.n++
		return m, "array length"
	case 'S':
		if g.r.coin() || len(n.children) == 0 {
			n.flag = !n.flag
			return m, "packedness"
		}
		n.children = n.children[:len(n.children)-1]
		return m, "field count"
	case 'N':
		n.name = n.name + "x"
		return m, "struct name"
	case 'F':
		n.flag = !n.flag
		return m, "variadicity"
	default:
		k := "vmlkM"
		n.kind = k[(strings.IndexByte(k, n.kind)+1)%5]
		return m, "kind"
	}
}
