package main

// C13, constructed never-printed function bodies whose instructions and terminators are built as struct literals
// (`&ir.InstAdd{X: x, Y: y}` appended to Block.Insts), not through the New* constructors: the lazily cached result
// type (field Typ) of every such value is still unset when the first printers arrive, all of them at once.
//
// Every instruction and terminator kind of package ir that has a Typ field is built (c13LitKindsInSource lists them
// from the sources, c13LitBuild must cover that list), with scalar and with vector operands, named and unnamed, each
// value being used afterwards as a typed operand (store, a second literal of the same kind, freeze, ret).  The result
// type of each value by LLVM's rules is recorded by the generator (it is never asked from the value before the
// concurrent printers run).

import (
	"fmt"
	"go/ast"
	"go/parser"
	"go/token"
	"path/filepath"
	"reflect"
	"sort"
	"strings"

	"github.com/llir/llvm/ir"
	"github.com/llir/llvm/ir/constant"
	"github.com/llir/llvm/ir/enum"
	"github.com/llir/llvm/ir/types"
	"github.com/llir/llvm/ir/value"
)

type c13LitVal struct {
	kind  string      // name of the struct type (InstAdd, TermInvoke, ...)
	named bool        // whether the value has a name
	v     value.Value // the literal
	typ   types.Type  // its result type by LLVM's rules, from the generator
}

const c13LitVariants = 8

// c13LitBuild builds one module.  variant&3 selects the naming (0 all literals named, 1 none, 2 and 3 alternating),
// variant&4 vector instead of scalar operands.
func c13LitBuild(variant int) (*ir.Module, []c13LitVal) {
	vec := variant&4 != 0
	m := ir.NewModule()
	i32, i64, f64, i1 := types.I32, types.I64, types.Double, types.I1
	v4i32, v2f64 := types.NewVector(4, i32), types.NewVector(2, f64)
	aggT := types.NewStruct(i32, f64)
	i32p := types.NewPointer(i32)
	ci := func(t *types.IntType, n int64) value.Value { return constant.NewInt(t, n) }

	pers := m.NewFunc("pers", i32)
	pers.Sig.Variadic = true
	calleeI := m.NewFunc("callee.i", i32, ir.NewParam("", i32))
	calleeV := m.NewFunc("callee.v", types.Void)
	calleeVar := m.NewFunc("callee.var", f64, ir.NewParam("", i32))
	calleeVar.Sig.Variadic = true

	pa, pb := ir.NewParam("a", i32), ir.NewParam("b", i32)
	px, py := ir.NewParam("x", f64), ir.NewParam("y", f64)
	pv, pw := ir.NewParam("", v4i32), ir.NewParam("", v4i32)
	pfv, pfw := ir.NewParam("fv", v2f64), ir.NewParam("fw", v2f64)
	pp := ir.NewParam("p", i32p)
	pagg, ppagg := ir.NewParam("agg", aggT), ir.NewParam("", types.NewPointer(aggT))
	pc := ir.NewParam("c", i1)
	f := m.NewFunc("lit", i32, pa, pb, px, py, pv, pw, pfv, pfw, pp, pagg, ppagg, pc)
	f.Personality = pers

	var ia, ib, fa, fb value.Value = pa, pb, px, py
	var it, ft, icmpT, fcmpT types.Type = i32, f64, i1, i1
	if vec {
		ia, ib, fa, fb = pv, pw, pfv, pfw
		it, ft, icmpT, fcmpT = v4i32, v2f64, types.NewVector(4, i1), types.NewVector(2, i1)
	}

	// one global per result type: the destination of the store that uses a value as typed operand (named: a function
	// printed on its own reads the IDs of unnamed globals without the module's lock, which is KF-34's matter)
	slots := map[string]*ir.Global{}
	slot := func(t types.Type) *ir.Global {
		key := t.LLString()
		if g, ok := slots[key]; ok {
			return g
		}
		g := m.NewGlobalDef(fmt.Sprintf("slot.%d", len(slots)), constant.NewZeroInitializer(t))
		slots[key] = g
		return g
	}

	var vals []c13LitVal
	idx := 0
	record := func(x interface{}, typ types.Type) value.Value {
		rv := reflect.ValueOf(x).Elem()
		kind := rv.Type().Name()
		tf := rv.FieldByName("Typ")
		if !tf.IsValid() || !tf.IsNil() {
			panic("c13lit: " + kind + " has no unset Typ field")
		}
		idx++
		named := false
		switch variant & 3 {
		case 0:
			named = true
		case 2:
			named = idx%2 == 0
		case 3:
			named = idx%2 == 1
		}
		if types.Equal(typ, types.Void) {
			named = false
		}
		if named {
			x.(interface{ SetName(string) }).SetName(fmt.Sprintf("n%d.%s", idx, strings.ToLower(kind)))
		}
		v := x.(value.Value)
		vals = append(vals, c13LitVal{kind: kind, named: named, v: v, typ: typ})
		return v
	}
	// put appends the literal to the block and uses it as a typed operand of a store
	put := func(b *ir.Block, inst ir.Instruction, typ types.Type) value.Value {
		v := record(inst, typ)
		b.Insts = append(b.Insts, inst)
		if !types.Equal(typ, types.Void) {
			b.Insts = append(b.Insts, &ir.InstStore{Src: v, Dst: slot(typ)})
		}
		return v
	}

	entry := f.NewBlock("")
	next := f.NewBlock("next")
	cont := f.NewBlock("")
	cont2 := f.NewBlock("cont2")
	side := f.NewBlock("")
	lpad := f.NewBlock("lpad")

	// binary and bitwise instructions: a literal and a second literal of the same kind that has the first as operands
	type bin func(x, y value.Value) ir.Instruction
	ibins := []bin{
		func(x, y value.Value) ir.Instruction { return &ir.InstAdd{X: x, Y: y} },
		func(x, y value.Value) ir.Instruction { return &ir.InstSub{X: x, Y: y} },
		func(x, y value.Value) ir.Instruction { return &ir.InstMul{X: x, Y: y} },
		func(x, y value.Value) ir.Instruction { return &ir.InstUDiv{X: x, Y: y} },
		func(x, y value.Value) ir.Instruction { return &ir.InstSDiv{X: x, Y: y} },
		func(x, y value.Value) ir.Instruction { return &ir.InstURem{X: x, Y: y} },
		func(x, y value.Value) ir.Instruction { return &ir.InstSRem{X: x, Y: y} },
		func(x, y value.Value) ir.Instruction { return &ir.InstShl{X: x, Y: y} },
		func(x, y value.Value) ir.Instruction { return &ir.InstLShr{X: x, Y: y} },
		func(x, y value.Value) ir.Instruction { return &ir.InstAShr{X: x, Y: y} },
		func(x, y value.Value) ir.Instruction { return &ir.InstAnd{X: x, Y: y} },
		func(x, y value.Value) ir.Instruction { return &ir.InstOr{X: x, Y: y} },
		func(x, y value.Value) ir.Instruction { return &ir.InstXor{X: x, Y: y} },
	}
	fbins := []bin{
		func(x, y value.Value) ir.Instruction { return &ir.InstFAdd{X: x, Y: y} },
		func(x, y value.Value) ir.Instruction { return &ir.InstFSub{X: x, Y: y} },
		func(x, y value.Value) ir.Instruction { return &ir.InstFMul{X: x, Y: y} },
		func(x, y value.Value) ir.Instruction { return &ir.InstFDiv{X: x, Y: y} },
		func(x, y value.Value) ir.Instruction { return &ir.InstFRem{X: x, Y: y} },
	}
	var lastI value.Value = ia
	for _, mk := range ibins {
		v1 := put(entry, mk(ia, ib), it)
		lastI = put(entry, mk(v1, v1), it)
	}
	var lastF value.Value = fa
	for _, mk := range fbins {
		v1 := put(entry, mk(fa, fb), ft)
		lastF = put(entry, mk(lastF, v1), ft)
	}
	n1 := put(entry, &ir.InstFNeg{X: lastF}, ft)
	put(entry, &ir.InstFNeg{X: n1}, ft)

	// aggregates
	ev := put(entry, &ir.InstExtractValue{X: pagg, Indices: []uint64{1}}, f64)
	iv := put(entry, &ir.InstInsertValue{X: pagg, Elem: ev, Indices: []uint64{1}}, aggT)
	iv2 := put(entry, &ir.InstInsertValue{X: iv, Elem: pa, Indices: []uint64{0}}, aggT)
	put(entry, &ir.InstExtractValue{X: iv2, Indices: []uint64{0}}, i32)

	// memory
	al := put(entry, &ir.InstAlloca{ElemType: i32}, i32p)
	put(entry, &ir.InstAlloca{ElemType: aggT, NElems: ci(i32, 2), Align: 8}, types.NewPointer(aggT))
	gp := put(entry, &ir.InstGetElementPtr{ElemType: i32, Src: al, Indices: []value.Value{ci(i64, 1)}}, i32p)
	put(entry, &ir.InstGetElementPtr{ElemType: aggT, Src: ppagg, Indices: []value.Value{ci(i32, 0), ci(i32, 1)}, InBounds: true}, types.NewPointer(f64))
	cx := put(entry, &ir.InstCmpXchg{Ptr: gp, Cmp: pa, New: pb, SuccessOrdering: enum.AtomicOrderingSequentiallyConsistent, FailureOrdering: enum.AtomicOrderingSequentiallyConsistent},
		types.NewStruct(i32, i1))
	old := put(entry, &ir.InstExtractValue{X: cx, Indices: []uint64{0}}, i32)
	rmw := put(entry, &ir.InstAtomicRMW{Op: enum.AtomicOpAdd, Dst: pp, X: old, Ordering: enum.AtomicOrderingSequentiallyConsistent}, i32)
	put(entry, &ir.InstAtomicRMW{Op: enum.AtomicOpXChg, Dst: gp, X: rmw, Ordering: enum.AtomicOrderingMonotonic, Volatile: true}, i32)

	// vectors
	ee := put(entry, &ir.InstExtractElement{X: pv, Index: ci(i32, 0)}, i32)
	ie := put(entry, &ir.InstInsertElement{X: pv, Elem: ee, Index: ci(i32, 1)}, v4i32)
	put(entry, &ir.InstExtractElement{X: ie, Index: ee}, i32)
	mask := constant.NewVector(types.NewVector(2, i32), constant.NewInt(i32, 0), constant.NewInt(i32, 5))
	sv := put(entry, &ir.InstShuffleVector{X: ie, Y: pw, Mask: mask}, types.NewVector(2, i32))
	put(entry, &ir.InstShuffleVector{X: sv, Y: sv, Mask: constant.NewZeroInitializer(types.NewVector(4, i32))}, v4i32)
	put(entry, &ir.InstInsertElement{X: sv, Elem: pa, Index: ci(i32, 0)}, types.NewVector(2, i32))

	// comparisons, select, freeze
	ic := put(entry, &ir.InstICmp{Pred: enum.IPredSLT, X: lastI, Y: ib}, icmpT)
	put(entry, &ir.InstICmp{Pred: enum.IPredEQ, X: gp, Y: pp}, i1)
	fc := put(entry, &ir.InstFCmp{Pred: enum.FPredOLT, X: lastF, Y: fb}, fcmpT)
	put(entry, &ir.InstFCmp{Pred: enum.FPredUNO, X: px, Y: py}, i1)
	sl := put(entry, &ir.InstSelect{Cond: ic, ValueTrue: lastI, ValueFalse: ib}, it)
	sl2 := put(entry, &ir.InstSelect{Cond: pc, ValueTrue: sl, ValueFalse: sl}, it)
	put(entry, &ir.InstSelect{Cond: fc, ValueTrue: fa, ValueFalse: lastF}, ft)
	fz := put(entry, &ir.InstFreeze{X: sl2}, it)
	put(entry, &ir.InstFreeze{X: fz}, it)
	put(entry, &ir.InstFreeze{X: cx}, types.NewStruct(i32, i1))

	// calls
	cl := put(entry, &ir.InstCall{Callee: calleeI, Args: []value.Value{rmw}}, i32)
	put(entry, &ir.InstCall{Callee: calleeI, Args: []value.Value{cl}, Tail: enum.TailTail}, i32)
	put(entry, &ir.InstCall{Callee: calleeV}, types.Void)
	put(entry, &ir.InstCall{Callee: calleeVar, Args: []value.Value{cl, px}}, f64)
	entry.Term = &ir.TermBr{Target: next}

	// phi (first in its block), then the terminators with a result
	ph := record(&ir.InstPhi{Incs: []*ir.Incoming{{X: cl, Pred: entry}}}, i32)
	ph2 := record(&ir.InstPhi{Incs: []*ir.Incoming{{X: fz, Pred: entry}}}, it)
	next.Insts = append(next.Insts, ph.(ir.Instruction), ph2.(ir.Instruction),
		&ir.InstStore{Src: ph, Dst: slot(i32)}, &ir.InstStore{Src: ph2, Dst: slot(it)})
	ph3 := put(next, &ir.InstAdd{X: ph, Y: ph}, i32)
	inv := &ir.TermInvoke{Invokee: calleeI, Args: []value.Value{ph3}, NormalRetTarget: cont, ExceptionRetTarget: lpad}
	invV := record(inv, i32)
	next.Term = inv

	cont.Insts = append(cont.Insts, &ir.InstStore{Src: invV, Dst: slot(i32)})
	iv3 := put(cont, &ir.InstMul{X: invV, Y: ph3}, i32)
	asmT := types.NewPointer(types.NewFunc(i32, i32))
	cb := &ir.TermCallBr{Callee: ir.NewInlineAsm(asmT, "", "=r,r,X"), Args: []value.Value{iv3, constant.NewBlockAddress(f, side)},
		NormalRetTarget: cont2, OtherRetTargets: []value.Value{side}}
	cbV := record(cb, i32)
	cont.Term = cb

	cont2.Insts = append(cont2.Insts, &ir.InstStore{Src: cbV, Dst: slot(i32)})
	r := put(cont2, &ir.InstXor{X: cbV, Y: invV}, i32)
	cont2.Term = &ir.TermRet{X: r}

	side.Term = &ir.TermRet{X: ci(i32, 0)}

	lp := ir.NewLandingPad(types.NewStruct(types.I8Ptr, i32))
	lp.Cleanup = true
	lpad.Insts = append(lpad.Insts, lp)
	lpad.Term = &ir.TermResume{X: lp}
	return m, vals
}

// c13LiteralModules returns the generators of the literal-built modules (never printed, nothing queried).
func c13LiteralModules(c *config) []func() *ir.Module {
	var ms []func() *ir.Module
	copies := 1
	if c.tier == "thorough" {
		copies = 6
	}
	for k := 0; k < copies; k++ {
		for variant := 0; variant < c13LitVariants; variant++ {
			variant := variant
			ms = append(ms, func() *ir.Module { m, _ := c13LitBuild(variant); return m })
		}
	}
	return ms
}

// c13LitKindsInSource lists the instruction and terminator struct types of package ir with a field Typ, from the
// sources of the library.
func c13LitKindsInSource() ([]string, error) {
	files, _ := filepath.Glob("/repo/ir/inst_*.go")
	files = append(files, "/repo/ir/terminator.go")
	var kinds []string
	fset := token.NewFileSet()
	for _, fn := range files {
		if strings.HasSuffix(fn, "_test.go") {
			continue
		}
		af, err := parser.ParseFile(fset, fn, nil, 0)
		if err != nil {
			return nil, err
		}
		for _, d := range af.Decls {
			gd, ok := d.(*ast.GenDecl)
			if !ok {
				continue
			}
			for _, s := range gd.Specs {
				ts, ok := s.(*ast.TypeSpec)
				if !ok {
					continue
				}
				st, ok := ts.Type.(*ast.StructType)
				if !ok || !(strings.HasPrefix(ts.Name.Name, "Inst") || strings.HasPrefix(ts.Name.Name, "Term")) {
					continue
				}
				for _, fl := range st.Fields.List {
					for _, n := range fl.Names {
						if n.Name == "Typ" {
							kinds = append(kinds, ts.Name.Name)
						}
					}
				}
			}
		}
	}
	sort.Strings(kinds)
	return kinds, nil
}

// c13LitSequential: the generator's own checks, run on separate instances after one sequential print: every kind
// with a Typ field in the sources is built (named and unnamed), and the type a literal reports is the one LLVM's
// rules give.
func c13LitSequential(o *out) {
	built := map[string][2]bool{}
	bad := ""
	for variant := 0; variant < c13LitVariants; variant++ {
		m, vals := c13LitBuild(variant)
		oc, msg := guard(func() error { _ = m.String(); return nil })
		if oc != ocOk {
			bad = fmt.Sprintf("variant %d: the sequential print panics: %s", variant, msg)
			break
		}
		for _, lv := range vals {
			e := built[lv.kind]
			if lv.named {
				e[0] = true
			} else {
				e[1] = true
			}
			built[lv.kind] = e
			if got := lv.v.Type(); !types.Equal(got, lv.typ) && bad == "" {
				bad = fmt.Sprintf("variant %d: %s %s has type %s, by LLVM's rules %s", variant, lv.kind, lv.v.Ident(), got, lv.typ)
			}
		}
		o.Stat("literal_modules")
	}
	if bad != "" {
		o.Fail("literal_types", "", bad, nil)
	} else {
		o.Pass("literal_types")
	}
	kinds, err := c13LitKindsInSource()
	if err != nil || len(kinds) == 0 {
		o.Fail("literal_kinds_complete", "", "the sources of package ir could not be read", map[string]interface{}{"err": fmt.Sprint(err)})
		return
	}
	var missing []string
	for _, k := range kinds {
		e := built[k]
		if !e[0] && !e[1] {
			missing = append(missing, k)
		}
	}
	o.StatN("literal_kinds", len(kinds))
	if len(missing) > 0 {
		o.Fail("literal_kinds_complete", "", "the generator builds no literal of a kind that has a lazily cached type", map[string]interface{}{"missing": missing})
	} else {
		o.Pass("literal_kinds_complete")
	}
}
