package main

// C18, constant expressions as carriers: every kind of constant expression that carries enum keywords -- add / sub /
// mul / shl (nuw, nsw), lshr / ashr (exact; the library has no udiv / sdiv constant expressions), getelementptr (inbounds, inrange on an index), icmp / fcmp
// (every predicate) -- in every position a constant can stand in (a global initialiser, an operand of an
// instruction, nested inside another constant expression, an element of an aggregate constant), both parsed from
// text and built through the constructors with the field assigned.  The field of the object the parser returns
// must be the generator's choice (read through the typed field, not through the text), the printed text must spell
// the keywords chosen, and the choice must survive print -> parse.

import (
	"fmt"
	"strings"

	"github.com/llir/llvm/asm"
	"github.com/llir/llvm/ir"
	"github.com/llir/llvm/ir/constant"
	"github.com/llir/llvm/ir/enum"
	"github.com/llir/llvm/ir/types"
)

// the flags of the constant expression of kind op found in c, rendered by the generator's own vocabulary
func c18ExprFlags(c constant.Constant) (op, flags string, ok bool) {
	ov := func(fs []enum.OverflowFlag) string {
		var s []string
		has := map[enum.OverflowFlag]bool{}
		for _, f := range fs {
			has[f] = true
		}
		if has[enum.OverflowFlagNUW] {
			s = append(s, "nuw")
		}
		if has[enum.OverflowFlagNSW] {
			s = append(s, "nsw")
		}
		for _, f := range fs {
			if f != enum.OverflowFlagNUW && f != enum.OverflowFlagNSW {
				s = append(s, fmt.Sprintf("flag(%d)", int(f)))
			}
		}
		return strings.Join(s, " ")
	}
	ex := func(b bool) string {
		if b {
			return "exact"
		}
		return ""
	}
	switch e := c.(type) {
	case *constant.ExprAdd:
		return "add", ov(e.OverflowFlags), true
	case *constant.ExprSub:
		return "sub", ov(e.OverflowFlags), true
	case *constant.ExprMul:
		return "mul", ov(e.OverflowFlags), true
	case *constant.ExprShl:
		return "shl", ov(e.OverflowFlags), true
	case *constant.ExprLShr:
		return "lshr", ex(e.Exact), true
	case *constant.ExprAShr:
		return "ashr", ex(e.Exact), true
	case *constant.ExprICmp:
		return "icmp", fmt.Sprintf("pred(%d)", int(e.Pred)), true
	case *constant.ExprFCmp:
		return "fcmp", fmt.Sprintf("pred(%d)", int(e.Pred)), true
	case *constant.ExprGetElementPtr:
		var s []string
		if e.InBounds {
			s = append(s, "inbounds")
		}
		for i, idx := range e.Indices {
			if ix, ok := idx.(*constant.Index); ok && ix.InRange {
				s = append(s, fmt.Sprintf("inrange@%d", i))
			}
		}
		return "getelementptr", strings.Join(s, " "), true
	}
	return "", "", false
}

// c18FindExpr finds the constant expression of kind op in the module's carrier position
func c18FindExpr(m *ir.Module, op string) (string, bool) {
	var found string
	var ok bool
	var walk func(c constant.Constant, depth int)
	walk = func(c constant.Constant, depth int) {
		if c == nil || depth > 6 || ok {
			return
		}
		if o, fl, is := c18ExprFlags(c); is && o == op {
			found, ok = fl, true
			return
		}
		switch e := c.(type) {
		case *constant.Struct:
			for _, f := range e.Fields {
				walk(f, depth+1)
			}
		case *constant.Array:
			for _, f := range e.Elems {
				walk(f, depth+1)
			}
		case *constant.ExprSelect:
			walk(e.Cond, depth+1)
			walk(e.X, depth+1)
			walk(e.Y, depth+1)
		case *constant.ExprPtrToInt:
			walk(e.From, depth+1)
		case *constant.ExprXor:
			walk(e.X, depth+1)
			walk(e.Y, depth+1)
		case *constant.ExprZExt:
			walk(e.From, depth+1)
		case *constant.ExprBitCast:
			walk(e.From, depth+1)
		}
	}
	for _, g := range m.Globals {
		if g.Init != nil && g.Name() == "g" {
			walk(g.Init, 0)
		}
	}
	for _, f := range m.Funcs {
		for _, b := range f.Blocks {
			if r, isRet := b.Term.(*ir.TermRet); isRet && r.X != nil {
				if c, isC := r.X.(constant.Constant); isC {
					walk(c, 0)
				}
			}
		}
	}
	return found, ok
}

type c18CE struct {
	op     string
	typ    string // type of the expression's result
	text   func(kw string) string
	flags  []string // keyword choices ("" = none); for predicates: the keyword
	want   func(kw string) string
	build  func(kw string) constant.Constant
	rtype  types.Type
	pieces func(kw string) []string // what the printed text must contain
}

func c18ConstExprs(c *config, vals map[string][]int64) {
	o := c.out
	i32 := func(v int64) constant.Constant { return constant.NewInt(types.I32, v) }
	ovSets := []string{"", "nuw", "nsw", "nuw nsw", "nsw nuw"}
	canon := func(kw string) string {
		if kw == "nsw nuw" {
			return "nuw nsw"
		}
		return kw
	}
	ovFlags := func(kw string) []enum.OverflowFlag {
		var fs []enum.OverflowFlag
		for _, w := range strings.Fields(kw) {
			if w == "nuw" {
				fs = append(fs, enum.OverflowFlagNUW)
			} else {
				fs = append(fs, enum.OverflowFlagNSW)
			}
		}
		return fs
	}
	sp := func(kw string) string {
		if kw == "" {
			return ""
		}
		return kw + " "
	}
	var ces []c18CE
	for _, op := range []string{"add", "sub", "mul", "shl"} {
		op := op
		ces = append(ces, c18CE{op: op, typ: "i32", rtype: types.I32, flags: ovSets, want: canon,
			text: func(kw string) string { return fmt.Sprintf("%s %s(i32 5, i32 2)", op, sp(kw)) },
			build: func(kw string) constant.Constant {
				switch op {
				case "add":
					e := constant.NewAdd(i32(5), i32(2))
					e.OverflowFlags = ovFlags(kw)
					return e
				case "sub":
					e := constant.NewSub(i32(5), i32(2))
					e.OverflowFlags = ovFlags(kw)
					return e
				case "mul":
					e := constant.NewMul(i32(5), i32(2))
					e.OverflowFlags = ovFlags(kw)
					return e
				}
				e := constant.NewShl(i32(5), i32(2))
				e.OverflowFlags = ovFlags(kw)
				return e
			},
			pieces: func(kw string) []string { return strings.Fields(kw) }})
	}
	for _, op := range []string{"lshr", "ashr"} /* (this library version has no udiv / sdiv constant expressions) */ {
		op := op
		ces = append(ces, c18CE{op: op, typ: "i32", rtype: types.I32, flags: []string{"", "exact"}, want: func(kw string) string { return kw },
			text: func(kw string) string { return fmt.Sprintf("%s %s(i32 64, i32 2)", op, sp(kw)) },
			build: func(kw string) constant.Constant {
				switch op {
				case "lshr":
					e := constant.NewLShr(i32(64), i32(2))
					e.Exact = kw != ""
					return e
				}
				e := constant.NewAShr(i32(64), i32(2))
				e.Exact = kw != ""
				return e
			},
			pieces: func(kw string) []string { return strings.Fields(kw) }})
	}
	// predicates: every value of the family
	var ipreds, fpreds []string
	predVal := map[string]int64{}
	for _, v := range vals["IPred"] {
		if kw := enumTable["IPred"].str(v); !reFallback.MatchString(kw) && kw != "" {
			ipreds = append(ipreds, kw)
			predVal["i"+kw] = v
		}
	}
	for _, v := range vals["FPred"] {
		if kw := enumTable["FPred"].str(v); !reFallback.MatchString(kw) && kw != "" {
			fpreds = append(fpreds, kw)
			predVal["f"+kw] = v
		}
	}
	ces = append(ces, c18CE{op: "icmp", typ: "i1", rtype: types.I1, flags: ipreds,
		want: func(kw string) string { return fmt.Sprintf("pred(%d)", predVal["i"+kw]) },
		text: func(kw string) string { return fmt.Sprintf("icmp %s (i32 5, i32 2)", kw) },
		build: func(kw string) constant.Constant {
			return constant.NewICmp(enum.IPred(predVal["i"+kw]), i32(5), i32(2))
		},
		pieces: func(kw string) []string { return []string{"icmp " + kw + " ("} }})
	ces = append(ces, c18CE{op: "fcmp", typ: "i1", rtype: types.I1, flags: fpreds,
		want: func(kw string) string { return fmt.Sprintf("pred(%d)", predVal["f"+kw]) },
		text: func(kw string) string { return fmt.Sprintf("fcmp %s (double 1.0, double 2.0)", kw) },
		build: func(kw string) constant.Constant {
			return constant.NewFCmp(enum.FPred(predVal["f"+kw]), constant.NewFloat(types.Double, 1), constant.NewFloat(types.Double, 2))
		},
		pieces: func(kw string) []string { return []string{"fcmp " + kw + " ("} }})
	// getelementptr: inbounds, and inrange on the second index
	gepWant := map[string]string{"": "", "inbounds": "inbounds", "inrange": "inrange@1", "inbounds inrange": "inbounds inrange@1"}
	ces = append(ces, c18CE{op: "getelementptr", typ: "i32*", rtype: types.NewPointer(types.I32), flags: []string{"", "inbounds", "inrange", "inbounds inrange"},
		want: func(kw string) string { return gepWant[kw] },
		text: func(kw string) string {
			ib, ir := "", ""
			if strings.Contains(kw, "inbounds") {
				ib = "inbounds "
			}
			if strings.Contains(kw, "inrange") {
				ir = "inrange "
			}
			return fmt.Sprintf("getelementptr %s([4 x i32], [4 x i32]* @arr, i32 0, %si32 1)", ib, ir)
		},
		build:  nil, // (needs the module's @arr: built in place below)
		pieces: func(kw string) []string { return strings.Fields(kw) }})

	// the positions a constant can stand in; %T the expression's type, %E the expression
	positions := []struct{ name, tmpl string }{
		{"global initialiser", "@g = global %T %E\n"},
		{"operand of ret", "define %T @f() {\n\tret %T %E\n}\n"},
		{"field of a struct constant", "@g = global { i8, %T } { i8 1, %T %E }\n"},
		{"element of an array constant", "@g = global [2 x %T] [%T %E, %T %E]\n"},
		{"operand of a select constant expression", "@g = global %T select (i1 true, %T %E, %T %E)\n"},
	}
	for _, ce := range ces {
		for _, kw := range ce.flags {
			want := ce.want(kw)
			for _, pos := range positions {
				expr := ce.text(kw)
				src := "@arr = global [4 x i32] zeroinitializer\n" + strings.NewReplacer("%T", ce.typ, "%E", expr).Replace(pos.tmpl)
				c18CheckExpr(c, ce, kw, want, pos.name, "parsed", src, nil)
			}
			// constructed: the field assigned after the constructor
			m := ir.NewModule()
			arr := m.NewGlobalDef("arr", constant.NewZeroInitializer(types.NewArray(4, types.I32)))
			var e constant.Constant
			oc, msg := guard(func() error {
				if ce.build != nil {
					e = ce.build(kw)
				} else {
					idx := constant.NewIndex(i32(1))
					idx.InRange = strings.Contains(kw, "inrange")
					g := constant.NewGetElementPtr(types.NewArray(4, types.I32), arr, i32(0), idx)
					g.InBounds = strings.Contains(kw, "inbounds")
					e = g
				}
				m.NewGlobalDef("g", e)
				f := m.NewFunc("f", ce.rtype)
				f.NewBlock("").NewRet(e)
				return nil
			})
			if oc != ocOk {
				o.Fail("constexpr_carrier", "", "constructing the constant expression fails: "+msg, map[string]interface{}{"op": ce.op, "keywords": kw})
				continue
			}
			c18CheckExpr(c, ce, kw, want, "global initialiser and operand of ret", "constructed", "", m)
		}
	}
	_ = asm.ParseString
}

func c18CheckExpr(c *config, ce c18CE, kw, want, pos, how, src string, m *ir.Module) {
	o := c.out
	o.Stat("constexpr_carriers." + ce.op)
	o.Nontrivial("ce:" + ce.op + ":" + kw + ":" + pos + ":" + how)
	det := map[string]interface{}{"op": ce.op, "keywords": kw, "position": pos, "how": how, "src": src, "want": want}
	var text, text2, got1, got2 string
	var ok1, ok2, rejected bool
	oc, msg := guard(func() error {
		if m == nil {
			var err error
			m, err = asm.ParseString("c18ce.ll", src)
			if err != nil {
				rejected = true
				return nil
			}
		}
		got1, ok1 = c18FindExpr(m, ce.op)
		text = m.String()
		m2, err := asm.ParseString("c18ce2.ll", text)
		if err != nil {
			return fmt.Errorf("printed text does not re-parse: %v", err)
		}
		got2, ok2 = c18FindExpr(m2, ce.op)
		text2 = m2.String()
		return nil
	})
	if rejected {
		o.Stat("constexpr_carriers.rejected")
		return // (the grammar does not take this spelling: not counted)
	}
	det["printed"], det["field_parsed"], det["field_reparsed"], det["msg"] = text, got1, got2, msg
	switch {
	case oc != ocOk:
		o.Fail("constexpr_carrier", "", oc.String(), det)
	case !ok1 || !ok2:
		o.Fail("constexpr_carrier", "", "the constant expression is not found where it was written", det)
	case got1 != want:
		o.Fail("constexpr_carrier", "", "the "+how+" constant expression does not hold the keywords written", det)
	case got2 != want:
		o.Fail("constexpr_carrier", "", "the keywords of the constant expression do not survive print and parse", det)
	case text != text2:
		o.Fail("constexpr_carrier", "", "second print differs", det)
	default:
		for _, p := range ce.pieces(kw) {
			if !strings.Contains(text, p) {
				det["missing"] = p
				o.Fail("constexpr_carrier", "", "keyword missing from the printed constant expression", det)
				return
			}
		}
		o.Pass("constexpr_carrier")
	}
}
