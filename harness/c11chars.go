package main

// C11, character arrays through every public way of making one, over byte strings that are valid multi-byte
// UTF-8, invalid UTF-8, and mixtures (with NUL): constant.NewCharArray([]byte), constant.NewCharArrayFromString
// and the composite literal, as the initializer of a global, inside a constant struct, inside an array of
// character arrays and as an operand of an instruction.  Two checks: the array type counts BYTES (the length the
// generator knows: len of the byte string), and the printed module decodes to the same bytes (c11RoundTrip).
// Also the package-level constructors of named entities (ir.NewGlobal, ir.NewGlobalDef, ir.NewFunc, ir.NewBlock,
// ir.NewParam with the entity appended by hand), next to the Module/Func methods the other positions use.

import (
	"fmt"
	"unicode/utf8"

	"github.com/llir/llvm/ir"
	"github.com/llir/llvm/ir/constant"
	"github.com/llir/llvm/ir/enum"
	"github.com/llir/llvm/ir/types"
)

// c11UTF8Mix: valid runes of every encoded length, invalid sequences of every kind, ASCII and NUL
func c11UTF8Mix(r *rng) string {
	n := 1 + r.intn(8)
	var b []byte
	valid := func(lo, hi int) {
		for {
			c := rune(lo + r.intn(hi-lo+1))
			if c >= 0xD800 && c <= 0xDFFF {
				continue
			}
			b = utf8.AppendRune(b, c)
			return
		}
	}
	mode := r.intn(4) // 0: valid multi-byte only, 1: valid with ASCII, 2: invalid only, 3: everything
	for i := 0; i < n; i++ {
		k := r.intn(12)
		switch mode {
		case 0:
			k = 1 + r.intn(3)
		case 1:
			k = r.intn(4)
		case 2:
			k = 4 + r.intn(7)
		}
		switch k {
		case 0:
			b = append(b, r.pick("abz09 \"\\%"))
		case 1:
			valid(0x80, 0x7FF) // two bytes
		case 2:
			valid(0x800, 0xFFFF) // three bytes
		case 3:
			valid(0x10000, 0x10FFFF) // four bytes
		case 4:
			b = append(b, byte(0x80+r.intn(0x40))) // a lone continuation byte
		case 5:
			b = append(b, byte(0xC2+r.intn(0x1E))) // a two-byte lead without its continuation
			if r.coin() {
				b = append(b, 'a')
			}
		case 6:
			b = append(b, byte(0xE0+r.intn(0x10)), byte(0x80+r.intn(0x40))) // a truncated three-byte sequence
		case 7:
			b = append(b, 0xC0, byte(0x80+r.intn(0x40))) // overlong
		case 8:
			b = append(b, 0xED, byte(0xA0+r.intn(0x20)), byte(0x80+r.intn(0x40))) // a surrogate
		case 9:
			b = append(b, byte(0xF5+r.intn(0x0B))) // never a lead byte
		case 10:
			b = append(b, 0xF4, byte(0x90+r.intn(0x30)), 0x80, 0x80) // above U+10FFFF
		default:
			b = append(b, 0)
		}
	}
	return string(b)
}

var c11CharCorpus = []string{
	"", "h\xc3\xa9llo", "\xc3\xa9", "\xe4\xb8\x96\xe7\x95\x8c", "\xf0\x9f\x98\x80", "a\xf0\x9f\x98\x80b\x00", "\xc3", "\xa9", "\xc3\xc3\xa9",
	"\xef\xbb\xbfbom", "\xff\xfe", "\xc0\x80", "\xed\xa0\x80", "\x00", "\x00\xc3\xa9\x00", "\xc3\xa9\"\\\xc3\xa9", "na\xc3\xafve caf\xc3\xa9\x00",
}

type c11CharMaker struct {
	name string
	mk   func(s string) *constant.CharArray
}

var c11CharMakers = []c11CharMaker{
	{"NewCharArray", func(s string) *constant.CharArray { return constant.NewCharArray([]byte(s)) }},
	{"NewCharArrayFromString", func(s string) *constant.CharArray { return constant.NewCharArrayFromString(s) }},
	{"literal", func(s string) *constant.CharArray {
		return &constant.CharArray{Typ: types.NewArray(uint64(len(s)), types.I8), X: []byte(s)}
	}},
}

func c11CharPositions() []c11Pos {
	var out []c11Pos
	bytesOf := func(x interface{}) string {
		ca, ok := x.(*constant.CharArray)
		if !ok {
			return fmt.Sprintf("\x00held as %T", x)
		}
		return string(ca.X)
	}
	for _, mk := range c11CharMakers {
		mk := mk
		out = append(out,
			c11Pos{"char_array." + mk.name + ".global", func(s string) *ir.Module {
				m := ir.NewModule()
				m.NewGlobalDef("g", mk.mk(s))
				return m
			}, func(m *ir.Module) string { return bytesOf(m.Globals[0].Init) }},
			c11Pos{"char_array." + mk.name + ".struct_field", func(s string) *ir.Module {
				m := ir.NewModule()
				ca := mk.mk(s)
				m.NewGlobalDef("g", constant.NewStruct(types.NewStruct(i32, ca.Typ), constant.NewInt(i32, 1), ca))
				return m
			}, func(m *ir.Module) string { return bytesOf(m.Globals[0].Init.(*constant.Struct).Fields[1]) }},
			c11Pos{"char_array." + mk.name + ".array_element", func(s string) *ir.Module {
				m := ir.NewModule()
				a, b := mk.mk(s), mk.mk(s)
				m.NewGlobalDef("g", constant.NewArray(types.NewArray(2, a.Typ), a, b))
				return m
			}, func(m *ir.Module) string {
				es := m.Globals[0].Init.(*constant.Array).Elems
				if bytesOf(es[0]) != bytesOf(es[1]) {
					return "\x00the two elements differ"
				}
				return bytesOf(es[1])
			}},
			c11Pos{"char_array." + mk.name + ".operand", func(s string) *ir.Module {
				m := ir.NewModule()
				ca := mk.mk(s)
				f := m.NewFunc("f", ca.Typ)
				f.NewBlock("entry").NewRet(ca)
				return m
			}, func(m *ir.Module) string { return bytesOf(m.Funcs[0].Blocks[0].Term.(*ir.TermRet).X) }},
		)
	}
	return out
}

// the package-level constructors of named entities
func c11PkgLevelPositions() []c11Pos {
	return []c11Pos{
		{"global", func(n string) *ir.Module {
			m := ir.NewModule()
			m.Globals = append(m.Globals, ir.NewGlobalDef(n, constant.NewInt(i32, 1)))
			return m
		}, func(m *ir.Module) string { return m.Globals[0].GlobalName }},
		{"global", func(n string) *ir.Module {
			m := ir.NewModule()
			g := ir.NewGlobal(n, i32) // a declaration
			g.Linkage = enum.LinkageExternal
			m.Globals = append(m.Globals, g)
			return m
		}, func(m *ir.Module) string { return m.Globals[0].GlobalName }},
		{"func", func(n string) *ir.Module {
			m := ir.NewModule()
			m.Funcs = append(m.Funcs, ir.NewFunc(n, types.Void))
			return m
		}, func(m *ir.Module) string { return m.Funcs[0].GlobalName }},
		{"block", func(n string) *ir.Module {
			m := ir.NewModule()
			f := ir.NewFunc("f", types.Void)
			m.Funcs = append(m.Funcs, f)
			e := ir.NewBlock(aux(n, "entry"))
			t := ir.NewBlock(n)
			e.NewBr(t)
			t.NewRet(nil)
			f.Blocks = append(f.Blocks, e, t)
			return m
		}, func(m *ir.Module) string { return m.Funcs[0].Blocks[1].LocalName }},
	}
}

func c11Chars(c *config, r *rng, names []string) {
	o := c.out
	var strs []string
	strs = append(strs, c11CharCorpus...)
	for i := 0; i < 150*c.scale; i++ {
		strs = append(strs, c11UTF8Mix(r))
	}
	// the byte strings of the other generators too (every fourth)
	for i := 0; i < len(names); i += 4 {
		s := names[i]
		if r.chance(30) {
			s = s + "\x00" + s
		}
		strs = append(strs, s)
	}
	poss := c11CharPositions()
	for _, s := range strs {
		// the type of a character array made from s counts its bytes
		for _, mk := range c11CharMakers {
			var n uint64
			var ty string
			var held string
			oc, msg := guard(func() error {
				ca := mk.mk(s)
				n, ty, held = ca.Typ.Len, ca.Type().String(), string(ca.X)
				return nil
			})
			o.Stat("char_array_type." + mk.name)
			det := map[string]interface{}{"position": "char_array." + mk.name + ".global", "name": hx(s), "constructor": mk.name, "bytes": len(s), "type": ty, "msg": msg}
			switch {
			case oc != ocOk:
				o.Fail("char_array_type", "", "the constructor "+oc.String(), det)
			case n != uint64(len(s)) || ty != fmt.Sprintf("[%d x i8]", len(s)):
				o.Fail("char_array_type", "", "the array type does not count the bytes of the contents", det)
			case held != s:
				o.Fail("char_array_type", "", "the constructor changes the bytes", det)
			default:
				o.Pass("char_array_type")
			}
		}
		for _, p := range poss {
			c11RoundTrip(c, p, s, false)
		}
	}
	// package-level constructors over the names
	for i := 0; i < len(names); i += 3 {
		n := names[i]
		if n == "" || containsNUL(n) {
			continue
		}
		for _, p := range c11PkgLevelPositions() {
			c11RoundTrip(c, p, n, true)
		}
	}
}

func containsNUL(s string) bool {
	for i := 0; i < len(s); i++ {
		if s[i] == 0 {
			return true
		}
	}
	return false
}
