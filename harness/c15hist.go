package main

// C15, histories: Operands() lists the slots of the instruction AS IT IS NOW.  After an earlier Operands() call
// (any use-def traversal) the operand-holding fields of an instruction or terminator are assigned anew -- the slice
// valued ones (Indices, Args, Incs, Cases, Clauses, ValidTargets, Handlers, OtherRetTargets, ...) by fresh slices of
// the same length or one longer, the scalar ones by fresh values -- or the struct is copied by value (`cp := *inst`)
// and the fields of the copy are assigned; the next Operands() call must hand out one slot per value cell of that
// struct, each holding the value the generator put there, and a marker written through a slot must be read back
// from exactly that cell and from the printed instruction (and from nothing else: not from the original of a copy).
//
// Everything is generic by reflection over the struct of the user: no instruction kind is named.  Expected values
// are the generator's: the fresh values it stored, the marker it wrote.

import (
	"fmt"
	"reflect"
	"strings"

	"github.com/llir/llvm/ir"
	"github.com/llir/llvm/ir/types"
	"github.com/llir/llvm/ir/value"
)

type c15Cell struct {
	addr *value.Value
	path string
}

func c15IsRecord(t reflect.Type) bool {
	return t == reflect.TypeOf((*ir.Incoming)(nil)) || t == reflect.TypeOf((*ir.Case)(nil)) || t == reflect.TypeOf((*ir.Clause)(nil))
}

func c15SkipField(sf reflect.StructField) bool {
	return sf.PkgPath != "" || sf.Name == "Parent" || sf.Name == "Successors" || sf.Name == "Metadata" || sf.Name == "Typ"
}

// the addresses of the non-nil value cells of a user, independently of Operands(): value.Value fields, elements of
// []value.Value fields, value.Value fields of the Incoming / Case / Clause records (operand-bundle inputs have no
// slots: KF-16, counted by c15Check)
func c15CellAddrs(u interface{}) []c15Cell {
	var cells []c15Cell
	rv := reflect.ValueOf(u).Elem()
	var fields func(v reflect.Value, prefix string)
	fields = func(v reflect.Value, prefix string) {
		for i := 0; i < v.NumField(); i++ {
			sf := v.Type().Field(i)
			if c15SkipField(sf) {
				continue
			}
			f := v.Field(i)
			switch {
			case sf.Type == valueIface:
				if !f.IsNil() {
					cells = append(cells, c15Cell{f.Addr().Interface().(*value.Value), prefix + sf.Name})
				}
			case sf.Type.Kind() == reflect.Slice && sf.Type.Elem() == valueIface:
				for k := 0; k < f.Len(); k++ {
					if !f.Index(k).IsNil() {
						cells = append(cells, c15Cell{f.Index(k).Addr().Interface().(*value.Value), fmt.Sprintf("%s%s[%d]", prefix, sf.Name, k)})
					}
				}
			case sf.Type.Kind() == reflect.Slice && c15IsRecord(sf.Type.Elem()):
				for k := 0; k < f.Len(); k++ {
					if !f.Index(k).IsNil() {
						fields(f.Index(k).Elem(), fmt.Sprintf("%s%s[%d].", prefix, sf.Name, k))
					}
				}
			}
		}
	}
	fields(rv, "")
	return cells
}

// a fresh value that can stand where old stands and is told apart from every other value by its name
func c15Fresh(old value.Value, name string) (value.Value, bool) {
	if old == nil || reflect.ValueOf(old).Kind() == reflect.Ptr && reflect.ValueOf(old).IsNil() {
		return nil, false
	}
	if _, isBlock := old.(*ir.Block); isBlock {
		return ir.NewBlock(name), true
	}
	var t types.Type
	if oc, _ := guard(func() error { t = old.Type(); return nil }); oc != ocOk || t == nil {
		return nil, false
	}
	switch t.(type) {
	case *types.LabelType, *types.TokenType, *types.MetadataType, *types.VoidType:
		return nil, false
	}
	return ir.NewParam(name, t), true
}

// c15Reassign assigns the operand-holding fields of u anew.  mode "clone": every slice-valued field becomes a fresh
// slice (fresh records) with the same values; mode "fresh": also the values are fresh (scalar fields included), the
// slices `extra` elements longer.  Returns the values stored and the values that are no longer in the instruction.
func c15Reassign(u interface{}, mode string, extra int, tag string) (stored, gone []value.Value, touched []string) {
	n := 0
	fresh := func(old value.Value) value.Value {
		if mode != "fresh" {
			return old
		}
		nv, ok := c15Fresh(old, fmt.Sprintf("verif.%s%d", tag, n))
		if !ok {
			return old
		}
		n++
		stored = append(stored, nv)
		gone = append(gone, old)
		return nv
	}
	set := func(f reflect.Value, v value.Value) {
		if v == nil {
			f.Set(reflect.Zero(f.Type()))
		} else {
			f.Set(reflect.ValueOf(v))
		}
	}
	get := func(f reflect.Value) value.Value {
		if f.IsNil() {
			return nil
		}
		return f.Interface().(value.Value)
	}
	rv := reflect.ValueOf(u).Elem()
	for i := 0; i < rv.NumField(); i++ {
		sf := rv.Type().Field(i)
		if c15SkipField(sf) {
			continue
		}
		f := rv.Field(i)
		switch {
		case sf.Type == valueIface:
			if mode == "fresh" && !f.IsNil() {
				set(f, fresh(get(f)))
				touched = append(touched, sf.Name)
			}
		case sf.Type.Kind() == reflect.Slice && (sf.Type.Elem() == valueIface || c15IsRecord(sf.Type.Elem())):
			ln := f.Len()
			if ln == 0 {
				continue
			}
			ns := reflect.MakeSlice(sf.Type, ln+extra, ln+extra)
			for k := 0; k < ln+extra; k++ {
				src := f.Index(k % ln) // the elements beyond the old length are modelled on the old ones
				if sf.Type.Elem() == valueIface {
					set(ns.Index(k), fresh(get(src)))
					continue
				}
				rec := reflect.New(sf.Type.Elem().Elem())
				if !src.IsNil() {
					rec.Elem().Set(src.Elem())
					for j := 0; j < rec.Elem().NumField(); j++ {
						if rec.Elem().Type().Field(j).Type == valueIface && !rec.Elem().Field(j).IsNil() {
							set(rec.Elem().Field(j), fresh(get(rec.Elem().Field(j))))
						}
					}
				}
				ns.Index(k).Set(rec)
			}
			f.Set(ns)
			touched = append(touched, fmt.Sprintf("%s[%d->%d]", sf.Name, ln, ln+extra))
		}
	}
	return
}

func c15Print(u c15User) (string, bool) {
	var s string
	oc, _ := guard(func() error { s = u.LLString(); return nil })
	return s, oc == ocOk
}

// c15SlotsCurrent: the slots Operands() returns now are the cells of u as it is now.
func c15SlotsCurrent(c *config, u c15User, kind, history string, touched []string, stored, gone []value.Value, orig c15User, origBefore string) {
	o := c.out
	o.Stat("edit_histories")
	o.Stat("edit_histories." + strings.SplitN(history, " ", 2)[0])
	inst, _ := c15Print(u)
	det := func(extra map[string]interface{}) map[string]interface{} {
		d := map[string]interface{}{"kind": kind, "inst": inst, "history": history, "fields": strings.Join(touched, " ")}
		for k, v := range extra {
			d[k] = v
		}
		return d
	}
	bad := false
	fail := func(msg string, extra map[string]interface{}) {
		bad = true
		o.Fail("operands_current", "", msg, det(extra))
	}
	ops := c15Ops(c, u)
	cells := c15CellAddrs(u)
	// one slot per cell of this struct, each slot a cell of this struct
	cellAt := map[*value.Value]string{}
	for _, cl := range cells {
		cellAt[cl.addr] = cl.path
	}
	seen := map[*value.Value]bool{}
	for i, s := range ops {
		if _, ok := cellAt[s]; !ok {
			held := "nothing"
			if s != nil && *s != nil {
				held = fmt.Sprint(*s)
			}
			fail("a slot is not a value cell of the instruction as it is now", map[string]interface{}{"slot": i, "slot_holds": held})
			break
		}
		seen[s] = true
	}
	if !bad {
		for _, cl := range cells {
			if !seen[cl.addr] {
				fail("a value cell of the instruction has no slot", map[string]interface{}{"cell": cl.path})
				break
			}
		}
	}
	// the slots hold what the generator stored, and nothing it took out
	count := func(v value.Value) int {
		k := 0
		for _, s := range ops {
			if s != nil && *s == v {
				k++
			}
		}
		return k
	}
	for _, v := range stored {
		if k := count(v); k != 1 {
			fail(fmt.Sprintf("the value stored in the instruction is held by %d slots, want 1", k), map[string]interface{}{"value": fmt.Sprint(v)})
			break
		}
	}
	for _, v := range gone {
		still := false
		for _, w := range stored {
			still = still || w == v
		}
		if k := count(v); k != 0 && !still {
			fail("a slot holds a value that is no longer an operand of the instruction", map[string]interface{}{"value": fmt.Sprint(v)})
			break
		}
	}
	// a marker written through slot i is read back from exactly one cell of this struct and from the printed
	// instruction, and from nothing else
	for i, s := range ops {
		if s == nil {
			continue
		}
		old := *s
		marker, ok := c15Fresh(old, "verif.marker")
		if !ok {
			continue
		}
		snap := make([]value.Value, len(cells))
		for k, cl := range cells {
			snap[k] = *cl.addr
		}
		pre, preOk := c15Print(u)
		*s = marker
		o.Stat("edit_histories.slots")
		holders, changed := 0, 0
		where := ""
		for k, cl := range cells {
			if *cl.addr == marker {
				holders++
				where = cl.path
			} else if *cl.addr != snap[k] {
				changed++
			}
		}
		post, postOk := c15Print(u)
		d := map[string]interface{}{"slot": i, "slot_held": fmt.Sprint(old), "after": post}
		switch {
		case holders != 1:
			fail(fmt.Sprintf("a value written through the slot is held by %d cells of the instruction, want 1", holders), d)
		case changed != 0:
			fail("a write through one slot changed another operand", d)
		case preOk && postOk && strings.Count(post, "%verif.marker") != 1+strings.Count(pre, "%verif.marker"):
			fail("a value written through the slot is not printed by the instruction", d)
		}
		_ = where
		if orig != nil {
			if now, ok := c15Print(orig); ok && now != origBefore {
				fail("a write through a slot of a copy changed the instruction it was copied from", map[string]interface{}{"slot": i, "original_before": origBefore, "original_after": now})
			}
		}
		*s = old
		if back, ok := c15Print(u); ok && preOk && back != pre {
			fail("restoring the slot does not restore the instruction", d)
		}
		if bad {
			break
		}
	}
	if !bad {
		o.Pass("operands_current")
	}
}

// c15History runs the edit histories on one user of a freshly parsed (or constructed) function.
func c15History(c *config, u c15User, kind string) {
	o := c.out
	oc, msg := guard(func() error {
		_ = c15Ops(c, u) // an earlier traversal
		before, _ := c15Print(u)
		// by-value copies: the usual clone (slices copied), then a copy whose operands are all assigned anew
		for _, mode := range []string{"clone", "fresh"} {
			cp := reflect.New(reflect.TypeOf(u).Elem())
			cp.Elem().Set(reflect.ValueOf(u).Elem())
			cu := cp.Interface().(c15User)
			stored, gone, touched := c15Reassign(cu, mode, 0, "c")
			c15SlotsCurrent(c, cu, kind, "copy-"+mode+" Operands(); cp := *inst; fields of cp assigned ("+mode+"); cp.Operands()", touched, stored, gone, u, before)
		}
		// in place: same length, then one longer (every round leaves an Operands() call behind for the next)
		for round, extra := range []int{0, 0, 1} {
			stored, gone, touched := c15Reassign(u, "fresh", extra, fmt.Sprintf("r%d.", round))
			c15SlotsCurrent(c, u, kind, fmt.Sprintf("assign+%d Operands(); fields assigned (slices %d longer); Operands()", extra, extra), touched, stored, gone, nil, "")
		}
		return nil
	})
	if oc != ocOk {
		o.Fail("operands_current", "", "an edit history panics", map[string]string{"kind": kind, "msg": msg})
	}
}
