package main

// C08, names are not numbers (c08quoted.go): module shapes in which global variables, aliases, ifuncs and functions
// NAMED by a number in quotes (@"0", @"1", @"00", @"7", ...) stand between unnamed ones (@0, @1, ...) and ordinarily
// named ones, with a use of every entity: @N for the unnamed, @"N" for the quoted numbers.  LLVM's rule (the
// generator computes it): only the unnamed entities are numbered, from 0, in the order of the text; @"N" is the
// name N and takes no number.  Expected: the module parses; every entity keeps its kind of identity (name or ID) and
// the ID LLVM gives it; every use is bound to the entity the generator meant (by position in the module's lists, for
// global variables and functions also by the value they were given); the printed text parses to the same text.
//
// Restricted to module-level entities (instruction results and comdats named by quoted numbers are KF-03).  Unnamed
// entities are written in the group order of KF-13 (global variables, aliases, ifuncs, functions).

import (
	"fmt"
	"strings"

	"github.com/llir/llvm/asm"
	"github.com/llir/llvm/ir"
	"github.com/llir/llvm/ir/constant"
	"github.com/llir/llvm/ir/value"
)

type c08qEnt struct {
	kind  byte   // G A I F
	name  string // "" when unnamed
	id    int64  // LLVM's number when unnamed
	ident string // as written
}

func c08QuotedModule(c *config, r *rng) {
	o := c.out
	n := 2 + r.intn(8)
	pool := []string{"0", "1", "2", "3", "7", "10", "42", "5", "11", "100"} // canonical decimals only: @"01", @"00", @"007" come back as "1", "0", "7" on the unchanged tree (reported)
	usedNum := map[string]bool{}
	var ents []c08qEnt
	counts := map[byte]int{}
	for i := 0; i < n; i++ {
		counts["GGAIFF"[r.intn(6)]]++
	}
	quoted := 0
	var next int64
	for _, k := range []byte("GAIF") {
		for j := 0; j < counts[k]; j++ {
			e := c08qEnt{kind: k}
			switch x := r.intn(10); {
			case x < 4:
				e.id = next
				next++
				e.ident = fmt.Sprintf("@%d", e.id)
			case x < 8:
				nm := pool[r.intn(len(pool))]
				if usedNum[nm] {
					nm = fmt.Sprintf("%d", 50+len(ents))
				}
				usedNum[nm] = true
				e.name = nm
				e.ident = "@\"" + nm + "\""
				quoted++
			default:
				e.name = fmt.Sprintf("m%d", len(ents))
				e.ident = "@" + e.name
			}
			ents = append(ents, e)
		}
	}
	var b strings.Builder
	b.WriteString("@tg = global i32 -1\ndefine i32 @tf() {\n\tret i32 -1\n}\n")
	refsFirst := r.coin()
	var refs strings.Builder
	for i, e := range ents {
		switch e.kind {
		case 'G', 'A':
			fmt.Fprintf(&refs, "@ref%d = global i32* %s\n", i, e.ident)
		default:
			fmt.Fprintf(&refs, "@ref%d = global i32 ()* %s\n", i, e.ident)
		}
	}
	if refsFirst {
		b.WriteString(refs.String())
	}
	for i, e := range ents {
		switch e.kind {
		case 'G':
			fmt.Fprintf(&b, "%s = global i32 %d\n", e.ident, i)
		case 'A':
			fmt.Fprintf(&b, "%s = alias i32, i32* @tg\n", e.ident)
		case 'I':
			fmt.Fprintf(&b, "%s = ifunc i32 (), i32 ()* @tf\n", e.ident)
		default:
			fmt.Fprintf(&b, "define i32 %s() {\n\tret i32 %d\n}\n", e.ident, i)
		}
	}
	if !refsFirst {
		b.WriteString(refs.String())
	}
	// a caller that uses every function-like entity and every variable by its written identifier
	b.WriteString("define void @caller() {\n")
	for i, e := range ents {
		switch e.kind {
		case 'G', 'A':
			fmt.Fprintf(&b, "\t%%v%d = load i32, i32* %s\n", i, e.ident)
		default:
			fmt.Fprintf(&b, "\t%%v%d = call i32 %s()\n", i, e.ident)
		}
	}
	b.WriteString("\tret void\n}\n")
	src := b.String()
	o.Stat("quoted_number_modules")
	if quoted > 0 && next > 0 {
		o.Stat("quoted_number_modules.mixed_with_unnamed")
	}
	o.Nontrivial(fmt.Sprintf("q:%d:%d:%d", n, quoted, next))
	bad, stage, text := "", "parse", ""
	oc, msg := guard(func() error {
		m, err := asm.ParseString("c08q.ll", src)
		if err != nil {
			return err
		}
		stage = "check"
		bad = c08QuotedCheck(m, ents, refsFirst)
		stage = "print"
		text = m.String()
		if printedPanic(text) {
			panic(text)
		}
		return nil
	})
	det := map[string]interface{}{"src": src, "stage": stage, "msg": msg}
	if oc != ocOk {
		o.Fail("quoted_number_names", "", "a valid module with global names that are numbers in quotes is rejected or fails at "+stage, det)
		return
	}
	if bad != "" {
		o.Fail("quoted_number_names", "", bad, det)
		return
	}
	m2, err := asm.ParseString("c08q2.ll", text)
	if err != nil {
		det["printed"] = text
		o.Fail("quoted_number_names", "", "the printed module does not parse", det)
		return
	}
	if again := c08QuotedCheck(m2, ents, refsFirst); again != "" || m2.String() != text {
		det["printed"] = text
		o.Fail("quoted_number_names", "", "after print and parse: "+again, det)
		return
	}
	o.Pass("quoted_number_names")
}

func c08QuotedCheck(m *ir.Module, ents []c08qEnt, refsFirst bool) string {
	// the module's lists hold the entities in the order of the text; before them: @tg, @tf (and the refs when they
	// were written first)
	gOff, fOff := 1, 1
	if refsFirst {
		gOff += len(ents)
	}
	cnt := map[byte]int{}
	for _, e := range ents {
		cnt[e.kind]++
	}
	if len(m.Globals) != 1+len(ents)+cnt['G'] || len(m.Aliases) != cnt['A'] || len(m.IFuncs) != cnt['I'] || len(m.Funcs) != 2+cnt['F'] {
		return fmt.Sprintf("the module lists %d global variables, %d aliases, %d ifuncs, %d functions; written: %d, %d, %d, %d", len(m.Globals), len(m.Aliases), len(m.IFuncs), len(m.Funcs), 1+len(ents)+cnt['G'], cnt['A'], cnt['I'], 2+cnt['F'])
	}
	refs := map[int]*ir.Global{}
	for _, g := range m.Globals {
		var i int
		if k, _ := fmt.Sscanf(g.Name(), "ref%d", &i); k == 1 && !g.IsUnnamed() {
			refs[i] = g
		}
	}
	var caller *ir.Func
	for _, f := range m.Funcs {
		if f.Name() == "caller" && !f.IsUnnamed() {
			caller = f
		}
	}
	if caller == nil || len(caller.Blocks) != 1 || len(caller.Blocks[0].Insts) != len(ents) {
		return "the function @caller is not listed with its instructions"
	}
	pos := map[byte]int{}
	for i, e := range ents {
		var obj value.Value
		var unnamed bool
		var id int64
		var name string
		p := pos[e.kind]
		pos[e.kind]++
		switch e.kind {
		case 'G':
			g := m.Globals[gOff+p]
			obj, unnamed, id, name = g, g.IsUnnamed(), g.ID(), g.Name()
			if ci, ok := g.Init.(*constant.Int); !ok || ci.X.Int64() != int64(i) {
				return fmt.Sprintf("global variable %d of the text (%s = global i32 %d) is listed as %s", i, e.ident, i, g.LLString())
			}
		case 'A':
			a := m.Aliases[p]
			obj, unnamed, id, name = a, a.IsUnnamed(), a.ID(), a.Name()
		case 'I':
			a := m.IFuncs[p]
			obj, unnamed, id, name = a, a.IsUnnamed(), a.ID(), a.Name()
		default:
			f := m.Funcs[fOff+p]
			obj, unnamed, id, name = f, f.IsUnnamed(), f.ID(), f.Name()
			ok := false
			if len(f.Blocks) == 1 {
				if rt, isRet := f.Blocks[0].Term.(*ir.TermRet); isRet {
					if ci, isInt := rt.X.(*constant.Int); isInt && ci.X.Int64() == int64(i) {
						ok = true
					}
				}
			}
			if !ok {
				return fmt.Sprintf("function %d of the text (%s, returns %d) is not at its position in the list of functions", i, e.ident, i)
			}
		}
		switch {
		case e.name == "" && (!unnamed || id != e.id):
			return fmt.Sprintf("entity %d of the text, written %s, is the unnamed global number %d in LLVM; the library has it as %s", i, e.ident, e.id, obj.Ident())
		case e.name != "" && unnamed:
			return fmt.Sprintf("entity %d of the text, written %s, is NAMED %q in LLVM and takes no number; the library has it as the unnamed global number %d", i, e.ident, e.name, id)
		case e.name != "" && name != e.name && name != "\""+e.name+"\"": // Name() of a numeric name keeps the quotes (documented in ir/ident.go)
			return fmt.Sprintf("entity %d of the text, written %s, has the name %q in LLVM; the library has %q", i, e.ident, e.name, name)
		}
		ref := refs[i]
		if ref == nil {
			return fmt.Sprintf("@ref%d is not listed", i)
		}
		if ref.Init != obj {
			got := "nothing"
			if ref.Init != nil {
				got = ref.Init.Ident()
			}
			return fmt.Sprintf("the use %s in the initialiser of @ref%d is bound to %s, not to entity %d of the text (%c)", e.ident, i, got, i, e.kind)
		}
		var used value.Value
		switch inst := caller.Blocks[0].Insts[i].(type) {
		case *ir.InstLoad:
			used = inst.Src
		case *ir.InstCall:
			used = inst.Callee
		}
		if used != obj {
			return fmt.Sprintf("the use %s in instruction %d of @caller is not bound to entity %d of the text (%c)", e.ident, i, i, e.kind)
		}
	}
	return ""
}
