package main

// C02, adversarial order families.  The printer's output is a canonical form because type definitions, comdats
// and named metadata are collected from Go maps and put in natural order; when the comparison cannot tell two
// names apart the order of the print is the map's iteration order of that one parse, and print(parse(y)) differs
// from y from run to run.  The inputs here are modules whose names in the three sorted namespaces form families a
// comparison has to work for (ordFamily in c20bytes.go: digit runs of 20 to 40 digits above 2^64 and 2^128 that
// differ in their last digits or in the middle, one value under several numbers of leading zeros, several runs per
// name, names that continue one another, bytes >= 0x80), four to six names per namespace so that map order shows.
// For each module x and y = print(parse(x)): eight fresh parses of y each print y byte for byte; two more parses of x
// print y again, with the three sections in the natural order the generator computed itself (c20RefCmp: digit
// runs as big integers, fewer leading zeros first, other bytes bytewise).  Then the module goes through the
// ordinary fixpoint oracle (structural identity of the two parsed modules).

import (
	"strconv"
)

func c02Order(c *config) {
	r := newRng(c.seed, "c02order")
	n := 32 * c.scale
	if n > 320 {
		n = 320
	}
	for i := 0; i < n; i++ {
		names := ordFamily(r, i)
		c02OrderOne(c, names, ordModuleText(r, names), i < 1)
	}
}

func c02OrderOne(c *config, names []string, src string, sample bool) {
	o := c.out
	o.Stat("order_family_modules")
	det := map[string]interface{}{"name": "order-family", "src": src, "names": ordHex(names)}
	m, oc, msg := parseGuard(src)
	if oc != ocOk {
		det["msg"] = msg
		o.Fail("fixpoint", "", "a module whose names need escaping is rejected: "+oc.String(), det)
		return
	}
	y, oc, msg := printGuard(m)
	if oc != ocOk {
		det["msg"] = msg
		o.Fail("fixpoint", "", "printing an accepted module crashes", det)
		return
	}
	det["printed"] = y
	for run := 0; run < 8; run++ {
		m, oc, msg := parseGuard(y)
		if oc != ocOk {
			det["msg"] = msg
			o.Fail("fixpoint", "", "the printed text is not accepted by the parser: "+oc.String(), det)
			return
		}
		y2, oc, msg := printGuard(m)
		if oc != ocOk || y2 != y {
			det["second"] = y2
			det["run"] = run
			det["msg"] = msg
			o.Fail("fixpoint", "", "parsing the printed text and printing again does not reproduce it byte for byte (one of 8 fresh parses of the same text)", det)
			return
		}
	}
	o.Pass("fixpoint_8_fresh_parses")
	// the canonical form is the one the statement of C20 fixes: the generator's own natural order, on two more parses of x
	if ordModuleCheck(c, "fixpoint", names, src, 2, false) == "" {
		return
	}
	c02One(c, rtInput{name: "order-family", src: src, kind: "definitions"}, sample)
}

// replay of a failure of this file: the names are in the detail
func c02OrderReplay(c *config, d map[string]interface{}) bool {
	raw, ok := d["names"].([]interface{})
	src, _ := d["src"].(string)
	if !ok || src == "" {
		return false
	}
	var names []string
	for _, x := range raw {
		s, _ := x.(string)
		n, err := strconv.Unquote(s)
		if err != nil {
			return false
		}
		names = append(names, n)
	}
	c02OrderOne(c, names, src, true)
	return true
}
