package main

// C14: observing the IR never changes it.

import (
	"fmt"
	"strings"
	"time"

	"github.com/llir/llvm/ir"
	"github.com/llir/llvm/ir/constant"
	"github.com/llir/llvm/ir/types"
	"github.com/llir/llvm/ir/value"
)

func init() { props["C14"] = runC14 }

// history operations on one function with nparams parameters and one block:
// walk order = parameters, the block, its instructions, its terminator
type c14Op struct {
	kind  byte // I insert instruction, R remove instruction, N rename, P print, Q query
	pos   int  // instruction index (I, R) or walk position (N)
	named bool // I: the inserted instruction is named; N: new name or unnamed
	ikind byte // I: 'I' value instruction, 'C' void call, 'S' store
}

type c14State struct {
	m      *ir.Module
	f      *ir.Func
	b      *ir.Block
	voidF  *ir.Func
	serial int
}

func c14New(nparams int, namedParams []bool, blockNamed bool) *c14State {
	m := ir.NewModule()
	voidF := m.NewFunc("vf", types.Void)
	var ps []*ir.Param
	for i := 0; i < nparams; i++ {
		n := ""
		if namedParams[i] {
			n = fmt.Sprintf("p%d", i)
		}
		ps = append(ps, ir.NewParam(n, types.I32))
	}
	f := m.NewFunc("f", types.Void, ps...)
	bn := ""
	if blockNamed {
		bn = "entry"
	}
	b := f.NewBlock(bn)
	b.NewRet(nil)
	return &c14State{m: m, f: f, b: b, voidF: voidF}
}

func (s *c14State) newInst(kind byte, named bool) ir.Instruction {
	s.serial++
	switch kind {
	case 'C':
		return ir.NewCall(s.voidF)
	case 'S':
		return ir.NewStore(constant.NewInt(types.I32, 1), constant.NewNull(types.NewPointer(types.I32)))
	}
	in := ir.NewAdd(constant.NewInt(types.I32, int64(s.serial)), constant.NewInt(types.I32, 2))
	if named {
		in.SetName(fmt.Sprintf("v%d", s.serial))
	}
	return in
}

func (s *c14State) apply(op c14Op, observers bool) {
	switch op.kind {
	case 'I':
		in := s.newInst(op.ikind, op.named)
		p := op.pos
		if p > len(s.b.Insts) {
			p = len(s.b.Insts)
		}
		s.b.Insts = append(s.b.Insts, nil)
		copy(s.b.Insts[p+1:], s.b.Insts[p:])
		s.b.Insts[p] = in
	case 'R':
		if op.pos < len(s.b.Insts) {
			s.b.Insts = append(s.b.Insts[:op.pos], s.b.Insts[op.pos+1:]...)
		}
	case 'N':
		// walk position: parameters, block, instructions
		np := len(s.f.Params)
		var n interface{ SetName(string) }
		switch {
		case op.pos < np:
			n = s.f.Params[op.pos]
		case op.pos == np:
			n = s.b
		case op.pos-np-1 < len(s.b.Insts):
			if x, ok := s.b.Insts[op.pos-np-1].(interface{ SetName(string) }); ok {
				if _, isCall := s.b.Insts[op.pos-np-1].(*ir.InstCall); !isCall {
					n = x
				}
			}
		}
		if n != nil {
			s.serial++
			name := ""
			if op.named {
				name = fmt.Sprintf("r%d", s.serial)
			}
			n.SetName(name)
		}
	case 'P':
		if observers {
			_ = s.m.String()
		}
	case 'Q':
		if observers {
			for _, in := range s.b.Insts {
				if v, ok := in.(value.Value); ok {
					_ = v.Type()
					_ = v.Ident()
				}
				_ = in.Operands()
			}
			_ = s.b.Term.Succs()
			_ = s.f.Type()
			_ = s.b.Ident()
			for _, p := range s.f.Params {
				_ = p.Ident()
				_ = p.Type()
			}
		}
	}
}

// renders the walk for the model: named:id:value:obj per entry
func (s *c14State) items() string {
	var out []string
	add := func(named bool, id int64, val bool) {
		out = append(out, fmt.Sprintf("%s:%d:%s:1", b2s(named), id, b2s(val)))
	}
	for _, p := range s.f.Params {
		add(!p.IsUnnamed(), p.LocalID, true)
	}
	add(!s.b.IsUnnamed(), s.b.LocalID, true)
	for _, in := range s.b.Insts {
		switch x := in.(type) {
		case *ir.InstAdd:
			add(!x.IsUnnamed(), x.LocalID, true)
		case *ir.InstCall:
			add(false, x.LocalID, false)
		default:
			out = append(out, "0:0:0:0")
		}
	}
	out = append(out, "0:0:0:0") // ret
	return strings.Join(out, ",")
}

func c14GenHistory(r *rng, n int) []c14Op {
	var h []c14Op
	ninst := 0
	for i := 0; i < n; i++ {
		switch r.intn(10) {
		case 0, 1, 2, 3:
			p := ninst
			if r.chance(35) && ninst > 0 {
				p = r.intn(ninst + 1)
			}
			h = append(h, c14Op{kind: 'I', pos: p, named: r.chance(35), ikind: "IIICS"[r.intn(5)]})
			ninst++
		case 4:
			if ninst > 0 {
				h = append(h, c14Op{kind: 'R', pos: r.intn(ninst)})
				ninst--
			}
		case 5:
			h = append(h, c14Op{kind: 'N', pos: r.intn(ninst + 3), named: r.coin()})
		case 6, 7:
			h = append(h, c14Op{kind: 'P'})
		default:
			h = append(h, c14Op{kind: 'Q'})
		}
	}
	return h
}

func c14Enc(h []c14Op, nparams int) string {
	var s []string
	var kinds []byte // instruction kinds in block order, to know which renames are effective
	for _, o := range h {
		switch o.kind {
		case 'I':
			val := o.ikind == 'I'
			obj := o.ikind != 'S'
			named := o.named && o.ikind == 'I'
			p := o.pos
			if p > len(kinds) {
				p = len(kinds)
			}
			kinds = append(kinds, 0)
			copy(kinds[p+1:], kinds[p:])
			kinds[p] = o.ikind
			s = append(s, fmt.Sprintf("I:%d:%s:%s:%s", nparams+1+p, b2s(named), b2s(val), b2s(obj)))
		case 'R':
			if o.pos < len(kinds) {
				kinds = append(kinds[:o.pos], kinds[o.pos+1:]...)
				s = append(s, fmt.Sprintf("R:%d", nparams+1+o.pos))
			}
		case 'N':
			eff := o.pos <= nparams || (o.pos-nparams-1 < len(kinds) && kinds[o.pos-nparams-1] == 'I')
			if eff {
				s = append(s, fmt.Sprintf("N:%d:%s", o.pos, b2s(o.named)))
			}
		case 'P':
			s = append(s, "P")
		case 'Q':
			s = append(s, "Q")
		}
	}
	return strings.Join(s, ",")
}

// c14Predict is the Go twin of Model/History.v (the class predicate of KF-15 must say exactly when the
// known panic occurs): it runs the history on (named, id, value) triples with the semantics of
// AssignIDs and SetName and reports whether a print panics.
type c14Item struct {
	named, value bool
	id           int64
}

func c14Predict(np int, namedParams []bool, blockNamed bool, h []c14Op) (panics bool) {
	var l []c14Item
	for i := 0; i < np; i++ {
		l = append(l, c14Item{named: namedParams[i], value: true})
	}
	l = append(l, c14Item{named: blockNamed, value: true})
	first := np + 1 // index of the first instruction
	ninst := 0
	assign := func() bool {
		id := int64(0)
		for i := range l {
			if l[i].value && !l[i].named {
				if l[i].id != 0 && l[i].id != id {
					return false
				}
				l[i].id = id
				id++
			}
		}
		return true
	}
	for _, o := range h {
		switch o.kind {
		case 'I':
			p := o.pos
			if p > ninst {
				p = ninst
			}
			it := c14Item{named: o.named && o.ikind == 'I', value: o.ikind == 'I'}
			l = append(l, c14Item{})
			copy(l[first+p+1:], l[first+p:])
			l[first+p] = it
			ninst++
		case 'R':
			if o.pos < ninst {
				l = append(l[:first+o.pos], l[first+o.pos+1:]...)
				ninst--
			}
		case 'N':
			if o.pos <= np || (o.pos-np-1 < ninst && l[o.pos].value) {
				if o.pos < len(l) {
					l[o.pos].named = o.named
					l[o.pos].id = 0
				}
			}
		case 'P':
			if !assign() {
				return true
			}
		}
	}
	return !assign()
}

// class predicate of KF-15: after a print, an unnamed value instruction is inserted before (or a
// numbered one removed / an entry renamed before) an already numbered unnamed value
func c14Class(h []c14Op) string {
	printed := false
	for _, o := range h {
		if o.kind == 'P' {
			printed = true
		}
		if printed && (o.kind == 'I' || o.kind == 'R' || o.kind == 'N') {
			return "edit_shifts_numbering_after_print"
		}
	}
	return ""
}

var c14Hangs int

func runC14(c *config) {
	o := c.out
	r := newRng(c.seed, "c14")
	if c.replay != "" {
		rp := readReplay(c.replay)
		if wh, ok := rp.Detail["wide_history"].(string); ok {
			h := c14wDec(wh)
			with, _ := c14wRun(h, true)
			without, _ := c14wRun(h, false)
			fmt.Printf("history: %s\n--- with the observer calls:\n%s\n--- without:\n%s\n", wh, with, without)
			if with != without {
				o.Fail("observers_noop", "", "final module differs with and without the observer calls (module-wide history)", map[string]interface{}{"wide_history": wh})
			}
			return
		}
		if sh, ok := rp.Detail["share_history"].(string); ok {
			if rc, ok := c14sDec(sh); ok {
				with, _, _, _, dd := c14sRun(rc, true)
				without, _, _, _, _ := c14sRun(rc, false)
				fmt.Printf("history (shared type objects): %s\n--- with the observer calls:\n%s\n--- without:\n%s\n--- dump difference: %s\n", sh, with, without, dd)
				c14sCheck(c, rc)
				return
			}
		}
		if c14lReplay(o, rp) {
			return
		}
		if gh, ok := rp.Detail["glob_history"].(string); ok {
			h := c14gDec(gh)
			with, _, dd, _ := c14gRun(h, true)
			without, _, _, _ := c14gRun(h, false)
			fmt.Printf("history (unnamed module-level entities): %s\n--- with the observer calls:\n%s\n--- without:\n%s\n--- dump difference: %s\n", gh, with, without, dd)
			c14gCheck(o, h)
			return
		}
		fmt.Println("replay: re-run ./check C14 with the same VERIF_SEED (histories are deterministic for a seed)")
		return
	}
	c14Wide(c, newRng(c.seed, "c14wide"))
	c14Share(c, newRng(c.seed, "c14share"))
	c14Glob(c, newRng(c.seed, "c14glob"))
	c14Loc(c, newRng(c.seed, "c14loc")) // c14loc.go: unnamed locals, sub-entity observers only
	c14Consts(c, newRng(c.seed, "c14const"))
	c14Metadata(c, newRng(c.seed, "c14md"))
	for i := 0; i < 3000*c.scale; i++ {
		np := r.intn(3)
		named := []bool{r.coin(), r.coin(), r.coin()}
		bn := r.coin()
		h := c14GenHistory(r, 2+r.intn(38))
		// run with the observers and without them; final print
		final := func(observers bool) (string, *c14State) {
			s := c14New(np, named, bn)
			var text string
			oc, _ := guard(func() error {
				for _, op := range h {
					s.apply(op, observers)
				}
				text = s.f.LLString()
				if printedPanic(text) {
					panic(text)
				}
				return nil
			})
			if oc != ocOk {
				// a caller may recover from the panic of a print and go on: the function must stay usable (the
				// next print panics again or succeeds; it does not hang)
				if c14Hangs >= 3 {
					return "Panic", s // reported already: no more three-second waits
				}
				done := make(chan struct{})
				go func() {
					defer close(done)
					guard(func() error { _ = s.f.LLString(); return nil })
				}()
				select {
				case <-done:
				case <-time.After(3 * time.Second):
					c14Hangs++
					return "Hang", s
				}
				return "Panic", s
			}
			return text, s
		}
		s0 := c14New(np, named, bn)
		init := s0.items()
		with, sw := final(true)
		without, _ := final(false)
		o.Stat("histories")
		o.StatN("ops", len(h))
		o.Nontrivial(init + "|" + c14Enc(h, np))
		res := "Panic"
		if with != "Panic" {
			// the IDs the final print shows
			res = "Ok " + c14IDs(sw)
		}
		o.Case("history", []string{init, c14Enc(h, np)}, []string{res})
		if i < 2 {
			o.Sample(map[string]interface{}{"initial": init, "history": c14Enc(h, np), "final_with_observers": with})
		}
		if with == "Hang" || without == "Hang" {
			o.Fail("observers_noop", "", "after a print that panicked (and was recovered) the next print of the function never returns", map[string]interface{}{"initial": init, "history": c14Enc(h, np)})
			continue
		}
		if with != without {
			cls := ""
			if with == "Panic" && without != "Panic" && c14Predict(np, named, bn, h) {
				cls = c14Class(h) // the recorded kind of failure: the later print panics, exactly where the ID check predicts it
			}
			o.Fail("observers_noop", cls, "final text differs with and without the observer calls", map[string]interface{}{"initial": init, "history": c14Enc(h, np), "with": with, "without": without})
		} else {
			o.Pass("observers_noop")
		}
		// printing twice in a row
		if with != "Panic" {
			t2 := sw.f.LLString()
			if t2 != with {
				o.Fail("print_twice", "", "second print differs", map[string]interface{}{"history": c14Enc(h, np)})
			} else {
				o.Pass("print_twice")
			}
		}
	}
}

func c14IDs(s *c14State) string {
	var out []string
	for _, p := range s.f.Params {
		if p.IsUnnamed() {
			out = append(out, fmt.Sprint(p.LocalID))
		} else {
			out = append(out, "-")
		}
	}
	if s.b.IsUnnamed() {
		out = append(out, fmt.Sprint(s.b.LocalID))
	} else {
		out = append(out, "-")
	}
	for _, in := range s.b.Insts {
		switch x := in.(type) {
		case *ir.InstAdd:
			if x.IsUnnamed() {
				out = append(out, fmt.Sprint(x.LocalID))
			} else {
				out = append(out, "-")
			}
		case *ir.InstCall:
			out = append(out, fmt.Sprint(x.LocalID))
		default:
			out = append(out, "-")
		}
	}
	out = append(out, "-")
	return strings.Join(out, ",")
}
