package main

// C13: a module can be printed from many goroutines at once.
//
// The parent process (bin/harness) starts bin/harness-race (the same program built with -race) with
// -child; the child prints modules concurrently; the race detector writes its reports to files
// (GORACE=log_path), which the parent turns into oracle failures.

import (
	"fmt"
	"os"
	"os/exec"
	"path/filepath"
	"strings"
	"sync"

	"github.com/llir/llvm/ir"
	"github.com/llir/llvm/ir/constant"
	"github.com/llir/llvm/ir/enum"
	"github.com/llir/llvm/ir/metadata"
	"github.com/llir/llvm/ir/types"
	"github.com/llir/llvm/ir/value"
)

func init() { props["C13"] = runC13 }

func c13Modules(c *config) []func() *ir.Module {
	var ms []func() *ir.Module
	files, _ := filepath.Glob("/verif/corpus/modules/*.ll")
	for _, f := range files {
		b, _ := os.ReadFile(f)
		src := string(b)
		ms = append(ms, func() *ir.Module {
			m, oc, _ := parseGuard(src)
			if oc != ocOk {
				return nil
			}
			return m
		})
	}
	n := 12 * c.scale
	for i := 0; i < n; i++ {
		i := i
		ms = append(ms, func() *ir.Module {
			src, _, _ := genModule(c.seed, fmt.Sprintf("c13-%d", i), -1, -1)
			m, oc, _ := parseGuard(src)
			if oc != ocOk {
				return nil
			}
			return m
		})
	}
	// constructed, never printed: many metadata definitions listed out of the order of their IDs (explicit IDs
	// descending, unnumbered ones in between), referred to from a global
	ms = append(ms, func() *ir.Module {
		m := ir.NewModule()
		var first metadata.Definition
		for k := 0; k < 400; k++ {
			id := int64(1000 - k)
			if k%5 == 0 {
				id = -1
			}
			d := &metadata.Tuple{MetadataID: metadata.MetadataID(id), Fields: []metadata.Field{&metadata.String{Value: fmt.Sprintf("t%d", k)}}}
			m.MetadataDefs = append(m.MetadataDefs, d)
			if first == nil {
				first = d
			}
		}
		g := m.NewGlobalDef("g", constant.NewInt(types.I32, 1))
		g.Metadata = append(g.Metadata, &metadata.Attachment{Name: "dbg", Node: first.(metadata.MDNode)})
		return m
	})
	// constructed, never printed: unnamed globals, locals, blocks, metadata
	ms = append(ms, func() *ir.Module {
		m := ir.NewModule()
		g := m.NewGlobalDef("", constant.NewInt(types.I32, 1))
		m.NewGlobalDef("", constant.NewInt(types.I32, 2))
		f := m.NewFunc("", types.I32, ir.NewParam("", types.I32))
		b := f.NewBlock("")
		x := b.NewAdd(f.Params[0], f.Params[0])
		l := b.NewLoad(types.I32, g)
		b2 := f.NewBlock("")
		b.NewBr(b2)
		y := b2.NewMul(x, l)
		b2.NewRet(y)
		md := &metadata.Tuple{MetadataID: -1}
		m.MetadataDefs = append(m.MetadataDefs, md, &metadata.Tuple{MetadataID: -1, Fields: []metadata.Field{md}})
		g.Metadata = append(g.Metadata, &metadata.Attachment{Name: "dbg", Node: md})
		return m
	})
	// constructed, never printed, wide: thousands of unnamed globals, locals and metadata definitions, so that the
	// read and the write phases of the three ID passes of different printers overlap for a long time
	ms = append(ms, func() *ir.Module {
		m := ir.NewModule()
		for i := 0; i < 1500; i++ {
			m.NewGlobalDef("", constant.NewInt(types.I32, int64(i)))
		}
		f := m.NewFunc("", types.I32, ir.NewParam("", types.I32))
		b := f.NewBlock("")
		var v value.Value = f.Params[0]
		for i := 0; i < 1500; i++ {
			v = b.NewAdd(v, constant.NewInt(types.I32, int64(i)))
		}
		b.NewRet(v)
		var prev metadata.Field = &metadata.String{Value: "leaf"}
		for i := 0; i < 3000; i++ {
			md := &metadata.Tuple{MetadataID: -1, Fields: []metadata.Field{prev}}
			m.MetadataDefs = append(m.MetadataDefs, md)
			if i%3 == 0 {
				prev = md
			}
		}
		return m
	})
	// constructed, never printed: fields assigned after the constructors (address spaces, alignment,
	// linkage) and after the uses were built, the entities being typed operands of instructions and constants
	for variant := 0; variant < 3; variant++ {
		variant := variant
		ms = append(ms, func() *ir.Module {
			m := ir.NewModule()
			g := m.NewGlobal("g", types.I32)
			h := m.NewGlobalDef("h", constant.NewInt(types.I32, 7))
			k := m.NewGlobal("k", types.I32)
			callee := m.NewFunc("callee", types.Void)
			f := m.NewFunc("f", types.I32)
			b := f.NewBlock("")
			if variant == 1 { // the address spaces are set before the uses are built
				g.AddrSpace, h.AddrSpace, k.AddrSpace, callee.AddrSpace = 1, 2, 4, 3
			}
			x := b.NewLoad(types.I32, g)
			y := b.NewLoad(types.I32, h)
			b.NewLoad(types.I32, k)
			if variant != 2 {
				b.NewStore(x, h)
				m.NewGlobalDef("p", g)
				m.NewGlobalDef("q", h)
			}
			b.NewCall(callee)
			z := b.NewAdd(x, y)
			b.NewRet(z)
			if variant != 1 { // ... or afterwards
				g.AddrSpace, h.AddrSpace, k.AddrSpace, callee.AddrSpace = 1, 2, 4, 3
			}
			g.Linkage, k.Linkage = enum.LinkageExternal, enum.LinkageExternal
			h.Align = ir.Align(8)
			return m
		})
	}
	return ms
}

func runC13(c *config) {
	if os.Getenv("VERIF_C13_CHILD") == "1" {
		c13Child(c)
		return
	}
	o := c.out
	self, _ := os.Executable()
	child := self + "-race"
	dir := filepath.Dir(c.outPath)
	logBase := filepath.Join(dir, "race")
	old, _ := filepath.Glob(logBase + ".*")
	for _, f := range old {
		os.Remove(f)
	}
	childOut := filepath.Join(dir, "child.tsv")
	cmd := exec.Command(child, "C13", "-seed", fmt.Sprint(c.seed), "-tier", c.tier, "-out", childOut)
	cmd.Env = append(os.Environ(), "VERIF_C13_CHILD=1", "GORACE=log_path="+logBase+" halt_on_error=0 history_size=2")
	outb, err := cmd.CombinedOutput()
	if err != nil {
		if ee, ok := err.(*exec.ExitError); !ok || ee.ExitCode() != 66 {
			o.Fail("concurrent_printing", "", "the race-enabled child did not run", map[string]string{"err": err.Error(), "out": string(outb)})
			return
		}
	}
	// the child's own findings (text differences) and statistics
	if b, err := os.ReadFile(childOut); err == nil {
		for _, line := range strings.Split(string(b), "\n") {
			t := strings.Split(line, "\t")
			switch t[0] {
			case "O", "X":
				fmt.Fprintln(o.w, line)
				if t[0] == "O" {
					o.failures++
				}
			case "P":
				var n int
				fmt.Sscan(t[2], &n)
				o.pass[t[1]] += n
			case "S":
				var n int
				fmt.Sscan(t[2], &n)
				o.stats[t[1]] += n
			case "N":
				var n int
				fmt.Sscan(t[1], &n)
				for i := 0; i < n; i++ {
					o.Nontrivial(fmt.Sprintf("child-%d", i))
				}
			}
		}
	}
	// race reports
	logs, _ := filepath.Glob(logBase + ".*")
	reports := 0
	for _, f := range logs {
		b, _ := os.ReadFile(f)
		for _, rep := range strings.Split(string(b), "==================") {
			if !strings.Contains(rep, "DATA RACE") {
				continue
			}
			reports++
			cls := ""
			// split the report into its two accesses
			var readSec, writeSec string
			for _, sec := range strings.Split(rep, "\n\n") {
				h := strings.TrimSpace(strings.Replace(sec, "WARNING: DATA RACE", "", 1))
				if strings.HasPrefix(h, "Read at") || strings.HasPrefix(h, "Previous read at") {
					readSec = h
				}
				if strings.HasPrefix(h, "Write at") || strings.HasPrefix(h, "Previous write at") {
					writeSec = h
				}
			}
			if strings.Contains(writeSec, "AssignGlobalIDs") && strings.Contains(writeSec, ").SetID(") &&
				strings.Contains(readSec, "(*Func).LLString") && !strings.Contains(readSec, "(*Module).WriteTo") {
				// a function printed on its own (not through the module) while the module is printed for the first time
				cls = "func_print_vs_first_module_print"
			}
			if strings.Contains(writeSec, "(*Func).AssignIDs") && strings.Contains(writeSec, ").SetID(") &&
				strings.Contains(readSec, "(*Block).LLString") && !strings.Contains(readSec, "(*Func).LLString") {
				// a block printed on its own (not through its function) while the function is printed for the first time
				cls = "block_print_vs_first_func_print"
			}
			if reports <= 40 {
				var frames []string
				for _, l := range strings.Split(rep, "\n") {
					l = strings.TrimSpace(l)
					if strings.HasPrefix(l, "github.com/llir/llvm/") || strings.HasPrefix(l, "Write at") || strings.HasPrefix(l, "Previous read at") || strings.HasPrefix(l, "Read at") || strings.HasPrefix(l, "Previous write at") {
						frames = append(frames, l)
					}
				}
				if len(frames) > 10 {
					frames = frames[:10]
				}
				o.Fail("race_free", cls, "data race reported by the race detector", map[string]interface{}{"frames": frames})
			}
		}
	}
	o.StatN("race_reports", reports)
	if reports == 0 {
		o.Pass("race_free")
	}
}

var c13Serial int

func c13Child(c *config) {
	o := c.out
	rounds := 6
	if c.tier == "thorough" {
		rounds = 50
	}
	const G = 8
	seqPanics := 0 // (reported once; modules whose lone print panics are printed concurrently all the same)
	// (the literal-built modules of c13lit.go take part here only: in the fine-grained section below nothing takes
	// a lock before the first type query, which is not how printing performs that query)
	for mi, mk := range append(c13Modules(c), c13LiteralModules(c)...) {
		for _, state := range []string{"never_printed", "already_printed"} {
			m := mk()
			if m == nil {
				continue
			}
			ref := mk()
			var want string // the text a lone sequential call returns (on an identical, separate module)
			if oc, msg := guard(func() error { want = ref.String(); return nil }); oc != ocOk {
				// (the concurrent calls are then expected to end the same way)
				want = "PANIC"
				if seqPanics++; seqPanics == 1 {
					o.Fail("concurrent_printing", "", "the lone sequential print of the module panics", map[string]interface{}{"module": mi, "state": state, "panic": msg})
				}
			}
			if state == "already_printed" {
				guard(func() error { _ = m.String(); return nil })
			}
			o.Stat("modules." + state)
			o.Nontrivial(fmt.Sprintf("%d-%s", mi, state))
			bad := ""
			var mu sync.Mutex
			for r := 0; r < rounds; r++ {
				var wg sync.WaitGroup
				start := make(chan struct{})
				for g := 0; g < G; g++ {
					wg.Add(1)
					go func(g int) {
						defer wg.Done()
						<-start
						var got string
						oc, msg := guard(func() error {
							switch g % 4 {
							case 0, 1:
								got = m.String()
							case 2:
								var sb strings.Builder
								m.WriteTo(&sb)
								got = sb.String()
							default:
								// function and block printing, identifier and type queries
								for _, f := range m.Funcs {
									_ = f.LLString()
									for _, b := range f.Blocks {
										_ = b.LLString()
										_ = b.Ident()
									}
									_ = f.Type()
								}
								got = m.String()
							}
							return nil
						})
						mu.Lock()
						defer mu.Unlock()
						if oc != ocOk && want == "PANIC" {
							got = "PANIC"
						}
						if oc != ocOk && want != "PANIC" && bad == "" {
							bad = "a concurrent print panics: " + msg
						} else if got != want && bad == "" {
							bad = "a concurrent print returns a different text"
						}
					}(g)
				}
				close(start)
				wg.Wait()
			}
			if bad != "" {
				o.Fail("concurrent_printing", "", bad, map[string]interface{}{"module": mi, "state": state})
			} else {
				o.Pass("concurrent_printing")
			}
		}
	}
	// block, instruction and value level only, on a module nothing has printed or queried yet: no function or
	// module level call assigns IDs or fills a cache first, so whatever these observers write, they write here
	for mi, mk := range c13Modules(c) {
		m := mk()
		if m == nil {
			continue
		}
		o.Stat("modules.fine_grained_only")
		bad := ""
		var mu sync.Mutex
		var wg sync.WaitGroup
		start := make(chan struct{})
		for g := 0; g < G; g++ {
			wg.Add(1)
			go func(g int) {
				defer wg.Done()
				<-start
				oc, msg := guard(func() error {
					for _, gl := range m.Globals {
						_ = gl.Type()
						_ = gl.Ident()
					}
					for _, f := range m.Funcs {
						_ = f.Type()
						for _, p := range f.Params {
							_ = p.Type()
							_ = p.LLString()
						}
						for _, b := range f.Blocks {
							if g%2 == 0 {
								_ = b.LLString()
							}
							for _, in := range b.Insts {
								if v, ok := in.(value.Value); ok {
									_ = v.Type()
									_ = v.String()
								}
								_ = in.LLString()
							}
							if b.Term != nil {
								// (not Succs: it is no query that printing performs, and its cache is KF-17's matter)
								_ = b.Term.LLString()
								if v, ok := b.Term.(value.Value); ok {
									_ = v.Type()
									_ = v.String()
								}
							}
							_ = b.LLString()
						}
					}
					return nil
				})
				mu.Lock()
				defer mu.Unlock()
				if oc != ocOk && bad == "" {
					bad = "a concurrent block-level print panics: " + msg
				}
			}(g)
		}
		close(start)
		wg.Wait()
		if bad != "" {
			o.Fail("concurrent_printing", "", bad, map[string]interface{}{"module": mi, "state": "fine_grained_only"})
		} else {
			o.Pass("concurrent_printing")
		}
	}
	// names that need quoting and that nothing in this process has printed before (whatever the identifier helpers
	// keep between calls, they keep it here for the first time): globals, functions, parameters, blocks, comdats, types
	for round := 0; round < 3; round++ {
		c13Serial++
		m := ir.NewModule()
		for k := 0; k < 120; k++ {
			nm := fmt.Sprintf("q %d.%d \u00e9?", c13Serial, k)
			g := m.NewGlobalDef("g "+nm, constant.NewInt(types.I32, int64(k)))
			g.Comdat = &ir.ComdatDef{Name: "c " + nm}
			m.ComdatDefs = append(m.ComdatDefs, g.Comdat)
			m.NewTypeDef("t "+nm, types.NewStruct(types.I32))
			f := m.NewFunc("f "+nm, types.Void, ir.NewParam("p "+nm, types.I32))
			f.NewBlock("b " + nm).NewRet(nil)
		}
		o.Stat("modules.fresh_quoted_names")
		texts := make([]string, G)
		bad := ""
		var wg sync.WaitGroup
		start := make(chan struct{})
		for g := 0; g < G; g++ {
			wg.Add(1)
			go func(g int) {
				defer wg.Done()
				<-start
				oc, msg := guard(func() error { texts[g] = m.String(); return nil })
				if oc != ocOk {
					texts[g] = "PANIC " + msg
				}
			}(g)
		}
		close(start)
		wg.Wait()
		want := m.String()
		for g := 0; g < G; g++ {
			if texts[g] != want {
				bad = "a concurrent print of names that need quoting differs from the sequential text"
			}
		}
		if bad != "" {
			o.Fail("concurrent_printing", "", bad, map[string]interface{}{"state": "fresh_quoted_names"})
		} else {
			o.Pass("concurrent_printing")
		}
	}
	// witness scenario of KF-34: a function printed on its own while its never-printed module is printed
	for i := 0; i < 60; i++ {
		m := ir.NewModule()
		m.NewGlobalDef("", constant.NewInt(types.I32, 1))
		f := m.NewFunc("", types.Void)
		f.NewBlock("").NewRet(nil)
		var wg sync.WaitGroup
		start := make(chan struct{})
		wg.Add(2)
		go func() { defer wg.Done(); <-start; _ = f.LLString() }()
		go func() { defer wg.Done(); <-start; _ = m.String() }()
		close(start)
		wg.Wait()
	}
	o.Stat("kf34_scenarios")
	// witness scenario of KF-47: a block printed on its own while its never-printed function is printed
	for i := 0; i < 60; i++ {
		m := ir.NewModule()
		f := m.NewFunc("f", types.I32, ir.NewParam("", types.I32))
		b := f.NewBlock("")
		x := b.NewAdd(f.Params[0], constant.NewInt(types.I32, 1))
		b2 := f.NewBlock("")
		b.NewBr(b2)
		b2.NewRet(x)
		var wg sync.WaitGroup
		start := make(chan struct{})
		wg.Add(2)
		go func() { defer wg.Done(); <-start; _ = b.LLString(); _ = b2.LLString() }()
		go func() { defer wg.Done(); <-start; _ = m.String() }()
		close(start)
		wg.Wait()
	}
	o.Stat("kf47_scenarios")
	c13LitSequential(o)
	o.Sample(map[string]interface{}{"goroutines": G, "rounds": rounds})
}
