package main

// C03, execution semantics: random programs are built through the constructor API together with a reference
// evaluation of what the construction calls imply; the printed module is run by LLVM's lli and must return the
// number of results that differ from the reference: zero.

import (
	"fmt"
	"os"
	"os/exec"
	"path/filepath"
	"strings"

	"github.com/llir/llvm/ir"
	"github.com/llir/llvm/ir/constant"
	"github.com/llir/llvm/ir/enum"
	"github.com/llir/llvm/ir/types"
	"github.com/llir/llvm/ir/value"
)

type xval struct {
	v value.Value
	w uint   // bit width: 1, 8, 16, 32, 64
	x uint64 // the value the construction implies, masked to w bits
}

func xmask(w uint) uint64 {
	if w >= 64 {
		return ^uint64(0)
	}
	return (uint64(1) << w) - 1
}

func xsigned(w uint, x uint64) int64 {
	if w < 64 && x&(uint64(1)<<(w-1)) != 0 {
		return int64(x | ^xmask(w))
	}
	return int64(x)
}

var xwidths = []uint{1, 8, 16, 32, 64}

type xgen struct {
	r    *rng
	m    *ir.Module
	b    *ir.Block
	pool []xval
	n    int
	desc []string
	now  string // the construction under way (named in the report when a constructor rejects it)
}

func (g *xgen) name() string {
	g.n++
	if g.r.chance(40) {
		return "" // unnamed: numbered by the printer
	}
	return fmt.Sprintf("v%d", g.n)
}

func (g *xgen) konst(w uint) xval {
	var x uint64
	switch g.r.intn(6) {
	case 0:
		x = 0
	case 1:
		x = 1
	case 2:
		x = xmask(w)
	case 3:
		x = uint64(1) << (w - 1)
	default:
		x = g.r.next()
	}
	x &= xmask(w)
	t := types.NewInt(uint64(w))
	var c *constant.Int
	if w == 1 {
		c = constant.NewInt(t, int64(x))
	} else if g.r.coin() {
		c = constant.NewInt(t, xsigned(w, x)) // the signed reading of the same bits
	} else {
		c = constant.NewInt(t, 0)
		c.X.SetUint64(x)
	}
	return xval{c, w, x}
}

func (g *xgen) pick(w uint) xval {
	var cands []xval
	for _, p := range g.pool {
		if p.w == w {
			cands = append(cands, p)
		}
	}
	if len(cands) == 0 || g.r.chance(25) {
		return g.konst(w)
	}
	return cands[g.r.intn(len(cands))]
}

func (g *xgen) add(v value.Value, w uint, x uint64, what string) xval {
	if n, ok := v.(value.Named); ok {
		n.SetName(g.name())
	}
	r := xval{v, w, x & xmask(w)}
	g.pool = append(g.pool, r)
	g.desc = append(g.desc, what)
	return r
}

// one random instruction appended to the block, with the value it must compute
func (g *xgen) step() {
	b := g.b
	w := xwidths[1+g.r.intn(4)]
	a, c := g.pick(w), g.pick(w)
	m := xmask(w)
	switch g.r.intn(24) {
	case 22, 23:
		// through memory in a non-default address space: a global variable whose AddrSpace is assigned after its
		// constructor (the only way the API offers), an address computed from it, stores and loads through both,
		// an atomic read-modify-write and a compare-and-exchange on the same cell
		if w < 8 {
			w = 8
		}
		a, c = g.pick(w), g.pick(w)
		m = xmask(w)
		as := []types.AddrSpace{1, 2, 5, 100}[g.r.intn(4)]
		t := types.NewInt(uint64(w))
		g.now = fmt.Sprintf("global [3 x i%d] in addrspace(%d); getelementptr, store, load, atomicrmw add, cmpxchg through it", w, as)
		arr := types.NewArray(3, t)
		glob := g.m.NewGlobalDef(fmt.Sprintf("as%d", g.n), constant.NewZeroInitializer(arr))
		g.n++
		glob.AddrSpace = as
		i, j := g.r.intn(3), g.r.intn(3)
		zero := constant.NewInt(types.I32, 0)
		p1 := b.NewGetElementPtr(arr, glob, zero, constant.NewInt(types.I32, int64(i)))
		p1.SetName(g.name())
		var p2 value.Value = constant.NewGetElementPtr(arr, glob, zero, constant.NewInt(types.I64, int64(j)))
		if g.r.coin() {
			p2i := b.NewGetElementPtr(arr, glob, zero, constant.NewInt(types.I64, int64(j)))
			p2i.SetName(g.name())
			p2 = p2i
		}
		b.NewStore(a.v, p1)
		b.NewStore(c.v, p2)
		x := a.x
		if i == j {
			x = c.x
		}
		ld := g.add(b.NewLoad(t, p1), w, x, "addrspace global/gep/store/load")
		// old := atomicrmw add p1, c ; the cell now holds x + c
		old := g.add(b.NewAtomicRMW(enum.AtomicOpAdd, p1, c.v, enum.AtomicOrderingSequentiallyConsistent), w, ld.x, "addrspace atomicrmw (old value)")
		sum := (old.x + c.x) & m
		// cmpxchg p1, expected, new: succeeds exactly when expected is what the cell holds
		exp := g.pick(w)
		if g.r.coin() {
			exp = xval{constant.NewInt(t, xsigned(w, sum)), w, sum}
		}
		cx := b.NewCmpXchg(p1, exp.v, a.v, enum.AtomicOrderingSequentiallyConsistent, enum.AtomicOrderingSequentiallyConsistent)
		cx.SetName(g.name())
		ok := uint64(0)
		after := sum
		if exp.x == sum {
			ok, after = 1, a.x
		}
		g.add(b.NewExtractValue(cx, 0), w, sum, "addrspace cmpxchg (loaded value)")
		g.add(b.NewExtractValue(cx, 1), 1, ok, "addrspace cmpxchg (success)")
		g.add(b.NewLoad(t, p1), w, after, "addrspace load after cmpxchg")
		g.now = ""
	case 0:
		g.add(b.NewAdd(a.v, c.v), w, a.x+c.x, "add")
	case 1:
		g.add(b.NewSub(a.v, c.v), w, a.x-c.x, "sub")
	case 2:
		g.add(b.NewMul(a.v, c.v), w, a.x*c.x, "mul")
	case 3:
		if c.x != 0 {
			g.add(b.NewUDiv(a.v, c.v), w, a.x/c.x, "udiv")
		}
	case 4:
		if c.x != 0 {
			g.add(b.NewURem(a.v, c.v), w, a.x%c.x, "urem")
		}
	case 5:
		sa, sc := xsigned(w, a.x), xsigned(w, c.x)
		if sc != 0 && !(sc == -1 && a.x == uint64(1)<<(w-1)) {
			g.add(b.NewSDiv(a.v, c.v), w, uint64(sa/sc), "sdiv")
		}
	case 6:
		sa, sc := xsigned(w, a.x), xsigned(w, c.x)
		if sc != 0 && !(sc == -1 && a.x == uint64(1)<<(w-1)) {
			g.add(b.NewSRem(a.v, c.v), w, uint64(sa%sc), "srem")
		}
	case 7:
		sh := uint64(g.r.intn(int(w)))
		g.add(b.NewShl(a.v, constant.NewInt(types.NewInt(uint64(w)), int64(sh))), w, a.x<<sh, "shl")
	case 8:
		sh := uint64(g.r.intn(int(w)))
		g.add(b.NewLShr(a.v, constant.NewInt(types.NewInt(uint64(w)), int64(sh))), w, a.x>>sh, "lshr")
	case 9:
		sh := uint64(g.r.intn(int(w)))
		g.add(b.NewAShr(a.v, constant.NewInt(types.NewInt(uint64(w)), int64(sh))), w, uint64(xsigned(w, a.x)>>sh), "ashr")
	case 10:
		g.add(b.NewAnd(a.v, c.v), w, a.x&c.x, "and")
	case 11:
		g.add(b.NewOr(a.v, c.v), w, a.x|c.x, "or")
	case 12:
		g.add(b.NewXor(a.v, c.v), w, a.x^c.x, "xor")
	case 13, 14:
		preds := []enum.IPred{enum.IPredEQ, enum.IPredNE, enum.IPredUGT, enum.IPredUGE, enum.IPredULT, enum.IPredULE, enum.IPredSGT, enum.IPredSGE, enum.IPredSLT, enum.IPredSLE}
		p := preds[g.r.intn(len(preds))]
		sa, sc := xsigned(w, a.x), xsigned(w, c.x)
		var res bool
		switch p {
		case enum.IPredEQ:
			res = a.x == c.x
		case enum.IPredNE:
			res = a.x != c.x
		case enum.IPredUGT:
			res = a.x > c.x
		case enum.IPredUGE:
			res = a.x >= c.x
		case enum.IPredULT:
			res = a.x < c.x
		case enum.IPredULE:
			res = a.x <= c.x
		case enum.IPredSGT:
			res = sa > sc
		case enum.IPredSGE:
			res = sa >= sc
		case enum.IPredSLT:
			res = sa < sc
		case enum.IPredSLE:
			res = sa <= sc
		}
		x := uint64(0)
		if res {
			x = 1
		}
		g.add(b.NewICmp(p, a.v, c.v), 1, x, "icmp "+p.String())
	case 15:
		cnd := g.pick(1)
		x := c.x
		if cnd.x == 1 {
			x = a.x
		}
		g.add(b.NewSelect(cnd.v, a.v, c.v), w, x, "select")
	case 16:
		// widen: zext / sext from a narrower width
		from := xwidths[g.r.intn(4)]
		if from < w {
			s := g.pick(from)
			if g.r.coin() {
				g.add(b.NewZExt(s.v, types.NewInt(uint64(w))), w, s.x, "zext")
			} else {
				g.add(b.NewSExt(s.v, types.NewInt(uint64(w))), w, uint64(xsigned(from, s.x)), "sext")
			}
		}
	case 17:
		to := xwidths[g.r.intn(4)]
		if to < w {
			g.add(b.NewTrunc(a.v, types.NewInt(uint64(to))), to, a.x, "trunc")
		}
	case 18:
		// through memory: an array on the stack, two stores, one load through getelementptr
		t := types.NewInt(uint64(w))
		arr := types.NewArray(4, t)
		al := b.NewAlloca(arr)
		al.SetName(g.name())
		i, j := g.r.intn(4), g.r.intn(4)
		zero := constant.NewInt(types.I32, 0)
		p1 := b.NewGetElementPtr(arr, al, zero, constant.NewInt(types.I32, int64(i)))
		p1.SetName(g.name())
		p2 := b.NewGetElementPtr(arr, al, zero, constant.NewInt(types.I64, int64(j)))
		p2.SetName(g.name())
		b.NewStore(a.v, p1)
		b.NewStore(c.v, p2)
		x := a.x
		if i == j {
			x = c.x
		}
		g.add(b.NewLoad(t, p1), w, x, "alloca/gep/store/load")
	case 19:
		// aggregate: insertvalue / extractvalue on a struct
		t := types.NewInt(uint64(w))
		st := types.NewStruct(t, types.I8, t)
		agg := b.NewInsertValue(constant.NewUndef(st), a.v, 0)
		agg.SetName(g.name())
		agg2 := b.NewInsertValue(agg, c.v, 2)
		agg2.SetName(g.name())
		if g.r.coin() {
			g.add(b.NewExtractValue(agg2, 0), w, a.x, "insertvalue/extractvalue 0")
		} else {
			g.add(b.NewExtractValue(agg2, 2), w, c.x, "insertvalue/extractvalue 2")
		}
	case 20:
		// vectors: insertelement / extractelement / shufflevector
		t := types.NewInt(uint64(w))
		vt := types.NewVector(2, t)
		v1 := b.NewInsertElement(constant.NewUndef(vt), a.v, constant.NewInt(types.I32, 0))
		v1.SetName(g.name())
		v2 := b.NewInsertElement(v1, c.v, constant.NewInt(types.I32, 1))
		v2.SetName(g.name())
		sh := b.NewShuffleVector(v2, v2, constant.NewVector(types.NewVector(2, types.I32), constant.NewInt(types.I32, 1), constant.NewInt(types.I32, 2)))
		sh.SetName(g.name())
		// lanes of the shuffle: element 1 of v2 (c), element 0 of the second operand (a)
		if g.r.coin() {
			g.add(b.NewExtractElement(sh, constant.NewInt(types.I32, 0)), w, c.x, "vector lane 0")
		} else {
			g.add(b.NewExtractElement(sh, constant.NewInt(types.I32, 1)), w, a.x, "vector lane 1")
		}
	default:
		_ = m
		g.add(b.NewSub(c.v, a.v), w, c.x-a.x, "sub (operands in the other order)")
	}
}

// c03ExecModule builds one module: a helper function, a main with straight-line code, a diamond with a phi, a
// call, and a final count of the results that differ from the reference
func c03ExecModule(r *rng, g *xgen) *ir.Module {
	m := ir.NewModule()
	g.m = m
	// helper: h(a, b) = a * 3 - b
	h := m.NewFunc("h", types.I32, ir.NewParam("a", types.I32), ir.NewParam("", types.I32))
	hb := h.NewBlock("")
	t3 := hb.NewMul(h.Params[0], constant.NewInt(types.I32, 3))
	hb.NewRet(hb.NewSub(t3, h.Params[1]))
	f := m.NewFunc("main", types.I32)
	entry := f.NewBlock("entry")
	g.b = entry
	for i := 0; i < 10+r.intn(25); i++ {
		g.step()
	}
	// a call
	a, c := g.pick(32), g.pick(32)
	call := entry.NewCall(h, a.v, c.v)
	g.add(call, 32, a.x*3-c.x, "call")
	// a diamond: condbr on a computed i1, a phi at the join
	cnd := g.pick(1)
	thenB, elseB, join := f.NewBlock("then"), f.NewBlock(""), f.NewBlock("join")
	entry.NewCondBr(cnd.v, thenB, elseB)
	x1, x2 := g.pick(64), g.pick(64)
	g.b = thenB
	tv := thenB.NewAdd(x1.v, constant.NewInt(types.I64, 7))
	thenB.NewBr(join)
	ev := elseB.NewXor(x2.v, constant.NewInt(types.I64, -1))
	elseB.NewBr(join)
	phi := join.NewPhi(ir.NewIncoming(tv, thenB), ir.NewIncoming(ev, elseB))
	px := ^x2.x
	if cnd.x == 1 {
		px = x1.x + 7
	}
	g.b = join
	g.add(phi, 64, px, "condbr/phi")
	// a switch on a computed i8
	sv := g.pick(8)
	c1, c2, dflt, after := f.NewBlock("c1"), f.NewBlock("c2"), f.NewBlock("dflt"), f.NewBlock("after")
	k1, k2 := int64(sv.x), int64((sv.x+1)&0xff)
	if r.coin() {
		k1 = int64((sv.x + 2) & 0xff)
	}
	join.NewSwitch(sv.v, dflt, ir.NewCase(constant.NewInt(types.I8, k1), c1), ir.NewCase(constant.NewInt(types.I8, k2), c2))
	c1.NewBr(after)
	c2.NewBr(after)
	dflt.NewBr(after)
	sphi := after.NewPhi(ir.NewIncoming(constant.NewInt(types.I32, 11), c1), ir.NewIncoming(constant.NewInt(types.I32, 22), c2), ir.NewIncoming(constant.NewInt(types.I32, 33), dflt))
	sx := uint64(33)
	if uint64(k1)&0xff == sv.x {
		sx = 11
	} else if uint64(k2)&0xff == sv.x {
		sx = 22
	}
	g.b = after
	g.add(sphi, 32, sx, "switch/phi")
	// count the differences (values defined in entry, join and after all dominate this block)
	var cnt value.Value = constant.NewInt(types.I32, 0)
	for _, p := range g.pool {
		if _, isConst := p.v.(constant.Constant); isConst {
			continue
		}
		if in, ok := p.v.(ir.Instruction); ok {
			// values of the then-block do not dominate the end; they are checked through the phi
			_ = in
		}
		want := constant.NewInt(types.NewInt(uint64(p.w)), 0)
		want.X.SetUint64(p.x)
		if p.w == 1 {
			want = constant.NewInt(types.I1, int64(p.x))
		}
		ne := after.NewICmp(enum.IPredNE, p.v, want)
		z := after.NewZExt(ne, types.I32)
		cnt = after.NewAdd(cnt, z)
	}
	after.NewRet(cnt)
	return m
}

func c03Exec(c *config, r *rng) {
	o := c.out
	lli, err := exec.LookPath("lli")
	if err != nil {
		o.Stat("exec.skipped_no_lli")
		return
	}
	dir := filepath.Dir(c.outPath)
	n := 60 * c.scale
	for i := 0; i < n; i++ {
		var m *ir.Module
		var text string
		g := &xgen{r: r}
		oc, msg := guard(func() error {
			m = c03ExecModule(r, g)
			text = m.String()
			return nil
		})
		desc := strings.Join(g.desc, ", ")
		o.Stat("exec.programs")
		if oc != ocOk {
			// the recipe: the kinds of the steps constructed so far, then the step whose constructor gave up
			o.Fail("executes_as_constructed", "", "a well-typed construction is rejected by the constructor (or printing the program crashes)",
				map[string]interface{}{"msg": msg, "constructed_so_far": desc, "rejected": g.now})
			continue
		}
		path := filepath.Join(dir, "exec.ll")
		os.WriteFile(path, []byte(text), 0o644)
		cmd := exec.Command(lli, path)
		out, err := cmd.CombinedOutput()
		code := 0
		if err != nil {
			if ee, ok := err.(*exec.ExitError); ok {
				code = ee.ExitCode()
			} else {
				code = -1
			}
		}
		o.Nontrivial("exec:" + text)
		if code != 0 {
			o.Fail("executes_as_constructed", "", fmt.Sprintf("lli returns %d: that many results differ from what the construction calls imply (or LLVM rejects the text)", code),
				map[string]interface{}{"program": text, "kinds": desc, "lli": string(out)})
		} else {
			o.Pass("executes_as_constructed")
		}
		// the same program after a round trip through the parser executes the same way
		if m2, oc2, _ := parseGuard(text); oc2 == ocOk {
			t2 := m2.String()
			if t2 != text {
				os.WriteFile(path, []byte(t2), 0o644)
				if err := exec.Command(lli, path).Run(); err != nil {
					o.Fail("executes_as_constructed", "", "the re-parsed and re-printed program no longer returns 0", map[string]interface{}{"program": text, "reprinted": t2})
				}
			}
		}
		if i == 0 {
			o.Sample(map[string]interface{}{"executed_program_prefix": text[:min(400, len(text))], "kinds": desc})
		}
	}
}
