package main

// C03, construction histories: a caller does not always build everything and then print once.  A program here is a
// list of steps (plain data drawn from the generator), each of which APPENDS to the end of a function of the module:
// an instruction (unnamed or named, void or not) at the end of the function's last block, a new last block (unnamed
// or named) reached by replacing the last block's terminator, a value-producing terminator (invoke), or a whole new
// function with unnamed parameters.  After any step the module may be printed (Module.String, Module.WriteTo,
// Func.LLString of the function just extended or of another one, or an explicit Func.AssignIDs).  Appending at the
// end never moves an already numbered value, so every such history is legitimate on the library (inserting before
// numbered values is KF-15 and is not done here).  The same step list is executed twice: with its intermediate
// prints, and afresh with no print before the last; the two final texts must be the same, every unnamed local must
// be referred to by the number the generator counted for it (parameters, blocks, non-void instructions and
// terminators in layout order), and the module of the history goes through the print / parse / compare checks of the
// other construction programs (c03Check).

import (
	"fmt"
	"io"
	"strings"

	"github.com/llir/llvm/ir"
	"github.com/llir/llvm/ir/constant"
	"github.com/llir/llvm/ir/enum"
	"github.com/llir/llvm/ir/types"
	"github.com/llir/llvm/ir/value"
)

type histStep struct {
	kind   int // 0 value instruction, 1 void instruction, 2 new last block, 3 new function, 4 invoke + new last block
	fn     int // which function (index modulo the number of functions at that point)
	op     int
	a, b   int // operand choices
	named  bool
	named2 bool
	nparam int
	print  int // after the step: 0 none, 1 Module.String, 2 Module.WriteTo, 3 LLString of the extended function, 4 AssignIDs of it, 5 LLString of every function
}

type histFunc struct {
	f      *ir.Func
	vals   []value.Value // i32 values usable at the end of the last block (parameters, values of the last block)
	next   int           // next number of an unnamed local, by the generator's count
	expect []histExpect
}

type histExpect struct {
	id   func() string
	want string
	what string
}

type histState struct {
	m      *ir.Module
	callee *ir.Func
	sink   *ir.Func
	pers   *ir.Func
	fs     []*histFunc
	nname  int
}

func (s *histState) name(prefix string) string {
	s.nname++
	return fmt.Sprintf("%s%d", prefix, s.nname)
}

func (s *histState) newFunc(st histStep) {
	var params []*ir.Param
	hf := &histFunc{}
	for i := 0; i < st.nparam; i++ {
		name := ""
		if (st.a>>uint(i))&1 == 1 {
			name = s.name("p")
		}
		p := ir.NewParam(name, types.I32)
		params = append(params, p)
		if name == "" {
			hf.expectNum(p, "parameter")
		}
		hf.vals = append(hf.vals, p)
	}
	f := s.m.NewFunc(s.name("f"), types.I32, params...)
	f.Personality = s.pers
	hf.f = f
	bname := ""
	if st.named {
		bname = s.name("b")
	}
	b := f.NewBlock(bname)
	if bname == "" {
		hf.expectNum(b, "block")
	}
	b.NewRet(constant.NewInt(types.I32, int64(st.b)))
	s.fs = append(s.fs, hf)
}

func (hf *histFunc) expectNum(v value.Value, what string) {
	// (a closure, not a method value: Ident of the embedded identifier has a value receiver)
	hf.expect = append(hf.expect, histExpect{id: func() string { return v.Ident() }, want: fmt.Sprintf("%%%d", hf.next), what: what})
	hf.next++
}

func (hf *histFunc) operand(k int) value.Value {
	if len(hf.vals) == 0 || k%5 == 4 {
		return constant.NewInt(types.I32, int64(k))
	}
	return hf.vals[k%len(hf.vals)]
}

func (hf *histFunc) last() *ir.Block { return hf.f.Blocks[len(hf.f.Blocks)-1] }

// retLast makes the last block return the newest value (so that the terminator uses what was appended)
func (hf *histFunc) retLast() {
	b := hf.last()
	if _, ok := b.Term.(*ir.TermRet); ok && len(hf.vals) > 0 {
		b.Term = ir.NewRet(hf.vals[len(hf.vals)-1])
	}
}

func (s *histState) apply(st histStep) *histFunc {
	if st.kind == 3 || len(s.fs) == 0 {
		s.newFunc(st)
		return s.fs[len(s.fs)-1]
	}
	hf := s.fs[st.fn%len(s.fs)]
	b := hf.last()
	x, y := hf.operand(st.a), hf.operand(st.b)
	switch st.kind {
	case 0:
		var v value.Value
		var nm interface{ SetName(string) }
		switch st.op % 6 {
		case 0:
			i := b.NewAdd(x, y)
			v, nm = i, i
		case 1:
			i := b.NewMul(x, y)
			v, nm = i, i
		case 2:
			i := b.NewCall(s.callee, x)
			v, nm = i, i
		case 3:
			// (fresh operand objects: a constant object is not shared between two users)
			i := b.NewSelect(b.NewICmp(enum.IPredSLT, x, y), hf.operand(st.a), hf.operand(st.b))
			// (the icmp is a second unnamed value, numbered before the select)
			hf.expectNum(b.Insts[len(b.Insts)-2].(*ir.InstICmp), "icmp")
			v, nm = i, i
		case 4:
			a := b.NewAlloca(types.I32)
			hf.expectNum(a, "alloca")
			b.NewStore(x, a)
			i := b.NewLoad(types.I32, a)
			v, nm = i, i
		default:
			i := b.NewXor(x, y)
			v, nm = i, i
		}
		if st.named {
			nm.SetName(s.name("v"))
		} else {
			hf.expectNum(v, "instruction")
		}
		hf.vals = append(hf.vals, v)
		hf.retLast()
	case 1:
		b.NewCall(s.sink, x) // void: not numbered
	case 2, 4:
		bname := ""
		if st.named {
			bname = s.name("b")
		}
		// the old last block's terminator comes before the new block in the layout
		var inv *ir.TermInvoke
		var lp *ir.Block
		if st.kind == 4 {
			lpname := ""
			if st.named2 {
				lpname = s.name("lp")
			}
			inv = ir.NewInvoke(s.callee, []value.Value{x}, nil, nil)
			if st.op%2 == 0 {
				inv.SetName(s.name("iv"))
			} else {
				hf.expectNum(inv, "invoke")
			}
			lp = ir.NewBlock(lpname)
		}
		nb := hf.f.NewBlock(bname)
		if bname == "" {
			hf.expectNum(nb, "block")
		}
		nb.NewRet(constant.NewInt(types.I32, int64(st.a)))
		hf.vals = hf.vals[:len(hf.f.Params)]
		if inv != nil {
			inv.NormalRetTarget = nb
			lp.Parent = hf.f
			hf.f.Blocks = append(hf.f.Blocks, lp)
			if !st.named2 {
				hf.expectNum(lp, "landing block")
			}
			pad := lp.NewLandingPad(types.NewStruct(types.NewPointer(types.I8), types.I32))
			pad.Cleanup = true
			if st.named {
				pad.SetName(s.name("pad"))
			} else {
				hf.expectNum(pad, "landingpad")
			}
			lp.NewRet(y)
			inv.ExceptionRetTarget = lp
			b.Term = inv
			// the landing block is the last one now; it is dominated by the parameters only
		} else {
			b.Term = ir.NewBr(nb)
		}
	}
	return hf
}

func (s *histState) print(mode int, hf *histFunc) (oc outcome, msg string) {
	return guard(func() error {
		switch mode {
		case 1:
			_ = s.m.String()
		case 2:
			_, err := s.m.WriteTo(io.Discard)
			return err
		case 3:
			_ = hf.f.LLString()
		case 4:
			return hf.f.AssignIDs()
		case 5:
			for _, g := range s.fs {
				_ = g.f.LLString()
			}
		}
		return nil
	})
}

func histRun(steps []histStep, withPrints bool) (s *histState, log []string, bad string) {
	s = &histState{m: ir.NewModule()}
	s.callee = s.m.NewFunc("callee", types.I32, ir.NewParam("", types.I32))
	s.sink = s.m.NewFunc("sink", types.Void, ir.NewParam("", types.I32))
	s.pers = s.m.NewFunc("pers", types.I32)
	s.pers.Sig.Variadic = true
	s.pers.Typ = nil
	_ = s.pers.Type()
	kinds := []string{"append value instruction", "append void call", "append block", "new function", "invoke + two blocks"}
	modes := []string{"", "Module.String", "Module.WriteTo", "Func.LLString", "Func.AssignIDs", "every Func.LLString"}
	for i, st := range steps {
		hf := s.apply(st)
		log = append(log, fmt.Sprintf("%s to @%s (op %d, operands %d %d, named %v)", kinds[st.kind], hf.f.Name(), st.op%6, st.a, st.b, st.named))
		if withPrints && st.print != 0 && i < len(steps)-1 {
			log = append(log, "print: "+modes[st.print])
			if oc, msg := s.print(st.print, hf); oc != ocOk {
				return s, log, "the intermediate print (" + modes[st.print] + ") fails: " + msg
			}
		}
	}
	return s, log, ""
}

func c03Histories(c *config, r *rng) {
	o := c.out
	for i := 0; i < 150*c.scale; i++ {
		n := 3 + r.intn(10)
		steps := make([]histStep, n)
		for j := range steps {
			st := histStep{kind: r.intn(5), fn: r.intn(8), op: r.intn(12), a: r.intn(16), b: r.intn(16), named: r.chance(25), named2: r.chance(40), nparam: r.intn(4)}
			if j == 0 {
				st.kind = 3
			}
			if r.chance(60) {
				st.print = 1 + r.intn(5)
			}
			steps[j] = st
		}
		var log []string
		c03Guarded(c, func() string { return "construction history: " + strings.Join(log, "; ") }, "", func() {
			o.Stat("histories")
			hist, hlog, bad := histRun(steps, true)
			log = hlog
			det := map[string]interface{}{"program": "construction history (append at the end, print, append, print)", "steps": hlog}
			if bad != "" {
				o.Fail("history_print", "", bad, det)
				return
			}
			fresh, _, _ := histRun(steps, false)
			th, oc, msg := printGuard(hist.m)
			if oc != ocOk {
				det["msg"] = msg
				o.Fail("history_print", "", "printing after a history of appends and prints fails", det)
				return
			}
			tf, oc, msg := printGuard(fresh.m)
			if oc != ocOk {
				det["msg"] = msg
				o.Fail("history_print", "", "printing the freshly constructed module fails", det)
				return
			}
			det["printed"], det["printed_fresh"] = th, tf
			if th != tf {
				o.Fail("history_print", "", "a module extended after a print prints differently from the same module constructed without the intermediate print", det)
				return
			}
			// the numbers of the unnamed locals, by the generator's count
			for _, hf := range hist.fs {
				for _, e := range hf.expect {
					if got := e.id(); got != e.want {
						det["function"] = hf.f.Name()
						o.Fail("history_print", "", fmt.Sprintf("an unnamed %s is referred to as %s; in layout order it is %s", e.what, got, e.want), det)
						return
					}
				}
				// ... and the per-function print agrees with the function as the module prints it
				if fs, oc, _ := guardString(hf.f.LLString); oc != ocOk || !strings.Contains(th, fs) {
					det["function_text"] = fs
					o.Fail("history_print", "", "Func.LLString after the history is not the function's text in the module", det)
					return
				}
			}
			o.Pass("history_print")
			o.Nontrivial(fmt.Sprint("hist", i))
			c03Check(c, hist.m, det, "", false)
		})
	}
}

func guardString(f func() string) (s string, oc outcome, msg string) {
	oc, msg = guard(func() error { s = f(); return nil })
	return
}
