package main

// C06: result types agree with LLVM's typing rules, in parser and IR alike.

import (
	"fmt"
	"strings"

	"github.com/llir/llvm/asm"
	"github.com/llir/llvm/ir"
	"github.com/llir/llvm/ir/constant"
	"github.com/llir/llvm/ir/enum"
	"github.com/llir/llvm/ir/types"
	"github.com/llir/llvm/ir/value"
)

func init() { props["C06"] = runC06 }

type c06Case struct {
	op     string
	shape  string                                       // encoding of Model.ResultType.shape (types as tree encodings)
	params []types.Type                                 // parameter types of the enclosing function
	build  func(b *ir.Block, p []*ir.Param) value.Value // constructs the instruction through the public API
	want   types.Type                                   // LLVM's rule, stated here independently
	cls    string
	text   func(p []*ir.Param) string // a fragment the printed instruction must contain: opcode, operand order, flags as constructed
}

func vecOf(n uint64, sc bool, e types.Type) *types.VectorType {
	v := types.NewVector(n, e)
	v.Scalable = sc
	return v
}
func ptrTo(e types.Type, as uint64) *types.PointerType {
	p := types.NewPointer(e)
	p.AddrSpace = types.AddrSpace(as)
	return p
}

func encT(t types.Type) string {
	switch t := t.(type) {
	case *types.VoidType:
		return "v"
	case *types.LabelType:
		return "l"
	case *types.TokenType:
		return "k"
	case *types.MetadataType:
		return "M"
	case *types.MMXType:
		return "m"
	case *types.IntType:
		return fmt.Sprintf("i%d;", t.BitSize)
	case *types.FloatType:
		for i, k := range floatKinds {
			if k == t.Kind {
				return fmt.Sprintf("f%d", i)
			}
		}
	case *types.PointerType:
		return fmt.Sprintf("p%d;", t.AddrSpace) + encT(t.ElemType)
	case *types.VectorType:
		return fmt.Sprintf("V%s%d;", b2s(t.Scalable), t.Len) + encT(t.ElemType)
	case *types.ArrayType:
		return fmt.Sprintf("A%d;", t.Len) + encT(t.ElemType)
	case *types.StructType:
		if t.TypeName != "" {
			return fmt.Sprintf("N%x;", t.TypeName)
		}
		s := fmt.Sprintf("S%s%d;", b2s(t.Packed), len(t.Fields))
		for _, f := range t.Fields {
			s += encT(f)
		}
		return s
	case *types.FuncType:
		s := fmt.Sprintf("F%s%d;", b2s(t.Variadic), len(t.Params)) + encT(t.RetType)
		for _, p := range t.Params {
			s += encT(p)
		}
		return s
	}
	panic(fmt.Sprintf("encT %T", t))
}

// scalar element types and their vector forms
func c06Ints(r *rng) types.Type   { return types.NewInt([]uint64{1, 8, 16, 32, 64, 128}[r.intn(6)]) }
func c06Floats(r *rng) types.Type { return &types.FloatType{Kind: floatKinds[r.intn(6)]} }

// maybeVec wraps a scalar into a fixed or scalable vector some of the time
func maybeVec(r *rng, e types.Type) (types.Type, bool) {
	switch r.intn(5) {
	case 0:
		return vecOf(uint64(1+r.intn(8)), false, e), false
	case 1:
		return vecOf(uint64(1+r.intn(8)), true, e), true
	}
	return e, false
}

func sameShape(t types.Type, e types.Type) types.Type {
	if v, ok := t.(*types.VectorType); ok {
		return vecOf(v.Len, v.Scalable, e)
	}
	return e
}

func c06Gen(r *rng, g *tyGen, u *universe) c06Case {
	binops := []string{"Add", "FAdd", "Sub", "FSub", "Mul", "FMul", "UDiv", "SDiv", "FDiv", "URem", "SRem", "FRem", "Shl", "LShr", "AShr", "And", "Or", "Xor"}
	switch r.intn(23) {
	case 0, 1: // binary and bitwise
		op := binops[r.intn(len(binops))]
		var e types.Type
		if strings.HasPrefix(op, "F") {
			e = c06Floats(r)
		} else {
			e = c06Ints(r)
		}
		t, _ := maybeVec(r, e)
		return c06Case{op: op, shape: "SameAsFirst " + encT(t), params: []types.Type{t, t}, want: t,
			build: func(b *ir.Block, p []*ir.Param) value.Value { return c06Binary(b, op, p[0], p[1]) },
			text: func(p []*ir.Param) string {
				return fmt.Sprintf("= %s %s %s, %s", strings.ToLower(op), t, p[0].Ident(), p[1].Ident())
			}}
	case 2:
		t, _ := maybeVec(r, c06Floats(r))
		return c06Case{op: "FNeg", shape: "SameAsFirst " + encT(t), params: []types.Type{t}, want: t,
			build: func(b *ir.Block, p []*ir.Param) value.Value { return b.NewFNeg(p[0]) }}
	case 3, 4: // conversions
		return c06Conv(r)
	case 5, 6: // icmp
		var e types.Type = c06Ints(r)
		if r.chance(30) {
			e = ptrTo(types.I8, g.pickU(g.spaces))
		}
		t, sc := maybeVec(r, e)
		cls := ""
		if sc {
			cls = "scalable_vector_operand"
		}
		ipreds := []enum.IPred{enum.IPredEQ, enum.IPredNE, enum.IPredSGE, enum.IPredSGT, enum.IPredSLE, enum.IPredSLT, enum.IPredUGE, enum.IPredUGT, enum.IPredULE, enum.IPredULT}
		ipnames := []string{"eq", "ne", "sge", "sgt", "sle", "slt", "uge", "ugt", "ule", "ult"}
		pi := r.intn(len(ipreds))
		return c06Case{op: "ICmp", shape: "ICmp " + encT(t), params: []types.Type{t, t}, want: sameShape(t, types.I1), cls: cls,
			build: func(b *ir.Block, p []*ir.Param) value.Value { return b.NewICmp(ipreds[pi], p[1], p[0]) },
			text: func(p []*ir.Param) string {
				return fmt.Sprintf("= icmp %s %s %s, %s", ipnames[pi], t, p[1].Ident(), p[0].Ident())
			}}
	case 7:
		t, sc := maybeVec(r, c06Floats(r))
		cls := ""
		if sc {
			cls = "scalable_vector_operand"
		}
		fpreds := []enum.FPred{enum.FPredOEQ, enum.FPredOGE, enum.FPredOLT, enum.FPredONE, enum.FPredORD, enum.FPredUEQ, enum.FPredUGT, enum.FPredULE, enum.FPredUNO, enum.FPredTrue, enum.FPredFalse}
		fpnames := []string{"oeq", "oge", "olt", "one", "ord", "ueq", "ugt", "ule", "uno", "true", "false"}
		pi := r.intn(len(fpreds))
		return c06Case{op: "FCmp", shape: "FCmp " + encT(t), params: []types.Type{t, t}, want: sameShape(t, types.I1), cls: cls,
			build: func(b *ir.Block, p []*ir.Param) value.Value { return b.NewFCmp(fpreds[pi], p[1], p[0]) },
			text: func(p []*ir.Param) string {
				return fmt.Sprintf("= fcmp %s %s %s, %s", fpnames[pi], t, p[1].Ident(), p[0].Ident())
			}}
	case 8:
		e := g.sized(2).build(u)
		return c06Case{op: "Alloca", shape: "Alloca " + encT(e) + " 0", want: ptrTo(e, 0),
			build: func(b *ir.Block, p []*ir.Param) value.Value { return b.NewAlloca(e) }}
	case 9:
		e := g.sized(2).build(u)
		as := g.pickU(g.spaces)
		return c06Case{op: "Load", shape: "Explicit " + encT(e), params: []types.Type{ptrTo(e, as)}, want: e,
			build: func(b *ir.Block, p []*ir.Param) value.Value { return b.NewLoad(e, p[0]) }}
	case 10:
		e := c06Ints(r)
		if e.(*types.IntType).BitSize < 8 {
			e = types.I32
		}
		return c06Case{op: "CmpXchg", shape: "CmpXchg " + encT(e), params: []types.Type{ptrTo(e, 0), e, e}, want: types.NewStruct(e, types.I1),
			build: func(b *ir.Block, p []*ir.Param) value.Value {
				return b.NewCmpXchg(p[0], p[1], p[2], enum.AtomicOrderingAcquireRelease, enum.AtomicOrderingMonotonic)
			},
			text: func(p []*ir.Param) string {
				return fmt.Sprintf("= cmpxchg %s %s, %s %s, %s %s acq_rel monotonic", p[0].Type(), p[0].Ident(), e, p[1].Ident(), e, p[2].Ident())
			}}
	case 11:
		var e types.Type = c06Ints(r)
		op := enum.AtomicOpAdd
		if r.chance(30) {
			e = &types.FloatType{Kind: types.FloatKindFloat}
			op = enum.AtomicOpFAdd
		} else if e.(*types.IntType).BitSize < 8 {
			e = types.I32
		}
		as := g.pickU(g.spaces)
		return c06Case{op: "AtomicRMW", shape: "AtomicRMW " + encT(ptrTo(e, as)), params: []types.Type{ptrTo(e, as), e}, want: e,
			build: func(b *ir.Block, p []*ir.Param) value.Value {
				return b.NewAtomicRMW(op, p[0], p[1], enum.AtomicOrderingRelease)
			},
			text: func(p []*ir.Param) string {
				return fmt.Sprintf("= atomicrmw %s %s %s, %s %s release", op, p[0].Type(), p[0].Ident(), e, p[1].Ident())
			}}
	case 12:
		e := c06Ints(r)
		v := vecOf(uint64(1+r.intn(8)), r.chance(25), e)
		return c06Case{op: "ExtractElement", shape: "ExtractElement " + encT(v), params: []types.Type{v, types.I32}, want: e,
			build: func(b *ir.Block, p []*ir.Param) value.Value { return b.NewExtractElement(p[0], p[1]) }}
	case 13:
		e := c06Floats(r)
		v := vecOf(uint64(1+r.intn(8)), r.chance(25), e)
		return c06Case{op: "InsertElement", shape: "InsertElement " + encT(v), params: []types.Type{v, e, types.I32}, want: v,
			build: func(b *ir.Block, p []*ir.Param) value.Value { return b.NewInsertElement(p[0], p[1], p[2]) },
			text: func(p []*ir.Param) string {
				return fmt.Sprintf("= insertelement %s %s, %s %s, i32 %s", v, p[0].Ident(), e, p[1].Ident(), p[2].Ident())
			}}
	case 14:
		e := c06Ints(r)
		sc := r.chance(25)
		v := vecOf(uint64(1+r.intn(8)), sc, e)
		mlen := uint64(1 + r.intn(8))
		if sc {
			mlen = v.Len
		}
		m := vecOf(mlen, sc, types.I32)
		cls := ""
		if sc {
			cls = "scalable_vector_operand"
		}
		return c06Case{op: "ShuffleVector", shape: "ShuffleVector " + encT(v) + " " + encT(m), params: []types.Type{v, v}, want: vecOf(mlen, sc, e), cls: cls,
			build: func(b *ir.Block, p []*ir.Param) value.Value {
				var mask constant.Constant = constant.NewZeroInitializer(m)
				return b.NewShuffleVector(p[0], p[1], mask)
			}}
	case 15, 16: // extractvalue / insertvalue along a random valid path
		agg := g.sized(3).build(u)
		for tries := 0; tries < 20; tries++ {
			if _, ok := agg.(*types.StructType); ok {
				if len(agg.(*types.StructType).Fields) > 0 && agg.(*types.StructType).TypeName == "" {
					break
				}
			}
			if a, ok := agg.(*types.ArrayType); ok && a.Len > 0 {
				break
			}
			agg = g.sized(3).build(u)
		}
		var path []uint64
		cur := agg
	walk:
		for len(path) < 3 {
			switch t := cur.(type) {
			case *types.StructType:
				if len(t.Fields) == 0 {
					break walk
				}
				i := r.intn(len(t.Fields))
				path = append(path, uint64(i))
				cur = t.Fields[i]
			case *types.ArrayType:
				if t.Len == 0 {
					break walk
				}
				path = append(path, uint64(r.intn(int(t.Len))))
				cur = t.ElemType
			default:
				break walk
			}
			if r.chance(35) {
				break
			}
		}
		if len(path) == 0 {
			return c06Gen(r, g, u)
		}
		var ps []string
		for _, i := range path {
			ps = append(ps, fmt.Sprint(i))
		}
		if r.coin() {
			elem := cur
			return c06Case{op: "InsertValue", shape: "SameAsFirst " + encT(agg), params: []types.Type{agg, elem}, want: agg,
				build: func(b *ir.Block, p []*ir.Param) value.Value { return b.NewInsertValue(p[0], p[1], path...) }}
		}
		return c06Case{op: "ExtractValue", shape: "ExtractValue " + encT(agg) + " " + strings.Join(ps, ","), params: []types.Type{agg}, want: cur,
			build: func(b *ir.Block, p []*ir.Param) value.Value { return b.NewExtractValue(p[0], path...) }}
	case 17:
		t := g.sized(2).build(u)
		c, _ := maybeVec(r, types.I1)
		if v, ok := c.(*types.VectorType); ok {
			t = vecOf(v.Len, v.Scalable, c06Ints(r))
		}
		return c06Case{op: "Select", shape: "SameAsFirst " + encT(t), params: []types.Type{c, t, t}, want: t,
			build: func(b *ir.Block, p []*ir.Param) value.Value { return b.NewSelect(p[0], p[2], p[1]) },
			text: func(p []*ir.Param) string {
				return fmt.Sprintf("= select %s %s, %s %s, %s %s", c, p[0].Ident(), t, p[2].Ident(), t, p[1].Ident())
			}}
	case 18: // call: direct, through a function pointer, variadic
		ret := g.sized(2).build(u)
		if r.chance(30) {
			ret = types.Void
		}
		var pts []types.Type
		for k := r.intn(3); k > 0; k-- {
			pts = append(pts, g.sized(1).build(u))
		}
		ft := types.NewFunc(ret, pts...)
		ft.Variadic = r.chance(30)
		fp := ptrTo(ft, 0)
		written := encT(ret)
		if ft.Variadic {
			written = encT(ft)
		}
		return c06Case{op: "Call", shape: "CallLike " + written + " " + encT(fp), params: append([]types.Type{fp}, pts...), want: ret,
			build: func(b *ir.Block, p []*ir.Param) value.Value {
				var args []value.Value
				for _, a := range p[1:] {
					args = append(args, a)
				}
				return b.NewCall(p[0], args...)
			},
			text: func(p []*ir.Param) string {
				// the callee's full function type is written when it is variadic, the return type otherwise
				typ := ret.String()
				if ft.Variadic {
					typ = ft.String()
				}
				return fmt.Sprintf("call %s %s(", typ, p[0].Ident())
			}}
	case 19:
		t := g.sized(2).build(u)
		return c06Case{op: "Freeze", shape: "SameAsFirst " + encT(t), params: []types.Type{t}, want: t,
			build: func(b *ir.Block, p []*ir.Param) value.Value {
				i := ir.NewInstFreeze(p[0])
				b.Insts = append(b.Insts, i)
				return i
			}}
	case 20:
		t := g.sized(1).build(u)
		return c06Case{op: "VAArg", shape: "Explicit " + encT(t), params: []types.Type{ptrTo(types.I8, 0)}, want: t,
			build: func(b *ir.Block, p []*ir.Param) value.Value { return b.NewVAArg(p[0], t) }}
	case 21: // getelementptr (C07 covers the index forms in depth; here: the instruction among the others)
		el := types.NewArray(4, types.I32)
		as := g.pickU(g.spaces)
		base := ptrTo(el, as)
		vl := uint64(0)
		var idx []func(p []*ir.Param) value.Value
		kinds := r.intn(4)
		switch kinds {
		case 0: // scalar constants
			idx = append(idx, func(p []*ir.Param) value.Value { return constant.NewInt(types.I64, 0) }, func(p []*ir.Param) value.Value { return constant.NewInt(types.I32, 2) })
		case 1: // a constant splat vector index on a scalar base
			vl = uint64(2 + r.intn(3))
			n := vl
			idx = append(idx, func(p []*ir.Param) value.Value { return constant.NewInt(types.I64, 0) }, func(p []*ir.Param) value.Value {
				es := make([]constant.Constant, n)
				for i := range es {
					es[i] = constant.NewInt(types.I64, 1)
				}
				return constant.NewVector(types.NewVector(n, types.I64), es...)
			})
		case 2: // a non-constant vector index
			vl = uint64(2 + r.intn(3))
			idx = append(idx, func(p []*ir.Param) value.Value { return constant.NewInt(types.I64, 0) }, func(p []*ir.Param) value.Value { return p[1] })
		default: // non-constant scalar
			idx = append(idx, func(p []*ir.Param) value.Value { return p[1] })
		}
		params := []types.Type{base}
		if kinds == 2 {
			params = append(params, vecOf(vl, false, types.I64))
		} else if kinds == 3 {
			params = append(params, types.I64)
		}
		var want types.Type = ptrTo(types.I32, as)
		if kinds == 3 {
			want = ptrTo(el, as)
		}
		if vl > 0 {
			want = vecOf(vl, false, want)
		}
		return c06Case{op: "GetElementPtr", shape: "", params: params, want: want,
			build: func(b *ir.Block, p []*ir.Param) value.Value {
				var ops []value.Value
				for _, f := range idx {
					ops = append(ops, f(p))
				}
				return b.NewGetElementPtr(el, p[0], ops...)
			}}
	default:
		t := g.sized(2).build(u)
		return c06Case{op: "Phi", shape: "Phi " + encT(t) + " " + encT(t) + " " + encT(t), params: []types.Type{t, t}, want: t,
			build: func(b *ir.Block, p []*ir.Param) value.Value {
				return b.NewPhi(ir.NewIncoming(p[0], b), ir.NewIncoming(p[1], b))
			}}
	}
}

func c06Binary(b *ir.Block, op string, x, y value.Value) value.Value {
	switch op {
	case "Add":
		return b.NewAdd(x, y)
	case "FAdd":
		return b.NewFAdd(x, y)
	case "Sub":
		return b.NewSub(x, y)
	case "FSub":
		return b.NewFSub(x, y)
	case "Mul":
		return b.NewMul(x, y)
	case "FMul":
		return b.NewFMul(x, y)
	case "UDiv":
		return b.NewUDiv(x, y)
	case "SDiv":
		return b.NewSDiv(x, y)
	case "FDiv":
		return b.NewFDiv(x, y)
	case "URem":
		return b.NewURem(x, y)
	case "SRem":
		return b.NewSRem(x, y)
	case "FRem":
		return b.NewFRem(x, y)
	case "Shl":
		return b.NewShl(x, y)
	case "LShr":
		return b.NewLShr(x, y)
	case "AShr":
		return b.NewAShr(x, y)
	case "And":
		return b.NewAnd(x, y)
	case "Or":
		return b.NewOr(x, y)
	}
	return b.NewXor(x, y)
}

func c06Conv(r *rng) c06Case {
	small, big := types.Type(types.I16), types.Type(types.I64)
	fs, fb := types.Type(&types.FloatType{Kind: types.FloatKindFloat}), types.Type(&types.FloatType{Kind: types.FloatKindDouble})
	p0, p1 := types.Type(ptrTo(types.I8, 0)), types.Type(ptrTo(types.I32, 3))
	type conv struct {
		op       string
		from, to types.Type
		mk       func(b *ir.Block, x value.Value, t types.Type) value.Value
	}
	convs := []conv{
		{"Trunc", big, small, func(b *ir.Block, x value.Value, t types.Type) value.Value { return b.NewTrunc(x, t) }},
		{"ZExt", small, big, func(b *ir.Block, x value.Value, t types.Type) value.Value { return b.NewZExt(x, t) }},
		{"SExt", small, big, func(b *ir.Block, x value.Value, t types.Type) value.Value { return b.NewSExt(x, t) }},
		{"FPTrunc", fb, fs, func(b *ir.Block, x value.Value, t types.Type) value.Value { return b.NewFPTrunc(x, t) }},
		{"FPExt", fs, fb, func(b *ir.Block, x value.Value, t types.Type) value.Value { return b.NewFPExt(x, t) }},
		{"FPToUI", fb, small, func(b *ir.Block, x value.Value, t types.Type) value.Value { return b.NewFPToUI(x, t) }},
		{"FPToSI", fs, big, func(b *ir.Block, x value.Value, t types.Type) value.Value { return b.NewFPToSI(x, t) }},
		{"UIToFP", small, fb, func(b *ir.Block, x value.Value, t types.Type) value.Value { return b.NewUIToFP(x, t) }},
		{"SIToFP", big, fs, func(b *ir.Block, x value.Value, t types.Type) value.Value { return b.NewSIToFP(x, t) }},
		{"PtrToInt", p0, big, func(b *ir.Block, x value.Value, t types.Type) value.Value { return b.NewPtrToInt(x, t) }},
		{"IntToPtr", big, p0, func(b *ir.Block, x value.Value, t types.Type) value.Value { return b.NewIntToPtr(x, t) }},
		{"BitCast", p0, ptrTo(types.I32, 0), func(b *ir.Block, x value.Value, t types.Type) value.Value { return b.NewBitCast(x, t) }},
		{"AddrSpaceCast", p0, p1, func(b *ir.Block, x value.Value, t types.Type) value.Value { return b.NewAddrSpaceCast(x, t) }},
	}
	cv := convs[r.intn(len(convs))]
	from, to := cv.from, cv.to
	switch r.intn(5) {
	case 0:
		n := uint64(1 + r.intn(8))
		from, to = vecOf(n, false, from), vecOf(n, false, to)
	case 1:
		n := uint64(1 + r.intn(8))
		from, to = vecOf(n, true, from), vecOf(n, true, to)
	}
	return c06Case{op: cv.op, shape: "Convert " + encT(from) + " " + encT(to), params: []types.Type{from}, want: to,
		build: func(b *ir.Block, p []*ir.Param) value.Value { return cv.mk(b, p[0], to) },
		text: func(p []*ir.Param) string {
			return fmt.Sprintf("= %s %s %s to %s", strings.ToLower(cv.op), from, p[0].Ident(), to)
		}}
}

func runC06(c *config) {
	r := newRng(c.seed, "c06")
	g := newTyGen(r)
	u := newUniverse()
	if c.replay != "" {
		fmt.Println("replay: re-run ./check C06 with the same VERIF_SEED (the generator is deterministic)")
		return
	}
	for _, n := range g.names {
		u.namedStruct(n)
	}
	var bparts []string
	for _, n := range []string{"n0", "n1", "n2", "a.b", "n 3"} {
		var fs []string
		for _, f := range u.named[n].Fields {
			fs = append(fs, encT(f))
		}
		bparts = append(bparts, fmt.Sprintf("%x=%s", n, strings.Join(fs, "")))
	}
	bodies := strings.Join(bparts, ",")
	for i := 0; i < 6000*c.scale; i++ {
		cs := c06Gen(r, g, u)
		c06One(c, u, cs, bodies, i < 3)
	}
	c06CallSpellings(c)
	c06NamedOperands(c)
	c06Const(c, newRng(c.seed, "c06const"))
	// getelementptr constant expressions with vector operands in every spelling (c06gep.go)
	c06ConstGEP(c, newRng(c.seed, "c06gep"))
	// value-producing terminators and exception-handling pads, from the definition and from its users (c06eh.go)
	c06EH(c, newRng(c.seed, "c06eh"))
	c06Sig(c) // c06sig.go: Type() vs Sig().RetType vs callee type vs recomputed type of call-like values
}

func c06One(c *config, u *universe, cs c06Case, bodies string, sample bool) {
	o := c.out
	o.Stat("op." + cs.op)
	o.Nontrivial(cs.op + " " + cs.shape)
	m := ir.NewModule()
	for _, s := range u.named {
		m.TypeDefs = append(m.TypeDefs, s)
	}
	var params []*ir.Param
	for i, t := range cs.params {
		params = append(params, ir.NewParam(fmt.Sprintf("p%d", i), t))
	}
	f := m.NewFunc("f", types.Void, params...)
	b := f.NewBlock("entry")
	// (a) construct
	var v value.Value
	irRes := tyOrPanic(func() types.Type { v = cs.build(b, params); return v.Type() })
	if cs.shape != "" {
		o.Case("ir_type", []string{cs.shape, bodies}, []string{hxOk(irRes)})
	}
	wantS := "Ok " + cs.want.String()
	det := map[string]interface{}{"op": cs.op, "shape": cs.shape, "llvm": wantS, "ir": irRes}
	if cs.text != nil && irRes != "Panic" {
		c06CheckText(c, cs, v, params, true)
	}
	if irRes != wantS {
		o.Fail("result_type", cs.cls, "IR library's type differs from LLVM's rule", det)
		return
	}
	// (b) print the function, parse it, read the type the parser attached
	if n, ok := v.(interface{ SetName(string) }); ok && !types.Equal(cs.want, types.Void) {
		n.SetName("r")
	}
	b.NewRet(nil)
	var src string
	var pt types.Type
	oc, msg := guard(func() error {
		src = m.String()
		m2, err := asm.ParseString("c06.ll", src)
		if err != nil {
			return err
		}
		inst := m2.Funcs[0].Blocks[0].Insts[0]
		pt = inst.(value.Value).Type()
		return nil
	})
	parseRes := "Ok "
	switch oc {
	case ocOk:
		parseRes += pt.String()
	case ocErr:
		parseRes = "Err"
	default:
		parseRes = "Panic"
	}
	if cs.shape != "" {
		o.Case("asm_type", []string{cs.shape, bodies}, []string{hxOk(parseRes)})
	}
	det["parser"], det["src"], det["msg"] = parseRes, src, msg
	if sample {
		o.Sample(det)
	}
	if parseRes != wantS {
		o.Fail("result_type", cs.cls, "parser's type differs from LLVM's rule / from the IR library's", det)
		return
	}
	o.Pass("result_type")
}

// call, invoke and callbr: the callee type may be written as the return type or as the full function
// type (mandatory for variadic callees); either way the result type is the callee's return type
func c06CallSpellings(c *config) {
	o := c.out
	rets := []string{"void", "i32", "<2 x float>", "{ i8, i32* }"}
	for _, ret := range rets {
		for _, variadic := range []bool{false, true} {
			for _, full := range []bool{false, true} {
				if variadic && !full {
					continue
				}
				sig := ret + " ()"
				decl := "declare " + ret + " @g()"
				if variadic {
					sig = ret + " (...)"
					decl = "declare " + ret + " @g(...)"
				}
				written := ret
				if full {
					written = sig
				}
				lhs := "%r = "
				if ret == "void" {
					lhs = ""
				}
				for _, form := range []string{"call", "invoke", "callbr"} {
					var body string
					switch form {
					case "call":
						body = fmt.Sprintf("\t%scall %s @g()\n\tret void\n", lhs, written)
					case "invoke":
						body = fmt.Sprintf("\t%sinvoke %s @g() to label %%ok unwind label %%lp\nok:\n\tret void\nlp:\n\t%%l = landingpad { i8*, i32 } cleanup\n\tret void\n", lhs, written)
					default:
						body = fmt.Sprintf("\t%scallbr %s @g() to label %%ok [label %%other]\nok:\n\tret void\nother:\n\tret void\n", lhs, written)
					}
					src := decl + "\ndeclare i32 @pers(...)\ndefine void @f() personality i32 (...)* @pers {\n" + body + "}\n"
					var got string
					oc, msg := guard(func() error {
						m, err := asm.ParseString("c06call.ll", src)
						if err != nil {
							return err
						}
						b := m.Funcs[2].Blocks[0]
						if form == "call" {
							got = b.Insts[0].(value.Value).Type().String()
						} else {
							got = b.Term.(value.Value).Type().String()
						}
						return nil
					})
					o.Stat("call_spellings." + form)
					o.Nontrivial(src)
					if oc != ocOk || got != ret {
						o.Fail("result_type", "", "the parser's type of a "+form+" is not the callee's return type", map[string]string{"src": src, "got": got, "want": ret, "msg": msg})
					} else {
						o.Pass("result_type")
					}
				}
			}
		}
	}
}

// the printed instruction denotes what was constructed: opcode, operand order, predicate, orderings
func c06CheckText(c *config, cs c06Case, v value.Value, params []*ir.Param, rename bool) {
	o := c.out
	ls, ok := v.(interface{ LLString() string })
	if !ok {
		return
	}
	if n, ok := v.(interface{ SetName(string) }); ok && rename && !types.Equal(cs.want, types.Void) {
		n.SetName("r")
	}
	var got string
	oc, _ := guard(func() error { got = ls.LLString(); return nil })
	want := cs.text(params)
	if oc != ocOk || !strings.Contains(got, want) {
		o.Fail("constructed_text", "", "the printed instruction does not denote what was constructed", map[string]string{"op": cs.op, "printed": got, "expected_fragment": want})
	} else {
		o.Pass("constructed_text")
	}
}

// ---- constant expressions: the same rules, on the Type() methods of ir/constant and on the parser's check of a
// constant expression against the type written before it

type c06CExpr struct {
	op    string
	build func() constant.Constant
	want  types.Type
}

func c06ConstGen(r *rng) c06CExpr {
	ints := []*types.IntType{types.I8, types.I16, types.I32, types.I64}
	it := ints[r.intn(len(ints))]
	n := uint64(1 + r.intn(5))
	mlen := uint64(1 + r.intn(6))
	vt := types.NewVector(n, it)
	zero := func(t types.Type) constant.Constant { return constant.NewZeroInitializer(t) }
	undef := func(t types.Type) constant.Constant { return constant.NewUndef(t) }
	any := func(t types.Type) constant.Constant {
		if r.coin() {
			return zero(t)
		}
		return undef(t)
	}
	scal := func() constant.Constant { return constant.NewInt(it, int64(r.intn(100))) }
	switch r.intn(12) {
	case 0:
		return c06CExpr{"add", func() constant.Constant { return constant.NewAdd(scal(), scal()) }, it}
	case 1:
		return c06CExpr{"xor <n>", func() constant.Constant { return constant.NewXor(any(vt), any(vt)) }, vt}
	case 2:
		return c06CExpr{"icmp", func() constant.Constant { return constant.NewICmp(enum.IPredULT, scal(), scal()) }, types.I1}
	case 3:
		return c06CExpr{"icmp <n>", func() constant.Constant { return constant.NewICmp(enum.IPredEQ, any(vt), any(vt)) }, types.NewVector(n, types.I1)}
	case 4:
		return c06CExpr{"fcmp <n>", func() constant.Constant {
			ft := types.NewVector(n, types.Double)
			return constant.NewFCmp(enum.FPredOLT, any(ft), any(ft))
		}, types.NewVector(n, types.I1)}
	case 5:
		return c06CExpr{"select <n x i1>", func() constant.Constant {
			return constant.NewSelect(any(types.NewVector(n, types.I1)), any(vt), any(vt))
		}, vt}
	case 6:
		return c06CExpr{"extractelement", func() constant.Constant { return constant.NewExtractElement(any(vt), constant.NewInt(types.I32, 0)) }, it}
	case 7:
		return c06CExpr{"insertelement", func() constant.Constant {
			return constant.NewInsertElement(any(vt), scal(), constant.NewInt(types.I32, 0))
		}, vt}
	case 8, 9:
		// the result takes its length from the mask, its element type from the operands
		mt := types.NewVector(mlen, types.I32)
		return c06CExpr{fmt.Sprintf("shufflevector <%d> mask <%d>", n, mlen), func() constant.Constant {
			return constant.NewShuffleVector(any(vt), any(vt), any(mt))
		}, types.NewVector(mlen, it)}
	case 10:
		to := ints[r.intn(len(ints))]
		if to.BitSize <= it.BitSize {
			return c06CExpr{"bitcast <n>", func() constant.Constant { return constant.NewBitCast(any(vt), vt) }, vt}
		}
		return c06CExpr{"zext <n>", func() constant.Constant { return constant.NewZExt(any(vt), types.NewVector(n, to)) }, types.NewVector(n, to)}
	default:
		if r.coin() {
			return c06CExpr{"trunc", func() constant.Constant { return constant.NewTrunc(constant.NewInt(types.I64, 300), types.I8) }, types.I8}
		}
		pt := types.NewPointer(it)
		return c06CExpr{"ptrtoint <n>", func() constant.Constant {
			return constant.NewPtrToInt(any(types.NewVector(n, pt)), types.NewVector(n, types.I64))
		}, types.NewVector(n, types.I64)}
	}
}

func c06Const(c *config, r *rng) {
	o := c.out
	for i := 0; i < 600*c.scale; i++ {
		ce := c06ConstGen(r)
		o.Stat("cexpr." + strings.Fields(ce.op)[0])
		var e constant.Constant
		got := tyOrPanic(func() types.Type { e = ce.build(); return e.Type() })
		want := "Ok " + ce.want.String()
		det := map[string]interface{}{"op": ce.op, "llvm": want, "ir": got}
		if got != want {
			o.Fail("result_type", "", "the type of a constant expression differs from LLVM's rule", det)
			continue
		}
		// through the text: the parser checks the expression against the type written before it
		m := ir.NewModule()
		var src string
		var pt types.Type
		oc, msg := guard(func() error {
			m.NewGlobalDef("g", e)
			src = m.String()
			m2, err := asm.ParseString("c06c.ll", src)
			if err != nil {
				return err
			}
			pt = m2.Globals[0].Init.Type()
			return nil
		})
		det["printed"] = src
		if oc != ocOk {
			det["msg"] = msg
			o.Fail("result_type", "", "the parser rejects (or crashes on) a well-typed constant expression: "+oc.String(), det)
		} else if pt.String() != ce.want.String() {
			det["parser"] = pt.String()
			o.Fail("result_type", "", "the parser's type of a constant expression differs from LLVM's rule", det)
		} else {
			o.Pass("result_type")
		}
		o.Nontrivial("cexpr:" + src)
	}
}

// operands of a NAMED vector (or scalar) type: the result type of a comparison is built from the operand's shape,
// not from its name (`icmp eq %v4 %a, %b` with `%v4 = type <4 x i32>` is a `<4 x i1>`), in the constructors, in the
// parser, and in what a use of the result prints
func c06NamedOperands(c *config) {
	o := c.out
	type tc struct {
		def, op, operandT, want string
		build                   func(x *ir.Param) value.Value
		named                   types.Type
	}
	mk := func(name string, t types.Type) types.Type { t.SetName(name); return t }
	cases := []tc{
		{"%v4 = type <4 x i32>", "icmp eq %v4 %a, %a", "%v4", "<4 x i1>", func(x *ir.Param) value.Value { return ir.NewICmp(enum.IPredEQ, x, x) }, mk("v4", types.NewVector(4, types.I32))},
		{"%vf = type <2 x double>", "fcmp olt %vf %a, %a", "%vf", "<2 x i1>", func(x *ir.Param) value.Value { return ir.NewFCmp(enum.FPredOLT, x, x) }, mk("vf", types.NewVector(2, types.Double))},
		{"%w = type i32", "icmp ult %w %a, %a", "%w", "i1", func(x *ir.Param) value.Value { return ir.NewICmp(enum.IPredULT, x, x) }, mk("w", types.NewInt(32))},
	}
	for _, k := range cases {
		o.Stat("named_operand_types")
		ctorT := tyOrPanic(func() types.Type { return k.build(ir.NewParam("a", k.named)).Type() })
		src := fmt.Sprintf("%s\ndefine %s @f(%s %%a) {\n\t%%r = %s\n\tret %s %%r\n}\n", k.def, k.want, k.operandT, k.op, k.want)
		parseT, printed := "Panic", ""
		oc, msg := guard(func() error {
			m, err := asm.ParseString("c06n.ll", src)
			if err != nil {
				return err
			}
			parseT = "Ok " + m.Funcs[0].Blocks[0].Insts[0].(value.Value).Type().String()
			printed = m.String()
			return nil
		})
		if oc == ocErr {
			parseT = "Err " + msg
		}
		want := "Ok " + k.want
		if ctorT != want || parseT != want || !strings.Contains(printed, "ret "+k.want+" %r") {
			o.Fail("result_type", "", "a comparison over operands of a named type does not have the unnamed result type LLVM gives it",
				map[string]interface{}{"src": src, "want": want, "constructor": ctorT, "parser": parseT, "printed": printed})
		} else {
			o.Pass("result_type")
		}
	}
}
