package main

// C09: integer literals keep their exact value through print and parse; every accepted notation
// denotes the mathematically correct value for the width.

import (
	"fmt"
	"math/big"
	"os"
	"strings"

	"github.com/llir/llvm/asm"
	"github.com/llir/llvm/ir"
	"github.com/llir/llvm/ir/constant"
	"github.com/llir/llvm/ir/types"
)

func init() { props["C09"] = runC09 }

func c09Parse(w uint64, s string) (res string, x *big.Int) {
	var c *constant.Int
	oc, _ := guard(func() error {
		var err error
		c, err = constant.NewIntFromString(types.NewInt(w), s)
		return err
	})
	switch oc {
	case ocOk:
		return "Ok " + c.X.String(), c.X
	case ocErr:
		return "Err", nil
	}
	return "Panic", nil
}

func c09Ident(w uint64, x *big.Int) (res string, lit string) {
	c := &constant.Int{Typ: types.NewInt(w), X: new(big.Int).Set(x)}
	oc, _ := guard(func() error { lit = c.Ident(); return nil })
	if oc != ocOk {
		return "Panic", ""
	}
	return "Ok " + hx(lit), lit
}

func pow2(k uint64) *big.Int { return new(big.Int).Lsh(big.NewInt(1), uint(k)) }

// is x representable in a w-bit integer, read as signed or as unsigned
func representable(w uint64, x *big.Int) bool {
	lo := new(big.Int).Neg(pow2(w - 1))
	return x.Cmp(lo) >= 0 && x.Cmp(pow2(w)) < 0
}

// one constant object per width, whose value is updated in place from one value to the next: what it prints must
// be what a fresh constant with that value prints
var c09Reused = map[uint64]*constant.Int{}

func c09Value(c *config, w uint64, x *big.Int, label string) {
	o := c.out
	if w > 1 {
		obj := c09Reused[w]
		if obj == nil {
			obj = &constant.Int{Typ: types.NewInt(w), X: new(big.Int)}
			c09Reused[w] = obj
		}
		var before, after, fresh string
		oc, _ := guard(func() error {
			before = obj.Ident()
			obj.X.Set(x) // in place
			after = obj.Ident()
			fresh = (&constant.Int{Typ: types.NewInt(w), X: new(big.Int).Set(x)}).Ident()
			return nil
		})
		if oc == ocOk {
			if after != fresh {
				o.Fail("print_parse", "", "a constant whose value was updated in place prints a literal that is not the one of its value", map[string]interface{}{"width": w, "value": x.String(), "printed": after, "fresh_constant_prints": fresh, "printed_before_the_update": before})
			} else {
				o.Pass("print_parse")
			}
		}
	}
	o.Stat("values." + label)
	o.Nontrivial(fmt.Sprintf("%d:%s", w, x))
	// print, then parse
	res, lit := c09Ident(w, x)
	choice := "0"
	if strings.HasPrefix(lit, "u0x") {
		choice = "1"
		o.Stat("printed.hex")
	} else if res != "Panic" {
		o.Stat("printed.decimal_or_bool")
	}
	o.Case("ident", []string{fmt.Sprint(w), x.String(), choice}, []string{res})
	cls := ""
	if w == 1 && x.Sign() != 0 && x.Cmp(big.NewInt(1)) != 0 {
		cls = "i1_out_of_01"
	}
	det := map[string]interface{}{"width": w, "value": x.String(), "printed": lit}
	if res == "Panic" {
		o.Fail("print_parse", cls, "Ident panics on a representable value", det)
	} else {
		pres, back := c09Parse(w, lit)
		o.Case("parse_int", []string{fmt.Sprint(w), hx(lit)}, []string{pres})
		if back == nil || back.Cmp(x) != 0 {
			det["parsed"] = pres
			o.Fail("print_parse", cls, "printed literal does not parse back to the value", det)
		} else {
			o.Pass("print_parse")
		}
	}
	// every notation denotes the right value
	spell := func(s string, want *big.Int, what string) {
		pres, got := c09Parse(w, s)
		o.Case("parse_int", []string{fmt.Sprint(w), hx(s)}, []string{pres})
		if got == nil || got.Cmp(want) != 0 {
			o.Fail("notation_value", "", what, map[string]interface{}{"width": w, "literal": s, "want": want.String(), "got": pres})
		} else {
			o.Pass("notation_value")
		}
	}
	spell(x.String(), x, "signed decimal")
	// leading zeros do not change a decimal literal (no octal reading)
	if x.Sign() >= 0 {
		spell("0"+x.String(), x, "decimal with a leading zero")
		spell("000"+x.String(), x, "decimal with leading zeros")
	} else {
		spell("-0"+new(big.Int).Neg(x).String(), x, "negative decimal with a leading zero")
	}
	if x.Sign() >= 0 {
		h := x.Text(16)
		spell("u0x"+strings.ToUpper(h), x, "u0x upper case")
		spell("u0x"+h, x, "u0x lower case")
		spell("u0x000"+h, x, "u0x leading zeros")
	}
	// two's complement pattern of x in w bits, as s0x: denotes x when x is in the signed range
	lo := new(big.Int).Neg(pow2(w - 1))
	if x.Cmp(lo) >= 0 && x.Cmp(pow2(w-1)) < 0 {
		pat := new(big.Int).Mod(x, pow2(w))
		spell("s0x"+strings.ToUpper(pat.Text(16)), x, "s0x two's complement")
	}
	if w == 1 {
		spell("true", big.NewInt(1), "true")
		spell("false", big.NewInt(0), "false")
	}
}

func runC09(c *config) {
	o := c.out
	r := newRng(c.seed, "c09")
	if os.Getenv("VERIF_C09_CONC_CHILD") != "" {
		// the child process of c09ConcurrentIsolated: the concurrent reads only
		c09Concurrent(c, newRng(c.seed, "c09conc"), 150000*c.scale, 1000*c.scale)
		return
	}
	if c.replay != "" {
		rp := readReplay(c.replay)
		if _, conc := rp.Detail["concurrent"]; conc {
			fmt.Println("replay: the failure depends on the interleaving of goroutines; re-running the concurrent reads")
			c09ConcurrentIsolated(c)
			return
		}
		if c09NamedReplay(c, rp.Detail) {
			return
		}
		w := uint64(rp.Detail["width"].(float64))
		if v, ok := rp.Detail["value"].(string); ok {
			x, _ := new(big.Int).SetString(v, 10)
			c09Value(c, w, x, "replay")
		}
		if l, ok := rp.Detail["literal"].(string); ok {
			res, _ := c09Parse(w, l)
			fmt.Println("parse", w, l, "=>", res)
		}
		return
	}
	// 1. exhaustive small widths: every representable value (signed and unsigned reading)
	maxw := uint64(10)
	if c.tier == "thorough" {
		maxw = 14
	}
	for w := uint64(1); w <= maxw; w++ {
		lo := new(big.Int).Neg(pow2(w - 1))
		for x := new(big.Int).Set(lo); x.Cmp(pow2(w)) < 0; x.Add(x, big.NewInt(1)) {
			c09Value(c, w, new(big.Int).Set(x), "exhaustive_small_width")
		}
	}
	// 2. boundary values for many widths
	widths := []uint64{1, 2, 3, 7, 8, 9, 12, 13, 15, 16, 17, 31, 32, 33, 48, 63, 64, 65, 127, 128, 129, 256, 1024, 4099}
	for w := uint64(1); w <= 64; w++ {
		widths = append(widths, w)
	}
	for _, w := range widths {
		var cand []*big.Int
		for _, k := range []uint64{0, 1, 2, w / 2, w - 2, w - 1, w} {
			if k > w {
				continue
			}
			p := pow2(k)
			for _, d := range []int64{-1, 0, 1} {
				v := new(big.Int).Add(p, big.NewInt(d))
				cand = append(cand, v, new(big.Int).Neg(v))
			}
		}
		cand = append(cand, big.NewInt(0), big.NewInt(4095), big.NewInt(4096), big.NewInt(4097))
		for _, x := range cand {
			if representable(w, x) {
				c09Value(c, w, x, "boundary")
			}
		}
	}
	// 3. random (w, x)
	for i := 0; i < 4000*c.scale; i++ {
		w := uint64(1 + r.intn(130))
		if r.chance(5) {
			w = uint64(200 + r.intn(4000))
		}
		x := new(big.Int)
		bits := 1 + r.intn(int(w))
		for b := 0; b < bits; b += 60 {
			x.Lsh(x, 60)
			x.Or(x, new(big.Int).SetUint64(r.next()>>4))
		}
		x.Mod(x, pow2(uint64(bits)))
		if r.chance(30) && x.Cmp(pow2(w-1)) <= 0 {
			x.Neg(x)
		}
		if representable(w, x) {
			c09Value(c, w, x, "random")
		}
	}
	// 4. values straddling the hex/decimal decision: repeated digits, 4..20 hex digits
	for i := 0; i < 1500*c.scale; i++ {
		n := 4 + r.intn(17)
		var sb strings.Builder
		d1, d2 := r.pick("0123456789ABCDEF"), r.pick("0123456789ABCDEF")
		sb.WriteByte(r.pick("123456789ABCDEF"))
		for k := 1; k < n; k++ {
			switch r.intn(6) {
			case 0:
				sb.WriteByte(r.pick("0123456789ABCDEF"))
			case 1, 2:
				sb.WriteByte(d2)
			default:
				sb.WriteByte(d1)
			}
		}
		x, _ := new(big.Int).SetString(sb.String(), 16)
		if r.coin() {
			// decimal-regular instead
			var db strings.Builder
			db.WriteByte(r.pick("123456789"))
			for k := 1; k < 4+r.intn(16); k++ {
				if r.chance(70) {
					db.WriteByte('0')
				} else {
					db.WriteByte(r.pick("0123456789"))
				}
			}
			x, _ = new(big.Int).SetString(db.String(), 10)
		}
		w := uint64(x.BitLen() + 1 + r.intn(8))
		c09Value(c, w, x, "entropy_straddle")
	}
	// 5. malformed and non-canonical spellings (outcome class only through the model)
	for _, s := range []string{"", "-", "+", "+5", "-0", "007", "abc", "12a", "u0x", "s0x", "u0xG", "s0xZZ", "0x10", "true ", "True", "1.0", "--1", "1e3",
		// a sign after the prefix: big.Int.SetString takes it (the lexer never produces such a token, the public
		// constructor does accept it; found when the regenerated body was proved equal to the model)
		"u0x-F", "u0x+F", "s0x-F", "s0x+80", "s0x-80", "u0x-", "u0x+", "s0x-", "-u0xF", "u0x-0", "s0x-FF", "s0x+7F", "u0xf", "s0xfF", "u0x_F", "1_0", "0b1", " 1", "+"} {
		for _, w := range []uint64{1, 8, 9, 64} {
			res, _ := c09Parse(w, s)
			o.Case("parse_int", []string{fmt.Sprint(w), hx(s)}, []string{res})
			o.Stat("malformed")
		}
	}
	// 6. through the parser: a global initialiser in each notation
	for i := 0; i < 300*c.scale; i++ {
		w := uint64(2 + r.intn(70))
		x := new(big.Int).SetUint64(r.next())
		x.Mod(x, pow2(w-1))
		if r.coin() {
			x.Neg(x)
		}
		lits := []string{x.String()}
		if x.Sign() >= 0 {
			lits = append(lits, "u0x"+strings.ToUpper(x.Text(16)))
		}
		lits = append(lits, "s0x"+strings.ToUpper(new(big.Int).Mod(x, pow2(w)).Text(16)))
		for _, lit := range lits {
			src := fmt.Sprintf("@g = global i%d %s\n", w, lit)
			var got *big.Int
			var text string
			oc, msg := guard(func() error {
				m, err := asm.ParseString("c09.ll", src)
				if err != nil {
					return err
				}
				got = m.Globals[0].Init.(*constant.Int).X
				text = m.String()
				m2, err := asm.ParseString("c09b.ll", text)
				if err != nil {
					return err
				}
				if m2.Globals[0].Init.(*constant.Int).X.Cmp(got) != 0 {
					return fmt.Errorf("value changes through print and parse")
				}
				return nil
			})
			if oc != ocOk || got.Cmp(x) != 0 {
				o.Fail("through_parser", "", "literal in a module", map[string]interface{}{"src": src, "want": x.String(), "printed": text, "msg": msg})
			} else {
				o.Pass("through_parser")
			}
			o.Stat("through_parser")
		}
	}
	// 6b. width 1 through the parser, in every spelling of its two values (the value decides, not the text)
	for _, lit := range []string{"0", "1", "00", "01", "-0", "u0x0", "u0x1", "u0x00", "s0x0", "true", "false"} {
		src := fmt.Sprintf("@g = global i1 %s\ndefine i1 @f(i1 %%p) {\n\t%%r = xor i1 %%p, %s\n\tret i1 %%r\n}\n", lit, lit)
		_, want := c09Parse(1, lit)
		var got, got2 *big.Int
		oc, msg := guard(func() error {
			m, err := asm.ParseString("c09i1.ll", src)
			if err != nil {
				return err
			}
			got = m.Globals[0].Init.(*constant.Int).X
			got2 = m.Funcs[0].Blocks[0].Insts[0].(*ir.InstXor).Y.(*constant.Int).X
			m2, err := asm.ParseString("c09i1b.ll", m.String())
			if err != nil {
				return err
			}
			if m2.Globals[0].Init.(*constant.Int).X.Cmp(got) != 0 {
				return fmt.Errorf("value changes through print and parse")
			}
			return nil
		})
		o.Stat("through_parser_i1")
		if want == nil {
			continue
		}
		if oc != ocOk || got.Cmp(want) != 0 || got2.Cmp(want) != 0 {
			o.Fail("through_parser", "", "an i1 literal in a module is not read as its value", map[string]interface{}{"src": src, "want": want.String(), "got": fmt.Sprint(got), "msg": msg})
		} else {
			o.Pass("through_parser")
		}
	}
	c09NamedTypes(c, newRng(c.seed, "c09named")) // 6c. literals at named integer types, every spelling, every position (c09named.go)
	// 7. one literal text at several widths in one module: the value of a literal depends on the width of its
	// type (s0x reads a sign bit, a decimal may not fit), so what one occurrence meant says nothing about the next
	for i := 0; i < 150*c.scale; i++ {
		n := 1 + r.intn(16)
		x := new(big.Int).SetUint64(r.next() >> uint(64-4*n))
		hex := strings.ToUpper(x.Text(16))
		lit := []string{"s0x" + hex, "u0x" + hex, x.String(), "-" + x.String()}[r.intn(4)]
		base := uint64(4 * len(hex))
		var sb strings.Builder
		var ws []uint64
		for k := 0; k < 2+r.intn(5); k++ {
			w := base + uint64(r.intn(3))*uint64(1+r.intn(9))
			if r.chance(25) && base > 4 {
				w = base - uint64(1+r.intn(3))
			}
			ws = append(ws, w)
		}
		for k, w := range ws {
			fmt.Fprintf(&sb, "@g%d = global i%d %s\n", k, w, lit)
		}
		fmt.Fprintf(&sb, "define i%d @f(i%d %%p) {\n\t%%r = add i%d %%p, %s\n\tret i%d %%r\n}\n", ws[0], ws[0], ws[0], lit, ws[0])
		src := sb.String()
		var m *ir.Module
		oc, msg := guard(func() error {
			var err error
			m, err = asm.ParseString("c09w.ll", src)
			return err
		})
		o.Stat("same_text_several_widths")
		anyErr := false
		for _, w := range ws {
			if res, _ := c09Parse(w, lit); res == "Err" {
				anyErr = true
			}
		}
		if anyErr {
			// a literal that one of the widths cannot read: the module as a whole is rejected or not; no value to compare
			if oc == ocPanic {
				o.Fail("through_parser", "", "literal in a module crashes the parser", map[string]interface{}{"src": src, "msg": msg})
			} else {
				o.Pass("through_parser")
			}
			continue
		}
		bad := ""
		if oc != ocOk {
			bad = "module rejected: " + msg
		} else {
			for k, w := range ws {
				_, want := c09Parse(w, lit)
				got := m.Globals[k].Init.(*constant.Int).X
				if got.Cmp(want) != 0 {
					bad = fmt.Sprintf("@g%d = global i%d %s holds %s, the literal alone reads %s", k, w, lit, got, want)
					break
				}
			}
			if bad == "" {
				_, want := c09Parse(ws[0], lit)
				if got := m.Funcs[0].Blocks[0].Insts[0].(*ir.InstAdd).Y.(*constant.Int).X; got.Cmp(want) != 0 {
					bad = fmt.Sprintf("operand i%d %s holds %s, the literal alone reads %s", ws[0], lit, got, want)
				}
			}
		}
		if bad != "" {
			o.Fail("through_parser", "", bad, map[string]interface{}{"src": src})
		} else {
			o.Pass("through_parser")
		}
	}
	// 8. a literal whose width comes from the first operand of its instruction, that operand being the result of a
	// conversion defined further down in the text (the parser types results before it translates bodies): the
	// literal is read at the width the conversion produces, not at the width it consumes
	for i := 0; i < 120*c.scale; i++ {
		a, bw := uint64(1+r.intn(40)), uint64(1+r.intn(40))
		op := "zext"
		switch {
		case a == bw:
			bw = a + 1 + uint64(r.intn(8))
		case a > bw:
			op = "trunc"
		}
		if op == "zext" && r.coin() {
			op = "sext"
		}
		n := 1 + r.intn(int((bw+3)/4))
		x := new(big.Int).SetUint64(r.next() >> uint(64-4*min(n, 16)))
		hex := strings.ToUpper(x.Text(16))
		lit := []string{"s0x" + hex, "u0x" + hex, x.String()}[r.intn(3)]
		res, want := c09Parse(bw, lit)
		if res == "Err" || want == nil {
			continue
		}
		src := fmt.Sprintf("define i%d @f(i%d %%b) {\nentry:\n\tbr label %%def\nuse:\n\t%%y = xor i%d %%r, %s\n\tret i%d %%y\ndef:\n\t%%r = %s i%d %%b to i%d\n\tbr label %%use\n}\n", bw, a, bw, lit, bw, op, a, bw)
		var got *big.Int
		oc, msg := guard(func() error {
			m, err := asm.ParseString("c09fw.ll", src)
			if err != nil {
				return err
			}
			got = m.Funcs[0].Blocks[1].Insts[0].(*ir.InstXor).Y.(*constant.Int).X
			return nil
		})
		o.Stat("literal_after_forward_conversion")
		if oc != ocOk || got.Cmp(want) != 0 {
			o.Fail("through_parser", "", "a literal next to the result of a conversion defined later in the text is not read at the result's width", map[string]interface{}{"src": src, "want": want.String(), "got": fmt.Sprint(got), "msg": msg})
		} else {
			o.Pass("through_parser")
		}
	}
	// 9. concurrent reads (c09conc.go)
	c09ConcurrentIsolated(c)
	o.Sample(map[string]interface{}{"width": 16, "value": "65535", "printed": func() string { _, l := c09Ident(16, big.NewInt(65535)); return l }()})
	o.Sample(map[string]interface{}{"width": 64, "literal": "s0xFFFFFFFFFFFFFFFF", "parsed": func() string { r, _ := c09Parse(64, "s0xFFFFFFFFFFFFFFFF"); return r }()})
}
