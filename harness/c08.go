package main

// C08: unnamed values are numbered exactly as LLVM numbers them.

import (
	"fmt"
	"strings"

	"github.com/llir/llvm/asm"
	"github.com/llir/llvm/ir"
	"github.com/llir/llvm/ir/constant"
	"github.com/llir/llvm/ir/types"
	"github.com/llir/llvm/ir/value"
)

func init() { props["C08"] = runC08 }

// one entry of the numbering walk
type c08Item struct {
	kind  byte // P param, B block, I value instruction, C void call, S store, V non-void call, R ret (terminator), N invoke non-void, O invoke void
	named bool
	id    int64 // stored ID before the pass (0 = unset)
}

func (it c08Item) isValue() bool {
	return it.kind != 'C' && it.kind != 'S' && it.kind != 'R' && it.kind != 'O' && it.kind != 'M'
}

type c08Named interface {
	SetName(string)
	SetID(int64)
	ID() int64
	IsUnnamed() bool
}

// builds an ir.Func realising the shape; returns the objects in walk order
func c08Build(items []c08Item) (*ir.Func, []c08Named) {
	m := ir.NewModule()
	voidF := m.NewFunc("vf", types.Void)
	intF := m.NewFunc("if", types.I32)
	var params []*ir.Param
	i := 0
	for ; i < len(items) && items[i].kind == 'P'; i++ {
		params = append(params, ir.NewParam("", types.I32))
	}
	f := m.NewFunc("f", types.Void, params...)
	var objs []c08Named
	for _, p := range params {
		objs = append(objs, p)
	}
	var cur *ir.Block
	ptr := constant.NewNull(types.NewPointer(types.I32))
	for ; i < len(items); i++ {
		switch items[i].kind {
		case 'B':
			cur = f.NewBlock("")
			objs = append(objs, cur)
		case 'I':
			objs = append(objs, cur.NewAdd(constant.NewInt(types.I32, 1), constant.NewInt(types.I32, 2)))
		case 'C':
			objs = append(objs, cur.NewCall(voidF))
		case 'V':
			objs = append(objs, cur.NewCall(intF))
		case 'S':
			cur.NewStore(constant.NewInt(types.I32, 1), ptr)
			objs = append(objs, nil)
		case 'R':
			cur.NewRet(nil)
			objs = append(objs, nil)
		case 'N', 'O':
			callee := intF
			if items[i].kind == 'O' {
				callee = voidF
			}
			// the targets are filled in afterwards (next blocks), a self reference is enough for numbering
			t := cur.NewInvoke(callee, nil, cur, cur)
			objs = append(objs, t)
		case 'W':
			// catchswitch: a terminator with a (token) value
			objs = append(objs, cur.NewCatchSwitch(constant.None, []*ir.Block{cur}, nil))
		case 'L', 'M':
			callee := intF
			if items[i].kind == 'M' {
				callee = voidF
			}
			objs = append(objs, cur.NewCallBr(callee, nil, cur, cur))
		}
	}
	for k, it := range items {
		if objs[k] == nil {
			continue
		}
		if it.named {
			objs[k].SetName(fmt.Sprintf("n%d", k))
		} else {
			objs[k].SetID(it.id)
		}
	}
	return f, objs
}

func c08GenShape(r *rng) []c08Item {
	var items []c08Item
	for k := r.intn(4); k > 0; k-- {
		items = append(items, c08Item{kind: 'P', named: r.chance(40)})
	}
	nb := 1 + r.intn(4)
	for b := 0; b < nb; b++ {
		items = append(items, c08Item{kind: 'B', named: r.chance(40)})
		for k := r.intn(5); k > 0; k-- {
			kind := "IIICSVV"[r.intn(7)]
			items = append(items, c08Item{kind: kind, named: r.chance(35) && kind != 'S'})
		}
		t := "RRRRNOWLM"[r.intn(9)]
		items = append(items, c08Item{kind: t, named: r.chance(30) && (t == 'N' || t == 'W' || t == 'L')})
	}
	// void calls and void invokes can carry no name
	for i := range items {
		if items[i].kind == 'C' || items[i].kind == 'O' || items[i].kind == 'R' || items[i].kind == 'M' {
			items[i].named = false
		}
	}
	return items
}

func c08Enc(items []c08Item) string {
	var s []string
	for _, it := range items {
		s = append(s, fmt.Sprintf("%s:%d:%s:%s", b2s(it.named), it.id, b2s(it.isValue()), b2s(it.kind != 'S' && it.kind != 'R')))
	}
	return strings.Join(s, ",")
}

// LLVM's numbering, stated independently
func c08Llvm(items []c08Item) []int64 {
	ids := make([]int64, len(items))
	k := int64(0)
	for i, it := range items {
		ids[i] = -1
		if it.isValue() && !it.named {
			ids[i] = k
			k++
		}
	}
	return ids
}

func c08Run(c *config, items []c08Item, label string, sample bool) {
	o := c.out
	f, objs := c08Build(items)
	var err error
	oc, _ := guard(func() error { err = f.AssignIDs(); return err })
	res := "Err"
	var got []string
	if oc == ocOk {
		for k, it := range items {
			if objs[k] != nil && !it.named && it.isValue() {
				got = append(got, fmt.Sprint(objs[k].ID()))
			} else if objs[k] != nil && !it.named {
				got = append(got, fmt.Sprint(objs[k].ID()))
			} else {
				got = append(got, "-")
			}
		}
		res = "Ok " + strings.Join(got, ",")
	}
	if oc == ocPanic {
		res = "Panic"
	}
	o.Case("assign_ids", []string{c08Enc(items)}, []string{res})
	o.Stat("functions." + label)
	o.Nontrivial("f:" + c08Enc(items))
	if sample {
		o.Sample(map[string]interface{}{"shape": c08Enc(items), "result": res})
	}
	// oracle on a never-numbered function: LLVM's numbering, and idempotent
	fresh := true
	for _, it := range items {
		if it.id != 0 {
			fresh = false
		}
	}
	if !fresh {
		// stored IDs: the generator knows whether they are the positions LLVM assigns (accepted, and left as
		// they are) or whether one of them is another number, too high or too low (an error, never a renumbering)
		wantS := c08Llvm(items)
		switch label {
		case "consistent_ids":
			bad := oc != ocOk
			for k, it := range items {
				if !bad && objs[k] != nil && !it.named && wantS[k] >= 0 && objs[k].ID() != wantS[k] {
					bad = true
				}
			}
			if bad {
				o.Fail("stored_ids", "", "stored IDs equal to LLVM's numbers are rejected or changed", map[string]interface{}{"shape": c08Enc(items), "result": res})
			} else {
				o.Pass("stored_ids")
			}
		case "one_wrong_id":
			if oc != ocErr {
				o.Fail("stored_ids", "", "a stored ID that is not the value's position is accepted (or crashes)", map[string]interface{}{"shape": c08Enc(items), "result": res})
			} else {
				o.Pass("stored_ids")
			}
		}
		return
	}
	want := c08Llvm(items)
	if oc != ocOk {
		o.Fail("fresh_numbering", "", "AssignIDs fails on a never-numbered function", map[string]string{"shape": c08Enc(items)})
		return
	}
	for k, it := range items {
		if objs[k] == nil || it.named {
			continue
		}
		if want[k] >= 0 && objs[k].ID() != want[k] {
			o.Fail("fresh_numbering", "", "not LLVM's number", map[string]interface{}{"shape": c08Enc(items), "at": k, "want": want[k], "got": objs[k].ID()})
			return
		}
	}
	o.Pass("fresh_numbering")
	before := fmt.Sprint(got)
	if err2 := f.AssignIDs(); err2 != nil {
		o.Fail("idempotent", "", "second AssignIDs fails", map[string]string{"shape": c08Enc(items)})
		return
	}
	var again []string
	for k, it := range items {
		if objs[k] != nil && !it.named {
			again = append(again, fmt.Sprint(objs[k].ID()))
		} else {
			again = append(again, "-")
		}
	}
	if fmt.Sprint(again) != before {
		o.Fail("idempotent", "", "second AssignIDs changes IDs", map[string]string{"shape": c08Enc(items)})
	} else {
		o.Pass("idempotent")
	}
}

// ---- text level: explicit LLVM numbering must be accepted with every %N bound to the right value

func c08Text(r *rng, items []c08Item, explicit bool, perturb int) (string, int) {
	want := c08Llvm(items)
	names := c08Names(items, want)
	name := func(k int) string {
		if items[k].named {
			return "%" + names[k]
		}
		id := want[k]
		if k == perturb {
			id += 1 + int64(r.intn(2))
			if c08PerturbToZero {
				id = 0
			}
		}
		return fmt.Sprintf("%%%d", id)
	}
	var b strings.Builder
	b.WriteString("declare void @vf()\ndeclare i32 @if()\n")
	var ps []string
	i := 0
	for ; i < len(items) && items[i].kind == 'P'; i++ {
		if items[i].named || explicit || i == perturb {
			ps = append(ps, "i32 "+name(i))
		} else {
			ps = append(ps, "i32")
		}
	}
	fmt.Fprintf(&b, "define void @f(%s) personality i8* null {\n", strings.Join(ps, ", "))
	lastVal := -1
	uses := 0
	first := true
	for ; i < len(items); i++ {
		it := items[i]
		lhs := ""
		if it.isValue() && it.kind != 'B' && (it.named || explicit || i == perturb) {
			lhs = name(i) + " = "
		}
		switch it.kind {
		case 'B':
			if it.named {
				fmt.Fprintf(&b, "%s:\n", names[i])
			} else if explicit || i == perturb || !first {
				id := want[i]
				if i == perturb {
					id += 1
					if c08PerturbToZero {
						id = 0
					}
				}
				fmt.Fprintf(&b, "%d:\n", id)
			}
			first = false
		case 'I':
			op := "1"
			if lastVal >= 0 && r.coin() {
				op = name(lastVal)
				uses++
			}
			fmt.Fprintf(&b, "\t%sadd i32 %s, 2\n", lhs, op)
			lastVal = i
		case 'C':
			// the callee type may be written as the return type or as the full function type
			b.WriteString("\tcall " + []string{"void", "void ()"}[r.intn(2)] + " @vf()\n")
		case 'V':
			fmt.Fprintf(&b, "\t%scall %s @if()\n", lhs, []string{"i32", "i32 ()"}[r.intn(2)])
			lastVal = i
		case 'S':
			b.WriteString("\tstore i32 1, i32* null\n")
		case 'R':
			b.WriteString("\tret void\n")
		case 'N', 'O':
			// invoke to the next block (or itself when last)
			tgt := "%" + c08BlockLabel(items, want, names, i)
			if it.kind == 'N' {
				fmt.Fprintf(&b, "\t%sinvoke %s @if() to label %s unwind label %s\n", lhs, []string{"i32", "i32 ()"}[r.intn(2)], tgt, tgt)
			} else {
				fmt.Fprintf(&b, "\tinvoke %s @vf() to label %s unwind label %s\n", []string{"void", "void ()"}[r.intn(2)], tgt, tgt)
			}
		case 'W':
			tgt := "%" + c08BlockLabel(items, want, names, i)
			fmt.Fprintf(&b, "\t%scatchswitch within none [label %s] unwind to caller\n", lhs, tgt)
		case 'L', 'M':
			tgt := "%" + c08BlockLabel(items, want, names, i)
			if it.kind == 'L' {
				fmt.Fprintf(&b, "\t%scallbr i32 @if() to label %s [label %s]\n", lhs, tgt, tgt)
			} else {
				fmt.Fprintf(&b, "\tcallbr void @vf() to label %s [label %s]\n", tgt, tgt)
			}
		}
	}
	b.WriteString("}\n")
	// the address of every block but the first, taken from outside the function: by number or by name
	firstB := true
	for k, it := range items {
		if it.kind != 'B' {
			continue
		}
		if firstB {
			firstB = false
			continue
		}
		if it.named {
			fmt.Fprintf(&b, "@ba%d = global i8* blockaddress(@f, %%%s)\n", k, names[k])
		} else {
			id := want[k]
			if k == perturb {
				id++
				if c08PerturbToZero {
					id = 0
				}
			}
			fmt.Fprintf(&b, "@ba%d = global i8* blockaddress(@f, %%%d)\n", k, id)
		}
	}
	return b.String(), uses
}

// c08Names gives the named entries their names: n<k>, or for every third one a quoted name that reads as a
// number carried by an unnamed value of the same function (%"3" next to %3: a name, not a number)
func c08Names(items []c08Item, want []int64) []string {
	names := make([]string, len(items))
	used := map[int64]bool{}
	for k, it := range items {
		if !it.named {
			continue
		}
		names[k] = fmt.Sprintf("n%d", k)
		// (blocks only: a quoted number as the name of an instruction result is rejected, KF-03 under C11)
		if k%3 != 0 || it.kind != 'B' {
			continue
		}
		for d := 1; d < len(items); d++ {
			j := (k + d) % len(items)
			if !items[j].named && want[j] >= 0 && !used[want[j]] {
				used[want[j]] = true
				names[k] = fmt.Sprintf("\"%d\"", want[j])
				break
			}
		}
	}
	return names
}

// set while a text with a misplaced number 0 is rendered
var c08PerturbToZero bool

func c08BlockLabel(items []c08Item, want []int64, names []string, from int) string {
	// the enclosing block of position from
	for k := from; k >= 0; k-- {
		if items[k].kind == 'B' {
			if items[k].named {
				return names[k]
			}
			return fmt.Sprint(want[k])
		}
	}
	return "0"
}

func c08ParseCheck(c *config, r *rng, items []c08Item) {
	o := c.out
	want := c08Llvm(items)
	for _, explicit := range []bool{true, false} {
		src, _ := c08Text(r, items, explicit, -1)
		var m *ir.Module
		var text string
		oc, msg := guard(func() error {
			var err error
			m, err = asm.ParseString("c08.ll", src)
			if err != nil {
				return err
			}
			text = m.String()
			if printedPanic(text) {
				panic(text)
			}
			return nil
		})
		o.Stat(fmt.Sprintf("parse.explicit_%v", explicit))
		if strings.Contains(src, "\":\n") {
			o.Stat("parse.quoted_numeric_block_name")
		}
		det := map[string]interface{}{"src": src, "msg": msg}
		if oc != ocOk {
			o.Fail("llvm_numbering_accepted", "", "a numbering LLVM accepts is rejected or crashes: "+oc.String(), det)
			continue
		}
		// IDs after parse equal LLVM's; every %N operand is the N-th unnamed value
		f := m.Funcs[2]
		var walk []value.Value
		for _, p := range f.Params {
			walk = append(walk, p)
		}
		for _, b := range f.Blocks {
			walk = append(walk, b)
			for _, in := range b.Insts {
				if v, ok := in.(value.Value); ok {
					walk = append(walk, v)
				} else {
					walk = append(walk, nil)
				}
			}
			if v, ok := b.Term.(value.Value); ok {
				walk = append(walk, v)
			} else {
				walk = append(walk, nil)
			}
		}
		bad := ""
		if len(walk) != len(items) {
			bad = fmt.Sprintf("walk has %d entries, shape %d", len(walk), len(items))
		}
		byID := map[int64]value.Value{}
		for k := 0; k < len(items) && bad == ""; k++ {
			if want[k] < 0 || walk[k] == nil {
				continue
			}
			n, ok := walk[k].(c08Named)
			if !ok || n.ID() != want[k] {
				bad = fmt.Sprintf("entry %d has ID %v, LLVM numbers it %d", k, walk[k], want[k])
			}
			byID[want[k]] = walk[k]
		}
		// bindings: each add's first operand that is an unnamed local must be the value carrying that ID
		for _, b := range f.Blocks {
			for _, in := range b.Insts {
				if a, ok := in.(*ir.InstAdd); ok {
					if x, ok := a.X.(c08Named); ok && x.IsUnnamed() {
						if byID[x.ID()] != a.X {
							bad = "a %N operand is not bound to the N-th unnamed value"
						}
					}
				}
			}
		}
		// a blockaddress taken outside the function is the block itself
		for _, g := range m.Globals {
			var k int
			if _, err := fmt.Sscanf(g.Name(), "ba%d", &k); err != nil || k >= len(walk) {
				continue
			}
			o.Stat("parse.blockaddress_outside")
			if ba, ok := g.Init.(*constant.BlockAddress); !ok || value.Value(ba.Block) != walk[k] {
				bad = fmt.Sprintf("blockaddress of entry %d (@%s) is not bound to that block", k, g.Name())
			}
		}
		if bad != "" {
			det["printed"] = text
			o.Fail("llvm_numbering_accepted", "", bad, det)
			continue
		}
		// printed text: re-parses, same text (numbering again changes nothing)
		m2, err := asm.ParseString("c08b.ll", text)
		if err != nil || m2.String() != text {
			det["printed"] = text
			o.Fail("print_parse_numbering", "", "printed numbering is not accepted / not stable", det)
			continue
		}
		o.Pass("llvm_numbering_accepted")
	}
	// a numbering LLVM rejects (one explicit ID off) must be rejected
	var cand []int
	for k, it := range items {
		if want[k] >= 0 && !it.named && want[k] > 0 {
			cand = append(cand, k)
		}
	}
	// the same with the number 0 written on a value that is not the first unnamed one (an explicit 0 cannot be
	// told from no number once it is stored in the identifier: KF-42, repaired in the parser)
	if len(cand) > 0 {
		k := cand[r.intn(len(cand))]
		c08PerturbToZero = true
		src, _ := c08Text(r, items, true, k)
		c08PerturbToZero = false
		oc, _ := guard(func() error {
			_, err := asm.ParseString("c08z.ll", src)
			return err
		})
		o.Stat("parse.explicit_zero_misplaced")
		if oc == ocOk {
			o.Fail("wrong_numbering_rejected", "", "a function with the number 0 on a later unnamed value is accepted", map[string]interface{}{"src": src})
		} else if oc == ocPanic {
			o.Fail("wrong_numbering_rejected", "", "a mis-numbered function crashes the parser", map[string]interface{}{"src": src})
		} else {
			o.Pass("wrong_numbering_rejected")
		}
	}
	if len(cand) > 0 {
		k := cand[r.intn(len(cand))]
		src, _ := c08Text(r, items, true, k)
		oc, _ := guard(func() error {
			_, err := asm.ParseString("c08c.ll", src)
			return err
		})
		if oc == ocOk {
			o.Fail("wrong_numbering_rejected", "", "a mis-numbered function is accepted", map[string]interface{}{"src": src})
		} else if oc == ocPanic {
			o.Fail("wrong_numbering_rejected", "", "a mis-numbered function crashes the parser", map[string]interface{}{"src": src})
		} else {
			o.Pass("wrong_numbering_rejected")
		}
	}
}

// ---- module level

// c08ModuleText renders a module shape: named and unnamed global variables, aliases, ifuncs and
// functions in any textual interleaving, the unnamed ones numbered the way LLVM numbers them
func c08ModuleText(r *rng) (src string, enc []string, kinds []byte, named []bool) {
	n := 1 + r.intn(7)
	kinds = make([]byte, n)
	named = make([]bool, n)
	for i := range kinds {
		kinds[i] = "GGAIFF"[r.intn(6)]
		named[i] = r.chance(35)
	}
	// aliases and ifuncs need targets: a named global and a named function first
	var b strings.Builder
	b.WriteString("@tg = global i32 0\ndeclare void @tf()\n")
	id := 0
	enc = append(enc, "G:1", "F:1")
	var refs []string
	for i := range kinds {
		// definitions of other namespaces in between, with IDs of their own: they take no global number
		if r.chance(35) {
			k := 10*i + r.intn(10)
			switch r.intn(5) {
			case 0:
				fmt.Fprintf(&b, "attributes #%d = { nounwind }\n", k)
			case 1:
				fmt.Fprintf(&b, "!%d = !{}\n", k)
			case 2:
				fmt.Fprintf(&b, "%%t%d = type { i32 }\n", k)
			case 3:
				fmt.Fprintf(&b, "$c%d = comdat any\n", k)
			default:
				fmt.Fprintf(&b, "!n%d = !{}\n", k)
			}
		}
		nm := fmt.Sprintf("@%d", id)
		if named[i] {
			nm = fmt.Sprintf("@m%d", i)
		} else {
			// a use of the unnamed entity by its number: it must bind the i-th entity of the text (checked by kind
			// and, for global variables, by the initialiser i)
			switch kinds[i] {
			case 'G', 'A':
				refs = append(refs, fmt.Sprintf("@ref%d = global i32* @%d\n", i, id))
			default:
				refs = append(refs, fmt.Sprintf("@ref%d = global void ()* @%d\n", i, id))
			}
			id++
		}
		switch kinds[i] {
		case 'G':
			fmt.Fprintf(&b, "%s = global i32 %d\n", nm, i)
		case 'A':
			fmt.Fprintf(&b, "%s = alias i32, i32* @tg\n", nm)
		case 'I':
			fmt.Fprintf(&b, "%s = ifunc void (), void ()* @tf\n", nm)
		case 'F':
			fmt.Fprintf(&b, "declare void %s()\n", nm)
		}
		enc = append(enc, fmt.Sprintf("%c:%s", kinds[i], b2s(named[i])))
	}
	for _, ref := range refs {
		b.WriteString(ref)
		enc = append(enc, "G:1")
	}
	return b.String(), enc, kinds, named
}

func c08Module(c *config, r *rng, sample bool) {
	o := c.out
	src, enc, kinds, named := c08ModuleText(r)
	var text string
	stage := "parse"
	misbound := ""
	oc, msg := guard(func() error {
		m, err := asm.ParseString("c08m.ll", src)
		if err != nil {
			return err
		}
		// every @ref<i> holds the address of the i-th entity of the text: of its kind, and for a global variable
		// the one that was initialised with i
		for _, g := range m.Globals {
			var i int64
			if n, _ := fmt.Sscanf(g.Name(), "ref%d", &i); n == 1 && int(i) < len(kinds) {
				switch tgt := g.Init.(type) {
				case *ir.Global:
					if ci, ok := tgt.Init.(*constant.Int); kinds[i] != 'G' || !ok || ci.X.Int64() != i {
						misbound = fmt.Sprintf("%s is bound to %s, not to entity %d of the text (kind %c)", g.Name(), tgt.LLString(), i, kinds[i])
					}
				case *ir.Alias:
					if kinds[i] != 'A' {
						misbound = fmt.Sprintf("%s is bound to an alias, entity %d of the text is of kind %c", g.Name(), i, kinds[i])
					}
				case *ir.IFunc:
					if kinds[i] != 'I' {
						misbound = fmt.Sprintf("%s is bound to an ifunc, entity %d of the text is of kind %c", g.Name(), i, kinds[i])
					}
				case *ir.Func:
					if kinds[i] != 'F' {
						misbound = fmt.Sprintf("%s is bound to a function, entity %d of the text is of kind %c", g.Name(), i, kinds[i])
					}
				default:
					misbound = fmt.Sprintf("%s is bound to a %T", g.Name(), g.Init)
				}
			}
		}
		stage = "print"
		text = m.String()
		if printedPanic(text) {
			panic(text)
		}
		return nil
	})
	res := "Ok"
	if oc != ocOk {
		res = "Err"
	}
	o.Case("print_after_parse", []string{strings.Join(enc, ",")}, []string{res})
	o.Stat("modules")
	o.Nontrivial("m:" + strings.Join(enc, ","))
	if sample {
		o.Sample(map[string]interface{}{"module": src, "result": res})
	}
	// class predicate of KF-13: an unnamed entity of a later group textually before an unnamed one of an earlier group
	rank := map[byte]int{'G': 0, 'A': 1, 'I': 2, 'F': 3}
	cls := ""
	maxRank := -1
	for i := range kinds {
		if named[i] {
			continue
		}
		if rank[kinds[i]] < maxRank {
			cls = "unnamed_func_before_unnamed_global"
		}
		if rank[kinds[i]] > maxRank {
			maxRank = rank[kinds[i]]
		}
	}
	det := map[string]interface{}{"src": src, "stage": stage, "msg": msg}
	if oc != ocOk {
		o.Fail("print_after_parse", cls, "a valid module is rejected or printing fails at "+stage, det)
		return
	}
	if misbound != "" {
		o.Fail("unnamed_global_binding", "", misbound, det)
	} else {
		o.Pass("unnamed_global_binding")
	}
	m2, err := asm.ParseString("c08n.ll", text)
	if err != nil || m2.String() != text {
		det["printed"] = text
		o.Fail("print_after_parse", cls, "printed module is not stable under parse and print", det)
		return
	}
	o.Pass("print_after_parse")
}

func runC08(c *config) {
	r := newRng(c.seed, "c08")
	if c.replay != "" {
		rp := readReplay(c.replay)
		if src, ok := rp.Detail["src"].(string); ok {
			m, err := asm.ParseString("replay.ll", src)
			fmt.Println("parse:", err)
			if err == nil {
				oc, msg := guard(func() error { fmt.Println(m.String()); return nil })
				fmt.Println(oc, msg)
			}
		}
		return
	}
	for i := 0; i < 2000*c.scale; i++ {
		items := c08GenShape(r)
		c08Run(c, items, "fresh", i < 2)
		// the same shape with stored IDs: the right ones, or one perturbed
		want := c08Llvm(items)
		stored := append([]c08Item(nil), items...)
		for k := range stored {
			if want[k] > 0 && r.chance(60) {
				stored[k].id = want[k]
			}
		}
		c08Run(c, stored, "consistent_ids", false)
		if r.coin() {
			k := r.intn(len(stored))
			if want[k] >= 0 && !stored[k].named {
				stored[k].id = want[k] + 1 + int64(r.intn(3))
				if want[k] >= 2 && r.coin() {
					// a number that is too low (an earlier value's), not only one that is too high
					stored[k].id = 1 + int64(r.intn(int(want[k])-1))
				}
				c08Run(c, stored, "one_wrong_id", false)
			}
		}
		if i%3 == 0 {
			c08ParseCheck(c, r, items)
		}
	}
	for i := 0; i < 500*c.scale; i++ {
		c08Module(c, r, i < 2)
	}
	for i, rq := 0, newRng(c.seed, "c08-quoted-numbers"); i < 300*c.scale; i++ {
		c08QuotedModule(c, rq) // names that are numbers in quotes next to unnamed entities (c08quoted.go)
	}
	// numbers written with leading zeros are the same numbers (decimal, as LLVM reads them): a chain of unnamed
	// values long enough to have IDs of 8 and more, every definition and use spelled with up to two leading zeros
	for i := 0; i < 60*c.scale; i++ {
		n := 9 + r.intn(14)
		sp := func(id int) string { return "%" + strings.Repeat("0", r.intn(3)) + fmt.Sprint(id) }
		var b strings.Builder
		b.WriteString("define i32 @f(i32 %a) {\n")
		fmt.Fprintf(&b, "\t%s = add i32 %%a, 1\n", sp(1))
		for id := 2; id <= n; id++ {
			fmt.Fprintf(&b, "\t%s = add i32 %s, %s\n", sp(id), sp(id-1), sp(1+r.intn(id-1)))
		}
		fmt.Fprintf(&b, "\tret i32 %s\n}\n", sp(n))
		src := b.String()
		c.out.Stat("parse.leading_zero_ids")
		bad := ""
		oc, msg := guard(func() error {
			m, err := asm.ParseString("c08lz.ll", src)
			if err != nil {
				return err
			}
			insts := m.Funcs[0].Blocks[0].Insts
			if len(insts) != n {
				return fmt.Errorf("%d instructions, %d written", len(insts), n)
			}
			for k := 1; k < n; k++ {
				if insts[k].(*ir.InstAdd).X != value.Value(insts[k-1].(*ir.InstAdd)) {
					bad = fmt.Sprintf("the first operand of value %d is not value %d", k+1, k)
				}
			}
			if m.Funcs[0].Blocks[0].Term.(*ir.TermRet).X != value.Value(insts[n-1].(*ir.InstAdd)) {
				bad = "the returned value is not the last one"
			}
			return nil
		})
		if oc != ocOk || bad != "" {
			c.out.Fail("llvm_numbering_accepted", "", "numbers with leading zeros are rejected or bound to other values: "+bad, map[string]interface{}{"src": src, "msg": msg})
		} else {
			c.out.Pass("llvm_numbering_accepted")
		}
	}
	// the first print of a constructed module: a reference from an earlier function to an unnamed block of a later
	// one shows the number LLVM gives that block, wherever declarations stand among the functions
	for variant := 0; variant < 12; variant++ {
		m := ir.NewModule()
		if variant%3 == 1 {
			m.NewFunc("decl_first", types.Void)
		}
		early := m.NewFunc("early", types.NewPointer(types.I8))
		if variant%3 == 2 {
			m.NewFunc("decl_between", types.Void, ir.NewParam("", types.I32))
		}
		f := m.NewFunc("f", types.Void, ir.NewParam("", types.I32))
		e := f.NewBlock("")
		nadd := variant / 3
		for k := 0; k < nadd; k++ {
			e.NewAdd(f.Params[0], f.Params[0])
		}
		bb := f.NewBlock("")
		e.NewBr(bb)
		bb.NewRet(nil)
		early.NewBlock("").NewRet(constant.NewBlockAddress(f, bb))
		want := fmt.Sprintf("blockaddress(@f, %%%d)", 2+nadd) // parameter %0, entry block %1, the adds, then the block
		var first, second string
		oc, msg := guard(func() error { first = m.String(); second = m.String(); return nil })
		c.out.Stat("constructed_first_print")
		if oc != ocOk || !strings.Contains(first, want) || first != second {
			c.out.Fail("llvm_numbering", "", "the first print of a constructed module does not show LLVM's number for an unnamed block referred to from an earlier function", map[string]interface{}{"printed": first, "second": second, "expected": want, "msg": msg})
		} else {
			c.out.Pass("llvm_numbering")
		}
	}
	// declarations: the unnamed parameters are numbered too, whether the function is printed on its own
	// (Func.LLString on a function nothing has printed yet) or through its module
	for i := 0; i < 200*c.scale; i++ {
		np := r.intn(6)
		var pnames []string
		var want []string
		id := 0
		for k := 0; k < np; k++ {
			if r.chance(35) {
				pnames = append(pnames, fmt.Sprintf("p%d", k))
				want = append(want, fmt.Sprintf("i32 %%p%d", k))
			} else {
				pnames = append(pnames, "")
				want = append(want, fmt.Sprintf("i32 %%%d", id))
				id++
			}
		}
		expect := "declare void @d(" + strings.Join(want, ", ") + ")"
		for _, through := range []string{"function", "module"} {
			m := ir.NewModule()
			ps := make([]*ir.Param, len(pnames))
			for k, nm := range pnames {
				ps[k] = ir.NewParam(nm, types.I32)
			}
			f := m.NewFunc("d", types.Void, ps...)
			var got string
			oc, msg := guard(func() error {
				if through == "function" {
					got = f.LLString()
				} else {
					got = strings.TrimSpace(m.String())
				}
				return nil
			})
			c.out.Stat("declarations." + through)
			if oc != ocOk || got != expect {
				c.out.Fail("llvm_numbering", "", "the parameters of a declaration are not numbered as LLVM numbers them", map[string]interface{}{"printed": got, "expected": expect, "through": through, "msg": msg})
			} else {
				c.out.Pass("llvm_numbering")
			}
		}
	}
}
