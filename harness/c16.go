package main

// C16: type equality is a structural equivalence matching LLVM type identity, preserved by print/parse.

import (
	"fmt"
	"math/big"
	"strings"

	"github.com/llir/llvm/asm"
	"github.com/llir/llvm/ir/types"
)

func init() { props["C16"] = runC16 }

func c16Equal(a, b types.Type) (res bool, oc outcome) {
	oc, _ = guard(func() error { res = a.Equal(b); return nil })
	return
}

func runC16(c *config) {
	o := c.out
	r := newRng(c.seed, "c16")
	g := newTyGen(r)
	u := newUniverse()
	if c.replay != "" {
		fmt.Println("replay: re-run ./check C16 (the generator is deterministic for a seed)")
		return
	}
	// a universe of types: enumerated shallow ones plus random deep ones
	var trees []*tyTree
	seen := map[string]bool{}
	add := func(t *tyTree) {
		e := t.enc()
		if !seen[e] {
			seen[e] = true
			trees = append(trees, t)
		}
	}
	for _, k := range "vmlkM" {
		add(&tyTree{kind: byte(k)})
	}
	for i := 0; i < 250*c.scale; i++ {
		add(c16Widen(r, g.any(1+r.intn(4)), 35))
	}
	// every boundary length in an array, alone and nested (under a pointer, as a struct field, as the element and
	// as the container of another array, as a parameter of a function type); the boundary vector lengths
	i8 := func() *tyTree { return &tyTree{kind: 'i', n: 8} }
	for _, l := range c16ArrayBounds {
		arr := func() *tyTree { return &tyTree{kind: 'A', n: l, children: []*tyTree{i8()}} }
		add(arr())
		add(&tyTree{kind: 'p', children: []*tyTree{arr()}})
		add(&tyTree{kind: 'S', children: []*tyTree{{kind: 'i', n: 1}, arr()}})
		add(&tyTree{kind: 'A', n: 2, children: []*tyTree{arr()}})
		add(&tyTree{kind: 'A', n: l, children: []*tyTree{{kind: 'A', n: 2, children: []*tyTree{{kind: 'f', n: 2}}}}})
		add(&tyTree{kind: 'F', children: []*tyTree{{kind: 'v'}, {kind: 'p', children: []*tyTree{arr()}}}})
	}
	for _, l := range c16VectorBounds {
		add(&tyTree{kind: 'V', n: l, children: []*tyTree{i8()}})
		add(&tyTree{kind: 'V', flag: true, n: l, children: []*tyTree{{kind: 'f', n: 1}}})
	}
	// every identified struct of the universe next to the literal struct with the very same fields
	// (an identified struct is identified by its name, never by its body), also nested
	for _, nm := range g.names {
		ns := u.namedStruct(nm)
		lit := &tyTree{kind: 'S'}
		for _, f := range ns.Fields {
			lit.children = append(lit.children, treeOf(f))
		}
		named := &tyTree{kind: 'N', name: nm}
		add(named)
		add(lit)
		add(&tyTree{kind: 'A', n: 2, children: []*tyTree{named}})
		add(&tyTree{kind: 'A', n: 2, children: []*tyTree{lit}})
		add(&tyTree{kind: 'S', children: []*tyTree{named, {kind: 'i', n: 8}}})
		add(&tyTree{kind: 'S', children: []*tyTree{lit, {kind: 'i', n: 8}}})
		add(&tyTree{kind: 'F', children: []*tyTree{{kind: 'v'}, named}})
		add(&tyTree{kind: 'F', children: []*tyTree{{kind: 'v'}, lit}})
		// as the return type of a function type, by value, and that function type behind a pointer (where the
		// text of the function type decides) and one level deeper
		// behind a pointer in a non-zero address space (the printer has a branch of its own for it), alone and nested
		add(&tyTree{kind: 'p', n: 1, children: []*tyTree{named}})
		add(&tyTree{kind: 'p', n: 1, children: []*tyTree{lit}})
		add(&tyTree{kind: 'S', children: []*tyTree{{kind: 'i', n: 8}, {kind: 'p', n: 3, children: []*tyTree{named}}}})
		add(&tyTree{kind: 'S', children: []*tyTree{{kind: 'i', n: 8}, {kind: 'p', n: 3, children: []*tyTree{lit}}}})
		fnN := &tyTree{kind: 'F', children: []*tyTree{named}}
		fnL := &tyTree{kind: 'F', children: []*tyTree{lit}}
		add(fnN)
		add(fnL)
		add(&tyTree{kind: 'p', children: []*tyTree{fnN}})
		add(&tyTree{kind: 'p', children: []*tyTree{fnL}})
		add(&tyTree{kind: 'S', children: []*tyTree{{kind: 'i', n: 8}, {kind: 'p', children: []*tyTree{fnN}}}})
		add(&tyTree{kind: 'S', children: []*tyTree{{kind: 'i', n: 8}, {kind: 'p', children: []*tyTree{fnL}}}})
	}
	nSpecial := len(trees)
	built := make([]types.Type, len(trees))
	for i, t := range trees {
		built[i] = t.build(u)
		s := built[i].String()
		o.Case("ty_string", []string{t.enc()}, []string{hx(s)})
		if want := c16Text(t); s != want {
			o.Fail("string_is_llvm_text", "", "String() of a type is not the LLVM text of the type the generator built", map[string]string{"t": t.enc(), "got": s, "want": want})
		} else {
			o.Pass("string_is_llvm_text")
		}
		o.Nontrivial(t.enc())
		if i < 3 {
			o.Sample(map[string]interface{}{"type": s, "encoding": t.enc()})
		}
	}
	o.StatN("types", len(trees))
	// pairs: Equal against the model; reflexivity, symmetry
	npairs := 40000 * c.scale
	n := len(trees)
	if n*n < npairs {
		npairs = n * n
	}
	for k := 0; k < npairs; k++ {
		i, j := r.intn(n), r.intn(n)
		if npairs == n*n {
			i, j = k/n, k%n
		}
		eq, oc := c16Equal(built[i], built[j])
		if oc != ocOk {
			o.Fail("equal_total", "", "Equal panics", map[string]string{"t": trees[i].enc(), "u": trees[j].enc()})
			continue
		}
		o.Case("equal", []string{trees[i].enc(), trees[j].enc()}, []string{b2s(eq)})
		o.Stat(fmt.Sprintf("equal.%v", eq))
		rev, _ := c16Equal(built[j], built[i])
		if rev != eq {
			o.Fail("symmetric", "", "Equal(t,u) != Equal(u,t)", map[string]string{"t": trees[i].enc(), "u": trees[j].enc(), "ts": built[i].String(), "us": built[j].String()})
		} else {
			o.Pass("symmetric")
		}
		// structural identity: equal iff same tree (names unique)
		if eq != (trees[i].enc() == trees[j].enc()) {
			o.Fail("structural_identity", "", "Equal disagrees with structural identity", map[string]string{"t": trees[i].enc(), "u": trees[j].enc(), "ts": built[i].String(), "us": built[j].String()})
		} else {
			o.Pass("structural_identity")
		}
	}
	// all pairs among the identified/literal look-alikes
	for i := nSpecial - 8*len(g.names); i < nSpecial; i++ {
		for j := nSpecial - 8*len(g.names); j < nSpecial; j++ {
			eq, oc := c16Equal(built[i], built[j])
			if oc != ocOk {
				continue
			}
			o.Case("equal", []string{trees[i].enc(), trees[j].enc()}, []string{b2s(eq)})
			o.Stat("equal.lookalike")
			if eq != (trees[i].enc() == trees[j].enc()) {
				o.Fail("structural_identity", "", "an identified struct and a literal struct with the same fields compare equal (or two copies differ)", map[string]string{"t": trees[i].enc(), "u": trees[j].enc(), "ts": built[i].String(), "us": built[j].String()})
			} else {
				o.Pass("structural_identity")
			}
		}
	}
	for i := range trees {
		// reflexive, also against a separately built copy of the same tree
		cp := trees[i].clone().build(u)
		if eq, _ := c16Equal(built[i], built[i]); !eq {
			o.Fail("reflexive", "", "Equal(t,t) false", map[string]string{"t": trees[i].enc()})
		} else if eq, _ := c16Equal(built[i], cp); !eq {
			o.Fail("reflexive", "", "Equal(t, copy of t) false", map[string]string{"t": trees[i].enc()})
		} else {
			o.Pass("reflexive")
		}
	}
	// transitivity on triples drawn from equal-heavy sets (a type, its copies and its mutants)
	for k := 0; k < 3000*c.scale; k++ {
		t := trees[r.intn(n)]
		m1, _ := g.mutate(t)
		set := []types.Type{t.build(u), t.clone().build(u), m1.build(u), m1.clone().build(u)}
		a, b, d := set[r.intn(4)], set[r.intn(4)], set[r.intn(4)]
		ab, _ := c16Equal(a, b)
		bd, _ := c16Equal(b, d)
		ad, _ := c16Equal(a, d)
		if ab && bd && !ad {
			o.Fail("transitive", "", "a=b, b=c, a!=c", map[string]string{"a": a.String(), "b": b.String(), "c": d.String()})
		} else {
			o.Pass("transitive")
		}
	}
	// single-attribute mutants are distinguished
	for k := 0; k < 4000*c.scale; k++ {
		t := trees[r.intn(n)]
		m, what := g.mutate(t)
		if m.enc() == t.enc() {
			continue
		}
		a, b := t.build(u), m.build(u)
		eq, oc := c16Equal(a, b)
		o.Case("equal", []string{t.enc(), m.enc()}, []string{b2s(eq)})
		o.Stat("mutant." + what)
		if oc != ocOk || eq {
			o.Fail("distinguishes", "", "types differing in "+what+" compare equal", map[string]string{"t": t.enc(), "u": m.enc(), "ts": a.String(), "us": b.String()})
		} else {
			o.Pass("distinguishes")
		}
	}
	// lengths that differ only beyond the low 31 / 32 / 63 bits (what a narrower or a signed representation of the
	// length would identify): distinguished by Equal and by String, in arrays and vectors, alone and nested
	for k := 0; k < 400*c.scale; k++ {
		base := c16WideLen(r)
		if r.chance(30) {
			base = uint64(r.intn(8))
		}
		kind := byte('A')
		deltas := []uint64{1 << 31, 1 << 32, 1 << 63, 1<<63 + 1<<32, 1<<64 - 1<<32}
		if r.chance(25) {
			kind = 'V'
			base = 1 + base%(1<<31-1)
			deltas = []uint64{1 << 31, 1 << 16}
		}
		other := base + deltas[r.intn(len(deltas))] // modulo 2^64: still a different length
		mk := func(l uint64) *tyTree {
			t := &tyTree{kind: kind, n: l, children: []*tyTree{{kind: 'i', n: 8}}}
			switch k % 4 {
			case 1:
				t = &tyTree{kind: 'p', children: []*tyTree{t}}
			case 2:
				t = &tyTree{kind: 'S', children: []*tyTree{{kind: 'i', n: 32}, t}}
			case 3:
				t = &tyTree{kind: 'A', n: 3, children: []*tyTree{t}}
			}
			return t
		}
		ta, tb := mk(base), mk(other)
		a, b := ta.build(u), tb.build(u)
		eq, oc := c16Equal(a, b)
		o.Case("equal", []string{ta.enc(), tb.enc()}, []string{b2s(eq)})
		o.Stat("length_lookalikes")
		if oc != ocOk || eq || a.String() == b.String() {
			o.Fail("distinguishes", "", "types whose lengths differ only in the high bits compare equal or print alike", map[string]string{"t": ta.enc(), "u": tb.enc(), "ts": a.String(), "us": b.String()})
		} else {
			o.Pass("distinguishes")
		}
	}
	// preserved by printing a type and parsing it back
	for k := 0; k < 1500*c.scale; k++ {
		t := c16Widen(r, g.sized(1+r.intn(4)), 35)
		ty := t.build(u)
		src := ""
		for name, s := range u.named {
			src += fmt.Sprintf("%%%s = type %s\n", quoteIfNeeded(name), s.LLString())
		}
		src += fmt.Sprintf("@g = external global %s\n", ty.String())
		var back types.Type
		oc, msg := guard(func() error {
			m, err := asm.ParseString("c16.ll", src)
			if err != nil {
				return err
			}
			back = m.Globals[0].ContentType
			return nil
		})
		o.Stat("print_parse")
		if oc != ocOk {
			o.Fail("print_parse", "", "printed type does not parse: "+oc.String(), map[string]string{"src": src, "msg": msg})
			continue
		}
		eq1, _ := c16Equal(ty, back)
		eq2, _ := c16Equal(back, ty)
		if !eq1 || !eq2 || back.String() != ty.String() {
			o.Fail("print_parse", "", "type parsed back is not equal", map[string]string{"src": src, "back": back.String()})
		} else if want := c16Text(t); back.String() != want {
			o.Fail("print_parse", "", "type parsed back does not read as the type the generator built", map[string]string{"src": src, "back": back.String(), "want": want})
		} else {
			o.Pass("print_parse")
		}
	}
	// histories: types completed or changed after they were first printed or compared (c16hist.go)
	c16Histories(c, newRng(c.seed, "c16hist"))
}

// ---- lengths at the boundaries of their range
//
// An array length is any uint64 (LLVM: uint64_t), a vector length any non-zero 32-bit unsigned.  The generic type
// generator draws small lengths only; c16Widen redraws the lengths of some array and vector nodes of a tree from
// the boundaries of the range (the powers of two where a narrower or a signed representation wraps) and from
// random wide values.

var c16ArrayBounds = []uint64{1<<31 - 1, 1 << 31, 1<<32 - 1, 1 << 32, 1<<32 + 1, 1<<63 - 1, 1 << 63, 1<<63 + 1, 1<<64 - 2, 1<<64 - 1}
var c16VectorBounds = []uint64{1<<15 - 1, 1 << 16, 1<<31 - 1, 1 << 31, 1<<32 - 1}

func c16WideLen(r *rng) uint64 {
	switch r.intn(4) {
	case 0:
		return r.next() // any 64-bit value
	case 1:
		return r.next() | 1<<63 // top bit set
	default:
		return c16ArrayBounds[r.intn(len(c16ArrayBounds))]
	}
}

func c16Widen(r *rng, t *tyTree, pct int) *tyTree {
	for _, n := range t.nodes() {
		switch n.kind {
		case 'A':
			if r.chance(pct) {
				n.n = c16WideLen(r)
			}
		case 'V':
			if r.chance(pct / 2) {
				if r.coin() {
					n.n = c16VectorBounds[r.intn(len(c16VectorBounds))]
				} else {
					n.n = 1 + r.next()%(1<<32-1)
				}
			}
		}
	}
	return t
}

// c16Text renders a type tree as LLVM writes the type: the generator's own rendering, independent of the printers
// under test (lengths, widths and address spaces as unsigned decimals).
func c16Text(t *tyTree) string {
	u := func(x uint64) string { return new(big.Int).SetUint64(x).String() }
	switch t.kind {
	case 'v':
		return "void"
	case 'm':
		return "x86_mmx"
	case 'l':
		return "label"
	case 'k':
		return "token"
	case 'M':
		return "metadata"
	case 'i':
		return "i" + u(t.n)
	case 'f':
		return [...]string{"half", "float", "double", "x86_fp80", "fp128", "ppc_fp128"}[t.n]
	case 'p':
		if t.n != 0 {
			return c16Text(t.children[0]) + " addrspace(" + u(t.n) + ")*"
		}
		return c16Text(t.children[0]) + "*"
	case 'V':
		if t.flag {
			return "<vscale x " + u(t.n) + " x " + c16Text(t.children[0]) + ">"
		}
		return "<" + u(t.n) + " x " + c16Text(t.children[0]) + ">"
	case 'A':
		return "[" + u(t.n) + " x " + c16Text(t.children[0]) + "]"
	case 'S':
		var fs []string
		for _, c := range t.children {
			fs = append(fs, c16Text(c))
		}
		body := "{}"
		if len(fs) > 0 {
			body = "{ " + strings.Join(fs, ", ") + " }"
		}
		if t.flag {
			return "<" + body + ">"
		}
		return body
	case 'N':
		return "%" + quoteIfNeeded(t.name)
	case 'F':
		var ps []string
		for _, c := range t.children[1:] {
			ps = append(ps, c16Text(c))
		}
		if t.flag {
			ps = append(ps, "...")
		}
		return c16Text(t.children[0]) + " (" + strings.Join(ps, ", ") + ")"
	}
	panic("bad type tree")
}

func quoteIfNeeded(name string) string {
	for i := 0; i < len(name); i++ {
		if !inTail(name[i]) {
			return "\"" + name + "\""
		}
	}
	return name
}

// treeOf converts a Go type of the generated universes back into a type tree
func treeOf(t types.Type) *tyTree {
	switch t := t.(type) {
	case *types.VoidType:
		return &tyTree{kind: 'v'}
	case *types.IntType:
		return &tyTree{kind: 'i', n: t.BitSize}
	case *types.PointerType:
		return &tyTree{kind: 'p', n: uint64(t.AddrSpace), children: []*tyTree{treeOf(t.ElemType)}}
	case *types.StructType:
		if t.TypeName != "" {
			return &tyTree{kind: 'N', name: t.TypeName}
		}
		s := &tyTree{kind: 'S', flag: t.Packed}
		for _, f := range t.Fields {
			s.children = append(s.children, treeOf(f))
		}
		return s
	case *types.ArrayType:
		return &tyTree{kind: 'A', n: t.Len, children: []*tyTree{treeOf(t.ElemType)}}
	}
	panic(fmt.Sprintf("treeOf %T", t))
}
