package main

// C16: type equality is a structural equivalence matching LLVM type identity, preserved by print/parse.

import (
	"fmt"

	"github.com/llir/llvm/asm"
	"github.com/llir/llvm/ir/types"
)

func init() { props["C16"] = runC16 }

func c16Equal(a, b types.Type) (res bool, oc outcome) {
	oc, _ = guard(func() error { res = a.Equal(b); return nil })
	return
}

func runC16(c *config) {
	o := c.out
	r := newRng(c.seed, "c16")
	g := newTyGen(r)
	u := newUniverse()
	if c.replay != "" {
		fmt.Println("replay: re-run ./check C16 (the generator is deterministic for a seed)")
		return
	}
	// a universe of types: enumerated shallow ones plus random deep ones
	var trees []*tyTree
	seen := map[string]bool{}
	add := func(t *tyTree) {
		e := t.enc()
		if !seen[e] {
			seen[e] = true
			trees = append(trees, t)
		}
	}
	for _, k := range "vmlkM" {
		add(&tyTree{kind: byte(k)})
	}
	for i := 0; i < 250*c.scale; i++ {
		add(g.any(1 + r.intn(4)))
	}
	// every identified struct of the universe next to the literal struct with the very same fields
	// (an identified struct is identified by its name, never by its body), also nested
	for _, nm := range g.names {
		ns := u.namedStruct(nm)
		lit := &tyTree{kind: 'S'}
		for _, f := range ns.Fields {
			lit.children = append(lit.children, treeOf(f))
		}
		named := &tyTree{kind: 'N', name: nm}
		add(named)
		add(lit)
		add(&tyTree{kind: 'A', n: 2, children: []*tyTree{named}})
		add(&tyTree{kind: 'A', n: 2, children: []*tyTree{lit}})
		add(&tyTree{kind: 'S', children: []*tyTree{named, {kind: 'i', n: 8}}})
		add(&tyTree{kind: 'S', children: []*tyTree{lit, {kind: 'i', n: 8}}})
		add(&tyTree{kind: 'F', children: []*tyTree{{kind: 'v'}, named}})
		add(&tyTree{kind: 'F', children: []*tyTree{{kind: 'v'}, lit}})
		// as the return type of a function type, by value, and that function type behind a pointer (where the
		// text of the function type decides) and one level deeper
		// behind a pointer in a non-zero address space (the printer has a branch of its own for it), alone and nested
		add(&tyTree{kind: 'p', n: 1, children: []*tyTree{named}})
		add(&tyTree{kind: 'p', n: 1, children: []*tyTree{lit}})
		add(&tyTree{kind: 'S', children: []*tyTree{{kind: 'i', n: 8}, {kind: 'p', n: 3, children: []*tyTree{named}}}})
		add(&tyTree{kind: 'S', children: []*tyTree{{kind: 'i', n: 8}, {kind: 'p', n: 3, children: []*tyTree{lit}}}})
		fnN := &tyTree{kind: 'F', children: []*tyTree{named}}
		fnL := &tyTree{kind: 'F', children: []*tyTree{lit}}
		add(fnN)
		add(fnL)
		add(&tyTree{kind: 'p', children: []*tyTree{fnN}})
		add(&tyTree{kind: 'p', children: []*tyTree{fnL}})
		add(&tyTree{kind: 'S', children: []*tyTree{{kind: 'i', n: 8}, {kind: 'p', children: []*tyTree{fnN}}}})
		add(&tyTree{kind: 'S', children: []*tyTree{{kind: 'i', n: 8}, {kind: 'p', children: []*tyTree{fnL}}}})
	}
	nSpecial := len(trees)
	built := make([]types.Type, len(trees))
	for i, t := range trees {
		built[i] = t.build(u)
		s := built[i].String()
		o.Case("ty_string", []string{t.enc()}, []string{hx(s)})
		o.Nontrivial(t.enc())
		if i < 3 {
			o.Sample(map[string]interface{}{"type": s, "encoding": t.enc()})
		}
	}
	o.StatN("types", len(trees))
	// pairs: Equal against the model; reflexivity, symmetry
	npairs := 40000 * c.scale
	n := len(trees)
	if n*n < npairs {
		npairs = n * n
	}
	for k := 0; k < npairs; k++ {
		i, j := r.intn(n), r.intn(n)
		if npairs == n*n {
			i, j = k/n, k%n
		}
		eq, oc := c16Equal(built[i], built[j])
		if oc != ocOk {
			o.Fail("equal_total", "", "Equal panics", map[string]string{"t": trees[i].enc(), "u": trees[j].enc()})
			continue
		}
		o.Case("equal", []string{trees[i].enc(), trees[j].enc()}, []string{b2s(eq)})
		o.Stat(fmt.Sprintf("equal.%v", eq))
		rev, _ := c16Equal(built[j], built[i])
		if rev != eq {
			o.Fail("symmetric", "", "Equal(t,u) != Equal(u,t)", map[string]string{"t": trees[i].enc(), "u": trees[j].enc(), "ts": built[i].String(), "us": built[j].String()})
		} else {
			o.Pass("symmetric")
		}
		// structural identity: equal iff same tree (names unique)
		if eq != (trees[i].enc() == trees[j].enc()) {
			o.Fail("structural_identity", "", "Equal disagrees with structural identity", map[string]string{"t": trees[i].enc(), "u": trees[j].enc(), "ts": built[i].String(), "us": built[j].String()})
		} else {
			o.Pass("structural_identity")
		}
	}
	// all pairs among the identified/literal look-alikes
	for i := nSpecial - 8*len(g.names); i < nSpecial; i++ {
		for j := nSpecial - 8*len(g.names); j < nSpecial; j++ {
			eq, oc := c16Equal(built[i], built[j])
			if oc != ocOk {
				continue
			}
			o.Case("equal", []string{trees[i].enc(), trees[j].enc()}, []string{b2s(eq)})
			o.Stat("equal.lookalike")
			if eq != (trees[i].enc() == trees[j].enc()) {
				o.Fail("structural_identity", "", "an identified struct and a literal struct with the same fields compare equal (or two copies differ)", map[string]string{"t": trees[i].enc(), "u": trees[j].enc(), "ts": built[i].String(), "us": built[j].String()})
			} else {
				o.Pass("structural_identity")
			}
		}
	}
	for i := range trees {
		// reflexive, also against a separately built copy of the same tree
		cp := trees[i].clone().build(u)
		if eq, _ := c16Equal(built[i], built[i]); !eq {
			o.Fail("reflexive", "", "Equal(t,t) false", map[string]string{"t": trees[i].enc()})
		} else if eq, _ := c16Equal(built[i], cp); !eq {
			o.Fail("reflexive", "", "Equal(t, copy of t) false", map[string]string{"t": trees[i].enc()})
		} else {
			o.Pass("reflexive")
		}
	}
	// transitivity on triples drawn from equal-heavy sets (a type, its copies and its mutants)
	for k := 0; k < 3000*c.scale; k++ {
		t := trees[r.intn(n)]
		m1, _ := g.mutate(t)
		set := []types.Type{t.build(u), t.clone().build(u), m1.build(u), m1.clone().build(u)}
		a, b, d := set[r.intn(4)], set[r.intn(4)], set[r.intn(4)]
		ab, _ := c16Equal(a, b)
		bd, _ := c16Equal(b, d)
		ad, _ := c16Equal(a, d)
		if ab && bd && !ad {
			o.Fail("transitive", "", "a=b, b=c, a!=c", map[string]string{"a": a.String(), "b": b.String(), "c": d.String()})
		} else {
			o.Pass("transitive")
		}
	}
	// single-attribute mutants are distinguished
	for k := 0; k < 4000*c.scale; k++ {
		t := trees[r.intn(n)]
		m, what := g.mutate(t)
		if m.enc() == t.enc() {
			continue
		}
		a, b := t.build(u), m.build(u)
		eq, oc := c16Equal(a, b)
		o.Case("equal", []string{t.enc(), m.enc()}, []string{b2s(eq)})
		o.Stat("mutant." + what)
		if oc != ocOk || eq {
			o.Fail("distinguishes", "", "types differing in "+what+" compare equal", map[string]string{"t": t.enc(), "u": m.enc(), "ts": a.String(), "us": b.String()})
		} else {
			o.Pass("distinguishes")
		}
	}
	// preserved by printing a type and parsing it back
	for k := 0; k < 1500*c.scale; k++ {
		t := g.sized(1 + r.intn(4))
		ty := t.build(u)
		src := ""
		for name, s := range u.named {
			src += fmt.Sprintf("%%%s = type %s\n", quoteIfNeeded(name), s.LLString())
		}
		src += fmt.Sprintf("@g = external global %s\n", ty.String())
		var back types.Type
		oc, msg := guard(func() error {
			m, err := asm.ParseString("c16.ll", src)
			if err != nil {
				return err
			}
			back = m.Globals[0].ContentType
			return nil
		})
		o.Stat("print_parse")
		if oc != ocOk {
			o.Fail("print_parse", "", "printed type does not parse: "+oc.String(), map[string]string{"src": src, "msg": msg})
			continue
		}
		eq1, _ := c16Equal(ty, back)
		eq2, _ := c16Equal(back, ty)
		if !eq1 || !eq2 || back.String() != ty.String() {
			o.Fail("print_parse", "", "type parsed back is not equal", map[string]string{"src": src, "back": back.String()})
		} else {
			o.Pass("print_parse")
		}
	}
}

func quoteIfNeeded(name string) string {
	for i := 0; i < len(name); i++ {
		if !inTail(name[i]) {
			return "\"" + name + "\""
		}
	}
	return name
}

// treeOf converts a Go type of the generated universes back into a type tree
func treeOf(t types.Type) *tyTree {
	switch t := t.(type) {
	case *types.VoidType:
		return &tyTree{kind: 'v'}
	case *types.IntType:
		return &tyTree{kind: 'i', n: t.BitSize}
	case *types.PointerType:
		return &tyTree{kind: 'p', n: uint64(t.AddrSpace), children: []*tyTree{treeOf(t.ElemType)}}
	case *types.StructType:
		if t.TypeName != "" {
			return &tyTree{kind: 'N', name: t.TypeName}
		}
		s := &tyTree{kind: 'S', flag: t.Packed}
		for _, f := range t.Fields {
			s.children = append(s.children, treeOf(f))
		}
		return s
	case *types.ArrayType:
		return &tyTree{kind: 'A', n: t.Len, children: []*tyTree{treeOf(t.ElemType)}}
	}
	panic(fmt.Sprintf("treeOf %T", t))
}
