package main

// C11, blocks referred to from OUTSIDE their function.  Inside a function a label operand is looked up in the
// function's table of locals; the block operand of blockaddress(@f, %X) in a global initializer and of
// `uselistorder_bb @f, %X, { 1, 0 }` is resolved later and by another routine.  The "blockaddress" position of
// c11.go has named blocks only; here the function mixes named blocks -- the name under test from the name generators,
// and neighbours whose names read as numbers ("0", "1", ...) -- with unnamed blocks, unnamed parameters and unnamed
// instruction results, so that the IDs 0..k exist next to the names, and the operand X is a name in one half of the
// trials and an unnamed ID in the other.
//
// The expectation is the generator's: it knows the POSITION of the block it meant in f.Blocks and, for an unnamed
// block, the ID LLVM's numbering gives it (parameters, then blocks and value results in order).  The parsed
// constant's block (and the directive's) must be the object at that position, it must be named / numbered as built,
// an unnamed target must be spelled %<id> in the first print, and the second print must equal the first.  In the
// second part the text is written by the harness itself (bare names and quoted numeric names, its own spelling), and
// the re-printed global and directive must spell the operand the same way.

import (
	"fmt"
	"strings"

	"github.com/llir/llvm/asm"
	"github.com/llir/llvm/ir"
	"github.com/llir/llvm/ir/constant"
	"github.com/llir/llvm/ir/types"
)

type c11BRBlock struct {
	named        bool
	name         string
	unnamedInsts int
}

type c11BRShape struct {
	unnamedParams int
	condNamed     bool
	condName      string
	blocks        []c11BRBlock
	target        int
}

// ids: the number LLVM gives every unnamed block (-1 for named ones)
func (s *c11BRShape) ids() []int64 {
	out, _ := s.numbering()
	return out
}

// numbering: the IDs of the unnamed blocks and, per block, the ID of its first unnamed instruction result
func (s *c11BRShape) numbering() (blocks, firstInst []int64) {
	id := int64(s.unnamedParams)
	if !s.condNamed {
		id++
	}
	blocks = make([]int64, len(s.blocks))
	firstInst = make([]int64, len(s.blocks))
	for i, b := range s.blocks {
		blocks[i] = -1
		if !b.named {
			blocks[i] = id
			id++
		}
		firstInst[i] = id
		id += int64(b.unnamedInsts)
	}
	return
}

func (s *c11BRShape) describe() string {
	var parts []string
	for i, b := range s.blocks {
		d := "unnamed"
		if b.named {
			d = fmt.Sprintf("%q", b.name)
		}
		if i == s.target {
			d += "<-target"
		}
		parts = append(parts, d)
	}
	return fmt.Sprintf("unnamed params %d, condition named %v, blocks [%s]", s.unnamedParams, s.condNamed, strings.Join(parts, ", "))
}

var c11BRNeighbours = []string{"0", "1", "2", "3", "entry", "7", "a", "next", "00", "c"}

// c11BRRandom draws a shape; name is the name of the target block ("" for an unnamed target)
func c11BRRandom(r *rng, name string) *c11BRShape {
	s := &c11BRShape{}
	if r.chance(35) {
		s.unnamedParams = 1 + r.intn(2)
	}
	used := map[string]bool{name: true}
	pick := func() string {
		for {
			n := c11BRNeighbours[r.intn(len(c11BRNeighbours))]
			if !used[n] {
				used[n] = true
				return n
			}
		}
	}
	s.condNamed = r.chance(75)
	if s.condNamed {
		s.condName = pick()
	}
	nb := 2 + r.intn(4)
	s.target = 1 + r.intn(nb-1) // never the entry block: LLVM does not allow its address to be taken
	for i := 0; i < nb; i++ {
		b := c11BRBlock{named: r.chance(55)}
		if i == 0 && r.chance(50) {
			b.named = true // a named block before the unnamed ones: the ID 0 sits behind a name
		}
		if i == s.target {
			b.named = name != ""
			b.name = name
		} else if b.named {
			b.name = pick()
		}
		if r.chance(25) {
			b.unnamedInsts = 1 + r.intn(2)
		}
		s.blocks = append(s.blocks, b)
	}
	return s
}

func (s *c11BRShape) build() *ir.Module {
	m := ir.NewModule()
	var params []*ir.Param
	for i := 0; i < s.unnamedParams; i++ {
		params = append(params, ir.NewParam("", types.I32))
	}
	cond := ir.NewParam(s.condName, types.I1)
	params = append(params, cond)
	f := m.NewFunc("f", types.Void, params...)
	blks := make([]*ir.Block, len(s.blocks))
	for i, b := range s.blocks {
		blks[i] = f.NewBlock(b.name)
	}
	for i, b := range s.blocks {
		for k := 0; k < b.unnamedInsts; k++ {
			blks[i].NewAdd(constant.NewInt(types.I32, 1), constant.NewInt(types.I32, int64(2+k)))
		}
		if i == 0 {
			blks[0].NewCondBr(cond, blks[s.target], blks[s.target])
		} else {
			blks[i].NewRet(nil)
		}
	}
	m.NewGlobalDef("g", constant.NewBlockAddress(f, blks[s.target]))
	m.UseListOrderBBs = append(m.UseListOrderBBs, &ir.UseListOrderBB{Func: f, Block: blks[s.target], Indices: []uint64{1, 0}})
	return m
}

// c11BRCheckParsed compares the parsed module with the shape; "" when all is as built
func c11BRCheckParsed(m2 *ir.Module, s *c11BRShape) string {
	if len(m2.Funcs) != 1 || len(m2.Globals) != 1 || len(m2.UseListOrderBBs) != 1 {
		return "the parsed module has not one function, one global and one directive"
	}
	f := m2.Funcs[0]
	if len(f.Blocks) != len(s.blocks) {
		return fmt.Sprintf("the parsed function has %d blocks, built %d", len(f.Blocks), len(s.blocks))
	}
	ids := s.ids()
	for i, b := range s.blocks {
		pb := f.Blocks[i]
		switch {
		case b.named && (pb.LocalName != b.name || pb.IsUnnamed()):
			return fmt.Sprintf("block %d was named %q and comes back as %s", i, b.name, pb.Ident())
		case !b.named && !pb.IsUnnamed():
			return fmt.Sprintf("block %d was unnamed (ID %d) and comes back with the name %q", i, ids[i], pb.LocalName)
		case !b.named && pb.LocalID != ids[i]:
			return fmt.Sprintf("block %d was unnamed with ID %d and comes back with ID %d", i, ids[i], pb.LocalID)
		}
	}
	pos := func(b *ir.Block) string {
		for i, x := range f.Blocks {
			if x == b {
				return fmt.Sprintf("the block at position %d (%s)", i, x.Ident())
			}
		}
		return "a block that is not in the function"
	}
	ba, ok := m2.Globals[0].Init.(*constant.BlockAddress)
	if !ok {
		return "the initializer is no blockaddress"
	}
	if ba.Block != f.Blocks[s.target] {
		return fmt.Sprintf("the blockaddress is bound to %s, meant position %d", pos(asBlock(ba.Block)), s.target)
	}
	if m2.UseListOrderBBs[0].Block != f.Blocks[s.target] {
		return fmt.Sprintf("uselistorder_bb is bound to %s, meant position %d", pos(m2.UseListOrderBBs[0].Block), s.target)
	}
	if t, ok := f.Blocks[0].Term.(*ir.TermCondBr); !ok || t.TargetTrue != f.Blocks[s.target] || t.TargetFalse != f.Blocks[s.target] {
		return fmt.Sprintf("the branch of the first block does not go to position %d", s.target)
	}
	return ""
}

func asBlock(v interface{}) *ir.Block {
	b, _ := v.(*ir.Block)
	return b
}

func c11BRTrial(c *config, s *c11BRShape, name string) {
	o := c.out
	var text, text2, bad string
	stage := "build"
	oc, msg := guard(func() error {
		m := s.build()
		stage = "print"
		text = m.String()
		if printedPanic(text) {
			panic("panic swallowed by fmt: " + text)
		}
		stage = "parse"
		m2, err := asm.ParseString("c11br.ll", text)
		if err != nil {
			return err
		}
		stage = "read"
		bad = c11BRCheckParsed(m2, s)
		stage = "reprint"
		text2 = m2.String()
		return nil
	})
	kind := "by_id"
	cls := ""
	if name != "" {
		kind = "by_name"
		cls = c11Class("blockaddress", name)
	}
	o.Stat("position.blockref." + kind)
	o.Nontrivial("blockref:" + name + ":" + s.describe())
	det := map[string]interface{}{"position": "blockref." + kind, "name": hx(name), "shape": s.describe(), "printed": text, "stage": stage, "msg": msg}
	switch {
	case oc != ocOk:
		o.Fail("name_vs_id", cls, stage+" "+oc.String(), det)
		return
	case bad != "":
		o.Fail("name_vs_id", cls, bad, det)
		return
	case text2 != text:
		det["reprinted"] = text2
		o.Fail("name_vs_id", cls, "second print differs", det)
		return
	}
	if name == "" {
		// an unnamed target is written %<id> at both sites (LLVM's syntax, the generator's number)
		tok := fmt.Sprintf("%%%d", s.ids()[s.target])
		if !strings.Contains(text, "blockaddress(@f, "+tok+")\n") || !strings.Contains(text, "uselistorder_bb @f, "+tok+", { 1, 0 }") {
			o.Fail("name_vs_id", cls, "the unnamed block is not written "+tok+" at the blockaddress and the uselistorder_bb", det)
			return
		}
	}
	o.Pass("name_vs_id")
}

// ---- texts written by the harness

func c11BRToken(n string) string {
	if bareName(n) && (n[0] < '0' || n[0] > '9') {
		return n
	}
	return "\"" + n + "\"" // only for the names below: digits, letters, space
}

func c11BRWritten(c *config, r *rng) {
	o := c.out
	pool := []string{"0", "1", "2", "0", "1", "entry", "a", "L.1", "x-y", "007", "42", "a b", "3"}
	for i := 0; i < 150*c.scale; i++ {
		s := &c11BRShape{}
		used := map[string]bool{}
		pick := func() string {
			for {
				n := pool[r.intn(len(pool))]
				if !used[n] {
					used[n] = true
					return n
				}
			}
		}
		if r.chance(30) {
			s.unnamedParams = 1
		}
		s.condNamed = r.chance(70)
		s.condName = "cond"
		nb := 2 + r.intn(4)
		for k := 0; k < nb; k++ {
			b := c11BRBlock{named: r.chance(55)}
			if k == 0 && r.chance(50) {
				b.named = true
			}
			if b.named {
				b.name = pick()
			}
			if r.chance(20) {
				b.unnamedInsts = 1
			}
			s.blocks = append(s.blocks, b)
		}
		ids, firstInst := s.numbering()
		spell := func(k int) string {
			if s.blocks[k].named {
				return "%" + c11BRToken(s.blocks[k].name)
			}
			return fmt.Sprintf("%%%d", ids[k])
		}
		for t := 1; t < nb; t++ {
			s.target = t
			x := spell(t)
			var sb strings.Builder
			gline := "@g = global i8* blockaddress(@f, " + x + ")"
			uline := "uselistorder_bb @f, " + x + ", { 1, 0 }"
			sb.WriteString(gline + "\n\ndefine void @f(")
			for p := 0; p < s.unnamedParams; p++ {
				sb.WriteString("i32, ")
			}
			condTok := fmt.Sprintf("%%%d", s.unnamedParams)
			if s.condNamed {
				sb.WriteString("i1 %cond) {\n")
				condTok = "%cond"
			} else {
				sb.WriteString("i1) {\n")
			}
			for k, b := range s.blocks {
				switch {
				case b.named:
					sb.WriteString(c11BRToken(b.name) + ":\n")
				case k == 0 && i%2 == 0:
					// the first block may leave its label out
				default:
					fmt.Fprintf(&sb, "%d:\n", ids[k])
				}
				for u := 0; u < b.unnamedInsts; u++ {
					fmt.Fprintf(&sb, "\t%%%d = add i32 1, 2\n", firstInst[k]+int64(u))
				}
				if k == 0 {
					fmt.Fprintf(&sb, "\tbr i1 %s, label %s, label %s\n", condTok, x, x)
				} else {
					sb.WriteString("\tret void\n")
				}
			}
			sb.WriteString("}\n\n" + uline + "\n")
			src := sb.String()
			var bad, text2 string
			stage := "parse"
			oc, msg := guard(func() error {
				m2, err := asm.ParseString("c11brw.ll", src)
				if err != nil {
					return err
				}
				stage = "read"
				bad = c11BRCheckParsed(m2, s)
				stage = "reprint"
				text2 = m2.String()
				return nil
			})
			o.Stat("position.blockref.written")
			o.Nontrivial("blockref-written:" + src)
			det := map[string]interface{}{"position": "blockref.written", "name": hx(s.blocks[t].name), "shape": s.describe(), "printed": src, "stage": stage, "msg": msg, "reprinted": text2}
			switch {
			case oc != ocOk:
				o.Fail("name_vs_id", "", "a module written with bare names, quoted numeric names and IDs: "+stage+" "+oc.String(), det)
			case bad != "":
				o.Fail("name_vs_id", "", bad, det)
			case !strings.Contains(text2, gline+"\n") || !strings.Contains(text2, uline+"\n"):
				o.Fail("name_vs_id", "", "the block operand "+x+" is spelled differently when the parsed module is printed", det)
			default:
				o.Pass("name_vs_id")
			}
		}
	}
}

func c11BlockRefs(c *config, names []string) {
	r := newRng(c.seed, "c11-blockref")
	for _, n := range names {
		if n == "" || containsNUL(n) {
			continue
		}
		// the same kind of function twice: the operand is the name; the operand is an ID
		c11BRTrial(c, c11BRRandom(r, n), n)
		c11BRTrial(c, c11BRRandom(r, ""), "")
	}
	// the smallest shapes, always: a named block, then the unnamed block with ID 0 / the block named "0"
	for _, first := range []string{"entry", "0", "1", "a b"} {
		for _, second := range []string{"", "0", "1", "00"} {
			if first == second {
				continue
			}
			s := &c11BRShape{condNamed: true, condName: "c", target: 1,
				blocks: []c11BRBlock{{named: true, name: first}, {named: second != "", name: second}}}
			c11BRTrial(c, s, second)
		}
	}
	c11BRWritten(c, r)
}
