package main

// C10: floating-point literals keep their exact bit pattern.

import (
	"fmt"
	"math"
	"math/big"
	"regexp"
	"strings"

	"github.com/llir/llvm/asm"
	"github.com/llir/llvm/ir/constant"
	"github.com/llir/llvm/ir/types"
	"github.com/mewmew/float/binary16"
)

func init() { props["C10"] = runC10 }

type c10Kind struct {
	letter string // H, F (float in double hex), D, K, L, M
	typ    *types.FloatType
	digits int
}

var c10Kinds = []c10Kind{
	{"H", types.Half, 4}, {"F", types.Float, 16}, {"D", types.Double, 16},
	{"K", types.X86_FP80, 20}, {"L", types.FP128, 32}, {"M", types.PPC_FP128, 32},
}

func (k c10Kind) literal(bits *big.Int) string {
	h := strings.ToUpper(bits.Text(16))
	for len(h) < k.digits {
		h = "0" + h
	}
	switch k.letter {
	case "F", "D":
		return "0x" + h
	case "L":
		// LLVM writes the low 64 bits first, then the high 64 bits (KF-41, repaired)
		return "0xL" + h[16:] + h[:16]
	}
	return "0x" + k.letter + h
}

// describes what a constant.Float holds: Z s | F s m e (m odd) | I s | N s
func c10Value(c *constant.Float) string {
	s := "0"
	if c.X != nil && c.X.Signbit() {
		s = "1"
	}
	if c.NaN {
		return "N " + s
	}
	if c.X.IsInf() {
		return "I " + s
	}
	if c.X.Sign() == 0 {
		return "Z " + s
	}
	mant := new(big.Float)
	exp := c.X.MantExp(mant)
	prec := int(c.X.MinPrec())
	mant.SetMantExp(mant, prec)
	m, acc := mant.Int(nil)
	if acc != big.Exact {
		return "inexact"
	}
	m.Abs(m)
	e := exp - prec
	for m.Bit(0) == 0 && m.Sign() != 0 {
		m.Rsh(m, 1)
		e++
	}
	return fmt.Sprintf("F %s %s %d", s, m.String(), e)
}

func c10Parse(k c10Kind, lit string) (c *constant.Float, oc outcome, msg string) {
	oc, msg = guard(func() error {
		var err error
		c, err = constant.NewFloatFromString(k.typ, lit)
		return err
	})
	return
}

func c10Ident(c *constant.Float) (s string, oc outcome) {
	oc, _ = guard(func() error { s = c.Ident(); return nil })
	return
}

// the bit pattern a constant denotes, for the kinds whose printed form may be decimal
func c10Bits(k c10Kind, c *constant.Float) (*big.Int, bool) {
	switch k.letter {
	case "H":
		if c.NaN {
			b := binary16.NaN.Bits()
			if c.X != nil && c.X.Signbit() {
				b = binary16.NegNaN.Bits()
			}
			return new(big.Int).SetUint64(uint64(b)), true
		}
		f, acc := binary16.NewFromBig(c.X)
		if acc != big.Exact {
			return nil, false
		}
		return new(big.Int).SetUint64(uint64(f.Bits())), true
	case "F", "D":
		if c.NaN {
			b := uint64(0x7FF8000000000000)
			if c.X != nil && c.X.Signbit() {
				b |= 1 << 63
			}
			return new(big.Int).SetUint64(b), true
		}
		f, acc := c.X.Float64()
		if acc != big.Exact {
			return nil, false
		}
		return new(big.Int).SetUint64(math.Float64bits(f)), true
	}
	return nil, false
}

func isNaNBits(bits *big.Int, ew, mw uint) bool {
	e := new(big.Int).Rsh(bits, mw)
	e.And(e, new(big.Int).SetUint64(1<<ew-1))
	m := new(big.Int).And(bits, new(big.Int).Sub(new(big.Int).Lsh(big.NewInt(1), mw), big.NewInt(1)))
	return e.Uint64() == 1<<ew-1 && m.Sign() != 0
}

// class predicates of the known findings
func c10Class(k c10Kind, bits *big.Int) string {
	switch k.letter {
	case "H":
		if isNaNBits(bits, 5, 10) {
			return "nan_payload_nonzero"
		}
	case "F", "D":
		if isNaNBits(bits, 11, 52) {
			return "nan_payload_nonzero"
		}
	case "L":
		if isNaNBits(bits, 15, 112) {
			return "nan_payload_nonzero"
		}
	case "K":
		se := new(big.Int).Rsh(bits, 64).Uint64()
		m := new(big.Int).And(bits, new(big.Int).SetUint64(math.MaxUint64)).Uint64()
		E := se & 0x7FFF
		switch {
		case E == 0x7FFF && m != 1<<63:
			return "nan_payload_nonzero"
		case E != 0 && E != 0x7FFF && m < 1<<63:
			return "x87_unnormal"
		}
	case "M":
		a := new(big.Int).Rsh(bits, 64).Uint64()
		b := new(big.Int).And(bits, new(big.Int).SetUint64(math.MaxUint64)).Uint64()
		fa, fb := math.Float64frombits(a), math.Float64frombits(b)
		switch {
		case math.IsNaN(fa) || math.IsNaN(fb):
			return "nan_payload_nonzero"
		case math.IsInf(fa, 0) && math.IsInf(fb, 0) && math.Signbit(fa) != math.Signbit(fb):
			return "ppc_inf_minus_inf"
		case math.IsInf(fa, -1) || math.IsInf(fb, -1):
			return "ppc_neg_inf"
		case b != 0:
			// includes sums that overflow binary64 (KF-30) and low words that are rounded away (KF-22)
			return "ppc_fp128_low_word"
		}
	}
	return ""
}

func c10One(c *config, k c10Kind, bits *big.Int, label string) {
	o := c.out
	lit := k.literal(bits)
	o.Stat("patterns." + k.letter + "." + label)
	o.Nontrivial(lit)
	cls := c10Class(k, bits)
	c1, oc, msg := c10Parse(k, lit)
	det := map[string]interface{}{"kind": k.typ.String(), "literal": lit}
	if oc != ocOk {
		o.Case("fdec", []string{k.letter, bits.String()}, []string{oc.String()})
		o.Fail("float_round_trip", cls, "literal rejected or crash: "+oc.String()+" "+msg, det)
		return
	}
	o.Case("fdec", []string{k.letter, bits.String()}, []string{c10Value(c1)})
	printed, oc2 := c10Ident(c1)
	if oc2 != ocOk {
		if k.letter == "K" || k.letter == "L" || k.letter == "M" {
			o.Case("frt", []string{k.letter, bits.String()}, []string{"Panic"})
		}
		o.Fail("float_round_trip", cls, "printing panics", det)
		return
	}
	det["printed"] = printed
	if k.letter == "K" || k.letter == "L" || k.letter == "M" {
		o.Case("frt", []string{k.letter, bits.String()}, []string{hx(printed)})
	}
	// the printed literal is a floating-point token of the assembly language (digits, a point, an optional exponent;
	// or one of the hexadecimal forms): "1e+06" is an identifier-like garbage for LLVM and for the library's lexer
	if !c10FloatToken.MatchString(printed) {
		o.Fail("float_round_trip", "", "the printed literal is not a floating-point token of the assembly language", det)
		return
	}
	// the printed literal denotes the identical bit pattern
	c2, oc3, _ := c10Parse(k, printed)
	if oc3 != ocOk {
		o.Fail("float_round_trip", cls, "printed literal does not parse", det)
		return
	}
	same := false
	if strings.HasPrefix(printed, "0x") && (k.letter == "K" || k.letter == "L" || k.letter == "M") {
		same = printed == lit
		if k.letter == "K" && !same {
			// pseudo-denormal: exponent field 0 with the integer bit set is re-encoded with field 1, the same value for LLVM
			se := new(big.Int).Rsh(bits, 64).Uint64()
			m := new(big.Int).And(bits, new(big.Int).SetUint64(math.MaxUint64)).Uint64()
			if se&0x7FFF == 0 && m >= 1<<63 {
				want := new(big.Int).Lsh(new(big.Int).SetUint64(se|1), 64)
				want.Or(want, new(big.Int).SetUint64(m))
				same = printed == k.literal(want)
			}
		}
	} else {
		b2, ok := c10Bits(k, c2)
		same = ok && b2.Cmp(bits) == 0
		if !strings.HasPrefix(printed, "0x") {
			o.Stat("printed.decimal")
			// decimal only when it denotes the value exactly
			r, ok := new(big.Rat).SetString(printed)
			exact := false
			if ok && c1.X != nil && !c1.X.IsInf() {
				xr, _ := c1.X.Rat(nil)
				exact = xr != nil && xr.Cmp(r) == 0
			}
			if !exact {
				o.Fail("decimal_only_when_exact", "", "a decimal literal that does not denote the value exactly", det)
			} else {
				o.Pass("decimal_only_when_exact")
			}
		} else {
			o.Stat("printed.hex")
		}
	}
	if !same {
		// KF-06 says: a NaN comes back as the canonical quiet NaN *of its sign* (ppc_fp128 also loses the sign)
		if cls == "nan_payload_nonzero" && k.letter != "M" {
			signIn := bits.Bit(map[string]int{"H": 15, "F": 63, "D": 63, "K": 79, "L": 127}[k.letter])
			var signOut uint
			if strings.HasPrefix(printed, "0x") {
				h := strings.TrimLeft(printed[2:], "HKLM")
				if k.letter == "L" && len(h) == 32 {
					h = h[16:] + h[:16] // the high word is written last
				}
				ob, _ := new(big.Int).SetString(h, 16)
				if ob != nil {
					signOut = ob.Bit(len(h)*4 - 1)
				}
			} else if strings.HasPrefix(printed, "-") {
				signOut = 1
			}
			if signOut != signIn {
				cls = ""
			}
		}
		o.Fail("float_round_trip", cls, "printed literal denotes a different bit pattern", det)
		return
	}
	// and printing again changes nothing
	p2, _ := c10Ident(c2)
	if p2 != printed {
		o.Fail("float_round_trip", cls, "second print differs", det)
		return
	}
	o.Pass("float_round_trip")
}

var c10FloatToken = regexp.MustCompile(`^([-+]?[0-9]+[.][0-9]*([eE][-+]?[0-9]+)?|0x[KLMHR]?[0-9A-Fa-f]+)$`)

func c10Random(r *rng, nbits int) *big.Int {
	x := new(big.Int)
	for b := 0; b < nbits; b += 32 {
		x.Lsh(x, 32)
		x.Or(x, new(big.Int).SetUint64(r.next()>>32))
	}
	return x.Mod(x, new(big.Int).Lsh(big.NewInt(1), uint(nbits)))
}

// structured boundary patterns of an IEEE format with the given field widths
func c10Boundary(ew, mw uint) []*big.Int {
	var out []*big.Int
	mk := func(s, e uint64, m *big.Int) {
		x := new(big.Int).SetUint64(s)
		x.Lsh(x, ew)
		x.Or(x, new(big.Int).SetUint64(e))
		x.Lsh(x, mw)
		x.Or(x, m)
		out = append(out, x)
	}
	allOnes := new(big.Int).Sub(new(big.Int).Lsh(big.NewInt(1), mw), big.NewInt(1))
	half := new(big.Int).Lsh(big.NewInt(1), mw-1)
	emax := uint64(1)<<ew - 1
	for s := uint64(0); s < 2; s++ {
		for _, e := range []uint64{0, 1, 2, emax / 2, emax/2 + 1, emax - 2, emax - 1, emax} {
			for _, m := range []*big.Int{big.NewInt(0), big.NewInt(1), big.NewInt(2), half, new(big.Int).Add(half, big.NewInt(1)), new(big.Int).Sub(allOnes, big.NewInt(1)), allOnes} {
				mk(s, e, m)
			}
		}
	}
	return out
}

func runC10(c *config) {
	o := c.out
	r := newRng(c.seed, "c10")
	if c.replay != "" {
		rp := readReplay(c.replay)
		lit, _ := rp.Detail["literal"].(string)
		kind, _ := rp.Detail["kind"].(string)
		if src, ok := rp.Detail["src"].(string); ok {
			m, err := asm.ParseString("replay.ll", src)
			fmt.Println("module:", src, "error:", err)
			if err == nil {
				fmt.Println("printed:", m.String())
			}
		}
		for _, k := range c10Kinds {
			if k.typ.String() == kind {
				c1, oc, msg := c10Parse(k, lit)
				fmt.Println(oc, msg)
				if oc == ocOk {
					fmt.Println(c10Ident(c1))
				}
			}
		}
		return
	}
	N := 2500 * c.scale
	for _, k := range c10Kinds {
		switch k.letter {
		case "H":
			step := 7
			if c.tier == "thorough" {
				step = 1
			}
			for b := 0; b < 1<<16; b += step {
				c10One(c, k, big.NewInt(int64(b)), "sweep")
				c10HalfAsDouble(c, k, uint16(b))
			}
			for _, b := range c10Boundary(5, 10) {
				c10One(c, k, b, "boundary")
			}
		case "F":
			// float literals are doubles that are exactly representable as float: low 29 mantissa bits clear, float range
			for i := 0; i < N; i++ {
				f := math.Float32frombits(uint32(r.next()))
				c10One(c, k, new(big.Int).SetUint64(math.Float64bits(float64(f))), "random")
			}
			for e := 0; e <= 10; e++ {
				for _, d := range []float32{1, 2, 4, 5, 25, 1.5, 3} {
					v := d * float32(math.Pow(10, float64(e)))
					c10One(c, k, new(big.Int).SetUint64(math.Float64bits(float64(v))), "decimal_shapes")
					c10One(c, k, new(big.Int).SetUint64(math.Float64bits(float64(-v))), "decimal_shapes")
				}
			}
			for _, b := range c10Boundary(8, 23) {
				f := math.Float32frombits(uint32(b.Uint64()))
				if !math.IsNaN(float64(f)) {
					c10One(c, k, new(big.Int).SetUint64(math.Float64bits(float64(f))), "boundary")
				}
			}
		case "D":
			for i := 0; i < N; i++ {
				c10One(c, k, c10Random(r, 64), "random")
			}
			for _, b := range c10Boundary(11, 52) {
				c10One(c, k, b, "boundary")
			}
			// values the printer writes in decimal: few significant digits times a power of ten (the exponent form,
			// with and without a fraction), and their neighbours
			for e := 0; e <= 22; e++ {
				for _, d := range []float64{1, 2, 4, 5, 25, 125, 1.5, 3} {
					v := d * math.Pow(10, float64(e))
					for _, x := range []float64{v, -v, math.Nextafter(v, 0)} {
						c10One(c, k, new(big.Int).SetUint64(math.Float64bits(x)), "decimal_shapes")
					}
				}
			}
		case "L":
			for i := 0; i < N; i++ {
				c10One(c, k, c10Random(r, 128), "random")
			}
			for _, b := range c10Boundary(15, 112) {
				c10One(c, k, b, "boundary")
			}
		case "K":
			for i := 0; i < N; i++ {
				x := c10Random(r, 80)
				if r.chance(70) { // canonical: integer bit set iff exponent field non-zero
					se := new(big.Int).Rsh(x, 64).Uint64()
					m := new(big.Int).And(x, new(big.Int).SetUint64(math.MaxUint64)).Uint64()
					if se&0x7FFF != 0 {
						m |= 1 << 63
					} else {
						m &^= 1 << 63
					}
					x = new(big.Int).Lsh(new(big.Int).SetUint64(se), 64)
					x.Or(x, new(big.Int).SetUint64(m))
				}
				c10One(c, k, x, "random")
			}
			for _, b := range c10Boundary(15, 64) {
				c10One(c, k, b, "boundary")
			}
		case "M":
			for i := 0; i < N; i++ {
				hi := r.next()
				lo := uint64(0)
				switch r.intn(4) {
				case 0: // what clang emits when widening a double
				case 1:
					lo = r.next()
				default: // a normalised pair: low word about 53..60 binades below the high one
					fh := math.Float64frombits(hi)
					if !math.IsNaN(fh) && !math.IsInf(fh, 0) && fh != 0 {
						lo = math.Float64bits(math.Ldexp(fh, -53-r.intn(8)) * (float64(r.intn(1000)) / 1000))
					}
				}
				x := new(big.Int).Lsh(new(big.Int).SetUint64(hi), 64)
				x.Or(x, new(big.Int).SetUint64(lo))
				c10One(c, k, x, "random")
			}
			for _, a := range []uint64{0, 1 << 63, 0x7FF0000000000000, 0xFFF0000000000000, 0x7FF8000000000000, 0x3FF0000000000000, 0x7FEFFFFFFFFFFFFF, 1, 0x0010000000000000} {
				for _, b := range []uint64{0, 1 << 63, 0x7FF0000000000000, 0xFFF0000000000000, 0x3CA0000000000000, 0x7FEFFFFFFFFFFFFF} {
					x := new(big.Int).Lsh(new(big.Int).SetUint64(a), 64)
					x.Or(x, new(big.Int).SetUint64(b))
					c10One(c, k, x, "boundary")
				}
			}
		}
	}
	// decimal and scientific spellings: the value parsed is the correctly rounded one, the printed form reads back to it
	for i := 0; i < 1500*c.scale; i++ {
		var lit string
		switch r.intn(3) {
		case 0:
			lit = fmt.Sprintf("%d.%d", r.intn(100000), r.intn(1000))
		case 1:
			lit = fmt.Sprintf("%d.%de%+03d", r.intn(10), r.intn(100000), r.intn(60)-30)
		default:
			lit = fmt.Sprintf("-%d.0", r.intn(1<<20))
		}
		k := c10Kinds[2]
		c1, oc, _ := c10Parse(k, lit)
		o.Stat("decimal_spellings")
		if oc != ocOk {
			o.Fail("decimal_spelling", "", "decimal literal rejected", map[string]string{"literal": lit})
			continue
		}
		c10DecCase(c, lit, c1)
		want, _ := new(big.Float).SetPrec(53).SetMode(big.ToNearestEven).SetString(lit)
		f1, _ := c1.X.Float64()
		fw, _ := want.Float64()
		printed, _ := c10Ident(c1)
		c2, oc2, _ := c10Parse(k, printed)
		f2 := math.NaN()
		if oc2 == ocOk {
			f2, _ = c2.X.Float64()
		}
		if math.Float64bits(f1) != math.Float64bits(fw) || math.Float64bits(f2) != math.Float64bits(f1) {
			o.Fail("decimal_spelling", "", "decimal literal not read as the correctly rounded double, or not stable", map[string]string{"literal": lit, "printed": printed})
		} else {
			o.Pass("decimal_spelling")
		}
	}
	// the extended kinds in LLVM's own layout, from an independent encoding of a double: fp128 is 0xL, the low 64
	// bits, then the high 64 bits; x86_fp80 is 0xK, sign and exponent (4 digits), the significand with its
	// explicit integer bit (16 digits); ppc_fp128 is 0xM, the bits of the high double, the bits of the low double.
	// The constructor constant.NewFloat and the reader of the literal must both agree with it.
	for i := 0; i < 400*c.scale; i++ {
		d := math.Float64frombits((uint64(1023-300+r.intn(600)) << 52) | r.next()>>12)
		if i < 8 {
			d = []float64{1, -1, 2, 0.5, 1.5, -0.75, 1e10, 3}[i]
		}
		if r.coin() && i >= 8 {
			d = -d
		}
		b := math.Float64bits(d)
		sign, exp, mant := b>>63, int64((b>>52)&0x7FF)-1023, b&(1<<52-1)
		hi := sign<<63 | uint64(exp+16383)<<48 | mant>>4
		lo := mant << 60
		want := map[string]string{
			"L": fmt.Sprintf("0xL%016X%016X", lo, hi),
			"K": fmt.Sprintf("0xK%04X%016X", sign<<15|uint64(exp+16383), 1<<63|mant<<11),
			"M": fmt.Sprintf("0xM%016X%016X", b, uint64(0)),
		}
		for _, k := range c10Kinds[3:] {
			o.Stat("llvm_layout")
			var printed string
			var back float64
			oc, msg := guard(func() error {
				printed = constant.NewFloat(k.typ, d).Ident()
				c2, err := constant.NewFloatFromString(k.typ, want[k.letter])
				if err != nil {
					return err
				}
				back, _ = c2.X.Float64()
				return nil
			})
			if oc != ocOk || printed != want[k.letter] || math.Float64bits(back) != b {
				o.Fail("float_round_trip", "", "an extended-precision constant is not written or read in LLVM's layout",
					map[string]interface{}{"kind": k.typ.String(), "value": fmt.Sprint(d), "printed": printed, "llvm": want[k.letter], "literal": want[k.letter], "read_back": fmt.Sprint(back), "msg": msg})
			} else {
				o.Pass("llvm_layout")
			}
		}
	}
	// decimal spellings next to a rounding boundary: the exact midpoint of two adjacent doubles (a tie, to even),
	// and the midpoint moved by one unit in a late decimal place (not a tie: the nearer neighbour, however
	// small the distance).  The oracle is exact rational arithmetic (big.Rat), not the library's own reader.
	for i := 0; i < 1200*c.scale; i++ {
		var lo float64
		switch r.intn(6) {
		case 0:
			lo = math.Float64frombits(uint64(r.intn(4))) // the smallest subnormals
		case 1:
			lo = math.Float64frombits(0x7FEFFFFFFFFFFFFF - uint64(r.intn(2))) // the overflow boundary
		case 2:
			lo = math.Float64frombits(0x000FFFFFFFFFFFFF - uint64(r.intn(3))) // subnormal to normal
		default:
			lo = math.Float64frombits((uint64(1023-40+r.intn(80)) << 52) | r.next()>>12)
		}
		hi := math.Nextafter(lo, math.Inf(1))
		mid := new(big.Rat).SetFloat64(lo)
		if math.IsInf(hi, 1) {
			mid.Add(mid, new(big.Rat).SetFrac(new(big.Int).Lsh(big.NewInt(1), 970), big.NewInt(1))) // 2^1024 - 2^970
		} else {
			mid.Add(mid, new(big.Rat).SetFloat64(hi))
			mid.Quo(mid, big.NewRat(2, 1))
		}
		// the exact decimal expansion of the midpoint (a dyadic rational: it terminates)
		digits := 0
		for d := new(big.Int).Set(mid.Denom()); d.Cmp(big.NewInt(1)) > 0; d.Rsh(d, 1) {
			digits++
		}
		exact := mid.FloatString(digits)
		if !strings.Contains(exact, ".") {
			exact += ".0"
		}
		extra := r.intn(40)
		lits := []string{exact, exact + strings.Repeat("0", extra) + "1"}
		// one unit less in the last place, then the same tail of nines
		if trimmed := strings.TrimRight(exact, "0"); !strings.HasSuffix(trimmed, ".") {
			last := trimmed[len(trimmed)-1]
			lits = append(lits, trimmed[:len(trimmed)-1]+string(last-1)+strings.Repeat("9", 1+extra))
		}
		if r.coin() {
			for k := range lits {
				lits[k] = "-" + lits[k]
			}
		}
		for which, lit := range lits {
			k := c10Kinds[2]
			o.Stat("decimal_near_tie")
			c1, oc, msg := c10Parse(k, lit)
			if oc != ocOk {
				o.Fail("decimal_spelling", "", "decimal literal rejected: "+oc.String(), map[string]string{"kind": "double", "literal": lit, "msg": msg})
				continue
			}
			c10DecCase(c, lit, c1)
			q, _ := new(big.Rat).SetString(lit)
			fw, _ := q.Float64()
			f1, _ := c1.X.Float64()
			printed, _ := c10Ident(c1)
			c2, oc2, _ := c10Parse(k, printed)
			f2 := math.NaN()
			if oc2 == ocOk {
				f2, _ = c2.X.Float64()
			}
			cls := ""
			if math.Float64bits(f1) != math.Float64bits(fw) {
				cls = c10NearTieClass(q, lo, hi)
			}
			if math.Float64bits(f1) != math.Float64bits(fw) || math.Float64bits(f2) != math.Float64bits(f1) {
				o.Fail("decimal_spelling", cls, "decimal literal next to a rounding boundary not read as the correctly rounded double, or not stable",
					map[string]interface{}{"kind": "double", "literal": lit, "printed": printed, "read_bits": fmt.Sprintf("0x%016X", math.Float64bits(f1)), "correct_bits": fmt.Sprintf("0x%016X", math.Float64bits(fw)), "which": which})
			} else {
				o.Pass("decimal_spelling")
			}
		}
	}
	// the same through the parser: literals in the text of a module (c10asm.go)
	c10AsmRoute(c, newRng(c.seed, "c10asm"))
	o.Sample(map[string]interface{}{"kind": "half", "literal": "0xH3C00", "printed": func() string { c1, _, _ := c10Parse(c10Kinds[0], "0xH3C00"); s, _ := c10Ident(c1); return s }()})
	o.Sample(map[string]interface{}{"kind": "x86_fp80", "literal": "0xK3FFF8000000000000000", "printed": func() string {
		c1, _, _ := c10Parse(c10Kinds[3], "0xK3FFF8000000000000000")
		s, _ := c10Ident(c1)
		return s
	}()})
}

// halfToFloat64 is the exact value of a binary16 bit pattern
func halfToFloat64(b uint16) float64 {
	sign := 1.0
	if b&0x8000 != 0 {
		sign = -1.0
	}
	e, m := int((b>>10)&0x1f), float64(b&0x3ff)
	switch e {
	case 0:
		return sign * math.Ldexp(m, -24)
	case 31:
		if m == 0 {
			return sign * math.Inf(1)
		}
		return math.NaN()
	}
	return sign * math.Ldexp(1024+m, e-25)
}

// c10HalfAsDouble: LLVM also accepts a half written as the 16-digit bit pattern of the equal double; it must
// denote the same half as the 0xH spelling and print as it does
func c10HalfAsDouble(c *config, k c10Kind, b uint16) {
	o := c.out
	f := halfToFloat64(b)
	if math.IsNaN(f) {
		return
	}
	alt := fmt.Sprintf("0x%016X", math.Float64bits(f))
	ref := k.literal(big.NewInt(int64(b)))
	o.Stat("patterns.H.as_double_hex")
	det := map[string]interface{}{"kind": k.typ.String(), "literal": alt, "same_value_as": ref}
	c1, oc1, _ := c10Parse(k, ref)
	c2, oc2, msg := c10Parse(k, alt)
	if oc1 != ocOk {
		return // reported by the sweep
	}
	if oc2 != ocOk {
		o.Fail("float_round_trip", "", "the double-hex spelling of a half is rejected or crashes: "+oc2.String()+" "+msg, det)
		return
	}
	p1, _ := c10Ident(c1)
	p2, oc3 := c10Ident(c2)
	det["printed"] = p2
	if oc3 != ocOk || c10Value(c1) != c10Value(c2) || p1 != p2 {
		det["value"] = c10Value(c2)
		det["want_value"] = c10Value(c1)
		o.Fail("float_round_trip", "", "the double-hex spelling of a half denotes another value than its 0xH spelling", det)
	} else {
		o.Pass("float_round_trip")
	}
}

// the known-finding class of a misread decimal (none so far)
func c10NearTieClass(q *big.Rat, lo, hi float64) string { return "" }

// c10DecCase sends a decimal literal of kind double to the model (kind dec_read): the sign, the digits as one integer
// and the power of ten; the observed output is the bit pattern of the double the library reads
var c10LongDec int

func c10DecCase(c *config, lit string, c1 *constant.Float) {
	// the extracted reader works on Coq's binary integers: a literal of a thousand digits takes it a tenth of a
	// second, so the quick tier sends every twelfth of the long ones (the thorough tier all)
	if len(lit) > 150 && c.tier != "thorough" {
		c10LongDec++
		if c10LongDec%12 != 0 {
			return
		}
	}
	neg := "0"
	t := lit
	if strings.HasPrefix(t, "-") {
		neg, t = "1", t[1:]
	} else if strings.HasPrefix(t, "+") {
		t = t[1:]
	}
	e10 := 0
	if i := strings.IndexAny(t, "eE"); i >= 0 {
		fmt.Sscanf(t[i+1:], "%d", &e10)
		t = t[:i]
	}
	if i := strings.IndexByte(t, '.'); i >= 0 {
		e10 -= len(t) - i - 1
		t = t[:i] + t[i+1:]
	}
	t = strings.TrimLeft(t, "0")
	if t == "" {
		t = "0"
	}
	for _, ch := range t {
		if ch < '0' || ch > '9' {
			return
		}
	}
	if c1.NaN || c1.X == nil {
		return
	}
	f, _ := c1.X.Float64()
	c.out.Case("dec_read", []string{neg, t, fmt.Sprint(e10)}, []string{fmt.Sprintf("%016X", math.Float64bits(f))})
}
