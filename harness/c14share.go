package main

// C14, shared type objects: a value (a function, a global variable, an alloca) is constructed; OTHER values take the
// very object its Type() returns (a global initialised with it, an alloca / parameter / load / cast / null constant
// / wrapper type / type definition / select / phi of that type); then exported fields its type depends on are
// assigned (AddrSpace, the variadic flag of the signature, the content or element type), more values take the type,
// typed uses of the value are added -- and at any of these points observers are run on the value and on its uses
// (Type, String, Ident, LLString, Operands, the print of a use, the print of the module).
//
// Oracles: (1) a reflective dump (fields only, no method is called) of the other values is the same before and after
// every batch of observer calls; (2) the type a sharer holds still reads as it read when the sharer took it (the
// generator's record); (3) the final module and the text of every sharer are the same with and without the observer
// calls; (4) two prints in a row agree.  All values are named: the numbering of unnamed values plays no role.

import (
	"fmt"
	"reflect"
	"sort"
	"strings"

	"github.com/llir/llvm/ir"
	"github.com/llir/llvm/ir/constant"
	"github.com/llir/llvm/ir/enum"
	"github.com/llir/llvm/ir/types"
	"github.com/llir/llvm/ir/value"
)

type c14sRecipe struct {
	subj  int   // 0 function declaration, 1 function definition, 2 global variable, 3 alloca
	shr   []int // kinds of the values that take the type object
	when  []int // per sharer: 0 before the late assignments, 1 after them
	late  int   // mask: 1 AddrSpace, 2 second type-relevant field, 4 AddrSpace assigned a second time, 8 fields the type does not depend on
	space int   // the address space assigned (1..3)
	users int   // mask of typed uses of the value: 1 call argument, 2 stored value, 4 operand of a constant expression in a global
	obs   [3]int
}

const c14sSharerKinds = 11

func (rc c14sRecipe) enc() string {
	var a, b []string
	for i := range rc.shr {
		a = append(a, fmt.Sprint(rc.shr[i]))
		b = append(b, fmt.Sprint(rc.when[i]))
	}
	return fmt.Sprintf("%d/%s/%s/%d/%d/%d/%d.%d.%d", rc.subj, strings.Join(a, "."), strings.Join(b, "."), rc.late, rc.space, rc.users, rc.obs[0], rc.obs[1], rc.obs[2])
}

func c14sDec(s string) (rc c14sRecipe, ok bool) {
	p := strings.Split(s, "/")
	if len(p) != 7 {
		return rc, false
	}
	ints := func(t string) []int {
		var out []int
		for _, x := range strings.Split(t, ".") {
			if x == "" {
				continue
			}
			n := 0
			fmt.Sscanf(x, "%d", &n)
			out = append(out, n)
		}
		return out
	}
	fmt.Sscanf(p[0], "%d", &rc.subj)
	rc.shr, rc.when = ints(p[1]), ints(p[2])
	fmt.Sscanf(p[3], "%d", &rc.late)
	fmt.Sscanf(p[4], "%d", &rc.space)
	fmt.Sscanf(p[5], "%d", &rc.users)
	o := ints(p[6])
	if len(o) != 3 || len(rc.shr) != len(rc.when) {
		return rc, false
	}
	copy(rc.obs[:], o)
	return rc, true
}

func c14sGen(r *rng) c14sRecipe {
	rc := c14sRecipe{subj: r.intn(4), space: 1 + r.intn(3), late: r.intn(16), users: r.intn(8)}
	if r.chance(85) {
		rc.late |= 1
	}
	n := 1 + r.intn(4)
	for i := 0; i < n; i++ {
		rc.shr = append(rc.shr, r.intn(c14sSharerKinds))
		w := 0
		if r.chance(25) {
			w = 1
		}
		rc.when = append(rc.when, w)
	}
	for i := range rc.obs {
		switch r.intn(4) {
		case 0:
			rc.obs[i] = 0
		case 1:
			rc.obs[i] = 1 << uint(r.intn(9))
		default:
			rc.obs[i] = r.intn(512)
		}
	}
	return rc
}

type c14sSharer struct {
	label string
	root  interface{}
	typ   func() types.Type // the field that holds the type taken
	taken string            // how that type read when it was taken (re-read after the caller's own late edits, before further observers)
}

type c14sState struct {
	m       *ir.Module
	subj    value.Value
	users   []c15User
	mainF   *ir.Func
	sharers []*c14sSharer
}

// c14sDump renders the exported fields reachable from the roots (dynamic types, scalars, lengths, sharing); the
// opaque objects are named, not entered.  No method of the IR is called.
func c14sDump(roots []interface{}, opaque []interface{}) []string {
	var out []string
	seen := map[uintptr]string{}
	for i, x := range opaque {
		if v := reflect.ValueOf(x); v.Kind() == reflect.Ptr && !v.IsNil() {
			seen[v.Pointer()] = fmt.Sprintf("observed%d", i)
		}
	}
	var walk func(v reflect.Value, path string, depth int)
	walk = func(v reflect.Value, path string, depth int) {
		if depth > 60 || !v.IsValid() {
			return
		}
		switch v.Kind() {
		case reflect.Interface:
			if v.IsNil() {
				out = append(out, path+" = nil")
				return
			}
			out = append(out, path+" :: "+v.Elem().Type().String())
			walk(v.Elem(), path, depth+1)
		case reflect.Ptr:
			if v.IsNil() {
				out = append(out, path+" = nil")
				return
			}
			if n, ok := seen[v.Pointer()]; ok {
				out = append(out, fmt.Sprintf("%s -> #%s", path, n))
				return
			}
			seen[v.Pointer()] = fmt.Sprint(len(seen))
			walk(v.Elem(), path, depth+1)
		case reflect.Struct:
			if v.Type().String() == "big.Int" || v.Type().String() == "big.Float" {
				if v.CanAddr() && v.Addr().CanInterface() {
					out = append(out, fmt.Sprintf("%s = %v", path, v.Addr().Interface()))
				}
				return
			}
			for i := 0; i < v.NumField(); i++ {
				sf := v.Type().Field(i)
				if sf.PkgPath != "" || sf.Name == "Parent" {
					continue
				}
				walk(v.Field(i), path+"."+sf.Name, depth+1)
			}
		case reflect.Slice, reflect.Array:
			out = append(out, fmt.Sprintf("%s len %d", path, v.Len()))
			for i := 0; i < v.Len(); i++ {
				walk(v.Index(i), fmt.Sprintf("%s[%d]", path, i), depth+1)
			}
		case reflect.Map:
			keys := v.MapKeys()
			sort.Slice(keys, func(i, j int) bool { return fmt.Sprint(keys[i]) < fmt.Sprint(keys[j]) })
			for _, k := range keys {
				walk(v.MapIndex(k), fmt.Sprintf("%s[%v]", path, k), depth+1)
			}
		case reflect.String, reflect.Bool, reflect.Int, reflect.Int8, reflect.Int16, reflect.Int32, reflect.Int64,
			reflect.Uint, reflect.Uint8, reflect.Uint16, reflect.Uint32, reflect.Uint64, reflect.Float32, reflect.Float64:
			out = append(out, fmt.Sprintf("%s = %v", path, v))
		}
	}
	for i, x := range roots {
		walk(reflect.ValueOf(x), fmt.Sprintf("sharer%d", i), 0)
	}
	return out
}

func c14sText(x interface{}) string {
	switch v := x.(type) {
	case interface{ LLString() string }:
		return v.LLString()
	case fmt.Stringer:
		return v.String()
	}
	return ""
}

// c14sRun builds the recipe; with observers, every batch of observer calls is bracketed by dumps of the sharers.
func c14sRun(rc c14sRecipe, observers bool) (final string, second string, texts []string, st *c14sState, dumpDiff string) {
	st = &c14sState{m: ir.NewModule()}
	m := st.m
	use := m.NewFunc("use", types.Void)
	use.Sig.Variadic = true
	holder := m.NewFunc("holder", types.Void)
	hb := holder.NewBlock("entry")
	hb.NewRet(nil)
	st.mainF = m.NewFunc("main", types.I32)
	mb := st.mainF.NewBlock("entry")
	mb.NewRet(constant.NewInt(types.I32, 0))
	// the value whose type will be shared
	var fn *ir.Func
	var gl *ir.Global
	var al *ir.InstAlloca
	switch rc.subj {
	case 0:
		fn = m.NewFunc("handler", types.Void)
		st.subj = fn
	case 1:
		fn = m.NewFunc("handler", types.I32, ir.NewParam("x", types.I32))
		fn.NewBlock("entry").NewRet(fn.Params[0])
		st.subj = fn
	case 2:
		gl = m.NewGlobalDef("gv", constant.NewInt(types.I32, 5))
		st.subj = gl
	default:
		al = mb.NewAlloca(types.I32)
		al.SetName("slot")
		st.subj = al
	}
	subjConst, isConst := st.subj.(constant.Constant)
	serial := 0
	take := func(kind int) {
		serial++
		name := fmt.Sprintf("s%d", serial)
		t := st.subj.Type()
		sh := &c14sSharer{taken: t.String()}
		pt, isPtr := t.(*types.PointerType)
		if !isConst && (kind == 0 || kind == 7 || kind == 8) || !isPtr && kind == 5 {
			kind = 1
		}
		switch kind {
		case 0:
			g := m.NewGlobalDef(name, subjConst)
			sh.label, sh.root, sh.typ = "global initialised with the value", g, func() types.Type { return g.ContentType }
		case 1:
			a := hb.NewAlloca(t)
			a.SetName(name)
			sh.label, sh.root, sh.typ = "alloca of the type", a, func() types.Type { return a.ElemType }
		case 2:
			p := ir.NewParam(name, t)
			f := m.NewFunc(name+"f", types.Void, p)
			sh.label, sh.root, sh.typ = "parameter of the type", f, func() types.Type { return p.Typ }
		case 3:
			a := hb.NewAlloca(t)
			a.SetName(name + "a")
			l := hb.NewLoad(t, a)
			l.SetName(name)
			sh.label, sh.root, sh.typ = "load of the type", l, func() types.Type { return l.ElemType }
		case 4:
			bc := hb.NewBitCast(constant.NewNull(types.I8Ptr), t)
			bc.SetName(name)
			sh.label, sh.root, sh.typ = "bitcast to the type", bc, func() types.Type { return bc.To }
		case 5:
			g := m.NewGlobalDef(name, constant.NewNull(pt))
			sh.label, sh.root, sh.typ = "global initialised with null of the type", g, func() types.Type { return g.ContentType }
		case 6:
			var w types.Type
			switch serial % 3 {
			case 0:
				w = types.NewPointer(t)
			case 1:
				w = types.NewArray(2, t)
			default:
				w = types.NewStruct(types.I8, t)
			}
			g := m.NewGlobal(name, w)
			g.Linkage = enum.LinkageExternal
			sh.label, sh.root, sh.typ = "global of a type built over the type", g, func() types.Type { return t }
		case 7:
			s := hb.NewSelect(constant.True, st.subj, st.subj)
			s.SetName(name)
			sh.label, sh.root, sh.typ = "select over the value", s, func() types.Type { return s.Typ }
		case 8:
			p := hb.NewPhi(ir.NewIncoming(st.subj, hb))
			p.SetName(name)
			sh.label, sh.root, sh.typ = "phi over the value", p, func() types.Type { return p.Typ }
		case 9:
			td := m.NewTypeDef(name, types.NewStruct(t, types.I32))
			sh.label, sh.root, sh.typ = "type definition over the type", td, func() types.Type { return td.(*types.StructType).Fields[0] }
		default:
			f := m.NewFunc(name, t)
			sh.label, sh.root, sh.typ = "function returning the type", f, func() types.Type { return f.Sig.RetType }
		}
		st.sharers = append(st.sharers, sh)
	}
	observe := func(mask int, at string) {
		if !observers || mask == 0 {
			return
		}
		var roots, opaque []interface{}
		for _, sh := range st.sharers {
			roots = append(roots, sh.root)
		}
		opaque = append(opaque, st.subj, st.mainF)
		for _, u := range st.users {
			opaque = append(opaque, u)
		}
		before := c14sDump(roots, opaque)
		if mask&1 != 0 {
			_ = st.subj.Type()
		}
		if mask&2 != 0 {
			_ = st.subj.String()
		}
		if mask&4 != 0 {
			_ = st.subj.Ident()
		}
		if mask&8 != 0 {
			_ = c14sText(st.subj)
		}
		if mask&16 != 0 {
			if in, ok := st.subj.(ir.Instruction); ok {
				_ = in.Operands()
			}
			for _, u := range st.users {
				_ = u.Operands()
			}
		}
		if mask&32 != 0 {
			for _, u := range st.users {
				_ = u.LLString()
			}
		}
		if mask&64 != 0 {
			_ = m.String()
		}
		if mask&128 != 0 {
			var sb strings.Builder
			m.WriteTo(&sb)
		}
		if mask&256 != 0 {
			_ = st.mainF.LLString()
		}
		after := c14sDump(roots, opaque)
		if d := firstDumpDiff(before, after); d != "equal" && dumpDiff == "" {
			dumpDiff = at + ": " + d
		}
	}
	for i, k := range rc.shr {
		if rc.when[i] == 0 {
			take(k)
		}
	}
	observe(rc.obs[0], "after the type was taken")
	// fields assigned after the constructor
	sp := types.AddrSpace(rc.space)
	switch {
	case fn != nil:
		if rc.late&1 != 0 {
			fn.AddrSpace = sp
		}
		if rc.late&2 != 0 {
			fn.Sig.Variadic = true
		}
		if rc.late&8 != 0 {
			fn.CallingConv = enum.CallingConvFast
			fn.Section = ".s"
			fn.Align = 16
		}
	case gl != nil:
		if rc.late&1 != 0 {
			gl.AddrSpace = sp
		}
		if rc.late&2 != 0 {
			gl.Init = constant.NewInt(types.I64, 7)
			gl.ContentType = types.I64
		}
		if rc.late&8 != 0 {
			gl.Immutable = true
			gl.Align = 8
			gl.UnnamedAddr = enum.UnnamedAddrUnnamedAddr
		}
	default:
		if rc.late&1 != 0 {
			al.AddrSpace = sp
		}
		if rc.late&2 != 0 {
			al.ElemType = types.I64
		}
		if rc.late&8 != 0 {
			al.Align = 8
			al.InAlloca = true
		}
	}
	// how the types the sharers hold read now, after the caller's own edits (an edit of the signature object is seen
	// through every type built over it) and before any further observer call
	for _, sh := range st.sharers {
		sh.taken = sh.typ().String()
	}
	if rc.late&4 != 0 {
		observe(rc.obs[1], "between two assignments of the address space")
		sp2 := types.AddrSpace((rc.space + 1) % 4)
		switch {
		case fn != nil:
			fn.AddrSpace = sp2
		case gl != nil:
			gl.AddrSpace = sp2
		default:
			al.AddrSpace = sp2
		}
	}
	for i, k := range rc.shr {
		if rc.when[i] == 1 {
			take(k)
		}
	}
	observe(rc.obs[1], "after the fields were assigned")
	// typed uses of the value
	if rc.users&1 != 0 {
		st.users = append(st.users, mb.NewCall(use, st.subj))
	}
	if rc.users&2 != 0 {
		slot := mb.NewAlloca(st.subj.Type())
		slot.SetName("box")
		st.users = append(st.users, &ir.InstStore{Src: st.subj, Dst: slot})
		mb.Insts = append(mb.Insts, st.users[len(st.users)-1].(ir.Instruction))
	}
	if rc.users&4 != 0 && isConst {
		m.NewGlobalDef("addr", constant.NewPtrToInt(subjConst, types.I64))
	}
	observe(rc.obs[2], "after the uses were added")
	final = m.String()
	if printedPanic(final) {
		panic(final)
	}
	second = m.String()
	for _, sh := range st.sharers {
		texts = append(texts, c14sText(sh.root))
	}
	return
}

func c14sCheck(c *config, rc c14sRecipe) (failed bool) {
	o := c.out
	var with, second, without, dumpDiff string
	var tw, two []string
	var st *c14sState
	det := func(extra map[string]interface{}) map[string]interface{} {
		d := map[string]interface{}{"share_history": rc.enc()}
		for k, v := range extra {
			d[k] = v
		}
		return d
	}
	oc1, msg1 := guard(func() error { with, second, tw, st, dumpDiff = c14sRun(rc, true); return nil })
	oc2, _ := guard(func() error { without, _, two, _, _ = c14sRun(rc, false); return nil })
	o.Stat("share_histories")
	o.StatN("share_sharers", len(rc.shr))
	o.Nontrivial("share:" + rc.enc())
	switch {
	case oc2 != ocOk:
		o.Stat("share_histories.unprintable")
		return false
	case oc1 != ocOk:
		o.Fail("observers_noop", "", "a history with observer calls panics where the same steps alone do not (shared type objects)", det(map[string]interface{}{"msg": msg1}))
		return true
	}
	bad := false
	if dumpDiff != "" {
		bad = true
		o.Fail("observers_noop", "", "observer calls on one value changed a field of another value that shares its type object", det(map[string]interface{}{"dump_difference": dumpDiff, "with": with}))
	}
	for _, sh := range st.sharers {
		if now := sh.typ().String(); now != sh.taken {
			bad = true
			o.Fail("observers_noop", "", "the type a value took from another reads differently after observer calls on that other value", det(map[string]interface{}{"sharer": sh.label, "type_before_the_observer_calls": sh.taken, "type_now": now, "text": c14sText(sh.root)}))
			break
		}
	}
	if with != without {
		bad = true
		o.Fail("observers_noop", "", "final module differs with and without the observer calls (shared type objects)", det(map[string]interface{}{"with": with, "without": without}))
	}
	for i := range tw {
		if i < len(two) && tw[i] != two[i] {
			bad = true
			o.Fail("observers_noop", "", "a value that shares a type object prints differently with and without observer calls on the other value", det(map[string]interface{}{"with": tw[i], "without": two[i]}))
			break
		}
	}
	if second != with {
		bad = true
		o.Fail("print_twice", "", "second print differs (shared type objects)", det(map[string]interface{}{"first": with, "second": second}))
	}
	if !bad {
		o.Pass("observers_noop")
		o.Pass("print_twice")
	}
	return bad
}

func c14Share(c *config, r *rng) {
	o := c.out
	fails := 0
	for i := 0; i < 1500*c.scale; i++ {
		rc := c14sGen(r)
		if i < 1 {
			var w string
			guard(func() error { w, _, _, _, _ = c14sRun(rc, true); return nil })
			o.Sample(map[string]interface{}{"share_history": rc.enc(), "final": w})
		}
		if fails >= 25 {
			// enough failing inputs reported; the remaining recipes still count as evaluated
			o.Stat("share_histories.not_reported")
			continue
		}
		if c14sCheck(c, rc) {
			fails++
		}
	}
}
