package main

// C14, locals without a name: histories over ONE function built through the constructors (Module.NewFunc with unnamed
// and named parameters, Func.NewBlock(""), Block.NewAdd / NewCall / NewStore, NewBr / NewCondBr / NewSwitch / NewRet) in
// which the observers are the queries of the SUB-entities only -- Block.String / Ident / Type / Name / LLString,
// Inst and Term LLString / String / Type / Ident / Operands / Succs, Case.String, Param.String / Ident / Type / LLString --
// and never Func.LLString or a print of the module (those store the local IDs: KF-15).  The edits shift the ranks of
// the unnamed locals: unnamed (and named) instructions inserted into EARLIER blocks, blocks inserted at any rank,
// parameters appended, terminators replaced.
//
// Oracles: (1) the final print of the module (text or panic) is the same with and without the observer calls; (2) the
// method-free dump of the module (c14share.go; local IDs INCLUDED, no observer here may store one) is identical
// around every batch of observer calls; (3) without observers the one and only print succeeds; (4) two prints agree.

import (
	"fmt"
	"strings"

	"github.com/llir/llvm/ir"
	"github.com/llir/llvm/ir/constant"
	"github.com/llir/llvm/ir/types"
	"github.com/llir/llvm/ir/value"
)

type c14lOp struct {
	kind       byte // B block, I instruction, P parameter, T terminator, Q observe
	a, b, c, d int
}

type c14lState struct {
	m        *ir.Module
	f, voidF *ir.Func
	serial   int
	dumpDiff string
}

func c14lNew(np int) *c14lState {
	m := ir.NewModule()
	voidF := m.NewFunc("vf", types.Void)
	var ps []*ir.Param
	for i := 0; i < np%4; i++ {
		n := ""
		if i == 1 {
			n = "p"
		}
		ps = append(ps, ir.NewParam(n, types.I32))
	}
	f := m.NewFunc("f", types.Void, ps...)
	return &c14lState{m: m, f: f, voidF: voidF}
}

func (s *c14lState) operand() value.Value {
	if n := len(s.f.Params); n > 0 {
		return s.f.Params[s.serial%n]
	}
	return constant.NewInt(types.I32, int64(s.serial))
}

func (s *c14lState) observe(mask, target int) {
	roots := []interface{}{s.m}
	before := c14lDump(roots)
	if mask&64 != 0 {
		for _, p := range s.f.Params {
			_ = p.String()
			_ = p.Ident()
			_ = p.Type()
			_ = p.LLString()
			_ = p.Name()
		}
	}
	for k, b := range s.f.Blocks {
		if target != 0 && (target-1)%len(s.f.Blocks) != k {
			continue
		}
		if mask&1 != 0 {
			_ = b.String()
		}
		if mask&2 != 0 {
			_ = b.Ident()
			_ = b.Type()
			_ = b.Name()
			_ = b.IsUnnamed()
		}
		if mask&4 != 0 {
			_ = b.LLString()
		}
		if mask&8 != 0 {
			for _, in := range b.Insts {
				_ = in.LLString()
				if iv, ok := in.(value.Value); ok {
					_ = iv.String()
					_ = iv.Type()
					_ = iv.Ident()
				}
			}
		}
		if mask&16 != 0 {
			for _, in := range b.Insts {
				for _, op := range in.Operands() {
					_ = (*op).String()
					_ = (*op).Ident()
				}
			}
		}
		if b.Term != nil {
			if mask&32 != 0 {
				_ = b.Term.LLString()
			}
			if mask&128 != 0 {
				for _, sb := range b.Term.Succs() {
					_ = sb.Ident()
				}
				for _, op := range b.Term.Operands() {
					_ = (*op).Type()
					_ = (*op).Ident()
				}
				if sw, ok := b.Term.(*ir.TermSwitch); ok {
					for _, cs := range sw.Cases {
						_ = cs.String()
					}
				}
			}
			if mask&256 != 0 {
				for _, op := range b.Term.Operands() {
					_ = (*op).String()
				}
			}
		}
	}
	after := c14lDump(roots)
	if d := firstDumpDiff(before, after); d != "equal" && s.dumpDiff == "" {
		s.dumpDiff = d
	}
}

// the method-free dump without the terminators' Successors cache (filled by the first Succs() call; its liveness is
// C15's matter), local IDs included
func c14lDump(roots []interface{}) []string {
	var out []string
	for _, l := range c14sDump(roots, nil) {
		if !strings.Contains(l, ".Successors") {
			out = append(out, l)
		}
	}
	return out
}

func (s *c14lState) apply(op c14lOp, observers bool) {
	nb := len(s.f.Blocks)
	switch op.kind {
	case 'B':
		s.serial++
		name := ""
		if op.b%4 == 0 {
			name = fmt.Sprintf("bb%d", s.serial)
		}
		b := s.f.NewBlock(name) // appended, Parent set
		b.NewRet(nil)
		// moved to its rank (never in front of the entry block once there is one)
		p := nb
		if nb > 0 {
			p = 1 + op.a%nb
		}
		copy(s.f.Blocks[p+1:], s.f.Blocks[p:nb])
		s.f.Blocks[p] = b
	case 'I':
		if nb == 0 {
			return
		}
		b := s.f.Blocks[op.a%nb]
		s.serial++
		var in ir.Instruction
		switch op.c % 5 {
		case 0:
			in = ir.NewCall(s.voidF)
		case 1:
			in = ir.NewStore(s.operand(), constant.NewNull(types.NewPointer(types.I32)))
		case 2:
			x := ir.NewAdd(s.operand(), constant.NewInt(types.I32, 2))
			x.SetName(fmt.Sprintf("v%d", s.serial))
			in = x
		default:
			in = ir.NewAdd(s.operand(), constant.NewInt(types.I32, int64(s.serial)))
		}
		p := op.b % (len(b.Insts) + 1)
		b.Insts = append(b.Insts, nil)
		copy(b.Insts[p+1:], b.Insts[p:])
		b.Insts[p] = in
	case 'P':
		s.serial++
		name := ""
		if op.a%3 == 0 {
			name = fmt.Sprintf("q%d", s.serial)
		}
		p := ir.NewParam(name, types.I32)
		s.f.Params = append(s.f.Params, p)
		s.f.Sig.Params = append(s.f.Sig.Params, p.Type())
	case 'T':
		if nb < 2 {
			return
		}
		b := s.f.Blocks[op.a%nb]
		t1, t2 := s.f.Blocks[1+op.c%(nb-1)], s.f.Blocks[1+op.d%(nb-1)]
		switch op.b % 4 {
		case 0:
			b.Term = ir.NewRet(nil)
		case 1:
			b.Term = ir.NewBr(t1)
		case 2:
			b.Term = ir.NewCondBr(constant.NewInt(types.I1, 1), t1, t2)
		default:
			b.Term = ir.NewSwitch(constant.NewInt(types.I32, 3), t1, ir.NewCase(constant.NewInt(types.I32, 1), t2), ir.NewCase(constant.NewInt(types.I32, 2), t1))
		}
	case 'Q':
		if observers {
			s.observe(op.a, op.b)
		}
	}
}

func c14lGen(r *rng, n int) []c14lOp {
	h := []c14lOp{{kind: 'P', a: r.intn(8)}, {kind: 'B', a: 0, b: r.intn(4)}, {kind: 'B', a: r.intn(4), b: 1 + r.intn(3)}}
	for len(h) < n {
		var op c14lOp
		switch x := r.intn(100); {
		case x < 18:
			op = c14lOp{kind: 'B', a: r.intn(8), b: r.intn(8)}
		case x < 50:
			op = c14lOp{kind: 'I', a: r.intn(8), b: r.intn(6), c: r.intn(10)}
			if r.chance(40) {
				op.a = 0 // the earliest block
			}
		case x < 56:
			op = c14lOp{kind: 'P', a: r.intn(6)}
		case x < 72:
			op = c14lOp{kind: 'T', a: r.intn(8), b: r.intn(4), c: r.intn(8), d: r.intn(8)}
		default:
			op = c14lOp{kind: 'Q', a: 1 + r.intn(511), b: r.intn(5)}
			if r.chance(30) {
				op.a = 1 << uint(r.intn(9))
			}
		}
		h = append(h, op)
	}
	return h
}

func c14lEnc(np int, h []c14lOp) string {
	parts := []string{fmt.Sprint(np)}
	for _, op := range h {
		parts = append(parts, fmt.Sprintf("%c:%d:%d:%d:%d", op.kind, op.a, op.b, op.c, op.d))
	}
	return strings.Join(parts, ";")
}

func c14lDec(s string) (np int, h []c14lOp) {
	parts := strings.Split(s, ";")
	fmt.Sscan(parts[0], &np)
	for _, p := range parts[1:] {
		var op c14lOp
		var k rune
		if _, err := fmt.Sscanf(p, "%c:%d:%d:%d:%d", &k, &op.a, &op.b, &op.c, &op.d); err == nil {
			op.kind = byte(k)
			h = append(h, op)
		}
	}
	return
}

func c14lRun(np int, h []c14lOp, observers bool) (text, second, dumpDiff string) {
	s := c14lNew(np)
	oc, msg := guard(func() error {
		for _, op := range h {
			s.apply(op, observers)
		}
		text = s.m.String()
		if printedPanic(text) {
			panic(text)
		}
		second = s.m.String()
		return nil
	})
	if oc != ocOk {
		return "Panic: " + msg, "", s.dumpDiff
	}
	return text, second, s.dumpDiff
}

func c14lDiffers(np int, h []c14lOp, textOnly bool) bool {
	a, _, dd := c14lRun(np, h, true)
	b, _, _ := c14lRun(np, h, false)
	return a != b || !textOnly && dd != ""
}

func c14lShrink(np int, h []c14lOp, textOnly bool) []c14lOp {
	for changed := true; changed; {
		changed = false
		for i := len(h) - 1; i >= 0; i-- {
			cand := append(append([]c14lOp{}, h[:i]...), h[i+1:]...)
			if c14lDiffers(np, cand, textOnly) {
				h, changed = cand, true
			}
		}
		for i := range h {
			if h[i].kind != 'Q' {
				continue
			}
			for bit := 1; bit < 512; bit <<= 1 {
				if h[i].a&bit != 0 && h[i].a != bit {
					cand := append([]c14lOp{}, h...)
					cand[i].a &^= bit
					if c14lDiffers(np, cand, textOnly) {
						h, changed = cand, true
					}
				}
			}
		}
	}
	return h
}

func c14lCheck(o *out, np int, h []c14lOp) (failed bool) {
	with, second, dumpDiff := c14lRun(np, h, true)
	without, _, _ := c14lRun(np, h, false)
	if with != without || dumpDiff != "" {
		small := c14lShrink(np, h, with != without)
		w2, _, dd2 := c14lRun(np, small, true)
		wo2, _, _ := c14lRun(np, small, false)
		if w2 != wo2 {
			o.Fail("observers_noop", "", "final module differs with and without the observer calls on blocks, instructions, terminators and parameters (unnamed locals)",
				map[string]interface{}{"loc_history": c14lEnc(np, small), "with": w2, "without": wo2, "dump_difference": dd2})
		} else {
			o.Fail("observers_noop", "", "observer calls on blocks, instructions, terminators and parameters changed a field of the module (unnamed locals)",
				map[string]interface{}{"loc_history": c14lEnc(np, small), "dump_difference": dd2})
		}
		failed = true
	} else {
		o.Pass("observers_noop")
	}
	if strings.HasPrefix(without, "Panic") {
		o.Fail("first_print", "", "the first print of a module panics after construction steps alone (unnamed locals)", map[string]interface{}{"loc_history": c14lEnc(np, h), "without": without})
		failed = true
	} else {
		o.Pass("first_print")
	}
	if !strings.HasPrefix(with, "Panic") {
		if second != with {
			o.Fail("print_twice", "", "second print differs (unnamed locals)", map[string]interface{}{"loc_history": c14lEnc(np, h)})
			failed = true
		} else {
			o.Pass("print_twice")
		}
	}
	return failed
}

func c14lReplay(o *out, rp *replayFile) bool {
	lh, ok := rp.Detail["loc_history"].(string)
	if !ok {
		return false
	}
	np, h := c14lDec(lh)
	with, _, dd := c14lRun(np, h, true)
	without, _, _ := c14lRun(np, h, false)
	fmt.Printf("history (unnamed locals): %s\n--- with the observer calls:\n%s\n--- without:\n%s\n--- dump difference: %s\n", lh, with, without, dd)
	c14lCheck(o, np, h)
	return true
}

func c14Loc(c *config, r *rng) {
	o := c.out
	fails := 0
	for i := 0; i < 600*c.scale; i++ {
		np := r.intn(4)
		h := c14lGen(r, 5+r.intn(26))
		o.Stat("loc_histories")
		o.StatN("loc_ops", len(h))
		o.Nontrivial("loc:" + c14lEnc(np, h))
		if i < 1 {
			w, _, _ := c14lRun(np, h, true)
			o.Sample(map[string]interface{}{"loc_history": c14lEnc(np, h), "final": w})
		}
		if fails >= 6 {
			o.Stat("loc_histories.not_reported")
			continue
		}
		if c14lCheck(o, np, h) {
			fails++
		}
	}
}
