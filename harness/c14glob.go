package main

// C14, module-level entities without a name: histories over a module made with Module.NewGlobal("") /
// NewGlobalDef("") / NewFunc("") / NewAlias("") / NewIFunc("") (and named ones in between), in which the observers are
// the printers and queries of the parts -- Func.LLString, Block.LLString, Global/Alias/IFunc.LLString, Ident, Type,
// String of every entity, the instruction level ones -- but never a print of the module.  The edits are module-level:
// entities of every kind appended or inserted at any rank, named or unnamed, renamed, un-named, removed.  The bodies
// of the functions refer to the unnamed globals and functions and are not edited after they were built, so the
// numbering of the locals never shifts (KF-15's matter, left to the single-function histories).
//
// Oracles: (1) the final print of the module (text or panic) is the same with and without the observer calls;
// (2) a reflective dump of the module (fields only, no method is called; the local IDs a function print may store are
// left out) is the same before and after every batch of observer calls; (3) without a single print before it the
// final print succeeds and numbers the unnamed entities by rank -- globals, aliases, ifuncs, functions, in the order
// of the module's lists, which the generator itself arranged; (4) two prints in a row agree.

import (
	"fmt"
	"strings"

	"github.com/llir/llvm/ir"
	"github.com/llir/llvm/ir/constant"
	"github.com/llir/llvm/ir/enum"
	"github.com/llir/llvm/ir/types"
	"github.com/llir/llvm/ir/value"
)

type c14gOp struct {
	kind       byte // G global, F function, A alias, I ifunc, N rename, R remove, Q observe
	a, b, c, d int
}

type c14gEnt struct {
	kind     byte // G, A, I, F
	g        *ir.Global
	a        *ir.Alias
	i        *ir.IFunc
	f        *ir.Func
	def      bool // has a definition (may be aliased)
	resolver bool // a function that returns a pointer to a void function
	voidFn   bool // a function of type void ()
	refs     int
	uses     []*c14gEnt
}

func (e *c14gEnt) named() interface {
	SetName(string)
	IsUnnamed() bool
	ID() int64
	Ident() string
} {
	switch e.kind {
	case 'G':
		return e.g
	case 'A':
		return e.a
	case 'I':
		return e.i
	}
	return e.f
}

type c14gState struct {
	m        *ir.Module
	ents     []*c14gEnt
	serial   int
	dumpDiff string
}

func (s *c14gState) name(op c14gOp, p string) string {
	if op.a%3 != 0 { // two in three are unnamed
		return ""
	}
	s.serial++
	return fmt.Sprintf("%s%d", p, s.serial)
}

func (s *c14gState) pick(k int, ok func(*c14gEnt) bool) *c14gEnt {
	var c []*c14gEnt
	for _, e := range s.ents {
		if ok(e) {
			c = append(c, e)
		}
	}
	if len(c) == 0 {
		return nil
	}
	return c[k%len(c)]
}

func (e *c14gEnt) use(t *c14gEnt) { t.refs++; e.uses = append(e.uses, t) }

// place moves the entity a constructor has just appended to its list to the rank the operation asks for
func c14gPlace(n int, op c14gOp, swap func(i, j int)) {
	if op.c%3 != 0 || n < 2 {
		return // stays last
	}
	pos := (op.c / 3) % n
	for i := n - 1; i > pos; i-- {
		swap(i, i-1)
	}
}

func (s *c14gState) observe(mask, target int) {
	var roots []interface{}
	roots = append(roots, s.m)
	before := c14gDump(roots)
	for k, e := range s.ents {
		if target != 0 && (target-1)%len(s.ents) != k {
			continue
		}
		var v value.Value
		var ll interface{ LLString() string }
		switch e.kind {
		case 'G':
			v, ll = e.g, e.g
		case 'A':
			v, ll = e.a, e.a
		case 'I':
			v, ll = e.i, e.i
		default:
			v, ll = e.f, e.f
		}
		if mask&8 != 0 {
			_ = v.Ident()
		}
		if mask&16 != 0 {
			_ = v.Type()
		}
		if mask&32 != 0 {
			_ = v.String()
		}
		if e.kind == 'F' {
			if mask&1 != 0 {
				_ = ll.LLString()
			}
			for _, p := range e.f.Params {
				if mask&128 != 0 {
					_ = p.LLString()
					_ = p.Ident()
					_ = p.Type()
				}
			}
			for _, b := range e.f.Blocks {
				if mask&2 != 0 {
					_ = b.LLString()
					_ = b.Ident()
					_ = b.Type()
				}
				if mask&128 != 0 {
					for _, in := range b.Insts {
						if iv, ok := in.(value.Value); ok {
							_ = iv.Type()
							_ = iv.Ident()
							_ = iv.String()
						}
						_ = in.LLString()
						_ = in.Operands()
					}
					_ = b.Term.LLString()
					_ = b.Term.Operands()
				}
			}
		} else if e.kind == 'G' && mask&4 != 0 || e.kind != 'G' && mask&64 != 0 {
			_ = ll.LLString()
		}
	}
	after := c14gDump(roots)
	if d := firstDumpDiff(before, after); d != "equal" && s.dumpDiff == "" {
		s.dumpDiff = d
	}
}

// c14gDump: the method-free dump of c14share.go over the module, without the local IDs (a function print stores
// those of its own parameters, blocks and instructions; the bodies are never edited afterwards)
func c14gDump(roots []interface{}) []string {
	var out []string
	for _, l := range c14sDump(roots, nil) {
		if !strings.Contains(l, ".LocalID = ") {
			out = append(out, l)
		}
	}
	return out
}

func (s *c14gState) apply(op c14gOp, observers bool) {
	m := s.m
	switch op.kind {
	case 'G':
		e := &c14gEnt{kind: 'G'}
		if op.b%2 == 0 {
			e.g = m.NewGlobal(s.name(op, "g"), types.I32)
			e.g.Linkage = enum.LinkageExternal
		} else {
			e.g = m.NewGlobalDef(s.name(op, "g"), constant.NewInt(types.I32, int64(op.d%5)))
			e.def = true
		}
		c14gPlace(len(m.Globals), op, func(i, j int) { m.Globals[i], m.Globals[j] = m.Globals[j], m.Globals[i] })
		s.ents = append(s.ents, e)
	case 'F':
		e := &c14gEnt{kind: 'F'}
		voidSig := types.NewPointer(types.NewFunc(types.Void))
		switch op.b % 4 {
		case 0:
			e.f = m.NewFunc(s.name(op, "f"), types.Void)
			e.voidFn = true
		case 1:
			// a resolver: returns the address of a void function (or null)
			e.f = m.NewFunc(s.name(op, "f"), voidSig)
			e.resolver, e.def = true, true
			var r constant.Constant = constant.NewNull(voidSig)
			if t := s.pick(op.d, func(x *c14gEnt) bool { return x.voidFn }); t != nil {
				r = t.f
				e.use(t)
			}
			bn := ""
			if op.d%2 == 0 {
				bn = "entry"
			}
			e.f.NewBlock(bn).NewRet(r)
		default:
			var ps []*ir.Param
			if op.d%3 == 0 {
				ps = append(ps, ir.NewParam("", types.I32))
			}
			e.f = m.NewFunc(s.name(op, "f"), types.Void, ps...)
			e.voidFn, e.def = len(ps) == 0, true
			bn := ""
			if op.d%2 == 0 {
				bn = "entry"
			}
			b := e.f.NewBlock(bn)
			for k := 0; k < 1+op.d%3; k++ {
				if t := s.pick(op.d/3+k, func(x *c14gEnt) bool { return x.kind == 'G' }); t != nil {
					l := b.NewLoad(types.I32, t.g)
					if (op.d+k)%4 == 0 {
						s.serial++
						l.SetName(fmt.Sprintf("v%d", s.serial))
					}
					e.use(t)
				}
				if t := s.pick(op.d/5+k, func(x *c14gEnt) bool { return x.voidFn }); t != nil && k < 2 {
					b.NewCall(t.f)
					e.use(t)
				}
			}
			b.NewRet(nil)
		}
		c14gPlace(len(m.Funcs), op, func(i, j int) { m.Funcs[i], m.Funcs[j] = m.Funcs[j], m.Funcs[i] })
		s.ents = append(s.ents, e)
	case 'A':
		t := s.pick(op.b, func(x *c14gEnt) bool { return x.def && (x.kind == 'G' || x.kind == 'F') })
		if t == nil {
			return
		}
		e := &c14gEnt{kind: 'A', def: false}
		if t.kind == 'G' {
			e.a = m.NewAlias(s.name(op, "a"), t.g)
		} else {
			e.a = m.NewAlias(s.name(op, "a"), t.f)
		}
		e.use(t)
		c14gPlace(len(m.Aliases), op, func(i, j int) { m.Aliases[i], m.Aliases[j] = m.Aliases[j], m.Aliases[i] })
		s.ents = append(s.ents, e)
	case 'I':
		t := s.pick(op.b, func(x *c14gEnt) bool { return x.resolver })
		if t == nil {
			return
		}
		e := &c14gEnt{kind: 'I'}
		e.i = m.NewIFunc(s.name(op, "i"), t.f)
		e.use(t)
		c14gPlace(len(m.IFuncs), op, func(i, j int) { m.IFuncs[i], m.IFuncs[j] = m.IFuncs[j], m.IFuncs[i] })
		s.ents = append(s.ents, e)
	case 'N':
		if len(s.ents) == 0 {
			return
		}
		e := s.ents[op.a%len(s.ents)]
		nm := ""
		if op.b%2 == 0 {
			s.serial++
			nm = fmt.Sprintf("n%d", s.serial)
		}
		e.named().SetName(nm)
	case 'R':
		if len(s.ents) == 0 {
			return
		}
		k := op.a % len(s.ents)
		e := s.ents[k]
		if e.refs > 0 {
			return
		}
		switch e.kind {
		case 'G':
			for i, x := range m.Globals {
				if x == e.g {
					m.Globals = append(m.Globals[:i:i], m.Globals[i+1:]...)
					break
				}
			}
		case 'A':
			for i, x := range m.Aliases {
				if x == e.a {
					m.Aliases = append(m.Aliases[:i:i], m.Aliases[i+1:]...)
					break
				}
			}
		case 'I':
			for i, x := range m.IFuncs {
				if x == e.i {
					m.IFuncs = append(m.IFuncs[:i:i], m.IFuncs[i+1:]...)
					break
				}
			}
		default:
			for i, x := range m.Funcs {
				if x == e.f {
					m.Funcs = append(m.Funcs[:i:i], m.Funcs[i+1:]...)
					break
				}
			}
		}
		for _, t := range e.uses {
			t.refs--
		}
		s.ents = append(s.ents[:k:k], s.ents[k+1:]...)
	case 'Q':
		if observers && len(s.ents) > 0 {
			s.observe(op.a, op.b)
		}
	}
}

func c14gGen(r *rng, n int) []c14gOp {
	var h []c14gOp
	for i := 0; i < n; i++ {
		op := c14gOp{a: r.intn(1000), b: r.intn(1000), c: r.intn(1000), d: r.intn(1000)}
		switch k := r.intn(20); {
		case k < 4:
			op.kind = 'G'
		case k < 8:
			op.kind = 'F'
		case k < 10:
			op.kind = 'A'
		case k < 11:
			op.kind = 'I'
		case k < 13:
			op.kind = 'N'
		case k < 14:
			op.kind = 'R'
		default:
			op.kind = 'Q'
			op.a = 1 + r.intn(255)
			if r.chance(40) {
				op.a = 1 << uint(r.intn(8))
			}
			op.b = 0
			if r.chance(40) {
				op.b = 1 + r.intn(50)
			}
		}
		h = append(h, op)
	}
	return h
}

func c14gEnc(h []c14gOp) string {
	var sb strings.Builder
	for _, op := range h {
		fmt.Fprintf(&sb, "%c%d.%d.%d.%d ", op.kind, op.a, op.b, op.c, op.d)
	}
	return strings.TrimSpace(sb.String())
}

func c14gDec(s string) []c14gOp {
	var h []c14gOp
	for _, t := range strings.Fields(s) {
		var op c14gOp
		op.kind = t[0]
		fmt.Sscanf(t[1:], "%d.%d.%d.%d", &op.a, &op.b, &op.c, &op.d)
		h = append(h, op)
	}
	return h
}

// c14gRun applies the history and prints the module (twice); idsBad describes the first unnamed entity whose ID after
// the final print is not its rank.
func c14gRun(h []c14gOp, observers bool) (text, second, dumpDiff, idsBad string) {
	s := &c14gState{m: ir.NewModule()}
	oc, msg := guard(func() error {
		for _, op := range h {
			s.apply(op, observers)
		}
		text = s.m.String()
		if printedPanic(text) {
			panic(text)
		}
		second = s.m.String()
		return nil
	})
	dumpDiff = s.dumpDiff
	if oc != ocOk {
		return "Panic: " + msg, "", dumpDiff, ""
	}
	rank := int64(0)
	check := func(kind string, n interface {
		IsUnnamed() bool
		ID() int64
	}) {
		if !n.IsUnnamed() {
			return
		}
		if n.ID() != rank && idsBad == "" {
			idsBad = fmt.Sprintf("unnamed %s of rank %d has ID %d", kind, rank, n.ID())
		}
		rank++
	}
	for _, g := range s.m.Globals {
		check("global", g)
	}
	for _, a := range s.m.Aliases {
		check("alias", a)
	}
	for _, i := range s.m.IFuncs {
		check("ifunc", i)
	}
	for _, f := range s.m.Funcs {
		check("function", f)
	}
	return
}

// c14gDiffers: the final prints differ (textOnly), or they differ or a dump around a batch of observer calls does
func c14gDiffers(h []c14gOp, textOnly bool) bool {
	a, _, dd, _ := c14gRun(h, true)
	b, _, _, _ := c14gRun(h, false)
	return a != b || !textOnly && dd != ""
}

// c14gShrink drops operations and observer bits while the two runs keep differing
func c14gShrink(h []c14gOp, textOnly bool) []c14gOp {
	for changed := true; changed; {
		changed = false
		for i := len(h) - 1; i >= 0; i-- {
			cand := append(append([]c14gOp{}, h[:i]...), h[i+1:]...)
			if c14gDiffers(cand, textOnly) {
				h, changed = cand, true
			}
		}
		for i := range h {
			if h[i].kind != 'Q' {
				continue
			}
			for bit := 1; bit < 256; bit <<= 1 {
				if h[i].a&bit != 0 && h[i].a != bit {
					cand := append([]c14gOp{}, h...)
					cand[i].a &^= bit
					if c14gDiffers(cand, textOnly) {
						h, changed = cand, true
					}
				}
			}
		}
	}
	return h
}

func c14gCheck(o *out, h []c14gOp) (failed bool) {
	with, second, dumpDiff, _ := c14gRun(h, true)
	without, _, _, idsBad := c14gRun(h, false)
	if with != without || dumpDiff != "" {
		small := c14gShrink(h, with != without) // (a history whose final prints differ is reduced to one whose final prints differ)
		w2, _, dd2, _ := c14gRun(small, true)
		wo2, _, _, _ := c14gRun(small, false)
		if w2 != wo2 {
			o.Fail("observers_noop", "", "final module differs with and without the observer calls on its parts (unnamed module-level entities)",
				map[string]interface{}{"glob_history": c14gEnc(small), "with": w2, "without": wo2, "dump_difference": dd2})
		} else {
			o.Fail("observers_noop", "", "observer calls on the parts of a module changed a field of the module (unnamed module-level entities)",
				map[string]interface{}{"glob_history": c14gEnc(small), "dump_difference": dd2})
		}
		failed = true
	} else {
		o.Pass("observers_noop")
	}
	switch {
	case strings.HasPrefix(without, "Panic"):
		o.Fail("first_print", "", "the first print of a module panics after module-level edits alone", map[string]interface{}{"glob_history": c14gEnc(h), "without": without})
		failed = true
	case idsBad != "":
		o.Fail("first_print", "", "the first print does not number the unnamed module-level entities by rank", map[string]interface{}{"glob_history": c14gEnc(h), "ids": idsBad, "without": without})
		failed = true
	default:
		o.Pass("first_print")
	}
	if !strings.HasPrefix(with, "Panic") {
		if second != with {
			o.Fail("print_twice", "", "second print differs (unnamed module-level entities)", map[string]interface{}{"glob_history": c14gEnc(h)})
			failed = true
		} else {
			o.Pass("print_twice")
		}
	}
	return failed
}

func c14Glob(c *config, r *rng) {
	o := c.out
	fails := 0
	for i := 0; i < 1200*c.scale; i++ {
		h := c14gGen(r, 4+r.intn(30))
		o.Stat("glob_histories")
		o.StatN("glob_ops", len(h))
		o.Nontrivial("glob:" + c14gEnc(h))
		if i < 1 {
			w, _, _, _ := c14gRun(h, true)
			o.Sample(map[string]interface{}{"glob_history": c14gEnc(h), "final": w})
		}
		if fails >= 10 {
			o.Stat("glob_histories.not_reported")
			continue
		}
		if c14gCheck(o, h) {
			fails++
		}
	}
}
