package main

// C18: every enumerated keyword maps back to the value that printed it; flag sets print as their members.

import (
	"encoding/json"
	"fmt"
	"os"
	"reflect"
	"regexp"
	"sort"
	"strings"

	"github.com/llir/llvm/asm"
	"github.com/llir/llvm/ir"
	"github.com/llir/llvm/ir/enum"
	"github.com/llir/llvm/ir/metadata"
	"github.com/llir/llvm/ir/types"
)

func init() { props["C18"] = runC18 }

var reFallback = regexp.MustCompile(`^[A-Za-z]+\(-?[0-9]+\)$`)

func enumFrom(f enumFuncs, s string) (v int64, oc outcome) {
	oc, _ = guard(func() error { v = f.from(s); return nil })
	return
}

func runC18(c *config) {
	o := c.out
	r := newRng(c.seed, "c18")
	raw, err := os.ReadFile("/verif/coq/theories/Gen/enums.json")
	if err != nil {
		panic(err)
	}
	var vals map[string][]int64
	if err := json.Unmarshal(raw, &vals); err != nil {
		panic(err)
	}
	var tnames []string
	for t := range vals {
		tnames = append(tnames, t)
	}
	sort.Strings(tnames)
	for _, t := range tnames {
		if _, ok := enumTable[t]; !ok {
			o.Fail("enum_type_known", "", "enumerated type without a harness entry", map[string]string{"type": t})
		}
	}
	for t := range enumTable {
		if _, ok := vals[t]; !ok {
			o.Fail("enum_type_known", "", "harness entry without a regenerated table", map[string]string{"type": t})
		}
	}
	// 1. every declared value: String, then FromString
	for _, t := range tnames {
		f, ok := enumTable[t]
		if !ok {
			continue
		}
		seen := map[string]int64{}
		for _, v := range vals[t] {
			s := f.str(v)
			o.Case("enum_str", []string{t, fmt.Sprint(v)}, []string{hx(s)})
			back, oc := enumFrom(f, s)
			res := "Panic"
			if oc == ocOk {
				res = fmt.Sprint(back)
			}
			o.Case("enum_from", []string{t, hx(s)}, []string{res})
			o.Nontrivial(t + ":" + fmt.Sprint(v))
			o.Stat("keywords")
			switch {
			case reFallback.MatchString(s):
				o.Fail("keyword_round_trip", "", "declared value has no keyword", map[string]interface{}{"type": t, "value": v, "printed": s})
			case oc != ocOk:
				o.Fail("keyword_round_trip", "", "FromString panics on the printed keyword", map[string]interface{}{"type": t, "value": v, "printed": s})
			case back != v:
				o.Fail("keyword_round_trip", "", "keyword maps back to another value", map[string]interface{}{"type": t, "value": v, "printed": s, "back": back})
			default:
				o.Pass("keyword_round_trip")
			}
			if w, dup := seen[s]; dup && w != v {
				o.Fail("keyword_unique", "", "two values share a keyword", map[string]interface{}{"type": t, "a": w, "b": v, "keyword": s})
			} else {
				o.Pass("keyword_unique")
			}
			seen[s] = v
		}
		// values outside the table and strings that are no keyword
		for i := 0; i < 6; i++ {
			v := int64(r.intn(200))
			o.Case("enum_str", []string{t, fmt.Sprint(v)}, []string{hx(f.str(v))})
		}
		for _, s := range []string{"", "nokeyword", t + "(3)", "ccc ", " "} {
			back, oc := enumFrom(f, s)
			res := "Panic"
			if oc == ocOk {
				res = fmt.Sprint(back)
			}
			o.Case("enum_from", []string{t, hx(s)}, []string{res})
		}
	}
	if len(tnames) > 0 {
		o.Sample(map[string]interface{}{"type": tnames[0], "values": vals[tnames[0]]})
	}

	// 2. keywords through parse and print of a minimal module
	c18Modules(c, vals)
	c18ConstExprs(c, vals) // constant expressions as carriers of flags and predicates (c18cexpr.go)
	c18Headers(c, vals, newRng(c.seed, "c18headers"))
	c18DI(c, vals)

	// 3. flag sets
	c18FlagSets(c, r)
}

// text in which the keyword of the given family appears, with a %s for it
var c18Templates = map[string]string{
	"Linkage":         "@g = %s global i32 0\n",
	"Visibility":      "@g = %s global i32 0\n",
	"Preemption":      "@g = %s global i32 0\n",
	"DLLStorageClass": "@g = %s global i32 0\n",
	"UnnamedAddr":     "@g = %s global i32 0\n",
	"CallingConv":     "declare %s void @f()\n",
	"IPred":           "define i1 @f(i32 %%a, i32 %%b) {\n\t%%r = icmp %s i32 %%a, %%b\n\tret i1 %%r\n}\n",
	"FPred":           "define i1 @f(double %%a, double %%b) {\n\t%%r = fcmp %s double %%a, %%b\n\tret i1 %%r\n}\n",
	"AtomicOp":        "define void @f(i32* %%p, float* %%q) {\n\t%%r = atomicrmw %s ATOMICPTR seq_cst\n\tret void\n}\n",
	"AtomicOrdering":  "define void @f() {\n\tfence %s\n\tret void\n}\n",
	"FastMathFlag":    "define double @f(double %%a) {\n\t%%r = fadd %s double %%a, %%a\n\tret double %%r\n}\n",
	"OverflowFlag":    "define i32 @f(i32 %%a) {\n\t%%r = add %s i32 %%a, %%a\n\tret i32 %%r\n}\n",
	"Tail":            "declare void @g()\ndefine void @f() {\n\t%s call void @g()\n\tret void\n}\n",
	"FuncAttr":        "declare void @f() %s\n",
	"ParamAttr":       "declare void @f(i8* %s)\n",
	"ReturnAttr":      "declare %s i8* @f()\n",
	"SelectionKind":   "$c = comdat %s\n",
	"TLSModel":        "@g = thread_local(%s) global i32 0\n",
	"ClauseType":      "declare i32 @pers(...)\ndeclare void @g()\ndefine void @f() personality i32 (...)* @pers {\n\tinvoke void @g() to label %%a unwind label %%b\na:\n\tret void\nb:\n\t%%l = landingpad { i8*, i32 } %s CLAUSEARG\n\tresume { i8*, i32 } %%l\n}\n",
	"SanitizerKind":   "@g = global i32 0, %s\n",
	// families printed by helpers and by the debug-info printers
	"UnwindTableKind":  "declare void @f() uwtable(%s)\n",
	"FloatKind":        "@g = external global %s\n",
	"DwarfTag":         "!0 = !DIDerivedType(tag: %s, baseType: null)\n",
	"DwarfLang":        "!0 = !DIFile(filename: \"a\", directory: \"b\")\n!1 = distinct !DICompileUnit(language: %s, file: !0)\n",
	"DwarfAttEncoding": "!0 = !DIBasicType(name: \"x\", size: 32, encoding: %s)\n",
	"DwarfOp":          "!0 = !DIExpression(%s)\n",
	"DwarfCC":          "!0 = !DISubroutineType(cc: %s, types: null)\n",
	"DwarfMacinfo":     "!0 = !DIMacro(type: %s, name: \"x\")\n",
	"DwarfVirtuality":  "!0 = distinct !DISubprogram(name: \"f\", virtuality: %s)\n",
	"EmissionKind":     "!0 = !DIFile(filename: \"a\", directory: \"b\")\n!1 = distinct !DICompileUnit(language: DW_LANG_C99, file: !0, emissionKind: %s)\n",
	"NameTableKind":    "!0 = !DIFile(filename: \"a\", directory: \"b\")\n!1 = distinct !DICompileUnit(language: DW_LANG_C99, file: !0, nameTableKind: %s)\n",
	"ChecksumKind":     "!0 = !DIFile(filename: \"a\", directory: \"b\", checksumkind: %s, checksum: \"00\")\n",
}

// further carriers of families that several instructions carry (scalar and vector operands)
var c18MoreTemplates = [][2]string{
	{"FastMathFlag", "define <2 x double> @f(<2 x double> %%a) {\n\t%%r = fmul %s <2 x double> %%a, %%a\n\tret <2 x double> %%r\n}\n"},
	{"FastMathFlag", "define double @f(double %%a) {\n\t%%r = fneg %s double %%a\n\tret double %%r\n}\n"},
	{"FastMathFlag", "define i1 @f(double %%a) {\n\t%%r = fcmp %s olt double %%a, %%a\n\tret i1 %%r\n}\n"},
	{"FastMathFlag", "declare float @g(float)\ndefine float @f(float %%a) {\n\t%%r = call %s float @g(float %%a)\n\tret float %%r\n}\n"},
	{"FastMathFlag", "declare <4 x float> @g(<4 x float>)\ndefine <4 x float> @f(<4 x float> %%a) {\n\t%%r = call %s <4 x float> @g(<4 x float> %%a)\n\tret <4 x float> %%r\n}\n"},
	{"FastMathFlag", "define <2 x float> @f(i1 %%c, <2 x float> %%a) {\n\t%%r = select %s i1 %%c, <2 x float> %%a, <2 x float> %%a\n\tret <2 x float> %%r\n}\n"},
	{"FastMathFlag", "define double @f(double %%a) {\nentry:\n\tbr label %%b\nb:\n\t%%r = phi %s double [ %%a, %%entry ]\n\tret double %%r\n}\n"},
	{"OverflowFlag", "define <2 x i32> @f(<2 x i32> %%a) {\n\t%%r = shl %s <2 x i32> %%a, %%a\n\tret <2 x i32> %%r\n}\n"},
	{"OverflowFlag", "@g = global i32 mul %s (i32 1, i32 2)\n"},
	{"IPred", "@g = global i1 icmp %s (i32 1, i32 2)\n"},
	{"FPred", "define <2 x i1> @f(<2 x float> %%a) {\n\t%%r = fcmp %s <2 x float> %%a, %%a\n\tret <2 x i1> %%r\n}\n"},
	{"Tail", "declare void @g()\ndefine void @f() {\n\t%s call fastcc void @g()\n\tret void\n}\n"},
	{"AtomicOrdering", "define i32 @f(i32* %%p) {\n\t%%r = load atomic i32, i32* %%p %s, align 4\n\tret i32 %%r\n}\n"},
	{"CallingConv", "declare %s void @g()\ndefine void @f() {\n\tcall %s void @g()\n\tret void\n}\n"},
}

// the Go type of each family, for the value-level comparison (every value of that type reachable from the module)
var c18Types = map[string]reflect.Type{
	"Linkage": reflect.TypeOf(enum.Linkage(0)), "Visibility": reflect.TypeOf(enum.Visibility(0)),
	"Preemption": reflect.TypeOf(enum.Preemption(0)), "DLLStorageClass": reflect.TypeOf(enum.DLLStorageClass(0)),
	"UnnamedAddr": reflect.TypeOf(enum.UnnamedAddr(0)), "CallingConv": reflect.TypeOf(enum.CallingConv(0)),
	"IPred": reflect.TypeOf(enum.IPred(0)), "FPred": reflect.TypeOf(enum.FPred(0)),
	"AtomicOp": reflect.TypeOf(enum.AtomicOp(0)), "AtomicOrdering": reflect.TypeOf(enum.AtomicOrdering(0)),
	"FastMathFlag": reflect.TypeOf(enum.FastMathFlag(0)), "OverflowFlag": reflect.TypeOf(enum.OverflowFlag(0)),
	"Tail": reflect.TypeOf(enum.Tail(0)), "FuncAttr": reflect.TypeOf(enum.FuncAttr(0)),
	"ParamAttr": reflect.TypeOf(enum.ParamAttr(0)), "ReturnAttr": reflect.TypeOf(enum.ReturnAttr(0)),
	"SelectionKind": reflect.TypeOf(enum.SelectionKind(0)), "TLSModel": reflect.TypeOf(enum.TLSModel(0)),
	"UnwindTableKind": reflect.TypeOf(enum.UnwindTableKind(0)), "FloatKind": reflect.TypeOf(types.FloatKind(0)),
	"DwarfTag": reflect.TypeOf(enum.DwarfTag(0)), "DwarfLang": reflect.TypeOf(enum.DwarfLang(0)),
	"DwarfAttEncoding": reflect.TypeOf(enum.DwarfAttEncoding(0)), "DwarfOp": reflect.TypeOf(enum.DwarfOp(0)),
	"DwarfCC": reflect.TypeOf(enum.DwarfCC(0)), "DwarfMacinfo": reflect.TypeOf(enum.DwarfMacinfo(0)),
	"DwarfVirtuality": reflect.TypeOf(enum.DwarfVirtuality(0)), "EmissionKind": reflect.TypeOf(enum.EmissionKind(0)),
	"ClauseType": reflect.TypeOf(enum.ClauseType(0)), "SanitizerKind": reflect.TypeOf(enum.SanitizerKind(0)),
	"NameTableKind": reflect.TypeOf(enum.NameTableKind(0)), "ChecksumKind": reflect.TypeOf(enum.ChecksumKind(0)),
}

// c18Collect returns, sorted, every value of the enumerated type t reachable from x
func c18Collect(x interface{}, t reflect.Type) []int64 {
	var out []int64
	seen := map[uintptr]bool{}
	var walk func(v reflect.Value, depth int)
	walk = func(v reflect.Value, depth int) {
		if depth > 60 || !v.IsValid() {
			return
		}
		if v.Type() == t {
			switch v.Kind() {
			case reflect.Int, reflect.Int8, reflect.Int16, reflect.Int32, reflect.Int64:
				out = append(out, v.Int())
			case reflect.Uint, reflect.Uint8, reflect.Uint16, reflect.Uint32, reflect.Uint64:
				out = append(out, int64(v.Uint()))
			}
			return
		}
		switch v.Kind() {
		case reflect.Ptr:
			if v.IsNil() || seen[v.Pointer()] {
				return
			}
			seen[v.Pointer()] = true
			walk(v.Elem(), depth+1)
		case reflect.Interface:
			if !v.IsNil() {
				walk(v.Elem(), depth+1)
			}
		case reflect.Struct:
			for i := 0; i < v.NumField(); i++ {
				walk(v.Field(i), depth+1)
			}
		case reflect.Slice, reflect.Array:
			for i := 0; i < v.Len(); i++ {
				walk(v.Index(i), depth+1)
			}
		case reflect.Map:
			for _, k := range v.MapKeys() {
				walk(v.MapIndex(k), depth+1)
			}
		}
	}
	walk(reflect.ValueOf(x), 0)
	sort.Slice(out, func(i, j int) bool { return out[i] < out[j] })
	return out
}

func c18Modules(c *config, vals map[string][]int64) {
	o := c.out
	var fams []string
	for f := range c18Templates {
		fams = append(fams, f)
	}
	sort.Strings(fams)
	// every other carrier of a family: the same loop runs once per (family, template)
	type famTmpl struct{ fam, tmpl string }
	var work []famTmpl
	for _, fam := range fams {
		work = append(work, famTmpl{fam, c18Templates[fam]})
	}
	for _, e := range c18MoreTemplates {
		work = append(work, famTmpl{e[0], e[1]})
	}
	for _, ft := range work {
		fam, tmpl := ft.fam, ft.tmpl
		f, ok := enumTable[fam]
		if !ok || tmpl == "" {
			continue
		}
		for _, v := range vals[fam] {
			kw := f.str(v)
			if kw == "" || kw == "none" {
				continue // stands for the absent keyword
			}
			if fam == "AtomicOrdering" && (kw == "not_atomic" || kw == "unordered" || kw == "monotonic") {
				continue // not valid orderings of a fence
			}
			if fam == "TLSModel" && kw == "generic" {
				continue
			}
			if fam == "Preemption" && kw == "dso_local_equivalent" {
				continue // a constant, not a preemption specifier of a definition
			}
			src := fmt.Sprintf(tmpl, kw)
			if strings.Count(tmpl, "%s") == 2 {
				src = fmt.Sprintf(tmpl, kw, kw)
			}
			if fam == "Linkage" && (kw == "external" || kw == "extern_weak") {
				src = fmt.Sprintf("@g = %s global i32\n", kw) // declarations carry no initialiser
			}
			if fam == "ClauseType" {
				if kw == "filter" {
					src = strings.Replace(src, "CLAUSEARG", "[0 x i8*] zeroinitializer", 1)
				} else {
					src = strings.Replace(src, "CLAUSEARG", "i8* null", 1)
				}
			}
			if fam == "AtomicOp" {
				if strings.HasPrefix(kw, "f") {
					src = strings.Replace(src, "ATOMICPTR", "float* %q, float 1.0", 1)
				} else {
					src = strings.Replace(src, "ATOMICPTR", "i32* %p, i32 1", 1)
				}
			}
			var text, text2 string
			var vals1, vals2 []int64
			oc, msg := guard(func() error {
				m, err := asm.ParseString("c18.ll", src)
				if err != nil {
					return err
				}
				text = m.String()
				m2, err := asm.ParseString("c18b.ll", text)
				if err != nil {
					return fmt.Errorf("printed text does not re-parse: %v", err)
				}
				text2 = m2.String()
				if t, ok := c18Types[fam]; ok {
					vals1, vals2 = c18Collect(m, t), c18Collect(m2, t)
				}
				return nil
			})
			// (a bare uwtable is held as ir.UnwindTable, not as a member of enum.FuncAttr)
			if _, ok := c18Types[fam]; ok && oc == ocOk && !(fam == "FuncAttr" && kw == "uwtable") {
				has := false
				for _, x := range vals1 {
					if x == v {
						has = true
					}
				}
				detv := map[string]interface{}{"family": fam, "keyword": kw, "value": v, "src": src, "printed": text, "values_parsed": vals1, "values_reparsed": vals2}
				switch {
				case !has:
					o.Fail("value_through_module", c18Class(fam, kw), "the keyword is not read as its value", detv)
				case fmt.Sprint(vals1) != fmt.Sprint(vals2):
					o.Fail("value_through_module", c18Class(fam, kw), "the values of the family change through print and parse", detv)
				default:
					o.Pass("value_through_module")
				}
			}
			o.Stat("module_keywords." + fam)
			det := map[string]interface{}{"family": fam, "keyword": kw, "value": v, "src": src, "printed": text, "msg": msg}
			switch {
			case oc != ocOk:
				o.Fail("keyword_through_module", c18Class(fam, kw), oc.String(), det)
			case !strings.Contains(text, kw) && v != 0: // (a zero value may be the default the printer leaves out)
				o.Fail("keyword_through_module", c18Class(fam, kw), "keyword missing from the printed module", det)
			case text != text2:
				o.Fail("keyword_through_module", c18Class(fam, kw), "second print differs", det)
			default:
				o.Pass("keyword_through_module")
			}
		}
	}
	// numeric calling conventions: cc N for every N below 1024 that has no keyword, and a few large ones
	f := enumTable["CallingConv"]
	for n := 0; n < 1100; n++ {
		src := fmt.Sprintf("declare cc %d void @f()\n", n)
		m, err := asm.ParseString("cc.ll", src)
		if err != nil {
			o.Fail("numeric_cc", "", "cc N rejected", map[string]interface{}{"n": n, "err": err.Error()})
			continue
		}
		got := int64(m.Funcs[0].CallingConv)
		text := m.String()
		o.Case("cc_read", []string{fmt.Sprint(n)}, []string{fmt.Sprint(got)})
		want := fmt.Sprintf("cc %d", n)
		if kw := f.str(int64(n)); !reFallback.MatchString(kw) && n != 0 {
			want = kw
		}
		if n == 0 {
			want = "ccc"
		}
		cls := ""
		if n == 1 {
			cls = "cc_one"
			want = "cc 1"
		}
		if !strings.Contains(text, "declare "+want+" void") {
			o.Fail("numeric_cc", cls, "cc N not printed as itself or its keyword", map[string]interface{}{"n": n, "printed": text})
		} else {
			o.Pass("numeric_cc")
		}
	}
}

func c18Class(fam, kw string) string { return "" }

type flagMember struct {
	name string
	val  uint64
}

func c18FlagSets(c *config, r *rng) {
	// members: every single-bit (or field) member that has a keyword
	var di, sp, ak []flagMember
	for b := uint(2); b <= 29; b++ {
		v := enum.DIFlag(1) << b
		if s := v.String(); !reFallback.MatchString(s) {
			di = append(di, flagMember{s, uint64(v)})
		}
	}
	for b := uint(0); b <= 11; b++ {
		v := enum.DISPFlag(1) << b
		if s := v.String(); !reFallback.MatchString(s) {
			sp = append(sp, flagMember{s, uint64(v)})
		}
	}
	for b := uint(0); b <= 5; b++ {
		v := enum.AllocKind(1) << b
		if s := v.String(); !reFallback.MatchString(s) {
			ak = append(ak, flagMember{s, uint64(v)})
		}
	}
	acc := []flagMember{{"", 0}, {"DIFlagPrivate", 1}, {"DIFlagProtected", 2}, {"DIFlagPublic", 3}}
	n := 400 * c.scale
	for i := 0; i < n; i++ {
		// DIFlag: an accessibility member (2-bit field) plus a random subset of the single-bit members
		var names []string
		var val uint64
		a := acc[r.intn(4)]
		if a.name != "" {
			names = append(names, a.name)
			val |= a.val
		}
		for _, m := range di {
			if r.chance(25) {
				names = append(names, m.name)
				val |= m.val
			}
		}
		c18OneFlagSet(c, "DIFlag", "!0 = !DIBasicType(name: \"x\", flags: %s)\n", " | ", "flags: ", names, val, func(m *ir.Module) uint64 {
			return uint64(m.MetadataDefs[0].(*metadata.DIBasicType).Flags)
		})
		names, val = nil, 0
		for _, m := range sp {
			if r.chance(30) {
				names = append(names, m.name)
				val |= m.val
			}
		}
		c18OneFlagSet(c, "DISPFlag", "!0 = distinct !DISubprogram(name: \"f\", spFlags: %s)\n", " | ", "spFlags: ", names, val, func(m *ir.Module) uint64 {
			return uint64(m.MetadataDefs[0].(*metadata.DISubprogram).SPFlags)
		})
		names, val = nil, 0
		for _, m := range ak {
			if r.chance(40) {
				names = append(names, m.name)
				val |= m.val
			}
		}
		if len(names) > 0 {
			c18OneFlagSet(c, "AllocKind", "declare void @f() allockind(\"%s\")\n", ",", "allockind(\"", names, val, func(m *ir.Module) uint64 {
				for _, a := range m.Funcs[0].FuncAttrs {
					if k, ok := a.(*ir.AllocKind); ok {
						return uint64(k.Kind)
					}
					if k, ok := a.(ir.AllocKind); ok {
						return uint64(k.Kind)
					}
				}
				return 1 << 63
			})
		}
	}
	// every single member and every pair, exhaustively
	for _, fam := range []struct {
		name string
		ms   []flagMember
	}{{"DIFlag", di}, {"DISPFlag", sp}} {
		for i := range fam.ms {
			for j := i; j < len(fam.ms); j++ {
				names := []string{fam.ms[i].name}
				val := fam.ms[i].val
				if j != i {
					names = append(names, fam.ms[j].name)
					val |= fam.ms[j].val
				}
				if fam.name == "DIFlag" {
					c18OneFlagSet(c, "DIFlag", "!0 = !DIBasicType(name: \"x\", flags: %s)\n", " | ", "flags: ", names, val, func(m *ir.Module) uint64 {
						return uint64(m.MetadataDefs[0].(*metadata.DIBasicType).Flags)
					})
				} else {
					c18OneFlagSet(c, "DISPFlag", "!0 = distinct !DISubprogram(name: \"f\", spFlags: %s)\n", " | ", "spFlags: ", names, val, func(m *ir.Module) uint64 {
						return uint64(m.MetadataDefs[0].(*metadata.DISubprogram).SPFlags)
					})
				}
			}
		}
	}
}

func c18OneFlagSet(c *config, fam, tmpl, sep, marker string, names []string, val uint64, get func(*ir.Module) uint64) {
	o := c.out
	if len(names) == 0 {
		return // the empty set is the absent field
	}
	src := fmt.Sprintf(tmpl, strings.Join(names, sep))
	var got uint64
	var text string
	oc, msg := guard(func() error {
		m, err := asm.ParseString("flags.ll", src)
		if err != nil {
			return err
		}
		got = get(m)
		text = m.String()
		return nil
	})
	o.Stat("flagsets." + fam)
	o.Nontrivial(fam + ":" + fmt.Sprint(val))
	det := map[string]interface{}{"family": fam, "members": names, "value": val, "src": src, "printed": text, "msg": msg}
	if oc != ocOk {
		o.Fail("flag_set", "", "parse/print "+oc.String(), det)
		return
	}
	if got != val {
		o.Fail("flag_set", "", "parsed value is not the union of the members", det)
		return
	}
	// printed members = exactly the set
	i := strings.Index(text, marker)
	if i < 0 {
		o.Fail("flag_set", "", "flag field missing from the printed text", det)
		return
	}
	rest := text[i+len(marker):]
	end := strings.IndexAny(rest, ")\"\n")
	if fam == "AllocKind" {
		end = strings.Index(rest, "\"")
	}
	printed := strings.Split(rest[:end], sep)
	want := append([]string(nil), names...)
	sort.Strings(printed)
	sort.Strings(want)
	if strings.Join(printed, ",") != strings.Join(want, ",") {
		o.Fail("flag_set", "", "printed members differ from the set", det)
		return
	}
	// and the printed text reads back to the same value
	m2, err := asm.ParseString("flags2.ll", text)
	if err != nil || get(m2) != val {
		o.Fail("flag_set", "", "printed flag set does not read back to the same value", det)
		return
	}
	o.Pass("flag_set")
	o.Case("flagset_value", []string{fam, strings.Join(names, ",")}, []string{fmt.Sprint(got)})
}
