package main

// C15, operand lists of differing lengths: users with several list-valued operand fields (callbr: arguments and
// indirect targets; invoke/call: arguments; switch: cases; indirectbr: targets; phi: incoming; landingpad: clauses;
// catchswitch: handlers; catchpad: arguments) are built through the constructors with list lengths that differ from
// each other in both directions (0, 1, 2, 3 against 0, 1, 2, 3), and the printed module is parsed again.  The
// expected number of slots is the generator's own count of what it put in.

import (
	"fmt"
	"strings"

	"github.com/llir/llvm/ir"
	"github.com/llir/llvm/ir/constant"
	"github.com/llir/llvm/ir/enum"
	"github.com/llir/llvm/ir/types"
	"github.com/llir/llvm/ir/value"
)

// the user at (block, inst) of function fn (inst < 0: the terminator) has n operand slots
type c15Want struct {
	fn        string
	blk, inst int
	n         int
	what      string
}

type c15LenRecipe struct {
	name  string
	build func() (*ir.Module, []c15Want)
}

func c15I32Params(n int) []*ir.Param {
	var ps []*ir.Param
	for i := 0; i < n; i++ {
		ps = append(ps, ir.NewParam("", types.I32))
	}
	return ps
}

func c15AltArgs(f *ir.Func, n int) []value.Value {
	var as []value.Value
	for i := 0; i < n; i++ {
		as = append(as, f.Params[i%2])
	}
	return as
}

func c15LenRecipes() []c15LenRecipe {
	var rs []c15LenRecipe
	// callbr: na arguments against nt indirect targets
	for na := 0; na <= 3; na++ {
		for nt := 0; nt <= 3; nt++ {
			for _, nonvoid := range []bool{false, true} {
				if nonvoid && (na+nt)%2 == 0 {
					continue
				}
				na, nt, nonvoid := na, nt, nonvoid
				rs = append(rs, c15LenRecipe{fmt.Sprintf("callbr args=%d indirect=%d nonvoid=%v", na, nt, nonvoid), func() (*ir.Module, []c15Want) {
					m := ir.NewModule()
					var ret types.Type = types.Void
					if nonvoid {
						ret = types.I32
					}
					callee := m.NewFunc("callee", ret, c15I32Params(na)...)
					f := m.NewFunc("f", types.Void, ir.NewParam("x", types.I32), ir.NewParam("y", types.I32))
					entry, n := f.NewBlock("entry"), f.NewBlock("n")
					var ts []*ir.Block
					for i := 0; i < nt; i++ {
						ts = append(ts, f.NewBlock(fmt.Sprintf("t%d", i)))
					}
					cb := entry.NewCallBr(callee, c15AltArgs(f, na), n, ts...)
					if nonvoid {
						cb.SetName("r")
					}
					n.NewRet(nil)
					for _, t := range ts {
						t.NewRet(nil)
					}
					return m, []c15Want{{"f", 0, -1, 1 + na + 1 + nt, "callee, arguments, normal target, indirect targets"}}
				}})
			}
		}
	}
	// call, invoke, landingpad: argument and clause lists of different lengths in one function
	for _, tr := range [][3]int{{0, 1, 3}, {1, 3, 0}, {3, 0, 1}, {1, 0, 3}, {0, 3, 1}, {3, 1, 0}, {2, 2, 2}} {
		ncall, ninv, ncl := tr[0], tr[1], tr[2]
		rs = append(rs, c15LenRecipe{fmt.Sprintf("call args=%d invoke args=%d landingpad clauses=%d", ncall, ninv, ncl), func() (*ir.Module, []c15Want) {
			m := ir.NewModule()
			pers := m.NewFunc("pers", types.I32)
			pers.Sig.Variadic = true
			ti := m.NewGlobal("ti", types.I8)
			c1 := m.NewFunc("c1", types.I32, c15I32Params(ncall)...)
			c2 := m.NewFunc("c2", types.Void, c15I32Params(ninv)...)
			f := m.NewFunc("f", types.Void, ir.NewParam("x", types.I32), ir.NewParam("y", types.I32))
			f.Personality = pers
			entry, n, lp := f.NewBlock("entry"), f.NewBlock("n"), f.NewBlock("lp")
			entry.NewCall(c1, c15AltArgs(f, ncall)...).SetName("cl")
			entry.NewInvoke(c2, c15AltArgs(f, ninv), n, lp)
			n.NewRet(nil)
			var cls []*ir.Clause
			for i := 0; i < ncl; i++ {
				if i%2 == 0 {
					cls = append(cls, ir.NewClause(enum.ClauseTypeCatch, ti))
				} else {
					cls = append(cls, ir.NewClause(enum.ClauseTypeCatch, constant.NewNull(types.I8Ptr)))
				}
			}
			l := lp.NewLandingPad(types.NewStruct(types.I8Ptr, types.I32), cls...)
			l.SetName("l")
			l.Cleanup = ncl == 0
			lp.NewResume(l)
			return m, []c15Want{
				{"f", 0, 0, 1 + ncall, "callee, arguments"},
				{"f", 0, -1, 1 + ninv + 2, "callee, arguments, normal and unwind target"},
				{"f", 2, 0, ncl, "clauses"},
				{"f", 2, -1, 1, "resumed value"},
			}
		}})
	}
	// switch and phi: k-1+extra cases against k incoming values
	for _, pr := range [][2]int{{1, 0}, {1, 3}, {2, 0}, {2, 3}, {4, 0}, {4, 1}} {
		k, extra := pr[0], pr[1]
		rs = append(rs, c15LenRecipe{fmt.Sprintf("switch cases=%d phi incoming=%d", k-1+extra, k), func() (*ir.Module, []c15Want) {
			m := ir.NewModule()
			f := m.NewFunc("f", types.I32, ir.NewParam("x", types.I32), ir.NewParam("y", types.I32))
			entry := f.NewBlock("entry")
			var ps []*ir.Block
			for i := 0; i < k; i++ {
				ps = append(ps, f.NewBlock(fmt.Sprintf("p%d", i)))
			}
			j, out := f.NewBlock("j"), f.NewBlock("out")
			var cases []*ir.Case
			for i := 1; i < k; i++ {
				cases = append(cases, ir.NewCase(constant.NewInt(types.I32, int64(i)), ps[i]))
			}
			for i := 0; i < extra; i++ {
				cases = append(cases, ir.NewCase(constant.NewInt(types.I32, int64(100+i)), out))
			}
			entry.NewSwitch(f.Params[0], ps[0], cases...)
			var incs []*ir.Incoming
			for i, p := range ps {
				p.NewBr(j)
				var v value.Value = f.Params[i%2]
				if i == 2 {
					v = constant.NewInt(types.I32, 7)
				}
				incs = append(incs, ir.NewIncoming(v, p))
			}
			ph := j.NewPhi(incs...)
			ph.SetName("ph")
			j.NewRet(ph)
			out.NewRet(f.Params[1])
			return m, []c15Want{
				{"f", 0, -1, 2 + 2*len(cases), "scrutinee, default target, value and target of every case"},
				{"f", 1 + k, 0, 2 * k, "value and predecessor of every incoming"},
			}
		}})
	}
	// indirectbr: nt targets
	for _, nt := range []int{0, 1, 3} {
		nt := nt
		rs = append(rs, c15LenRecipe{fmt.Sprintf("indirectbr targets=%d", nt), func() (*ir.Module, []c15Want) {
			m := ir.NewModule()
			f := m.NewFunc("f", types.Void, ir.NewParam("addr", types.I8Ptr))
			entry := f.NewBlock("entry")
			var ts []*ir.Block
			for i := 0; i < nt; i++ {
				t := f.NewBlock(fmt.Sprintf("t%d", i))
				t.NewRet(nil)
				ts = append(ts, t)
			}
			entry.NewIndirectBr(f.Params[0], ts...)
			return m, []c15Want{{"f", 0, -1, 1 + nt, "address, targets"}}
		}})
	}
	// catchswitch: nh handlers, catchpads with 0, 1, 2, ... arguments, with and without an unwind target
	for _, pr := range [][2]int{{1, 0}, {1, 1}, {3, 0}, {3, 1}, {2, 1}} {
		nh, unw := pr[0], pr[1]
		rs = append(rs, c15LenRecipe{fmt.Sprintf("catchswitch handlers=%d unwind=%d", nh, unw), func() (*ir.Module, []c15Want) {
			m := ir.NewModule()
			pers := m.NewFunc("pers", types.I32)
			pers.Sig.Variadic = true
			v := m.NewFunc("v", types.Void)
			f := m.NewFunc("f", types.Void, ir.NewParam("x", types.I32), ir.NewParam("y", types.I32))
			f.Personality = pers
			entry, cs, done := f.NewBlock("entry"), f.NewBlock("cs"), f.NewBlock("done")
			entry.NewInvoke(v, nil, done, cs)
			done.NewUnreachable()
			var hs []*ir.Block
			for i := 0; i < nh; i++ {
				hs = append(hs, f.NewBlock(fmt.Sprintf("h%d", i)))
			}
			var unwind *ir.Block
			want := []c15Want{{"f", 0, -1, 3, "callee, normal and unwind target"}}
			if unw == 1 {
				unwind = f.NewBlock("cl")
				q := unwind.NewCleanupPad(constant.None, c15AltArgs(f, nh+1)...)
				q.SetName("q")
				unwind.NewCleanupRet(q, nil)
				want = append(want, c15Want{"f", 3 + nh, 0, 1 + nh + 1, "parent pad, arguments"}, c15Want{"f", 3 + nh, -1, 1, "pad"})
			}
			var sw *ir.TermCatchSwitch
			if unwind != nil {
				sw = cs.NewCatchSwitch(constant.None, hs, unwind)
			} else {
				sw = cs.NewCatchSwitch(constant.None, hs, nil)
			}
			sw.SetName("s")
			want = append(want, c15Want{"f", 1, -1, 1 + nh + unw, "parent pad, handlers, unwind target"})
			for i, h := range hs {
				p := h.NewCatchPad(sw, c15AltArgs(f, i)...)
				p.SetName(fmt.Sprintf("pad%d", i))
				h.NewCatchRet(p, done)
				want = append(want, c15Want{"f", 3 + i, 0, 1 + i, "catchswitch, arguments"}, c15Want{"f", 3 + i, -1, 2, "pad, target"})
			}
			return m, want
		}})
	}
	return rs
}

func c15FuncNamed(m *ir.Module, name string) *ir.Func {
	for _, f := range m.Funcs {
		if f.Name() == name {
			return f
		}
	}
	return nil
}

func c15UsersOf(f *ir.Func) []c15User {
	var users []c15User
	for _, b := range f.Blocks {
		for _, in := range b.Insts {
			users = append(users, in.(c15User))
		}
		if b.Term != nil {
			users = append(users, b.Term.(c15User))
		}
	}
	return users
}

// substitute a fresh block for each block of f through the slots of every user: no use may be left
func c15ReplaceBlocks(c *config, f *ir.Func, recipe string) {
	o := c.out
	for bi, old := range f.Blocks {
		if bi == 0 || old.Name() == "" {
			continue
		}
		repl := ir.NewBlock("verif.newblock")
		var undo []func()
		for _, u := range c15UsersOf(f) {
			for _, slot := range c15Ops(c, u) {
				if slot != nil && *slot == value.Value(old) {
					s := slot
					*s = repl
					undo = append(undo, func() { *s = old })
				}
			}
		}
		var body strings.Builder
		for _, b := range f.Blocks {
			body.WriteString(c15Text(b))
			body.WriteString("\n")
		}
		for _, u := range undo {
			u()
		}
		o.Stat("replace_all_uses.blocks")
		ident := old.Ident()
		left := ""
		for _, line := range strings.Split(body.String(), "\n") {
			for _, tok := range strings.FieldsFunc(line, func(r rune) bool { return strings.ContainsRune(" ,()[]{}<>\t", r) }) {
				if tok == ident {
					left = strings.TrimSpace(line)
				}
			}
		}
		if left != "" {
			o.Fail("replace_all_uses", "", "a use of the replaced block is left behind", map[string]string{"recipe": recipe, "func": f.Ident(), "value": ident, "line": left, "slots_written": fmt.Sprint(len(undo)), "body": body.String()})
		} else {
			o.Pass("replace_all_uses")
		}
	}
}

func c15LenRun(c *config) {
	o := c.out
	for _, rc := range c15LenRecipes() {
		run := func(get func() (*ir.Module, []c15Want), how string) {
			label := how + ": " + rc.name
			m, wants := get()
			// the generator's own count of what it put in
			for _, w := range wants {
				f := c15FuncNamed(m, w.fn)
				if f == nil || w.blk >= len(f.Blocks) {
					o.Fail("operands_complete", "", "the built function or block is not in the module", map[string]string{"recipe": label})
					continue
				}
				b := f.Blocks[w.blk]
				var u c15User
				if w.inst < 0 {
					u = b.Term.(c15User)
				} else if w.inst < len(b.Insts) {
					u = b.Insts[w.inst].(c15User)
				}
				if u == nil {
					continue
				}
				ops := c15Ops(c, u)
				o.Stat("lens.users")
				text, _ := c15Print(u)
				if len(ops) != w.n {
					o.Fail("operands_complete", "", fmt.Sprintf("%d slots, the generator put in %d operands (%s)", len(ops), w.n, w.what), map[string]interface{}{"recipe": label, "kind": strings.TrimPrefix(fmt.Sprintf("%T", u), "*ir."), "inst": text, "operands": len(ops), "want": w.n})
				} else {
					o.Pass("operands_complete")
				}
			}
			for _, f := range m.Funcs {
				for _, u := range c15UsersOf(f) {
					c15Check(c, f, u, "lens:"+strings.TrimPrefix(fmt.Sprintf("%T", u), "*ir."))
				}
				c15Succs(c, f)
				c15ReplaceAll(c, f)
				c15ReplaceBlocks(c, f, label)
			}
			m, _ = get()
			for _, f := range m.Funcs {
				c15SuccsLive(c, f)
			}
			m, _ = get()
			for _, f := range m.Funcs {
				for _, u := range c15UsersOf(f) {
					c15History(c, u, "lens:"+how+":"+strings.TrimPrefix(fmt.Sprintf("%T", u), "*ir."))
				}
			}
		}
		oc, msg := guard(func() error { run(rc.build, "constructed"); return nil })
		if oc != ocOk {
			o.Fail("operands_complete", "", "the checks of a constructed function panic", map[string]string{"recipe": rc.name, "msg": msg})
		}
		o.Stat("lens.constructed")
		var src string
		_, wants := rc.build()
		if oc, _ := guard(func() error { m, _ := rc.build(); src = m.String(); return nil }); oc != ocOk {
			continue
		}
		if _, oc, _ := parseGuard(src); oc != ocOk {
			o.Stat("lens.rejected_by_grammar")
			continue
		}
		oc, msg = guard(func() error {
			run(func() (*ir.Module, []c15Want) { m, _, _ := parseGuard(src); return m, wants }, "parsed")
			return nil
		})
		if oc != ocOk {
			o.Fail("operands_complete", "", "the checks of a parsed function panic", map[string]string{"recipe": rc.name, "src": src, "msg": msg})
		}
		o.Stat("lens.parsed")
	}
}
